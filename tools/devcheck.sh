#!/bin/bash
# usage: tools/devcheck.sh <repo-dir> <Cxx> [--tier ...]   -- run a check against another checkout of the repository (development only)
R=$1; shift
V=${VERIF_ROOT:-/verif}
cd $V
export DFOLS_REPO=$R PYTHONPATH=$R:$V PYTHONHASHSEED=0 OMP_NUM_THREADS=1 OPENBLAS_NUM_THREADS=1 MKL_NUM_THREADS=1 PYTHONDONTWRITEBYTECODE=1
exec timeout -k 10 ${VERIF_CHECK_TIMEOUT:-3000} /venv/bin/python -u -m harness.check "$@"
