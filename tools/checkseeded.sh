#!/bin/bash
# every seeded change must still apply to the current /repo HEAD (run after each fix: commit)
cd /repo
for d in /verif/seeded/*/; do
  git apply --check "$d/patch.diff" 2>/dev/null && echo "ok   $(basename $d)" || echo "STALE $(basename $d)"
done
