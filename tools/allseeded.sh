#!/bin/bash
# usage: tools/allseeded.sh [outdir]  -- run every seeded change through its property's quick check in a scratch worktree of /repo.
# Works on a snapshot of /verif (copied to <outdir>/verif, compiled library included), so /verif can be edited meanwhile.
# Properties run in parallel (PAR, default 4), the changes of one property one after the other (they share that property's build
# directory).  One line per change: CAUGHT / MISSED.  Takes a few hours on 16 cores.
cd "$(dirname "$0")/.."
OUT=${1:-/root/allseeded}; mkdir -p $OUT; rm -rf $OUT/verif
rsync -a --exclude build --exclude replays --exclude .git ./ $OUT/verif/
export VERIF_ROOT=$OUT/verif
one_prop() {
  P=$1
  for d in $VERIF_ROOT/seeded/$P-*/; do
    n=$(basename $d)
    r=$($VERIF_ROOT/tools/trymut2.sh $P $d/patch.diff 2>&1 | grep '^== ' | head -1)
    case "$r" in *"rc=1"*) echo "CAUGHT $n :: $r" ;; *) echo "MISSED $n :: $r" ;; esac
  done > $OUT/$P.log 2>&1
}
export -f one_prop; export OUT
ls seeded | sed 's/-.*//' | sort -u | xargs -P ${PAR:-4} -I{} bash -c 'one_prop {}'
cat $OUT/C*.log | cut -c1-200 | sort -k2 > $OUT/summary.txt
grep -c CAUGHT $OUT/summary.txt; grep MISSED $OUT/summary.txt
rm -rf $OUT/verif
