#!/bin/bash
# usage: tools/allseeded.sh [outdir]  -- run every seeded change through its property's quick check in a scratch worktree
# (properties in parallel, the changes of one property one after the other: they share that property's build directory);
# prints one line per change: CAUGHT / MISSED.  Takes about an hour on 16 cores.
cd "$(dirname "$0")/.."
OUT=${1:-/tmp/allseeded}; mkdir -p $OUT
one_prop() {
  P=$1
  for d in seeded/$P-*/; do
    n=$(basename $d)
    r=$(tools/trymut2.sh $P /verif/$d/patch.diff 2>&1 | grep '^== ' | head -1)
    case "$r" in *"rc=1"*) echo "CAUGHT $n :: $r" ;; *) echo "MISSED $n :: $r" ;; esac
  done > $OUT/$P.log 2>&1
}
export -f one_prop; export OUT
ls seeded | sed 's/-.*//' | sort -u | xargs -P ${PAR:-6} -I{} bash -c 'one_prop {}'
cat $OUT/C*.log | cut -c1-200 | sort -k2 > $OUT/summary.txt
grep -c CAUGHT $OUT/summary.txt; grep MISSED $OUT/summary.txt
