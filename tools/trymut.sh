#!/bin/bash
# usage: tools/trymut.sh <Cxx> <patch.diff> [more check ids...]   -- apply a seeded change to /repo, run the quick check(s), undo it
P=$1; D=$2; shift 2
cd /repo && git checkout -q -- . && git apply "$D" || { echo "APPLY-FAILED $D"; exit 2; }
cd /verif
rm -rf /tmp/evidence_keep && cp -r evidence /tmp/evidence_keep
for id in $P "$@"; do
  out=$(timeout 1500 bin/check $id --tier quick 2>&1); rc=$?
  echo "== $id rc=$rc :: $(echo "$out" | grep -c '^OBLIGATION-BROKEN') broken obligations; $(echo "$out" | grep '^VIOLATION' | head -2 | tr '\n' ' ')"
  echo "$out" | grep "^OBLIGATION-BROKEN\|violation:" | head -4 | cut -c1-220
done
git -C /repo checkout -q -- .
rm -rf /verif/evidence && mv /tmp/evidence_keep /verif/evidence
