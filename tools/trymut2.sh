#!/bin/bash
# usage: tools/trymut2.sh <Cxx> <patch.diff> [more check ids...]  -- like trymut.sh but in a scratch worktree (leaves /repo alone)
P=$1; D=$2; shift 2
W=/tmp/mutrepo_$$
git -C /repo worktree add -q --detach $W HEAD || exit 2
( cd $W && git apply "$D" ) || { echo "APPLY-FAILED $D"; git -C /repo worktree remove --force $W; exit 2; }
for id in $P "$@"; do
  out=$(${VERIF_ROOT:-/verif}/tools/devcheck.sh $W $id --tier quick 2>&1); rc=$?
  echo "== $id rc=$rc :: $(echo "$out" | grep -c '^OBLIGATION-BROKEN') broken obligations; $(echo "$out" | grep '^VIOLATION' | head -2 | tr '\n' ' ')"
  echo "$out" | grep "^OBLIGATION-BROKEN\|violation:" | head -4 | cut -c1-220
done
git -C /repo worktree remove --force $W
