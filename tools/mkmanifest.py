"""Write /verif/MANIFEST.json from the per-property table below (the single place where claims are worded)."""
import json, os
V = '/verif'
COMMON_NOTE = ('Trusted: Coq 8.16.1 kernel incl. vm_compute (no native_compute); the axioms printed by Print Assumptions under each theorem '
               '(stdlib only: ClassicalDedekindReals.sig_forall_dec/sig_not_dec, FunctionalExtensionality.functional_extensionality_dep, Classical_Prop.classic -- via Reals/Flocq; '
               'integer/table theorems are closed under the global context); Flocq 4.1 binary64; the Python-ast translator (translator/*.py) and its NumPy vocabulary; '
               'the correspondence/oracle harness. Modelled, not verified: user callbacks, LAPACK/BLAS, NumPy aliasing, Python exceptions, logging, pandas/json. ')
P = {
 'C01': ('proof', 'Rocq proof (OrdLaws order lemmas) over regenerated clip expressions + name-binding tables',
         'Theorems: the value the objective wrapper passes on, soln.x and the pushed x0 are exactly inside [lower,upper] for every non-NaN input, for every arithmetic satisfying OrdLaws (all binary64 values incl. infinities) -- independent of all upstream arithmetic, hence of every history. Tables regenerated from solve(): the wrapper is the only path to the user function. vm_compute correspondence of the three expressions with NumPy incl. NaN/inf/ties; sweep records every evaluation of random bounded runs.',
         'Hypothesis "the point is not NaN" is monitored by the sweep, not proved. With `projections` the box clause is C09\'s.'),
 'C02': ('proof', 'Rocq proof by loop invariant/induction over evaluation sequences on regenerated evaluate_objective + counter-write tables',
         'Theorems (integers, axiom-free): evaluate_objective never exceeds maxfun, advances nf by min(requested, remaining) and nx by one iff a sample ran, writes consecutive evaluation numbers with one point number and one x; every reachable accounting state (any sequence, any counts, any maxfun) has a gap-free log. Tables: no other write to nf/nx, x0 loop has the same budget guard, hard restarts admitted only while nf < maxfun. Correspondence: regenerated function evaluated in Coq == real Controller.evaluate_objective on random calls.',
         'The x0 sampling loop and the hard-restart loop are covered by table obligations (guards as source text) plus the sweep, not by a statement-level model. Termination is not part of C02.'),
 'C03': ('proof', 'Rocq proof on regenerated Model methods (slot refinement) + commit-site/result-tuple tables',
         'Theorems: every commit writes one coherent slot (point, residual, objective of that residual at that point, count 1, evaluation number), re-samples keep it, save/final return one stored record; tables: all 36 commit sites pass the point just evaluated with its residuals, count and point counter; result tuples forwarded position by position to OptimResults; restarted runs label their first point correctly. Bit-exact sequence correspondence; sweep compares soln.* with the recorded evaluation xmin_eval_num.',
         '"To rounding of the base-point arithmetic" is exact-real (shift invariance theorem); float closeness is only validated. With projections soln.x differs from the evaluated point by Dykstra\'s tolerance (known finding F34). init.run_in_parallel labels are a known finding (F13).'),
 'C04': ('proof', 'Rocq proof: region checker soundness + coverage invariant by induction over histories, on regenerated regions and Model methods',
         'Theorems: (tables) after every evaluate_objective call, on every control-flow path, the evaluated point is committed with coherent arguments before the region is left (checker proved sound against a small-step semantics of regions); (model) every value offered by a commit stays covered by min(incumbent, saved) along every admissible history and get_final_results returns a value no worse than anything covered; hard-restart merge keeps the better result.',
         'Hypothesis H_geom (a replacement never overwrites the incumbent slot unless the incumbent was saved) and "no averaging" are stated in the theorem (admissible) and monitored. run_in_parallel sites are deferred (known finding F25).'),
 'C08': ('proof', 'Rocq proof on binary64 bookkeeping (NaN-safe selection) + regions; fault enumeration validates',
         'Theorems over every arithmetic incl. binary64 NaN/inf: a NaN never displaces a non-NaN saved/incumbent value (save_point_best, final_results_best, resample restores minimum with NaN mapped to +inf), regions route NaN evaluations to the eval-error exit, no evaluation follows a raise. The fault enumerator (every k, every fault kind) runs the real solver.',
         'Python raise semantics trusted. Known findings: diagnostics + overflow raises ValueError (F33), projections re-projection (F34).'),
 'C09': ('proof', 'Rocq proof: Dykstra sweep bound (reals), last-projector exactness (OrdLaws), eval points are Dykstra outputs (regenerated Model), tables for box-last/x0',
         'Theorems: stopping rule => every set within sqrt(p*tol) (exact reals, any projectors, any p, any dimension); result after >=1 sweep is an output of the last projector, so the bound box appended last holds exactly (all binary64 values); as_absolute_coordinates/xpt are literally dykstra(projections, xbase+step); tables: box appended last, x0 projected unconditionally. Bit-exact correspondence of dykstra on binary64.',
         'Rounding in the distance bound is not modelled (1e-16 vs 1e-5). Evaluation points use Dykstra\'s default tolerance (F27) -- theorem is stated for the tolerance actually passed.'),
 'C10': ('proof', 'Rocq proof: exit-site guard tables + C02/C04/C18 invariants', 'Each message is created only under its guard (regenerated T_exit with enclosing conditions); nruns accounting; success never with non-finite objective (final override in solve()).', 'Messages are compared as source text.'),
 'C15': ('proof', 'Rocq proof on regenerated dykstra: sweep bound (reals), last box exact (OrdLaws), fixed point, sweep count',
         'Four of five clauses are theorems for arbitrary projector lists/dimensions/sweeps; bit-exact correspondence with the real routine (box/ball projectors).',
         'NOT a theorem: within 1e-3 of the true projection (false in general: known finding F28). max_iter=0 returns x0 unprojected (F29).'),
 'C17': ('proof', 'Rocq proof by induction over operation sequences on regenerated Model methods + vm_compute correspondence',
         'All five clauses are theorems about the functions regenerated from model.py on every run, for any arithmetic incl. binary64 with NaN/inf; running mean in exact reals. Bit-exact sequence correspondence with the real Model.',
         'Running-mean clause is exact-real; rounding validated by the sweep (rtol 1e-9).'),
 'C18': ('proof', 'Rocq proof: radius invariant preserved at every write site (reals/OrdLaws) + tables', 'Radius-site lemmas and write-site exhaustiveness; diagnostic table structure.', 'Exact-real radius arithmetic; hypotheses alpha ranges as tabled.'),
 'C19': ('other', 'Rocq table obligations: RNG call sites guarded, prologue copies (partial)', 'Every np.random call site lies under a guard that is false by default; caller arrays are copied before modification. Bit-identical reruns are validated only.', 'Partial: whole-run bit reproducibility is not a theorem.'),
}
PENDING = {
 'C05': 'check under construction: mechanism theorems (interpolation exactness) not yet built; convergence clause is not provable',
 'C06': 'check under construction', 'C07': 'check under construction', 'C11': 'check under construction', 'C12': 'check under construction',
 'C13': 'check under construction', 'C14': 'check under construction', 'C16': 'check under construction', 'C20': 'check under construction',
}
import sys
ready = [p for p in sorted(P) if os.path.exists('%s/harness/props/%s.py' % (V, p)) and p not in sys.argv[1:]]
checks = []
for p in ready:
    cat, tech, text, note = P[p]
    checks.append({'property_id': p, 'quick_cmd': 'bin/check %s --tier quick' % p, 'thorough_cmd': 'bin/check %s --tier thorough' % p,
                   'evidence_file': '/verif/evidence/%s.json' % p, 'replay_cmd_template': 'bin/check %s --replay {path}' % p, 'engine': 'coq-regen',
                   'level_claimed': {'category': cat, 'text': text, 'design_ref': 'DESIGN.md section 6, %s' % p},
                   'level_note': COMMON_NOTE + note, 'technique': tech})
m = {'version': 1, 'setup_cmd': 'bin/setup',
     'hooks': {'guard': 'DFOLS_VERIF', 'enable': 'no hooks in /repo: the harness observes dfols from outside (wrappers installed by monkey-patching module attributes)',
               'baseline_off_cmd': 'cd /repo && /venv/bin/python -m pytest -ra -q -p no:cacheprovider --timeout=900 --continue-on-collection-errors', 'source_commits': [], 'add_only': True},
     'engines': [{'name': 'coq-regen', 'path': '/verif/bin/check', 'serves_properties': ready,
                  'kind_free_text': 'Python-ast -> Gallina translator + site tables regenerated from /repo on every run; Coq 8.16 theorems over the regenerated definitions (per-run equality with frozen reference models whose theorems are compiled at setup); vm_compute correspondence on Flocq binary64; Python oracle sweeps as validation and failing-input search'}],
     'checks': checks,
     'not_applicable': [{'property_id': p, 'reason': r} for p, r in sorted(PENDING.items()) if p not in ready] + [{'property_id': p, 'reason': 'check under construction'} for p in sorted(P) if p not in ready and p not in PENDING],
     'notes': 'Genuine defects found are repaired by fix: commits in /repo or listed in /verif/known_findings.json (see DESIGN.md section 7).'}
json.dump(m, open(V + '/MANIFEST.json', 'w'), indent=1)
print('checks:', ready)
