"""Write /verif/MANIFEST.json from the per-property table below (the single place where claims are worded)."""
import json, os
V = '/verif'
COMMON_NOTE = ('Trusted: Coq 8.16.1 kernel incl. vm_compute (no native_compute); the axioms printed by Print Assumptions under each theorem '
               '(stdlib only: ClassicalDedekindReals.sig_forall_dec/sig_not_dec, FunctionalExtensionality.functional_extensionality_dep, Classical_Prop.classic -- via Reals/Flocq; '
               'integer/table theorems are closed under the global context); Flocq 4.1 binary64; the Python-ast translator (translator/*.py) and its NumPy vocabulary; '
               'the correspondence/oracle harness. Modelled, not verified: user callbacks, LAPACK/BLAS, NumPy aliasing, Python exceptions, logging, pandas/json. ')
P = {
 'C01': ('proof', 'Rocq proof (OrdLaws order lemmas) over regenerated clip expressions + name-binding tables',
         'Theorems: the value the objective wrapper passes on, soln.x and the pushed x0 are exactly inside [lower,upper] for every non-NaN input, for every arithmetic satisfying OrdLaws (all binary64 values incl. infinities) -- independent of all upstream arithmetic, hence of every history. Tables regenerated from solve(): the wrapper is the only path to the user function. vm_compute correspondence of the three expressions with NumPy incl. NaN/inf/ties; sweep records every evaluation of random bounded runs.',
         'Hypothesis "the point is not NaN" is monitored by the sweep, not proved. With `projections` the box clause is C09\'s.'),
 'C02': ('proof', 'Rocq proof by loop invariant/induction over evaluation sequences on regenerated evaluate_objective + counter-write tables',
         'Theorems (integers, axiom-free): evaluate_objective never exceeds maxfun, advances nf by min(requested, remaining) and nx by one iff a sample ran, writes consecutive evaluation numbers with one point number and one x; every reachable accounting state (any sequence, any counts, any maxfun) has a gap-free log. Tables: no other write to nf/nx, x0 loop has the same budget guard, hard restarts admitted only while nf < maxfun. Correspondence: regenerated function evaluated in Coq == real Controller.evaluate_objective on random calls.',
         'The x0 sampling loop and the hard-restart loop are covered by table obligations (guards as source text) plus the sweep, not by a statement-level model. Termination is not part of C02.'),
 'C03': ('proof', 'Rocq proof on regenerated Model methods (slot refinement) + commit-site/result-tuple tables',
         'Theorems: every commit writes one coherent slot (point, residual, objective of that residual at that point, count 1, evaluation number), re-samples keep it, save/final return one stored record; tables: all 36 commit sites pass the point just evaluated with its residuals, count and point counter; result tuples forwarded position by position to OptimResults; restarted runs label their first point correctly. Bit-exact sequence correspondence; sweep compares soln.* with the recorded evaluation xmin_eval_num.',
         '"To rounding of the base-point arithmetic" is exact-real (shift invariance theorem); float closeness is only validated. With projections soln.x differs from the evaluated point by Dykstra\'s tolerance (known finding F34). init.run_in_parallel labels are a known finding (F13).'),
 'C04': ('proof', 'Rocq proof: region checker soundness + coverage invariant by induction over histories, on regenerated regions and Model methods',
         'Theorems: (tables) after every evaluate_objective call, on every control-flow path, the evaluated point is committed with coherent arguments before the region is left (checker proved sound against a small-step semantics of regions); (model) every value offered by a commit stays covered by min(incumbent, saved) along every admissible history and get_final_results returns a value no worse than anything covered; hard-restart merge keeps the better result.',
         'Hypothesis H_geom (a replacement never overwrites the incumbent slot unless the incumbent was saved) and "no averaging" are stated in the theorem (admissible) and monitored. run_in_parallel sites are deferred (known finding F25).'),
 'C08': ('proof', 'Rocq proof on binary64 bookkeeping (NaN-safe selection) + regions; fault enumeration validates',
         'Theorems over every arithmetic incl. binary64 NaN/inf: a NaN never displaces a non-NaN saved/incumbent value (save_point_best, final_results_best, resample restores minimum with NaN mapped to +inf), regions route NaN evaluations to the eval-error exit, no evaluation follows a raise. The fault enumerator (every k, every fault kind) runs the real solver.',
         'Python raise semantics trusted. Known findings: diagnostics + overflow raises ValueError (F33), projections re-projection (F34).'),
 'C09': ('proof', 'Rocq proof: Dykstra sweep bound (reals), last-projector exactness (OrdLaws), eval points are Dykstra outputs (regenerated Model), tables for box-last/x0',
         'Theorems: stopping rule => every set within sqrt(p*tol) (exact reals, any projectors, any p, any dimension); result after >=1 sweep is an output of the last projector, so the bound box appended last holds exactly (all binary64 values); as_absolute_coordinates/xpt are literally dykstra(projections, xbase+step); tables: box appended last, x0 projected unconditionally. Bit-exact correspondence of dykstra on binary64.',
         'Rounding in the distance bound is not modelled (1e-16 vs 1e-5). Evaluation points use Dykstra\'s default tolerance (F27) -- theorem is stated for the tolerance actually passed.'),
 'C10': ('proof', 'Rocq proof: exit-site guard tables + C02/C04/C18 invariants', 'Each message is created only under its guard (regenerated T_exit with enclosing conditions); nruns accounting; success never with non-finite objective (final override in solve()).', 'Messages are compared as source text.'),
 'C15': ('proof', 'Rocq proof on regenerated dykstra: sweep bound (reals), last box exact (OrdLaws), fixed point, sweep count',
         'Four of five clauses are theorems for arbitrary projector lists/dimensions/sweeps; bit-exact correspondence with the real routine (box/ball projectors).',
         'NOT a theorem: within 1e-3 of the true projection (false in general: known finding F28). max_iter=0 returns x0 unprojected (F29).'),
 'C17': ('proof', 'Rocq proof by induction over operation sequences on regenerated Model methods + vm_compute correspondence',
         'All five clauses are theorems about the functions regenerated from model.py on every run, for any arithmetic incl. binary64 with NaN/inf; running mean in exact reals. Bit-exact sequence correspondence with the real Model.',
         'Running-mean clause is exact-real; rounding validated by the sweep (rtol 1e-9).'),
 'C18': ('proof', 'Rocq proof: radius invariant preserved at every write site (reals/OrdLaws) + tables', 'Radius-site lemmas and write-site exhaustiveness; diagnostic table structure.', 'Exact-real radius arithmetic; hypotheses alpha ranges as tabled.'),
 'C19': ('other', 'Rocq table obligations: RNG call sites guarded, prologue copies (partial)', 'Every np.random call site lies under a guard that is false by default; caller arrays are copied before modification. Bit-identical reruns are validated only.', 'Partial: whole-run bit reproducibility is not a theorem.'),
}
P.update({
 'C05': ('other', 'Rocq proof of the mechanism (exact reals): affine residuals are interpolated exactly, Gauss-Newton model equals the true objective change; convergence validated against lsq_linear',
         'PARTIAL. Theorems: an affine residual is reproduced exactly by the model (A xk - b, A) based at any point, for any point set; for it the quadratic model equals the true change of the objective (ratio 1); models survive base shifts. The end-to-end clause (within 1e-6(1+f*) of the constrained optimum with the default budget, success flag) is a convergence-rate statement about a floating-point heuristic and is only validated by the sweep against scipy lsq_linear.',
         'Exact-real algebra; the LAPACK solve is an oracle; convergence is not a theorem.'),
 'C06': ('other', 'Rocq table obligations (callback argument pass-through, true box, zero step) + sweep against a certified proximal reference',
         'PARTIAL. Table theorems: every h call carries *argsh, every prox_uh call (point, u, *argsprox); the regularised subproblem gets the true box in absolute coordinates; a step with negative predicted reduction is replaced by zero. Convergence to within 1e-3(1+F*) is validated only.',
         'Known findings: regulariser + scaling_within_bounds (F22, named in the property); correct minimiser flagged slow-progress (F55).'),
 'C07': ('proof', 'Rocq proof of the validation decision procedure (MValid) over the regenerated parameter table + exit/constructor tables + vm_compute correspondence of check_param',
         'Theorems: the parameter table regenerated from params.py is well formed for every npt; validation of any (key, value) is total (accept / reject / unknown key) and acceptance means tabled type and range; tables: every input-error exit has a message and leads to one graceful return built with the full constructor arity before any evaluation; unknown keys raise ValueError; every documented EXIT_ constant is exposed. Correspondence: model decision == ParameterList.check_param on every key x 24 value kinds.',
         'Python dynamic typing of non-parameter arguments and str(soln) are validated only. Open known findings F39-F53 (boundary values accepted by the table that crash later, shape checks after use, bool-as-int, None ignored).'),
 'C11': ('other', 'Rocq proof: Jacobian/evaluation-number snapshot coherence (regenerated Model) + column un-scaling algebra (reals); accuracy validated against an independent lstsq fit',
         'PARTIAL. Theorems: saved and returned (Jacobian, evaluation numbers) pairs are one snapshot; dividing column i by scale_i is the same linear map in user coordinates; for affine residuals the fit is A (C05). Table: numbers are copied at the fit. "Up to rounding amplified by conditioning" is validated only.',
         'init.run_in_parallel labels: known finding F13.'),
 'C12': ('proof', 'Rocq proof (OrdLaws) that the point built by the regenerated d_within_bounds is exactly in the box + exact-real identity step = xnew - xopt + return-site table; decrease clauses validated',
         'Box clause: theorem for every d, xbdi, all binary64 values (the new point xnew), and in exact reals xopt + d = xnew; table: every return of trsbox/alt_trust_step goes through d_within_bounds. Radius, model decrease, Cauchy decrease and gnew = g + Hd are validated by the sweep (tolerances as in the statement).',
         'In binary64 the rounding of xnew - xopt can put xopt + d one ulp outside (known finding F30; witness proved by vm_compute). TRSBOX loop-level decrease is not a theorem.'),
 'C13': ('other', 'Rocq proof: ball projector lands in the ball (reals) + last-projector theorem of C15 + tables (ball appended last, zero step); optimality validated by a bisection oracle',
         'PARTIAL. Theorems: |pball(x,c,r) - c| <= r; the step the convex solvers obtain from their projection is an output of the trust-region ball projector, hence |d| <= Delta in exact reals; tables: ball appended last in ctrsbox_pgd/sfista/linear, zero step on negative predicted reduction. Global optimality of the geometry step and the box clause of trsbox_linear are validated only.',
         'Known finding F31 (pgd with zero Hessian returns NaN).'),
 'C14': ('other', 'Rocq proof (OrdLaws) that both direction generators end with an exact clip into [lower, upper]; geometry of the coordinate initialisation validated',
         'PARTIAL. Theorem: the last statement of both generators clips every returned direction into the bounds exactly (all binary64 values); count of returned directions (table); evaluated initial points are inside the bounds by C01. Distances, affine independence and conditioning < 1e4 are validated only.',
         'Known finding F19 (orthogonal generator returns 2*delta directions).'),
 'C16': ('other', 'Rocq proof (exact reals) on the regenerated shift_base: model values at fixed absolute points, J and xbase+p are invariant; Gauss-Newton identity; cache-flag theorems; fit identities validated',
         "PARTIAL. Theorems: base shifts change neither model values at fixed absolute points nor J; g.s + s'Hs/2 = |r+Js|^2 - |r|^2 for the assembly in build_full_model (source-text tie); change_point/shift_base/add_new_point clear the cached factorisation. Data reproduction, least-squares orthogonality and Lagrange identities depend on LAPACK and are validated with conditioning-scaled tolerances.",
         'LAPACK QR/lstsq/SVD are oracles.'),
 'C20': ('proof', 'Rocq proof by induction on JSON values (MJson): from_dict(to_dict r) = r and strict JSON, + field tables regenerated from to_dict/from_dict/__init__/replace_nan_with_none',
         'Theorems: for every result record (any sizes, any NaN pattern, missing Jacobian) from_dict(to_dict r) = r and to_dict r contains no NaN; tables: the source uses exactly the modelled converter pairs, the twelve keys, the constructor order and the four branches of replace_nan_with_none.',
         'pandas/json/NumPy conversions and str() are exercised by the sweep, not modelled. Known finding F54: +-inf entries are not replaced (not strict JSON).'),
})
PENDING = {}
import sys
ready = [p for p in sorted(P) if os.path.exists('%s/harness/props/%s.py' % (V, p)) and p not in sys.argv[1:]]
checks = []
for p in ready:
    cat, tech, text, note = P[p]
    checks.append({'property_id': p, 'quick_cmd': 'bin/check %s --tier quick' % p, 'thorough_cmd': 'bin/check %s --tier thorough' % p,
                   'evidence_file': '/verif/evidence/%s.json' % p, 'replay_cmd_template': 'bin/check %s --replay {path}' % p, 'engine': 'coq-regen',
                   'level_claimed': {'category': cat, 'text': text, 'design_ref': 'DESIGN.md section 6, %s' % p},
                   'level_note': COMMON_NOTE + note, 'technique': tech})
m = {'version': 1, 'setup_cmd': 'bin/setup',
     'hooks': {'guard': 'DFOLS_VERIF', 'enable': 'no hooks in /repo: the harness observes dfols from outside (wrappers installed by monkey-patching module attributes)',
               'baseline_off_cmd': 'cd /repo && /venv/bin/python -m pytest -ra -q -p no:cacheprovider --timeout=900 --continue-on-collection-errors', 'source_commits': [], 'add_only': True},
     'engines': [{'name': 'coq-regen', 'path': '/verif/bin/check', 'serves_properties': ready,
                  'kind_free_text': 'Python-ast -> Gallina translator + site tables regenerated from /repo on every run; Coq 8.16 theorems over the regenerated definitions (per-run equality with frozen reference models whose theorems are compiled at setup); vm_compute correspondence on Flocq binary64; Python oracle sweeps as validation and failing-input search'}],
     'checks': checks,
     'not_applicable': [{'property_id': p, 'reason': r} for p, r in sorted(PENDING.items()) if p not in ready] + [{'property_id': p, 'reason': 'check under construction'} for p in sorted(P) if p not in ready and p not in PENDING],
     'notes': 'Genuine defects found are repaired by fix: commits in /repo or listed in /verif/known_findings.json (see DESIGN.md section 7).'}
json.dump(m, open(V + '/MANIFEST.json', 'w'), indent=1)
print('checks:', ready)
