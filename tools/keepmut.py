"""usage: [MUTDIR=/tmp/mut3] tools/keepmut.py <Cxx> <i> <caught-by text> [<dest index>]   -- confirm a sub-agent's change in a scratch worktree and keep it under /verif/seeded/"""
import json, os, shutil, subprocess, sys
pid, i, caught = sys.argv[1], sys.argv[2], sys.argv[3]
src = '%s/%s/out' % (os.environ.get('MUTDIR', '/tmp/mut'), pid)
dest = sys.argv[4] if len(sys.argv) > 4 else i
wt = '/tmp/confirm_%s_%s' % (pid, i)
def sh(cmd, **k):
    return subprocess.run(cmd, shell=True, capture_output=True, text=True, **k)
sh('git -C /repo worktree remove --force %s' % wt)
assert sh('git -C /repo worktree add -q --detach %s HEAD' % wt).returncode == 0
try:
    env = 'cd %s && PYTHONPATH=%s PYTHONHASHSEED=0 timeout 900 /venv/bin/python' % (wt, wt)
    r0 = sh('%s %s/demo%s.py' % (env, src, i)).returncode
    assert sh('cd %s && git apply %s/mut%s.diff' % (wt, src, i)).returncode == 0
    t = sh('%s -m pytest -q -p no:cacheprovider --timeout=900 2>&1 | tail -1' % env).stdout.strip()
    r1 = sh('%s %s/demo%s.py' % (env, src, i)).returncode
finally:
    sh('git -C /repo worktree remove --force %s' % wt)
ok = (r0 == 0 and r1 == 1 and '118 passed' in t)
print('demo clean rc=%d, demo mutated rc=%d, tests: %s -> %s' % (r0, r1, t, 'KEEP' if ok else 'REJECT'))
if ok:
    d = '/verif/seeded/%s-%s' % (pid, dest)
    os.makedirs(d, exist_ok=True)
    shutil.copy('%s/mut%s.diff' % (src, i), d + '/patch.diff')
    shutil.copy('%s/demo%s.py' % (src, i), d + '/demo.py')
    notes = open(src + '/notes.md').read() if os.path.exists(src + '/notes.md') else ''
    json.dump(dict(property=pid, needs='see notes', confirmed=dict(demo_on_clean_tree_rc=r0, demo_with_patch_rc=r1, test_suite_with_patch=t,
                   commands=['git worktree add --detach <scratch> HEAD', 'python demo.py (rc 0)', 'git apply patch.diff', 'pytest (118 passed)', 'python demo.py (rc 1)']),
                   caught_by=caught, notes=notes[:6000]), open(d + '/meta.json', 'w'), indent=1)
