"""usage: tools/sigs.py <Cxx> [tier] [seed] -- run only the oracle sweep of a property and print signature counts"""
import sys, collections
sys.path.insert(0, '/verif')
from harness import common as C, generic as G
pid = sys.argv[1]; tier = sys.argv[2] if len(sys.argv) > 2 else 'quick'; seed = int(sys.argv[3]) if len(sys.argv) > 3 else 0
ctx = C.Ctx(pid + '_sigs', tier, seed)
G.oracle_sweep(ctx, pid, tier)
cnt = collections.Counter(v['signature'] for v in ctx.violations)
ex = {}
for v in ctx.violations:
    ex.setdefault(v['signature'], v['what'])
print(pid, 'evaluations', ctx.cov.get('evaluations'), 'nontrivial', ctx.cov.get('distinct_nontrivial'), 'seconds', ctx.cov.get('sweep_seconds'))
for s, n in cnt.most_common():
    print('  %5d  %s :: %s' % (n, s, ex[s][:160]))

import json, os
out = {}
for v in ctx.violations:
    out.setdefault(v['signature'], []).append(v)
json.dump({k: vs[:3] for k, vs in out.items()}, open('/tmp/sigs_%s_%s_%d.json' % (pid, tier, seed), 'w'), default=str)
