#!/bin/bash
# run every registered quick check sequentially on the current tree; print one line per check
cd "$(dirname "$0")/.."
for P in $(python3 -c "import json; print(' '.join(c['property_id'] for c in json.load(open('MANIFEST.json'))['checks']))"); do
  s=$(date +%s); out=$(VERIF_SEED=${VERIF_SEED:-1} timeout 3000 bin/check $P --tier ${1:-quick} 2>&1); rc=$?
  echo "$P rc=$rc $(( $(date +%s) - s ))s :: $(echo "$out" | tail -1) :: $(echo "$out" | grep -c '^KNOWN-FINDING') known $(echo "$out" | grep '^VIOLATION' | head -1)"
done
