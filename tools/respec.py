"""Refresh the frozen reference models DV.Lib.MSpec / DV.Lib.CSpec from the translator's output for the CURRENT /repo tree.
Run by hand after a deliberate repair of /repo (never by a check): the theorems of MBook/MEval/MDyk must then still compile."""
import re, subprocess, sys, os, tempfile
V = '/verif'
d = tempfile.mkdtemp()
subprocess.run(['/venv/bin/python', '-m', 'translator.gen', d], cwd=V, check=True)
def body(t):
    i = t.index('Context `{Arith}.') + len('Context `{Arith}.')
    return t[i:t.rindex('End Gen.')]
util = open(d + '/Gen_util.v').read(); model = open(d + '/Gen_model.v').read(); ctrl = open(d + '/Gen_controller.v').read()
ms = open(V + '/coq/Lib/MSpec.v').read()
hdr = ms[:ms.index('Context `{Arith}.') + len('Context `{Arith}.')] + '\n'
open(V + '/coq/Lib/MSpec.v', 'w').write(hdr + re.sub(r'py_(util|model)_', 's_', body(util) + body(model)) + '\nEnd Spec.\n')
cs = open(V + '/coq/Lib/CSpec.v').read()
hdr = cs[:cs.index('Context `{Arith}.') + len('Context `{Arith}.')] + '\n'
t = re.sub(r'py_controller_', 'sc_', body(ctrl)); t = re.sub(r'py_(util|model)_', 's_', t)
open(V + '/coq/Lib/CSpec.v', 'w').write(hdr + t + '\nEnd Spec.\n')
print('refreshed MSpec.v, CSpec.v; now run bin/setup')
