#!/bin/bash
# background soak: thorough oracle sweeps on several seeds (not a check; used to flush out rare violations on the unchanged tree)
cd "$(dirname "$0")/.."
export PYTHONPATH=/repo:$(pwd) OMP_NUM_THREADS=1 OPENBLAS_NUM_THREADS=1 PYTHONHASHSEED=0
for seed in 11 12; do for P in "$@"; do timeout 3000 /venv/bin/python tools/sigs.py $P thorough $seed 2>&1 | tail -12; done; done
