"""Driver: regenerate Gen_*.v from /repo/dfols/*.py (every run)."""
import ast, os, sys
from . import py2coq, spec
from .py2coq import Module, Untranslatable, record_def, translate_function

REPO = os.environ.get('DFOLS_REPO', '/repo')
HEADER = ('(* GENERATED from %s by /verif/translator -- do not edit; regenerated on every check *)\n'
          'From Coq Require Import ZArith List Bool String.\nRequire Import DV.Base.Prelude DV.Spec.Schema.\n%s'
          'Import ListNotations.\nOpen Scope Z_scope.\nSection Gen.\nContext `{Arith}.\n')

SCHEMA_HEADER = ('(* GENERATED at setup from /verif/translator/spec.py (NOT from /repo): the state records that translated\n'
                 '   methods read and write.  Field types are annotations for untyped Python; the translator rejects any\n'
                 '   access that does not fit them. *)\n'
                 'From Coq Require Import ZArith List Bool String.\nRequire Import DV.Base.Prelude.\n'
                 'Import ListNotations.\nOpen Scope Z_scope.\n'
                 'Definition is_nil {X} (l : list X) : bool := match l with [] => true | _ => false end.\n'
                 'Section Schema.\nContext `{Arith}.\n')


def schema_text():
    import ast as _ast
    empty = _ast.parse('')
    model = Module('model', empty, cls='Model', fields=spec.MODEL_FIELDS)
    ctrl = Module('controller', empty, cls='Controller', fields=spec.CONTROLLER_FIELDS)
    return SCHEMA_HEADER + 'Set Primitive Projections.\n' + record_def(model) + '\n' + record_def(ctrl) + '\nUnset Primitive Projections.\nEnd Schema.\n'


def load(name):
    src = open(os.path.join(REPO, 'dfols', name + '.py')).read()
    return ast.parse(src)


def modules():
    util = Module('util', load('util'), funcs=spec.UTIL_FUNCS)
    model = Module('model', load('model'), cls='Model', fields=spec.MODEL_FIELDS, funcs=spec.MODEL_FUNCS, others={'util': util})
    ctrl = Module('controller', load('controller'), cls='Controller', fields=spec.CONTROLLER_FIELDS, funcs=spec.CONTROLLER_FUNCS,
                  consts=spec.CONTROLLER_CONSTS, others={'util': util, 'model_state': model})
    return util, model, ctrl


def gen_module(mod, imports=''):
    """returns (text, failures) ; a function that cannot be translated is reported and left out (fail closed:
    every theorem that mentions it then fails to compile)"""
    out = [HEADER % ('dfols/%s.py' % mod.name, imports)]
    fails = []
    for c, v in mod.consts.items():
        out.append('Definition c_%s : Z := %s.' % (c, ('%d' % v) if v >= 0 else '(%d)' % v))
    for fname in mod.funcs:
        try:
            out.append(translate_function(mod, fname))
        except Untranslatable as ex:
            fails.append((mod.name, fname, str(ex)))
            out.append('(* %s: %s *)' % (fname, str(ex).replace('*)', '* )')))
        out.append('')
    out.append('End Gen.')
    return '\n'.join(out), fails


def generate(outdir):
    os.makedirs(outdir, exist_ok=True)
    util, model, ctrl = modules()
    allf = []
    for mod, imp in ((util, ''), (model, 'From G Require Import Gen_util.\n'), (ctrl, 'From G Require Import Gen_util Gen_model.\n')):
        txt, fails = gen_module(mod, imp)
        allf += fails
        path = os.path.join(outdir, 'Gen_%s.v' % mod.name)
        if not (os.path.exists(path) and open(path).read() == txt):
            open(path, 'w').write(txt)
    from . import fragments
    try:
        txt = fragments.generate(load('solver'), util, {'solver': load('solver'), 'controller': load('controller'), 'trust_region': load('trust_region'), 'util': load('util')},
                                 consts=ctrl.consts)
        path = os.path.join(outdir, 'Gen_solver.v')
        if not (os.path.exists(path) and open(path).read() == txt):
            open(path, 'w').write(txt)
    except Untranslatable as ex:
        allf.append(('solver', 'fragments', str(ex)))
    from . import tables
    global _ntables
    txt, _ntables = tables.generate(load)
    path = os.path.join(outdir, 'Gen_tables.v')
    if not (os.path.exists(path) and open(path).read() == txt):
        open(path, 'w').write(txt)
    return allf


_ntables = 0


def count_functions():
    return len(spec.UTIL_FUNCS) + len(spec.MODEL_FUNCS) + len(spec.CONTROLLER_FUNCS) + 4


def count_tables():
    return _ntables


if __name__ == '__main__':
    if sys.argv[1] == '--schema':
        open(sys.argv[2], 'w').write(schema_text())
        sys.exit(0)
    fails = generate(sys.argv[1])
    for f in fails:
        print('TRANSLATE-FAIL %s.%s: %s' % f)
    sys.exit(1 if fails else 0)
