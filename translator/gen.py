"""Driver: regenerate Gen_*.v from /repo/dfols/*.py (every run)."""
import ast, os, sys
from . import py2coq, spec
from .py2coq import Module, Untranslatable, record_def, translate_function

REPO = os.environ.get('DFOLS_REPO', '/repo')
HEADER = ('(* GENERATED from %s by /verif/translator -- do not edit; regenerated on every check *)\n'
          'From Coq Require Import ZArith List Bool String.\nRequire Import DV.Base.Prelude DV.Spec.Schema.\n%s'
          'Import ListNotations.\nOpen Scope Z_scope.\nSection Gen.\nContext `{Arith}.\n')

SCHEMA_HEADER = ('(* GENERATED at setup from /verif/translator/spec.py (NOT from /repo): the state records that translated\n'
                 '   methods read and write.  Field types are annotations for untyped Python; the translator rejects any\n'
                 '   access that does not fit them. *)\n'
                 'From Coq Require Import ZArith List Bool String.\nRequire Import DV.Base.Prelude.\n'
                 'Import ListNotations.\nOpen Scope Z_scope.\n'
                 'Definition is_nil {X} (l : list X) : bool := match l with [] => true | _ => false end.\n'
                 'Section Schema.\nContext `{Arith}.\n')


def schema_text():
    import ast as _ast
    empty = _ast.parse('')
    model = Module('model', empty, cls='Model', fields=spec.MODEL_FIELDS)
    ctrl = Module('controller', empty, cls='Controller', fields=spec.CONTROLLER_FIELDS)
    return SCHEMA_HEADER + 'Set Primitive Projections.\n' + record_def(model) + '\n' + record_def(ctrl) + '\nUnset Primitive Projections.\nEnd Schema.\n'


def load(name):
    src = open(os.path.join(REPO, 'dfols', name + '.py')).read()
    return ast.parse(src)


def derive_chooser(tree):
    """Controller.choose_point_to_replace minus its oracle call: a synthetic method
         choose_point_loop(self, d, skip_kopt, cs, gs)  =  the initialisations, the selection loop verbatim, `return knew`
    where (cs, gs) is what lagrange_gradient(k=None) returned (LAPACK: an oracle).  Added to the class only if the source has
    exactly the expected shape; otherwise the method is missing and its translation is reported as failed."""
    for k in tree.body:
        if isinstance(k, ast.ClassDef) and k.name == 'Controller':
            fs = [f for f in k.body if isinstance(f, ast.FunctionDef) and f.name == 'choose_point_to_replace']
            if len(fs) != 1:
                return
            f = fs[0]
            b = f.body
            if [a.arg for a in f.args.args] != ['self', 'd', 'skip_kopt'] or len(b) != 7:
                return
            want = {0: 'delsq = self.delta ** 2', 1: 'scaden = None', 2: 'knew = None', 3: 'exit_info = None', 6: 'return (knew, exit_info)'}
            if any(ast.unparse(b[i]) != t for i, t in want.items()):
                return
            t = b[4]
            if not (isinstance(t, ast.Try) and len(t.body) == 1 and ast.unparse(t.body[0]) == 'cs, gs = self.model.lagrange_gradient(k=None)' and
                    len(t.handlers) == 1 and ast.unparse(t.handlers[0].type) == 'LA.LinAlgError' and not t.orelse and not t.finalbody and
                    isinstance(t.handlers[0].body[-1], ast.Return) and ast.unparse(t.handlers[0].body[-1]) == 'return (knew, exit_info)'):
                return
            if not isinstance(b[5], ast.For):
                return
            src = 'def choose_point_loop(self, d, skip_kopt, cs, gs):\n' + ''.join(
                '\n'.join('    ' + l for l in ast.unparse(x).split('\n')) + '\n' for x in (b[0], b[1], b[2], b[5])) + '    return knew\n'
            k.body.append(ast.parse(src).body[0])
            return src


def modules():
    util = Module('util', load('util'), funcs=spec.UTIL_FUNCS)
    model = Module('model', load('model'), cls='Model', fields=spec.MODEL_FIELDS, funcs=spec.MODEL_FUNCS, others={'util': util})
    ctree = load('controller')
    derive_chooser(ctree)
    ctrl = Module('controller', ctree, cls='Controller', fields=spec.CONTROLLER_FIELDS, funcs=spec.CONTROLLER_FUNCS,
                  consts=spec.CONTROLLER_CONSTS, others={'util': util, 'model_state': model})
    return util, model, ctrl


def tr_module(util):
    return Module('trust_region', load('trust_region'), funcs=spec.TR_FUNCS, consts=spec.TR_CONSTS, others={'util': util})


def gen_module(mod, imports=''):
    """returns (text, failures) ; a function that cannot be translated is reported and left out (fail closed:
    every theorem that mentions it then fails to compile)"""
    out = [HEADER % ('dfols/%s.py' % mod.name, imports)]
    fails = []
    for c, v in mod.consts.items():
        if isinstance(v, float):
            continue               # float constants are inlined (as exact dyadic literals) where they are used
        out.append('Definition c_%s : Z := %s.' % (c, ('%d' % v) if v >= 0 else '(%d)' % v))
    for fname in mod.funcs:
        try:
            out.append(translate_function(mod, fname))
        except Untranslatable as ex:
            fails.append((mod.name, fname, str(ex)))
            out.append('(* %s: %s *)' % (fname, str(ex).replace('*)', '* )')))
        out.append('')
    out.append('End Gen.')
    return '\n'.join(out), fails


def generate(outdir):
    os.makedirs(outdir, exist_ok=True)
    util, model, ctrl = modules()
    allf = []
    for mod, imp in ((util, ''), (model, 'From G Require Import Gen_util.\n'), (ctrl, 'From G Require Import Gen_util Gen_model.\n')):
        txt, fails = gen_module(mod, imp)
        allf += fails
        path = os.path.join(outdir, 'Gen_%s.v' % mod.name)
        if not (os.path.exists(path) and open(path).read() == txt):
            open(path, 'w').write(txt)
    txt, fails = gen_module(tr_module(util), 'From G Require Import Gen_util.\n')
    allf += fails
    path = os.path.join(outdir, 'Gen_trust_region.v')
    if not (os.path.exists(path) and open(path).read() == txt):
        open(path, 'w').write(txt)
    from . import fragments
    try:
        txt = fragments.generate(load('solver'), util, {'solver': load('solver'), 'controller': load('controller'), 'trust_region': load('trust_region'), 'util': load('util')},
                                 consts=ctrl.consts)
        path = os.path.join(outdir, 'Gen_solver.v')
        if not (os.path.exists(path) and open(path).read() == txt):
            open(path, 'w').write(txt)
    except Untranslatable as ex:
        allf.append(('solver', 'fragments', str(ex)))
    from . import tables
    global _ntables
    txt, _ntables = tables.generate(load)
    path = os.path.join(outdir, 'Gen_tables.v')
    if not (os.path.exists(path) and open(path).read() == txt):
        open(path, 'w').write(txt)
    return allf


_ntables = 0


def count_functions():
    return len(spec.UTIL_FUNCS) + len(spec.MODEL_FUNCS) + len(spec.CONTROLLER_FUNCS) + len(spec.TR_FUNCS) + 4


def count_tables():
    return _ntables


if __name__ == '__main__':
    if sys.argv[1] == '--schema':
        open(sys.argv[2], 'w').write(schema_text())
        sys.exit(0)
    fails = generate(sys.argv[1])
    for f in fails:
        print('TRANSLATE-FAIL %s.%s: %s' % f)
    sys.exit(1 if fails else 0)
