"""Fail-closed Python-`ast` -> Gallina translator for the statement-level subset used by the small functions of
dfols that the theorems talk about (DESIGN.md 3.2).  It never evaluates user code; it transcribes syntax.
Anything outside the subset raises Untranslatable (the obligation `translate:<function>` is then broken).

Types are strings:  Z T B S unit vec mat zvec exit proj hfun scal | opt:<t> | tup:<t>|<t>... | list:<t> | rec:<name>
"""
import ast


class Untranslatable(Exception):
    pass


def fail(node, why):
    raise Untranslatable("UNTRANSLATABLE line %s: %s :: %s" % (getattr(node, 'lineno', '?'), why, ast.unparse(node)[:90]))


BASE_TY = {'Z': 'Z', 'T': 'T', 'B': 'bool', 'S': 'string', 'unit': 'unit', 'vec': 'vec', 'mat': 'mat', 'zvec': '(list Z)',
           'exit': '(Z * string)', 'proj': '(vec -> vec)', 'hfun': '(vec -> T)', 'scal': '(vec * vec)',
           'ans': '(vec * T)', 'evlog': '(vec * Z * Z)', 'bvec': '(list bool)'}


def coqty(t):
    if t.startswith('opt:'):
        return '(option %s)' % coqty(t[4:])
    if t.startswith('list:'):
        return '(list %s)' % coqty(t[5:])
    if t.startswith('tup:'):
        return '(' + ' * '.join(coqty(x) for x in split_tup(t)) + ')'
    if t.startswith('rec:'):
        return t[4:]
    return BASE_TY[t]


def split_tup(t):
    # 'tup:a|b|c' with no nested tuples containing '|' except via opt:/list: of simple types
    return t[4:].split('|')


def float_lit(v):
    """exact value of a Python float as m * 2^e"""
    if v != v or v in (float('inf'), float('-inf')):
        raise ValueError
    m, e = v.as_integer_ratio()
    if e == 1:
        # integer-valued float: m * 2^0, reduce trailing zeros for readability
        k = 0
        while m != 0 and m % 2 == 0:
            m //= 2
            k += 1
        return m, k
    return m, -(e.bit_length() - 1)


def is_logging_stmt(s):
    """statements with no effect on the modelled state: logger calls, print, warnings.warn, docstrings, pass"""
    if isinstance(s, ast.Pass):
        return True
    if isinstance(s, ast.Expr):
        v = s.value
        if isinstance(v, ast.Constant):
            return True
        if isinstance(v, ast.Call):
            f = v.func
            if isinstance(f, ast.Attribute) and isinstance(f.value, ast.Name) and f.value.id in ('module_logger', 'warnings', 'logging'):
                return True
            if isinstance(f, ast.Name) and f.id == 'print':
                return True
    if isinstance(s, ast.If) and not s.orelse and all(is_logging_stmt(x) for x in s.body):
        return True
    if isinstance(s, ast.If) and all(is_logging_stmt(x) for x in s.body) and all(is_logging_stmt(x) for x in s.orelse):
        return True
    return False


class Module:
    """One source file: schema of its state record (if a class is translated), constants, and function specs."""

    def __init__(self, name, tree, cls=None, fields=None, funcs=None, consts=(), state=None, others=None):
        self.name = name          # e.g. 'model'
        self.tree = tree
        self.cls = cls            # class name or None
        self.fields = fields or {}
        self.funcs = funcs or {}  # name -> spec
        self.consts = {}          # module-level integer/float constants
        self.state = state or (name + '_state')
        self.others = others or {}   # other modules by name, for cross-module calls
        self.prefix = 'c_' if name == 'controller' else ''
        for n in tree.body:
            if isinstance(n, ast.Assign) and len(n.targets) == 1 and isinstance(n.targets[0], ast.Name) and \
                    isinstance(n.value, (ast.Constant, ast.UnaryOp)) and n.targets[0].id in consts:
                v = ast.literal_eval(n.value)
                self.consts[n.targets[0].id] = v

    def find(self, fname):
        body = self.tree.body
        if self.cls and not self.funcs[fname].get('toplevel'):
            klass = self.funcs[fname].get('cls', self.cls)
            body = [n for n in self.tree.body if isinstance(n, ast.ClassDef) and n.name == klass][0].body
        fs = [x for x in body if isinstance(x, ast.FunctionDef) and x.name == fname]
        if len(fs) != 1:
            raise Untranslatable("UNTRANSLATABLE: function %s not found exactly once in %s" % (fname, self.name))
        return fs[0]

    def coqname(self, fname):
        return 'py_%s_%s' % (self.name, fname)


class Tr:
    def __init__(self, mod, fname, spec):
        self.mod = mod
        self.fname = fname
        self.spec = spec
        self.env = dict(spec.get('params', {}))       # local -> type
        self.fixed = spec.get('fixed', {})            # parameter -> constant (specialisation)
        self.optbound = {}                            # option-typed expr text -> (payload var, type)
        self.uses_state = spec.get('state', bool(mod.cls)) and not spec.get('toplevel')
        self.oracle = spec.get('oracle')              # dict(name=..., log=[arg exprs], ans='ans') or None
        self.ret = spec.get('ret')
        self.fresh = 0
        self.loopdepth = 0

    # ------------------------------------------------------------------ expressions
    def e(self, n, want=None):
        txt, t = self._e(n)
        if want is not None:
            txt, t = self.coerce(txt, t, want, n)
        return txt, t

    def coerce(self, txt, t, want, node):
        if t == want:
            return txt, t
        if want == 'T' and t == 'Z':
            return '(ofZ %s)' % txt, 'T'
        if want.startswith('opt:'):
            if t == 'none':
                return 'None', want
            if not t.startswith('opt:'):
                inner, _ = self.coerce(txt, t, want[4:], node)
                return '(Some %s)' % inner, want
        if t == 'opt:' + want and want in ('Z', 'T') and txt.startswith('l_') and txt[2:].isidentifier():
            return self.unwrap(txt[2:], node), want
        if want.startswith('tup:') and t.startswith('tup:'):
            ws, ts = split_tup(want), split_tup(t)
            if len(ws) == len(ts) and txt.startswith('(TUP|'):
                parts = txt[5:-1].split('|,|')
                outs = [self.coerce(p, tt, ww, node)[0] for p, tt, ww in zip(parts, ts, ws)]
                return '(' + ', '.join(outs) + ')', want
        fail(node, 'cannot coerce %s to %s' % (t, want))

    def unwrap(self, name, node):
        """payload of an option-typed local read as a plain value: bound once around the enclosing statement (None -> Err)"""
        if name in self.__dict__.setdefault('active_unwraps', set()):
            return 'u_' + name
        if getattr(self, 'unwraps', None) is None:
            fail(node, 'option-typed local %s read where it cannot be unwrapped' % name)
        self.unwraps.add(name)
        return 'u_' + name

    def _e(self, n):
        if isinstance(n, ast.Constant):
            v = n.value
            if v is True:
                return 'true', 'B'
            if v is False:
                return 'false', 'B'
            if v is None:
                return 'None', 'none'
            if isinstance(v, int):
                return ('%d' % v if v >= 0 else '(%d)' % v), 'Z'
            if isinstance(v, float):
                m, e = float_lit(v)
                return '(ofdy %s %s)' % (('%d' % m if m >= 0 else '(%d)' % m), ('%d' % e if e >= 0 else '(%d)' % e)), 'T'
            if isinstance(v, str):
                if '"' in v:
                    fail(n, 'string with quote')
                return '"%s"%%string' % v, 'S'
            fail(n, 'constant')
        if isinstance(n, ast.Name):
            if n.id in self.fixed:
                v = self.fixed[n.id]
                if v is True:
                    return 'true', 'B'
                if v is False:
                    return 'false', 'B'
                if v is None:
                    return 'None', 'none'
                fail(n, 'fixed value')
            if n.id in self.env:
                txt = 'l_' + n.id
                if txt in self.optbound:
                    return self.optbound[txt]
                if n.id in self.spec.get('predeclare', {}):
                    return self.unwrap(n.id, n), self.spec['predeclare'][n.id]     # UnboundLocalError in Python <-> Err here
                return txt, self.env[n.id]
            if n.id in self.mod.consts:
                return self._e(ast.Constant(value=self.mod.consts[n.id]))
            fail(n, 'unknown name')
        if isinstance(n, ast.Attribute):
            return self.attribute(n)
        if isinstance(n, ast.Call):
            return self.call(n)
        if isinstance(n, ast.Subscript):
            return self.subscript(n)
        if isinstance(n, ast.UnaryOp):
            if isinstance(n.op, ast.Not):
                a, ta = self.truth(n.operand)
                return '(negb %s)' % a, 'B'
            if isinstance(n.op, ast.USub):
                if isinstance(n.operand, ast.Constant) and isinstance(n.operand.value, (int, float)) and not isinstance(n.operand.value, bool):
                    return self._e(ast.Constant(value=-n.operand.value))
                a, ta = self.e(n.operand)
                if ta == 'Z':
                    return '(Z.opp %s)' % a, 'Z'
                if ta == 'T':
                    return '(fneg %s)' % a, 'T'
                if ta == 'vec':
                    return '(vmap fneg %s)' % a, 'vec'
            fail(n, 'unary op')
        if isinstance(n, ast.BinOp):
            return self.binop(n)
        if isinstance(n, ast.Compare):
            parts = []
            left = n.left
            for op, right in zip(n.ops, n.comparators):
                parts.append(self.cmp(n, left, op, right))
                left = right
            if len(parts) == 1 and parts[0].startswith(('(vcmp2 ', '(map (fun y_ => l', '(zmask ')):
                return parts[0], 'bvec'
            return (parts[0] if len(parts) == 1 else '(' + ' && '.join(parts) + ')'), 'B'
        if isinstance(n, ast.BoolOp):
            return self.boolop(n)
        if isinstance(n, ast.IfExp):
            return self.ifexp(n)
        if isinstance(n, ast.Tuple):
            parts = [self.e(x) for x in n.elts]
            return '(TUP|' + '|,|'.join(p for p, _ in parts) + ')', 'tup:' + '|'.join(t for _, t in parts)
        fail(n, 'expression kind')

    def finish(self, txt):
        """resolve un-coerced tuple markers"""
        while '(TUP|' in txt:
            i = txt.rindex('(TUP|')
            depth = 0
            j = i
            while True:
                if txt[j] == '(':
                    depth += 1
                elif txt[j] == ')':
                    depth -= 1
                    if depth == 0:
                        break
                j += 1
            inner = txt[i + 5:j].replace('|,|', ', ')
            txt = txt[:i] + '(' + inner + ')' + txt[j + 1:]
        return txt

    def truth(self, n):
        """Python truthiness of an expression used as a condition"""
        a, ta = self.e(n)
        if ta == 'B':
            return a, 'B'
        if ta.startswith('list:'):
            return '(negb (is_nil %s))' % a, 'B'
        if ta == 'opt:B':
            return '(match %s with Some true => true | _ => false end)' % a, 'B'     # None and False are both falsy
        fail(n, 'truthiness of type %s' % ta)

    def attribute(self, n):
        # M.T : transpose of a matrix-typed expression
        if n.attr == 'T':
            a, ta = self.e(n.value)
            if ta == 'mat':
                return '(matT %s)' % a, 'mat'
            fail(n, '.T of a non-matrix')
        # self.X , self.model.X
        chain = []
        cur = n
        while isinstance(cur, ast.Attribute):
            chain.append(cur.attr)
            cur = cur.value
        chain.reverse()
        if isinstance(cur, ast.Name) and cur.id == 'self' and self.uses_state:
            txt, fields, pre = 'st', self.mod.fields, self.mod.prefix
            t = None
            for a in chain:
                if a not in fields:
                    fail(n, 'field %s not in schema' % a)
                t = fields[a]
                txt = '(%s%s %s)' % (pre, a, txt)
                if t.startswith('rec:'):
                    fields, pre = self.mod.others[t[4:]].fields, self.mod.others[t[4:]].prefix
                else:
                    fields = {}
            if txt in self.optbound:
                return self.optbound[txt]
            return txt, t
        if chain and chain[-1] == 'size' and isinstance(n.value, ast.Name) and self.env.get(n.value.id) in ('vec', 'zvec'):
            return '(lenZ l_%s)' % n.value.id, 'Z'
        if isinstance(cur, ast.Name) and cur.id == 'np' and chain == ['inf']:
            return 'finf', 'T'
        if isinstance(cur, ast.Name) and cur.id == 'np' and chain == ['nan']:
            return 'dflt', 'T'
        if isinstance(cur, ast.Name) and cur.id == 'sys' and chain == ['float_info', 'max']:
            return self._e(ast.Constant(value=1.7976931348623157e308))
        fail(n, 'attribute')

    def binop(self, n):
        a, ta = self.e(n.left)
        b, tb = self.e(n.right)
        if isinstance(n.op, ast.Pow) and isinstance(n.right, ast.Constant) and n.right.value == 2:
            if ta == 'T':
                return '(mul %s %s)' % (a, a), 'T'
            if ta == 'Z':
                return '(Z.mul %s %s)' % (a, a), 'Z'
            fail(n, 'power')
        if isinstance(n.op, ast.FloorDiv) and ta == tb == 'Z':
            return '(Z.div %s %s)' % (a, b), 'Z'
        if isinstance(n.op, ast.BitAnd) and ta == tb == 'bvec':
            return '(band2 %s %s)' % (a, b), 'bvec'
        if isinstance(n.op, ast.Add) and ta == tb == 'zvec':
            return '(%s ++ %s)' % (a, b), 'zvec'        # python list concatenation (index lists)
        op = {ast.Add: 'add', ast.Sub: 'sub', ast.Mult: 'mul', ast.Div: 'div'}.get(type(n.op)) or fail(n, 'binop')
        if ta == tb == 'Z':
            if op == 'div':
                return '(div (ofZ %s) (ofZ %s))' % (a, b), 'T'
            return '(Z.%s %s %s)' % (op, a, b), 'Z'
        if ta == 'Z' and tb in ('T', 'vec'):
            a, ta = '(ofZ %s)' % a, 'T'
        if tb == 'Z' and ta in ('T', 'vec'):
            b, tb = '(ofZ %s)' % b, 'T'
        if ta == tb == 'T':
            return '(%s %s %s)' % (op, a, b), 'T'
        if ta == tb == 'vec':
            return '(vmap2 %s %s %s)' % (op, a, b), 'vec'
        if ta == 'T' and tb == 'vec':
            return '(vmap (%s %s) %s)' % (op, a, b), 'vec'
        if ta == 'vec' and tb == 'T':
            return '(vmap (fun y_ => %s y_ %s) %s)' % (op, b, a), 'vec'
        if ta == 'T' and tb == 'mat' and op == 'mul':
            return '(map (vmap (mul %s)) %s)' % (a, b), 'mat'
        fail(n, 'binop types %s %s' % (ta, tb))

    def cmp(self, n, l, op, r):
        if isinstance(op, (ast.Is, ast.IsNot)):
            a, ta = self.e(l)
            if not (isinstance(r, ast.Constant) and r.value is None):
                fail(n, 'is/is not')
            if ta == 'none':
                return 'true' if isinstance(op, ast.Is) else 'false'
            if not ta.startswith('opt:'):
                fail(n, 'is None on non-option %s' % ta)
            return '(%s %s)' % ('is_none' if isinstance(op, ast.Is) else 'is_some', a)
        a, ta = self.e(l)
        b, tb = self.e(r)
        fl = {ast.Lt: ('lt', False), ast.LtE: ('le', False), ast.Gt: ('lt', True), ast.GtE: ('le', True)}
        if type(op) in fl and {ta, tb} <= {'vec', 'T', 'Z'} and 'vec' in (ta, tb):
            f, swap = fl[type(op)]
            if ta == 'Z':
                a, ta = '(ofZ %s)' % a, 'T'
            if tb == 'Z':
                b, tb = '(ofZ %s)' % b, 'T'
            if ta == tb == 'vec':
                return '(vcmp2 %s %s %s)' % ((f, b, a) if swap else (f, a, b))     # elementwise comparison: a boolean mask
            if ta == 'vec':
                return '(map (fun y_ => %s) %s)' % (('%s %s y_' % (f, b)) if swap else ('%s y_ %s' % (f, b)), a)
            return '(map (fun y_ => %s) %s)' % (('%s y_ %s' % (f, a)) if swap else ('%s %s y_' % (f, a)), b)
        if isinstance(op, (ast.Eq, ast.NotEq)) and ta == 'zvec' and tb == 'Z':
            return '(zmask (fun z_ => %s(Z.eqb z_ %s)) %s)' % ('negb ' if isinstance(op, ast.NotEq) else '', b, a)
        if isinstance(op, (ast.In, ast.NotIn)) and ta == 'Z' and tb == 'zvec':
            return ('(memZ %s %s)' if isinstance(op, ast.In) else '(negb (memZ %s %s))') % (a, b)
        if ta == tb == 'Z':
            f = {ast.Lt: 'Z.ltb %s %s', ast.LtE: 'Z.leb %s %s', ast.Gt: 'Z.ltb %s %s', ast.GtE: 'Z.leb %s %s',
                 ast.Eq: 'Z.eqb %s %s', ast.NotEq: 'negb (Z.eqb %s %s)'}.get(type(op)) or fail(n, 'int compare')
            if isinstance(op, (ast.Gt, ast.GtE)):
                a, b = b, a
            return '(' + f % (a, b) + ')'
        if ta == tb == 'B' and isinstance(op, ast.Eq):
            return '(Bool.eqb %s %s)' % (a, b)
        if ta == 'Z':
            a, ta = '(ofZ %s)' % a, 'T'
        if tb == 'Z':
            b, tb = '(ofZ %s)' % b, 'T'
        if not (ta == tb == 'T'):
            fail(n, 'compare types %s %s' % (ta, tb))
        f = {ast.Lt: 'lt %s %s', ast.LtE: 'le %s %s', ast.Gt: 'lt %s %s', ast.GtE: 'le %s %s', ast.Eq: 'feq %s %s',
             ast.NotEq: 'negb (feq %s %s)'}.get(type(op)) or fail(n, 'float compare')
        if isinstance(op, (ast.Gt, ast.GtE)):
            a, b = b, a
        return '(' + f % (a, b) + ')'

    def boolop(self, n):
        # short-circuit; `X is None or C` / `X is not None and C` bind the payload of X inside C
        vals = list(n.values)
        first = vals[0]
        isor = isinstance(n.op, ast.Or)
        if isinstance(first, ast.Compare) and len(first.ops) == 1 and isinstance(first.ops[0], (ast.Is, ast.IsNot)):
            s, ts = self.e(first.left)
            want_none = isinstance(first.ops[0], ast.Is)
            if ts.startswith('opt:') and want_none == isor:
                var = self.newvar('v')
                self.optbound[s] = (var, ts[4:])
                rest = ast.BoolOp(op=n.op, values=vals[1:]) if len(vals) > 2 else vals[1]
                r, _ = self.truth(rest)
                del self.optbound[s]
                return '(match %s with None => %s | Some %s => %s end)' % (s, 'true' if isor else 'false', var, r), 'B'
        parts = [self.truth(v)[0] for v in vals]
        return '(' + (' || ' if isor else ' && ').join(parts) + ')', 'B'

    def newvar(self, stem):
        self.fresh += 1
        return '%s%d_' % (stem, self.fresh)

    def ifexp(self, n):
        t = n.test
        # `E.f() if E is not None else None`  -> option map
        if isinstance(t, ast.Compare) and len(t.ops) == 1 and isinstance(t.ops[0], ast.IsNot) and \
                isinstance(t.comparators[0], ast.Constant) and t.comparators[0].value is None and \
                isinstance(n.orelse, ast.Constant) and n.orelse.value is None:
            s, ts = self.e(t.left)
            if ts.startswith('opt:'):
                var = self.newvar('v')
                self.optbound[s] = (var, ts[4:])
                body, tb = self.e(n.body)
                del self.optbound[s]
                return '(match %s with Some %s => Some %s | None => None end)' % (s, var, body), 'opt:' + tb
            # a non-option value compared with None: always present
            return self.e(n.body)
        c, _ = self.truth(t)
        a, ta = self.e(n.body)
        b, tb = self.e(n.orelse)
        if ta != tb:
            if {ta, tb} == {'Z', 'T'}:
                a, _ = self.coerce(a, ta, 'T', n)
                b, _ = self.coerce(b, tb, 'T', n)
                ta = 'T'
            else:
                fail(n, 'ifexp branch types %s %s' % (ta, tb))
        return '(if %s then %s else %s)' % (c, a, b), ta

    def method_target(self, f):
        """resolve self.m / self.model.m to (module, state-expression)"""
        chain = []
        cur = f
        while isinstance(cur, ast.Attribute):
            chain.append(cur.attr)
            cur = cur.value
        chain.reverse()
        if not (isinstance(cur, ast.Name) and cur.id == 'self' and self.uses_state):
            return None
        mod, st = self.mod, 'st'
        for a in chain[:-1]:
            t = mod.fields.get(a)
            if not t or not t.startswith('rec:'):
                return None
            st = '(%s%s %s)' % (mod.prefix, a, st)
            mod = self.mod.others[t[4:]]
        return mod, st, chain[-1], chain[:-1]

    def call_args(self, n, spec, skip=0):
        """match actual arguments with a callee spec's parameters (positional, keyword, defaults)"""
        params = list(spec.get('params', {}).items())
        defaults = spec.get('defaults', {})
        fixed = spec.get('fixed', {})
        got = {}
        pos = [a for a in n.args]
        allnames = spec.get('argorder') or [p for p, _ in params]
        for i, a in enumerate(pos):
            if isinstance(a, ast.Starred):
                fail(n, 'starred argument')
            if i >= len(allnames):
                fail(n, 'too many arguments')
            got[allnames[i]] = a
        for kw in n.keywords:
            if kw.arg is None:
                fail(n, '**kwargs')
            got[kw.arg] = kw.value
        out = []
        for p, t in params:
            if p in got:
                out.append(self.e(got[p], want=t)[0])
            elif p in defaults:
                out.append(defaults[p])
            else:
                fail(n, 'missing argument %s' % p)
        for p in got:
            if p in fixed:
                v = got[p]
                if not ((isinstance(v, ast.Constant) and v.value == fixed[p]) or
                        (isinstance(v, ast.Name) and v.id in self.fixed and self.fixed[v.id] == fixed[p])):
                    fail(n, 'argument %s must be the constant %r' % (p, fixed[p]))
            elif p not in dict(params):
                fail(n, 'unknown argument %s' % p)
        return out

    def call(self, n):
        f = n.func
        # ---- methods on self / self.model
        mt = self.method_target(f) if isinstance(f, ast.Attribute) else None
        if mt is not None:
            mod, st, name, path = mt
            # user callback h: self.h(ARG, *self.argsh) inside its None-guard
            if name == 'h' and mod.fields.get('h') == 'opt:hfun':
                key = '(%sh %s)' % (mod.prefix, st)
                if key not in self.optbound:
                    fail(n, 'h called outside its None-guard')
                if not (len(n.args) == 2 and isinstance(n.args[1], ast.Starred) and
                        ast.unparse(n.args[1].value) in ('self.argsh', 'self.model.argsh')) or n.keywords:
                    fail(n, 'h must be called as h(x, *self.argsh)')
                a, ta = self.e(n.args[0], want='vec')
                return '(%s %s)' % (self.optbound[key][0], a), 'T'
            spec = mod.funcs.get(name)
            if spec and spec.get('pure'):
                args = self.call_args(n, spec)
                return '(%s %s%s)' % (mod.coqname(name), st, ''.join(' ' + a for a in args)), spec['ret']
            fail(n, 'method call in expression')
        if isinstance(f, ast.Attribute) and f.attr == 'copy' and not n.args:
            return self.e(f.value)
        if isinstance(f, ast.Attribute) and f.attr == 'astype' and len(n.args) == 1 and ast.unparse(n.args[0]) == 'float':
            return self.e(f.value)
        if isinstance(f, ast.Attribute) and f.attr == 'dot' and len(n.args) == 1:
            a, ta = self.e(f.value)
            b, tb = self.e(n.args[0])
            if (ta, tb) == ('mat', 'vec'):
                return '(matvec %s %s)' % (a, b), 'vec'
            if (ta, tb) == ('vec', 'vec'):
                return '(dot %s %s)' % (a, b), 'T'
            fail(n, '.dot types')
        if isinstance(f, ast.Name) and f.id == 'params' and 'params' in self.spec.get('fixed_any', ()):
            if len(n.args) == 1 and not n.keywords and isinstance(n.args[0], ast.Constant) and n.args[0].value in self.spec.get('pkeys', {}):
                key = n.args[0].value
                return 'p_' + key.replace('.', '_'), self.spec['pkeys'][key]
            fail(n, 'params() use not declared in schema')
        if isinstance(f, ast.Name):
            return self.call_name(n, f.id)
        if isinstance(f, ast.Attribute) and isinstance(f.value, ast.Name) and f.value.id == 'np':
            return self.call_np(n, f.attr)
        if isinstance(f, ast.Attribute) and ast.unparse(f) in ('np.linalg.norm', 'LA.norm') and len(n.args) == 1 and not n.keywords:
            a, ta = self.e(n.args[0], want='vec')
            return '(vnorm %s)' % a, 'T'
        # calling a projection from a list: P[i](v)
        if isinstance(f, ast.Subscript):
            fn, tf = self.e(f)
            if tf == 'proj' and len(n.args) == 1:
                a, _ = self.e(n.args[0], want='vec')
                return '(%s %s)' % (fn, a), 'vec'
        fail(n, 'call')

    def call_name(self, n, name):
        if name == 'ExitInformation' and len(n.args) == 2:
            a, _ = self.e(n.args[0], want='Z')
            b, _ = self.e(n.args[1], want='S')
            return '(%s, %s)' % (a, b), 'exit'
        if name in ('sqrt',) and len(n.args) == 1:
            a, _ = self.e(n.args[0], want='T')
            return '(fsqrt %s)' % a, 'T'
        if name == 'abs' and len(n.args) == 1:
            a, ta = self.e(n.args[0])
            if ta == 'T':
                return '(fabs %s)' % a, 'T'
            if ta == 'Z':
                return '(Z.abs %s)' % a, 'Z'
        if name == 'len' and len(n.args) == 1:
            a, ta = self.e(n.args[0])
            if ta in ('vec', 'mat', 'zvec') or ta.startswith('list:'):
                return '(lenZ %s)' % a, 'Z'
        if name == 'list' and len(n.args) == 1:
            a, ta = self.e(n.args[0])
            if ta == 'zvec':
                return a, 'zvec'
        if name == 'float' and len(n.args) == 1:
            if isinstance(n.args[0], ast.Constant) and n.args[0].value == 'inf':
                return 'finf', 'T'
            a, ta = self.e(n.args[0])
            return self.coerce(a, ta, 'T', n)
        if name in ('min', 'max') and len(n.args) == 2:
            (a, ta), (b, tb) = self.e(n.args[0]), self.e(n.args[1])
            if ta == tb == 'Z':
                return '(Z.%s %s %s)' % (name, a, b), 'Z'
            a, _ = self.coerce(a, ta, 'T', n)
            b, _ = self.coerce(b, tb, 'T', n)
            return '(py%s %s %s)' % (name, a, b), 'T'
        # functions of this module or of another translated module
        for mod in [self.mod] + list(self.mod.others.values()):
            spec = mod.funcs.get(name)
            if spec and spec.get('toplevel') and (spec.get('pure') or spec.get('pure_wrapper')):
                args = self.call_args(n, spec)
                return '(%s%s)' % (mod.coqname(name), ''.join(' ' + a for a in args)), spec['ret']
        fail(n, 'function %s' % name)

    def call_np(self, n, name):
        args = n.args
        if name in ('minimum', 'maximum') and len(args) == 2:
            (a, ta), (b, tb) = self.e(args[0]), self.e(args[1])
            f = 'npmin' if name == 'minimum' else 'npmax'
            if ta == 'Z':
                a, ta = self.coerce(a, ta, 'T', n)
            if tb == 'Z':
                b, tb = self.coerce(b, tb, 'T', n)
            if ta == tb == 'vec':
                return '(vmap2 %s %s %s)' % (f, a, b), 'vec'
            if ta == tb == 'T':
                return '(%s %s %s)' % (f, a, b), 'T'
            if ta == 'vec' and tb == 'T':
                return '(vmap (fun y_ => %s y_ %s) %s)' % (f, b, a), 'vec'
            if ta == 'T' and tb == 'vec':
                return '(vmap (%s %s) %s)' % (f, a, b), 'vec'
            fail(n, 'np.%s types' % name)
        if name == 'dot' and len(args) == 2:
            (a, ta), (b, tb) = self.e(args[0]), self.e(args[1])
            if (ta, tb) == ('mat', 'vec'):
                return '(matvec %s %s)' % (a, b), 'vec'
            if (ta, tb) == ('mat', 'mat'):
                return '(matmat %s %s)' % (a, b), 'mat'
            if (ta, tb) == ('vec', 'vec'):
                return '(dot %s %s)' % (a, b), 'T'
            fail(n, 'np.dot types')
        if name == 'argmin' and len(args) == 1:
            a, _ = self.e(args[0], want='vec')
            return '(np_argmin %s)' % a, 'Z'
        if name == 'argmax' and len(args) == 1:
            a, _ = self.e(args[0], want='vec')
            return '(np_argmax %s)' % a, 'Z'
        if name == 'abs' and len(args) == 1:
            a, ta = self.e(args[0])
            if ta == 'vec':
                return '(vmap fabs %s)' % a, 'vec'
            if ta == 'T':
                return '(fabs %s)' % a, 'T'
        if name == 'sqrt' and len(args) == 1:
            a, _ = self.e(args[0], want='T')
            return '(fsqrt %s)' % a, 'T'
        if name == 'max' and len(args) == 1:
            # np.max(np.abs(v)) and np.max([a, b])
            if isinstance(args[0], ast.Call) and ast.unparse(args[0].func) == 'np.abs':
                a, _ = self.e(args[0].args[0], want='vec')
                return '(vmaxabs %s)' % a, 'T'
            if isinstance(args[0], ast.List) and len(args[0].elts) == 2:
                a, _ = self.e(args[0].elts[0], want='T')
                b, _ = self.e(args[0].elts[1], want='T')
                return '(npmax %s %s)' % (a, b), 'T'    # np.max([a,b]) = maximum.reduce: NaN-propagating, ties -> second
        if name == 'mean' and len(args) == 1 and len(n.keywords) == 1 and n.keywords[0].arg == 'axis' and \
                isinstance(n.keywords[0].value, ast.Constant) and n.keywords[0].value.value == 0:
            a, _ = self.e(args[0], want='mat')
            return '(vmean_rows %s)' % a, 'vec'
        if name == 'sum' and len(args) == 1 and not n.keywords:
            a, _ = self.e(args[0], want='vec')
            return '(vsum %s)' % a, 'T'
        if name == 'zeros' and len(args) == 1 and len(n.keywords) == 1 and n.keywords[0].arg == 'dtype' and ast.unparse(n.keywords[0].value) == 'int' and \
                isinstance(args[0], ast.Tuple) and len(args[0].elts) == 1:
            a, _ = self.e(args[0].elts[0], want='Z')
            return '(repeatZ 0 %s)' % a, 'zvec'
        if name == 'zeros' and len(args) == 1 and not n.keywords:
            sh = args[0]
            if isinstance(sh, ast.Tuple) and len(sh.elts) == 1:
                a, _ = self.e(sh.elts[0], want='Z')
                return '(vzeros %s)' % a, 'vec'
            if isinstance(sh, ast.Tuple) and len(sh.elts) == 2:
                a, _ = self.e(sh.elts[0], want='Z')
                b, _ = self.e(sh.elts[1], want='Z')
                return '(repeatZ (vzeros %s) %s)' % (b, a), 'mat'
        if name == 'append' and len(args) == 2:
            a, ta = self.e(args[0])
            axis0 = len(n.keywords) == 1 and n.keywords[0].arg == 'axis' and ast.unparse(n.keywords[0].value) == '0'
            b = args[1]
            if ta == 'mat' and axis0 and isinstance(b, ast.Call) and isinstance(b.func, ast.Attribute) and b.func.attr == 'reshape':
                v, _ = self.e(b.func.value, want='vec')
                return '(%s ++ [%s])' % (a, v), 'mat'
            if ta == 'vec' and not n.keywords:
                v, _ = self.e(b, want='T')
                return '(%s ++ [%s])' % (a, v), 'vec'
            if ta == 'zvec' and not n.keywords:
                v, _ = self.e(b, want='Z')
                return '(%s ++ [%s])' % (a, v), 'zvec'
        if name == 'any' and len(args) == 1 and isinstance(args[0], ast.Call) and ast.unparse(args[0].func) == 'np.isnan':
            a, ta = self.e(args[0].args[0])
            if ta == 'vec':
                return '(vany isnan %s)' % a, 'B'
            if ta == 'mat':
                return '(existsb (vany isnan) %s)' % a, 'B'
        if name == 'where' and len(args) == 3 and isinstance(args[0], ast.Call) and ast.unparse(args[0].func) == 'np.isnan' \
                and ast.unparse(args[0].args[0]) == ast.unparse(args[2]):
            # np.where(np.isnan(v), c, v): replace NaN entries by the constant c
            a, _ = self.e(args[2], want='vec')
            c, _ = self.e(args[1], want='T')
            return '(vmap (fun y_ => if isnan y_ then %s else y_) %s)' % (c, a), 'vec'
        if name == 'all' and len(args) == 1 and isinstance(args[0], ast.Compare) and len(args[0].ops) == 1 and \
                isinstance(args[0].ops[0], (ast.LtE, ast.Lt, ast.GtE, ast.Gt)):
            # np.all(u <= v) on vectors of equal length
            (a, ta), (b, tb) = self.e(args[0].left), self.e(args[0].comparators[0])
            if ta == tb == 'vec':
                if isinstance(args[0].ops[0], (ast.GtE, ast.Gt)):
                    a, b = b, a
                return '(vall2 %s %s %s)' % ('le' if isinstance(args[0].ops[0], (ast.LtE, ast.GtE)) else 'lt', a, b), 'B'
            fail(n, 'np.all types')
        if name == 'isfinite' and len(args) == 1:
            a, _ = self.e(args[0], want='T')
            return '(isfin %s)' % a, 'B'
        if name == 'isnan' and len(args) == 1:
            a, ta = self.e(args[0])
            if ta == 'vec':
                return '(vmap_b isnan %s)' % a, 'bvec'
            a, _ = self.coerce(a, ta, 'T', n)
            return '(isnan %s)' % a, 'B'
        fail(n, 'numpy function %s' % name)

    def subscript(self, n):
        if isinstance(n.value, ast.Attribute) and n.value.attr == 'shape' and isinstance(n.slice, ast.Constant) and n.slice.value == 0:
            a, ta = self.e(n.value.value)
            if ta in ('vec', 'mat', 'zvec'):
                return '(lenZ %s)' % a, 'Z'
        if isinstance(n.value, ast.Call) and ast.unparse(n.value.func) == 'np.where' and len(n.value.args) == 1 and \
                isinstance(n.slice, ast.Constant) and n.slice.value == 0:
            # np.where(np.abs(v) < c)[0] : the indices (ascending) of the entries that satisfy the test
            c = n.value.args[0]
            if isinstance(c, ast.Compare) and len(c.ops) == 1 and isinstance(c.ops[0], ast.Lt) and isinstance(c.left, ast.Call) and \
                    ast.unparse(c.left.func) == 'np.abs' and len(c.left.args) == 1:
                v, _ = self.e(c.left.args[0], want='vec')
                b, _ = self.e(c.comparators[0], want='T')
                return '(where_idx (fun y_ => lt (fabs y_) %s) %s)' % (b, v), 'zvec'
            fail(n, 'np.where pattern')
        base, tb = self.e(n.value)
        sl = n.slice
        if tb in ('vec', 'zvec') and isinstance(sl, (ast.Compare, ast.BinOp)):
            m, tm = self.e(sl)
            if tm == 'bvec':
                return '(bfilt %s %s)' % (base, m), tb          # v[mask]: the entries where the mask holds, in order
        if tb in ('vec', 'zvec') and not isinstance(sl, (ast.Tuple, ast.Slice)):
            i, _ = self.e(sl, want='Z')
            return ('(getT %s %s)' if tb == 'vec' else '(getZ %s %s)') % (base, i), ('T' if tb == 'vec' else 'Z')
        if tb.startswith('list:') and not isinstance(sl, (ast.Tuple, ast.Slice)):
            i, _ = self.e(sl, want='Z')
            inner = tb[5:]
            d = {'proj': '(fun v_ => v_)', 'vec': '[]'}.get(inner) or fail(n, 'list element default')
            return '(getD %s %s %s)' % (d, base, i), inner
        if tb in ('vec', 'zvec', 'mat') and isinstance(sl, ast.Slice) and sl.lower is None and sl.step is None and sl.upper is not None:
            u, _ = self.e(sl.upper, want='Z')
            return '(firstnZ %s %s)' % (u, base), tb
        if tb == 'mat' and isinstance(sl, ast.Tuple) and len(sl.elts) == 2 and isinstance(sl.elts[0], ast.Slice) and \
                sl.elts[0].lower is None and sl.elts[0].upper is None and sl.elts[0].step is None and not isinstance(sl.elts[1], ast.Slice):
            j, _ = self.e(sl.elts[1], want='Z')           # M[:, j]: column j
            return '(mcol %s (Z.to_nat %s))' % (base, j), 'vec'
        if tb == 'mat' and isinstance(sl, ast.Tuple) and len(sl.elts) == 2 and isinstance(sl.elts[1], ast.Slice) and \
                sl.elts[1].lower is None and sl.elts[1].upper is None:
            r = sl.elts[0]
            if isinstance(r, ast.Slice):
                if r.lower is None and r.step is None and r.upper is not None:
                    u, _ = self.e(r.upper, want='Z')
                    return '(firstnZ %s %s)' % (u, base), 'mat'
                fail(n, 'row slice')
            i, _ = self.e(r, want='Z')
            return '(getrow %s %s)' % (base, i), 'vec'
        fail(n, 'subscript')

    # ------------------------------------------------------------------ statements
    # A block is translated to a Coq term of type  res (CARRY)  where CARRY is given by the continuation.
    # `k(env)` returns the text of what follows (a term of the function's result type).
    def assigned(self, stmts):
        """names assigned in stmts (locals as 'l_x', state as 'st', oracle stream as 'orc_')"""
        out = []

        def add(x):
            if x not in out:
                out.append(x)

        def tgt(t):
            if isinstance(t, ast.Name):
                add('l_' + t.id)
            elif isinstance(t, ast.Tuple):
                for x in t.elts:
                    tgt(x)
            elif isinstance(t, ast.Attribute):
                add('st')
            elif isinstance(t, ast.Subscript):
                v = t.value
                while isinstance(v, ast.Subscript):
                    v = v.value
                if isinstance(v, ast.Name):
                    add('l_' + v.id)
                else:
                    add('st')

        def walk(ss):
            for s in ss:
                if is_logging_stmt(s):
                    continue
                if isinstance(s, ast.Assign):
                    for t in s.targets:
                        tgt(t)
                    if self.is_oracle_call(s.value):
                        add('orc_')
                        add('log_')
                elif isinstance(s, ast.AugAssign):
                    tgt(s.target)
                elif isinstance(s, ast.If):
                    walk(s.body)
                    walk(s.orelse)
                elif isinstance(s, (ast.For, ast.While)):
                    if isinstance(s, ast.For):
                        pass
                    walk(s.body)
                elif isinstance(s, ast.Expr) and isinstance(s.value, ast.Call) and self.is_proc_call(s.value):
                    add('st')
                elif isinstance(s, ast.Expr) and isinstance(s.value, ast.Call) and isinstance(s.value.func, ast.Attribute) and \
                        s.value.func.attr == 'append' and isinstance(s.value.func.value, ast.Name):
                    add('l_' + s.value.func.value.id)         # L.append(i) rebinds the model's immutable list
        walk(stmts)
        head = [x for x in ('st', 'orc_', 'log_') if x in out]
        return head + sorted(x for x in out if x not in head)

    def is_oracle_call(self, v):
        return self.oracle is not None and isinstance(v, ast.Call) and isinstance(v.func, ast.Name) and v.func.id == self.oracle['name']

    def is_proc_call(self, v):
        mt = self.method_target(v.func) if isinstance(v.func, ast.Attribute) else None
        if mt is None:
            return False
        mod, st, name, path = mt
        spec = mod.funcs.get(name)
        return bool(spec) and not spec.get('pure')

    def has(self, stmts, kinds):
        for s in stmts:
            for x in ast.walk(s):
                if isinstance(x, kinds):
                    return True
        return False

    def has_direct(self, stmts, kinds):
        """like has() but does not look inside nested loops (break/continue bind to the nearest loop)"""
        for s in stmts:
            if isinstance(s, kinds):
                return True
            if isinstance(s, ast.If):
                if self.has_direct(s.body, kinds) or self.has_direct(s.orelse, kinds):
                    return True
        return False

    def tuple_of(self, names):
        if not names:
            return 'tt'
        return '(' + ', '.join(names) + ')'

    def pat_of(self, names):
        if not names:
            return '_'
        if len(names) == 1:
            return names[0]
        return "'(" + ', '.join(names) + ')'

    def block(self, stmts, k):
        stmts = [s for s in stmts if not is_logging_stmt(s)]
        if not stmts:
            return k()
        s, rest = stmts[0], stmts[1:]

        def nxt():
            return self.block(rest, k)

        if isinstance(s, ast.Assert):
            if ast.unparse(s.test) in self.spec.get('drop_asserts', ()):
                return nxt()        # a shape / dtype check that the typed model cannot express (listed in the schema)
            c, _ = self.truth(s.test)
            return 'if negb %s then Err AssertionError else\n%s' % (c, nxt())
        if isinstance(s, ast.Return):
            return self.do_return(s)
        if isinstance(s, ast.Break):
            if not self.loopdepth:
                fail(s, 'break outside loop')
            return self.loop_exit(True)
        if isinstance(s, ast.Continue):
            if not self.loopdepth:
                fail(s, 'continue outside loop')
            return self.loop_exit(False)
        if isinstance(s, ast.Assign) and len(s.targets) == 1:
            if self.is_oracle_call(s.value):
                return self.oracle_assign(s, nxt)
            rc = self.res_call(s.value)
            if rc is not None and isinstance(s.targets[0], ast.Name):
                # x = f(...) for a translated top-level function that may fail: bind its result
                txt, t = rc
                self.env[s.targets[0].id] = t
                self.__dict__.setdefault('active_unwraps', set()).discard(s.targets[0].id)
                return 'bind %s (fun l_%s =>\n%s)' % (txt, s.targets[0].id, nxt())
            if rc is not None and isinstance(s.targets[0], ast.Tuple) and all(isinstance(x, ast.Name) for x in s.targets[0].elts) and rc[1].startswith('tup:'):
                txt, t = rc
                ts = split_tup(t)
                if len(ts) != len(s.targets[0].elts):
                    fail(s, 'tuple unpack of a call result')
                for x, ty in zip(s.targets[0].elts, ts):
                    if x.id in self.env and self.env[x.id] != ty:
                        fail(s, 'call result changes the type of %s' % x.id)
                    self.env[x.id] = ty
                    self.__dict__.setdefault('active_unwraps', set()).discard(x.id)
                return "bind %s (fun '(%s) =>\n%s)" % (txt, ', '.join('l_' + x.id for x in s.targets[0].elts), nxt())
            if isinstance(s.value, ast.Call) and isinstance(s.value.func, ast.Name) and s.value.func.id == 'int' and len(s.value.args) == 1 and \
                    isinstance(s.targets[0], ast.Name):
                # k = int(float expression): truncation; NaN / out of range is an exception in Python, Err here
                def conv():
                    v, tv = self.e(s.value.args[0])
                    if tv == 'Z':
                        return self.assign_text(s.targets[0], v, 'Z', s)
                    v, _ = self.coerce(v, tv, 'T', s)
                    self.env[s.targets[0].id] = 'Z'
                    return 'match py_int %s with None => Err OtherError | Some l_%s =>' % (v, s.targets[0].id)
                body = self.simple(conv, nxt)
                return body + ('\nend' if 'match py_int' in body else '')
            return self.simple(lambda: self.assign(s.targets[0], s.value, s), nxt)
        if isinstance(s, ast.AugAssign):
            op = type(s.op)()
            load = ast.parse(ast.unparse(s.target), mode='eval').body
            return self.simple(lambda: self.assign(s.target, ast.BinOp(left=load, op=op, right=s.value), s), nxt)
        if isinstance(s, ast.Expr) and isinstance(s.value, ast.Call) and isinstance(s.value.func, ast.Attribute) and \
                s.value.func.attr == 'append' and isinstance(s.value.func.value, ast.Name) and \
                self.env.get(s.value.func.value.id) == 'zvec' and len(s.value.args) == 1 and not s.value.keywords:
            nm = s.value.func.value.id           # python list of indices: L.append(i)

            def app():
                v, _ = self.e(s.value.args[0], want='Z')
                return 'let l_%s := (l_%s ++ [%s]) in' % (nm, nm, v)
            return self.simple(app, nxt)
        if isinstance(s, ast.Expr) and isinstance(s.value, ast.Call) and self.is_proc_call(s.value):
            return self.proc_call(s.value, None, s, nxt)
        if isinstance(s, (ast.If, ast.For, ast.While)):
            for nm in self.assigned([s]):
                self.__dict__.setdefault('active_unwraps', set()).discard(nm[2:] if nm.startswith('l_') else nm)
        if isinstance(s, ast.If):
            outer = getattr(self, 'unwraps', None)
            self.unwraps = set()
            saved_env, saved_fresh = dict(self.env), self.fresh
            try:
                self.truth(s.test)              # discover the option-typed locals the test reads as plain values
                names = sorted(self.unwraps)
            finally:
                self.unwraps = outer
                self.env, self.fresh = saved_env, saved_fresh
            active = self.__dict__.setdefault('active_unwraps', set())
            new = [nm for nm in names if nm not in active]
            active.update(new)
            body = self.do_if(s, nxt)
            active.difference_update(new)
            for nm in new:
                body = 'match l_%s with None => Err OtherError | Some u_%s =>\n%s\nend' % (nm, nm, body)
            return body
        if isinstance(s, ast.For):
            return self.do_for(s, nxt)
        if isinstance(s, ast.While):
            return self.do_while(s, nxt)
        fail(s, 'statement kind')

    def simple(self, emit, nxt):
        """a simple statement; option-typed integer locals it uses as integers are unwrapped around it (None -> TypeError)"""
        outer = getattr(self, 'unwraps', None)
        self.unwraps = set()
        try:
            txt = emit()
            names = sorted(self.unwraps)
        finally:
            self.unwraps = outer
        active = self.__dict__.setdefault('active_unwraps', set())
        new = [nm for nm in names if nm not in active]      # already unwrapped by an enclosing statement and not re-bound since
        active.update(new)
        body = txt + '\n' + nxt()
        active.difference_update(new)
        for nm in new:
            body = 'match l_%s with None => Err OtherError | Some u_%s =>\n%s\nend' % (nm, nm, body)
        return body

    def res_call(self, v):
        if isinstance(v, ast.Call) and isinstance(v.func, ast.Name):
            for mod in [self.mod] + list(self.mod.others.values()):
                spec = mod.funcs.get(v.func.id)
                if spec and spec.get('toplevel') and not spec.get('pure') and not spec.get('pure_wrapper') and not spec.get('oracle'):
                    args = self.call_args(v, spec)
                    return '(%s%s)' % (mod.coqname(v.func.id), ''.join(' ' + a for a in args)), spec['ret']
        return None

    def ret_parts(self, v):
        st = 'st' if self.uses_state else None
        extra = ['orc_', 'log_'] if self.oracle else []
        return ([st] if st else []) + extra + [v]

    def do_return(self, s):
        if self.loopdepth:
            # return inside a loop: the value is carried out of the loop(s) in ret_ and returned after them
            if self.spec.get('extra_ret') or s.value is None or 'ret_' not in self.loopcarried[-1]:
                fail(s, 'return inside loop')
            v, t = self.e(s.value, want=self.ret)
            return 'let ret_ := Some %s in\n%s' % (self.finish(v), self.loop_exit(True))
        st = 'st' if self.uses_state else None
        extra = ['orc_', 'log_'] if self.oracle else []
        if s.value is None:
            v = 'tt'
        else:
            v, t = self.e(s.value, want=self.ret)
            v = self.finish(v)
            for nm, ty in self.spec.get('extra_ret', []):
                if self.env.get(nm) != ty:
                    fail(s, 'extra result %s has type %s, schema says %s' % (nm, self.env.get(nm), ty))
                v += ', l_' + nm
            if self.spec.get('extra_ret'):
                v = '(' + v + ')'
        parts = ([st] if st else []) + extra + [v]
        return 'Ok ' + self.tuple_of(parts)

    def loop_exit(self, brk):
        carried = self.loopcarried[-1]
        return 'Ok (%s, %s)' % (self.tuple_of(carried), 'true' if brk else 'false')

    def oracle_assign(self, s, nxt):
        """TGT = oracle(args): consume the next recorded answer, log the selected arguments"""
        call = s.value
        o = self.oracle
        argmap = {}
        names = o['argorder']
        for i, a in enumerate(call.args):
            argmap[names[i]] = a
        for kw in call.keywords:
            argmap[kw.arg] = kw.value
        logged = []
        for nm, ty in o['log']:
            if nm not in argmap:
                fail(s, 'oracle call lacks argument %s' % nm)
            logged.append(self.e(argmap[nm], want=ty)[0])
        for nm, txt in o.get('require', {}).items():
            if nm not in argmap or ast.unparse(argmap[nm]) != txt:
                fail(s, 'oracle argument %s must be %s' % (nm, txt))
        head = 'match orc_ with [] => Err OtherError | ans_ :: orc_ =>\nlet log_ := log_ ++ [(%s)] in\n' % ', '.join(logged)
        tgt = s.targets[0]
        if isinstance(tgt, ast.Tuple) and len(tgt.elts) == 2:
            a = self.assign_text(tgt.elts[0], '(fst ans_)', 'vec', s)
            b = self.assign_text(tgt.elts[1], '(snd ans_)', 'T', s)
            return head + a + '\n' + b + '\n' + nxt() + '\nend'
        fail(s, 'oracle target')

    def proc_call(self, call, target, s, nxt):
        """self.model.f(args) / self.f(args) as a statement: threads the (sub)state through a res-returning procedure"""
        mod, st, name, path = self.method_target(call.func)
        spec = mod.funcs[name]
        args = self.call_args(call, spec)
        callee = '(%s %s%s)' % (mod.coqname(name), st, ''.join(' ' + a for a in args))
        # rebuild the enclosing state from the updated sub-state
        upd = 'sub_'
        for a in reversed(path):
            # set_<field> of the owner
            owner = 'st'
            for b in path[:path.index(a)]:
                owner = '(%s%s %s)' % (self.mod.prefix, b, owner)
            upd = '(set_%s%s %s %s)' % (self.mod.prefix, a, owner, upd)
        bindres = 'r_' if target is None else 'l_' + target
        if target is not None:
            self.env[target] = spec['ret']
        return 'bind %s (fun \'(sub_, %s) =>\nlet st := %s in\n%s)' % (callee, bindres, upd, nxt())

    def do_if(self, s, nxt):
        t = s.test
        body, orelse = s.body, s.orelse
        ctl = (ast.Return, ast.Break, ast.Continue)
        # option guard: `if X is not None:` / `if X is None:` binds the payload
        optcase = None
        if isinstance(t, ast.Compare) and len(t.ops) == 1 and isinstance(t.ops[0], (ast.Is, ast.IsNot)) and \
                isinstance(t.comparators[0], ast.Constant) and t.comparators[0].value is None:
            o, to = self.e(t.left)
            if to.startswith('opt:'):
                optcase = (o, to[4:], isinstance(t.ops[0], ast.IsNot))
        if isinstance(t, ast.Name) and t.id in self.fixed and isinstance(self.fixed[t.id], bool):
            # specialised parameter: only the live branch exists in the model (the schema records the specialisation)
            return self.block(body if self.fixed[t.id] else orelse, nxt)
        if self.has(body, ast.Return) or self.has(orelse, ast.Return) or self.has_direct(body, (ast.Break, ast.Continue)) or \
                self.has_direct(orelse, (ast.Break, ast.Continue)):
            # control leaves through a branch: continuation is duplicated into the branches that fall through
            saved = dict(self.env)
            if optcase:
                o, ty, notnone = optcase
                var = 'hf_' if o.startswith(('(h ', '(c_h ')) else self.newvar('v')
                some_body, none_body = (body, orelse) if notnone else (orelse, body)
                self.optbound[o] = (var, ty)
                a = self.block(some_body, nxt)
                del self.optbound[o]
                self.env = dict(saved)
                b = self.block(none_body, nxt)
                return 'match %s with Some %s => (\n%s\n) | None => (\n%s\n) end' % (o, var, a, b)
            c, _ = self.truth(t)
            a = self.block(body, nxt)
            self.env = dict(saved)
            b = self.block(orelse, nxt)
            return 'if %s then (\n%s\n) else (\n%s\n)' % (c, a, b)
        # join: both branches fall through; thread the variables assigned in either
        names = self.assigned(body + orelse)
        for nm in names:
            if nm.startswith('l_') and nm[2:] not in self.env:
                # must be assigned in both branches
                if not (nm in self.assigned(body) and nm in self.assigned(orelse)):
                    fail(s, 'local %s defined in one branch only' % nm[2:])
        saved = dict(self.env)

        def endk(names=names):
            return 'Ok ' + self.tuple_of(names)
        if optcase:
            o, ty, notnone = optcase
            var = 'hf_' if o.startswith(('(h ', '(c_h ')) else self.newvar('v')
            some_body, none_body = (body, orelse) if notnone else (orelse, body)
            self.optbound[o] = (var, ty)
            a = self.block(some_body, endk)
            del self.optbound[o]
            env_a = dict(self.env)
            self.env = dict(saved)
            b = self.block(none_body, endk)
            head = 'match %s with Some %s => (\n%s\n) | None => (\n%s\n) end' % (o, var, a, b)
        else:
            c, _ = self.truth(t)
            a = self.block(body, endk)
            env_a = dict(self.env)
            self.env = dict(saved)
            b = self.block(orelse, endk)
            head = 'if %s then (\n%s\n) else (\n%s\n)' % (c, a, b)
        for nm, ty in env_a.items():
            if nm in self.env and self.env[nm] != ty:
                fail(s, 'local %s has different types in branches' % nm)
            self.env.setdefault(nm, ty)
        return 'bind (%s) (fun %s =>\n%s)' % (head, self.pat_of(names), nxt())

    def do_for(self, s, nxt):
        if s.orelse:
            fail(s, 'for-else')
        it = s.iter
        if not (isinstance(it, ast.Call) and isinstance(it.func, ast.Name) and it.func.id == 'range' and isinstance(s.target, ast.Name)):
            fail(s, 'for loop is not over range')
        if len(it.args) == 1:
            lo, hi = '0', self.e(it.args[0], want='Z')[0]
        elif len(it.args) == 2:
            lo, hi = self.e(it.args[0], want='Z')[0], self.e(it.args[1], want='Z')[0]
        else:
            fail(s, 'range with step')
        carried = self.assigned(s.body)
        ivar = 'l_' + s.target.id
        carried = [c for c in carried if c != ivar and not (c.startswith('l_') and c[2:] not in self.env)]
        returns = self.has(s.body, ast.Return)
        if returns:
            carried = carried + ['ret_']
        saved = dict(self.env)
        self.env[s.target.id] = 'Z'
        self.loopdepth += 1
        self.loopcarried = getattr(self, 'loopcarried', []) + [carried]
        body = self.block(s.body, lambda: self.loop_exit(False))
        self.loopcarried.pop()
        self.loopdepth -= 1
        env_b = dict(self.env)
        self.env = saved
        for nm in carried:
            if nm.startswith('l_') and env_b.get(nm[2:]) != self.env.get(nm[2:]):
                fail(s, 'loop-carried local %s changes type' % nm[2:])
        after = nxt()
        pre = ''
        if returns:
            if self.loopdepth:
                after = 'match ret_ with Some _ => %s | None =>\n%s\nend' % (self.loop_exit(True) if 'ret_' in self.loopcarried[-1] else fail(s, 'return inside nested loop'), after)
            else:
                pre = 'let ret_ := (None : option %s) in\n' % coqty(self.ret)
                after = 'match ret_ with Some r_ => Ok %s | None =>\n%s\nend' % (self.tuple_of(self.ret_parts('r_')), after)
        return pre + 'bind (for_loop (rangeZ %s %s) (fun %s %s =>\n%s) %s) (fun %s =>\n%s)' % (
            lo, hi, ivar, self.pat_of(carried), body, self.tuple_of(carried), self.pat_of(carried), after)

    def do_while(self, s, nxt):
        if s.orelse:
            fail(s, 'while-else')
        fuel = self.spec.get('fuel')
        if not fuel:
            fail(s, 'while loop without a declared fuel bound')
        carried = [c for c in self.assigned(s.body) if not (c.startswith('l_') and c[2:] not in self.env)]
        saved = dict(self.env)
        cond, _ = self.truth(s.test)
        self.loopdepth += 1
        self.loopcarried = getattr(self, 'loopcarried', []) + [carried]
        body = self.block(s.body, lambda: self.loop_exit(False))
        self.loopcarried.pop()
        self.loopdepth -= 1
        env_b = dict(self.env)
        self.env = saved
        for nm in carried:
            if nm.startswith('l_') and env_b.get(nm[2:]) != self.env.get(nm[2:]):
                fail(s, 'loop-carried local %s changes type (%s -> %s)' % (nm[2:], self.env.get(nm[2:]), env_b.get(nm[2:])))
        return ('bind (while_loop %s (fun %s => %s) (fun %s =>\n%s) %s) (fun \'(c_, oof_) =>\n'
                'if (oof_ : bool) then Err OtherError else let %s := c_ in\n%s)') % (
            fuel, self.pat_of(carried), cond, self.pat_of(carried), body, self.tuple_of(carried), self.pat_of(carried), nxt())

    # ------------------------------------------------------------------ assignments
    def assign(self, tgt, val, node):
        if isinstance(tgt, ast.Tuple):
            # tuple unpack of a tuple expression or of a known tuple-typed local
            v, t = self.e(val)
            if t == 'scal':
                t = 'tup:vec|vec'
            if not t.startswith('tup:'):
                fail(node, 'tuple target for non-tuple')
            ts = split_tup(t)
            if len(ts) != len(tgt.elts) or not all(isinstance(x, ast.Name) for x in tgt.elts):
                fail(node, 'tuple unpack')
            for x, ty in zip(tgt.elts, ts):
                self.env[x.id] = ty
            return "let '(%s) := %s in" % (', '.join('l_' + x.id for x in tgt.elts), self.finish(v))
        if isinstance(tgt, ast.Subscript):
            idx = tgt.slice.elts[0] if isinstance(tgt.slice, ast.Tuple) else tgt.slice
            if isinstance(idx, ast.List):
                return self.assign_text(tgt, None, None, node)     # fancy-index swap: value checked syntactically
        if isinstance(val, ast.List) and not val.elts and isinstance(tgt, ast.Name) and self.spec.get('locals', {}).get(tgt.id) == 'zvec':
            return self.assign_text(tgt, '([] : list Z)', 'zvec', node)      # empty python list of indices
        v, t = self.e(val)
        return self.assign_text(tgt, self.finish(v), t, node)

    def assign_text(self, tgt, v, t, node):
        if isinstance(tgt, ast.Name):
            self.__dict__.setdefault('active_unwraps', set()).discard(tgt.id)
            old = self.env.get(tgt.id)
            if old is not None and old != t:
                if t == 'none' and old.startswith('opt:'):
                    v, t = 'None', old
                else:
                    v, t = self.coerce(v, t, old, node)
            if t == 'none':
                hint = self.spec.get('locals', {}).get(tgt.id)
                if not hint:
                    fail(node, 'None assigned to untyped local %s' % tgt.id)
                v, t = '(None : %s)' % coqty(hint), hint
            hint = self.spec.get('locals', {}).get(tgt.id)
            if hint and hint != t:
                v, t = self.coerce(v, t, hint, node)
            self.env[tgt.id] = t
            return 'let l_%s := %s in' % (tgt.id, v)
        if isinstance(tgt, ast.Attribute) and isinstance(tgt.value, ast.Name) and tgt.value.id == 'self' and self.uses_state:
            fld = tgt.attr
            ft = self.mod.fields.get(fld) or fail(node, 'field %s not in schema' % fld)
            v, _ = self.coerce(v, t, ft, node)
            return 'let st := set_%s%s st %s in' % (self.mod.prefix, fld, v)
        if isinstance(tgt, ast.Subscript):
            base = tgt.value
            sl = tgt.slice
            # self.fld[...] = v
            if isinstance(base, ast.Attribute) and isinstance(base.value, ast.Name) and base.value.id == 'self' and self.uses_state:
                fld = base.attr
                ft = self.mod.fields.get(fld) or fail(node, 'field %s not in schema' % fld)
                newv = self.updated(fld_txt='(%s%s st)' % (self.mod.prefix, fld), ft=ft, sl=sl, v=v, t=t, node=node, tgt=tgt)
                return 'let st := set_%s%s st %s in' % (self.mod.prefix, fld, newv)
            if isinstance(base, ast.Name) and base.id in self.env:
                ft = self.env[base.id]
                newv = self.updated(fld_txt='l_' + base.id, ft=ft, sl=sl, v=v, t=t, node=node, tgt=tgt)
                return 'let l_%s := %s in' % (base.id, newv)
        fail(node, 'assignment target')

    def updated(self, fld_txt, ft, sl, v, t, node, tgt):
        idx = sl.elts[0] if isinstance(sl, ast.Tuple) else sl
        # fancy-index swap  a[[k1,k2]] = a[[k2,k1]]   /  a[[k1,k2],:] = a[[k2,k1],:]
        if isinstance(idx, ast.List) and len(idx.elts) == 2:
            want = ast.unparse(tgt).replace(ast.unparse(idx), '[%s, %s]' % (ast.unparse(idx.elts[1]), ast.unparse(idx.elts[0])))
            if ast.unparse(node.value) != want:
                fail(node, 'fancy-index assignment is not a swap')
            a, _ = self.e(idx.elts[0], want='Z')
            b, _ = self.e(idx.elts[1], want='Z')
            d = {'mat': '[]', 'vec': 'dflt', 'zvec': '0'}[ft]
            return '(swapZ %s %s %s %s)' % (d, fld_txt, a, b)
        if ft == 'mat' and isinstance(sl, ast.Tuple) and len(sl.elts) == 2 and isinstance(sl.elts[1], ast.Slice) and \
                sl.elts[1].lower is None and sl.elts[1].upper is None:
            i, _ = self.e(sl.elts[0], want='Z')
            v, _ = self.coerce(v, t, 'vec', node)
            return '(updZ %s %s %s)' % (fld_txt, i, v)
        if ft in ('vec', 'zvec') and isinstance(sl, (ast.Compare, ast.BinOp)):
            m, tm = self.e(sl)
            if tm != 'bvec':
                fail(node, 'subscript assignment by a non-mask expression')
            if t == ft:
                return '(bscatter %s %s %s)' % (fld_txt, m, v)      # v[mask] = w (w has one entry per True of the mask)
            v, _ = self.coerce(v, t, 'T' if ft == 'vec' else 'Z', node)
            return '(bset %s %s %s)' % (fld_txt, m, v)              # v[mask] = scalar
        if ft == 'vec' and isinstance(sl, ast.Name) and self.env.get(sl.id) == 'zvec':
            v, _ = self.coerce(v, t, 'T', node)        # v[indices] = scalar
            return '(set_many %s l_%s %s)' % (fld_txt, sl.id, v)
        if ft in ('vec', 'zvec') and not isinstance(sl, (ast.Tuple, ast.Slice)):
            i, _ = self.e(sl, want='Z')
            v, _ = self.coerce(v, t, 'T' if ft == 'vec' else 'Z', node)
            return '(updZ %s %s %s)' % (fld_txt, i, v)
        fail(node, 'subscript assignment')


def record_def(mod):
    flds = list(mod.fields)
    pre = mod.prefix
    out = ['Record %s := mk_%s {\n' % (mod.state, mod.name) + ';\n'.join('  %s%s : %s' % (pre, k, coqty(v)) for k, v in mod.fields.items()) + ' }.']
    for k in flds:
        out.append('Definition set_%s%s (s : %s) (v : %s) : %s := mk_%s %s.' % (
            pre, k, mod.state, coqty(mod.fields[k]), mod.state, mod.name, ' '.join('v' if j == k else '(%s%s s)' % (pre, j) for j in flds)))
    return '\n'.join(out)


def translate_function(mod, fname):
    spec = mod.funcs[fname]
    f = mod.find(fname)
    tr = Tr(mod, fname, spec)
    declared = [a.arg for a in f.args.args]
    if mod.cls and not spec.get('toplevel'):
        declared = declared[1:]
    known = set(spec.get('params', {})) | set(spec.get('fixed', {})) | set(spec.get('fixed_any', ()))
    for p in declared:
        if p not in known:
            fail(f, 'parameter %s not in schema' % p)
    for p in known:
        if p not in declared:
            fail(f, 'schema parameter %s not in source' % p)
    # positional callers rely on the order: the schema lists the parameters in the source's order
    order = [p for p in list(spec.get('params', {})) if p in declared]
    if order != [p for p in declared if p in spec.get('params', {})]:
        fail(f, 'parameters are declared in the order %s, schema says %s' % ([p for p in declared if p in spec.get('params', {})], order))
    if f.args.vararg or f.args.kwarg or f.args.kwonlyargs:
        fail(f, 'varargs')
    # defaults must match the ones the schema records (call sites rely on them)
    dflt_nodes = dict(zip(declared[len(declared) - len(f.args.defaults):], f.args.defaults))
    for p, txt in spec.get('defaults', {}).items():
        if p not in dflt_nodes:
            fail(f, 'schema default for %s but source has none' % p)
        got, _ = Tr(mod, fname, spec).e(dflt_nodes[p], want=spec['params'][p])
        if got != txt:
            fail(f, 'default of %s is %s, schema says %s' % (p, got, txt))
    for p, v in spec.get('fixed', {}).items():
        pass
    params = ''.join(' (l_%s : %s)' % (p, coqty(t)) for p, t in spec.get('params', {}).items())
    params += ''.join(' (p_%s : %s)' % (k.replace('.', '_'), coqty(t)) for k, t in spec.get('pkeys', {}).items())
    stp = ' (st : %s)' % mod.state if tr.uses_state else ''
    name = mod.coqname(fname)
    body = [s for s in f.body if not is_logging_stmt(s)]
    if spec.get('pure'):
        # a single `return E` possibly preceded by plain local assignments and if/else returning expressions
        txt = tr_pure(tr, body, f)
        return 'Definition %s%s%s : %s :=\n%s.' % (name, stp, params, coqty(spec['ret']), txt)
    extra = ''
    if tr.oracle:
        extra = ' (orc_ : list %s) (log_ : list %s)' % (coqty(tr.oracle['ans']), coqty('tup:' + '|'.join(t for _, t in tr.oracle['log'])))
    rett = coqty(spec['ret']) if spec.get('ret') else 'unit'
    if spec.get('extra_ret'):
        rett = '(' + ' * '.join([rett] + [coqty(t) for _, t in spec['extra_ret']]) + ')'
    if spec.get('pure_wrapper'):
        name = name + '_run'
    parts = ([mod.state] if tr.uses_state else []) + \
            ([('list %s' % coqty(tr.oracle['ans'])), 'list %s' % coqty('tup:' + '|'.join(t for _, t in tr.oracle['log']))] if tr.oracle else []) + [rett]
    restype = 'res (' + ' * '.join(parts) + ')'

    def endk():
        st = ['st'] if tr.uses_state else []
        ex = ['orc_', 'log_'] if tr.oracle else []
        if spec.get('ret'):
            fail(f, 'function may fall off its end without returning a value')
        return 'Ok ' + tr.tuple_of(st + ex + ['tt'])
    pre = ''
    for nm, ty in spec.get('predeclare', {}).items():
        # a local that Python binds on some paths only: None until assigned, every read unwraps (UnboundLocalError <-> Err)
        tr.env[nm] = 'opt:' + ty
        pre += 'let l_%s := (None : option %s) in\n' % (nm, coqty(ty))
    txt = pre + tr.block(body, endk)
    out = 'Definition %s%s%s%s : %s :=\n%s.' % (name, stp, params, extra, restype, txt)
    if spec.get('pure_wrapper'):
        w = spec['pure_wrapper']
        pnames = ''.join(' l_' + p for p in spec.get('params', {}))
        npat = ', '.join(['r_'] + ['_'] * len(spec.get('extra_ret', [])))
        out += '\nDefinition %s%s : %s :=\nmatch %s%s with Ok (%s) => r_ | Err _ => %s end.' % (
            mod.coqname(fname), params, coqty(spec['ret']), name, pnames, npat, w)
    return out


def tr_pure(tr, body, f):
    if not body:
        fail(f, 'empty pure function')
    s, rest = body[0], body[1:]
    if isinstance(s, ast.Assert) and tr.spec.get('ignore_asserts'):
        return tr_pure(tr, rest, f)
    if isinstance(s, ast.Return):
        v, _ = tr.e(s.value, want=tr.ret)
        return tr.finish(v)
    if isinstance(s, ast.Assign) and len(s.targets) == 1 and (isinstance(s.targets[0], (ast.Name, ast.Tuple)) or
            (isinstance(s.targets[0], ast.Subscript) and isinstance(s.targets[0].value, ast.Name) and s.targets[0].value.id in tr.env)):
        return tr.assign(s.targets[0], s.value, s) + '\n' + tr_pure(tr, rest, f)
    if isinstance(s, ast.If):
        saved = dict(tr.env)
        if tr.has(s.body, ast.Return):
            # if c: return A  [else: ...]; rest
            t = s.test
            if isinstance(t, ast.Compare) and len(t.ops) == 1 and isinstance(t.ops[0], (ast.Is, ast.IsNot)) and \
                    isinstance(t.comparators[0], ast.Constant) and t.comparators[0].value is None:
                o, to = tr.e(t.left)
                if to.startswith('opt:'):
                    notnone = isinstance(t.ops[0], ast.IsNot)
                    var = tr.newvar('v')
                    some_body, none_body = (s.body, (s.orelse or []) + rest) if notnone else ((s.orelse or []) + rest, s.body)
                    tr.optbound[o] = (var, to[4:])
                    a = tr_pure(tr, some_body, f)
                    del tr.optbound[o]
                    tr.env = dict(saved)
                    b = tr_pure(tr, none_body, f)
                    return '(match %s with Some %s => %s | None => %s end)' % (o, var, a, b)
            c, _ = tr.truth(t)
            a = tr_pure(tr, s.body, f)
            tr.env = dict(saved)
            b = tr_pure(tr, (s.orelse or []) + rest, f)
            return '(if %s then %s else %s)' % (c, a, b)
    fail(s, 'statement in pure function')
