"""Expression-level fragments of solve()/solve_main() that theorems talk about (fail closed: a fragment that is not found
in the expected syntactic place raises Untranslatable).  Emitted as Gen_solver.v."""
import ast
from .py2coq import Tr, Module, Untranslatable, fail

HEADER = ('(* GENERATED from dfols/solver.py by /verif/translator/fragments.py -- do not edit; regenerated on every check *)\n'
          'From Coq Require Import ZArith List Bool String.\nRequire Import DV.Base.Prelude DV.Spec.Schema.\nFrom G Require Import Gen_util.\n'
          'Import ListNotations.\nOpen Scope Z_scope.\nSection Gen.\nContext `{Arith}.\n')


def find_func(tree, name):
    fs = [n for n in tree.body if isinstance(n, ast.FunctionDef) and n.name == name]
    if len(fs) != 1:
        raise Untranslatable('UNTRANSLATABLE: function %s not found exactly once in solver.py' % name)
    return fs[0]


def expr_tr(util, env):
    mod = Module('solver', ast.parse(''), others={'util': util})
    return Tr(mod, 'frag', dict(params=env, toplevel=True))


def generate(solver_tree, util, trees=None, consts=None):
    trees = trees or {'solver': solver_tree}
    solve = find_func(solver_tree, 'solve')
    out = [HEADER]
    # (1) the objective wrapper:  objfun = lambda x, *args: objfun_orig(<E>, *args)
    lam = None
    for n in ast.walk(solve):
        if isinstance(n, ast.Assign) and len(n.targets) == 1 and isinstance(n.targets[0], ast.Name) and n.targets[0].id == 'objfun' and isinstance(n.value, ast.Lambda):
            if lam is not None:
                fail(n, 'objfun re-bound to a lambda twice')
            lam = n.value
    if lam is None:
        raise Untranslatable('UNTRANSLATABLE: solve() does not bind objfun to a wrapper lambda')
    a = lam.args
    if [x.arg for x in a.args] != ['x'] or a.vararg is None or a.vararg.arg != 'args' or a.kwonlyargs or a.kwarg or a.defaults:
        fail(lam, 'wrapper lambda signature')
    body = lam.body
    if not (isinstance(body, ast.Call) and isinstance(body.func, ast.Name) and body.func.id == 'objfun_orig' and len(body.args) == 2 and
            isinstance(body.args[1], ast.Starred) and ast.unparse(body.args[1].value) == 'args' and not body.keywords):
        fail(lam, 'wrapper lambda body is not objfun_orig(<expr>, *args)')
    tr = expr_tr(util, {'x': 'vec', 'xl_orig': 'vec', 'xu_orig': 'vec'})
    txt, _ = tr.e(body.args[0], want='vec')
    out.append('Definition py_solver_eval_point (l_x : vec) (l_xl_orig : vec) (l_xu_orig : vec) : vec :=\n%s.\n' % tr.finish(txt))
    # (2) the x of the final result:  OptimResults(<E>, rmin, ...)
    res = [n for n in ast.walk(solve) if isinstance(n, ast.Call) and isinstance(n.func, ast.Name) and n.func.id == 'OptimResults']
    finals = [c for c in res if c.args and not (isinstance(c.args[0], ast.Constant) and c.args[0].value is None)]
    if len(finals) != 1:
        raise Untranslatable('UNTRANSLATABLE: expected exactly one OptimResults(...) carrying a solution in solve()')
    tr = expr_tr(util, {'xmin': 'vec', 'scaling_changes': 'opt:scal', 'xl_orig': 'vec', 'xu_orig': 'vec'})
    txt, _ = tr.e(finals[0].args[0], want='vec')
    out.append('Definition py_solver_result_x (l_xmin : vec) (l_scaling_changes : (option (vec * vec))) (l_xl_orig : vec) (l_xu_orig : vec) : vec :=\n%s.\n' % tr.finish(txt))
    # (3) the push of x0 into the box:  idx = (x0 < xl); x0[idx] = xl[idx]; idx = (x0 > xu); x0[idx] = xu[idx]
    seq = [s for s in solve.body if isinstance(s, ast.Assign)]
    txts = [ast.unparse(s) for s in seq]
    def after(i, want):
        for j in range(i, len(txts)):
            if txts[j] == want:
                return j
        raise Untranslatable('UNTRANSLATABLE: statement `%s` not found in order in solve()' % want)
    i1 = after(0, 'idx = x0 < xl'); i2 = after(i1, 'x0[idx] = xl[idx]'); i3 = after(i2, 'idx = x0 > xu'); i4 = after(i3, 'x0[idx] = xu[idx]')
    for t in txts[i1 + 1:i4]:
        if t.split(' = ')[0].split('[')[0] in ('x0', 'xl', 'xu', 'idx') and t not in ('x0[idx] = xl[idx]', 'idx = x0 > xu'):
            raise Untranslatable('UNTRANSLATABLE: unexpected assignment `%s` inside the x0 push' % t)
    out.append('Definition py_solver_push_x0 (l_x0 : vec) (l_xl : vec) (l_xu : vec) : vec :=\n'
               'let l_x0 := vmap2 (fun x_ l_ => if lt x_ l_ then l_ else x_) l_x0 l_xl in\n'
               'vmap2 (fun x_ u_ => if lt u_ x_ then u_ else x_) l_x0 l_xu.\n')
    rad, idx = gen_radius(trees, util)
    out.append(rad)
    if 'trust_region' in trees:
        out.append(gen_kernels(trees, util))
        out.append(gen_coord_init(trees, util))
    if consts is not None:
        out.append(gen_x0_block(solver_tree, util, consts))
    out.append('End Gen.')
    out.append(idx)
    return '\n'.join(out)


# ------------------------------------------------------------------------------------------------ radius write sites (C18)
class _Norm(ast.NodeTransformer):
    """control.X / self.X -> X ; params('a.b') -> p_a_b ; sqrt(e) -> np.sqrt(e)"""

    def visit_Attribute(self, n):
        if isinstance(n.value, ast.Name) and n.value.id in ('control', 'self'):
            return ast.copy_location(ast.Name(id=n.attr, ctx=ast.Load()), n)
        return self.generic_visit(n)

    def visit_Call(self, n):
        if isinstance(n.func, ast.Name) and n.func.id == 'params' and len(n.args) == 1 and isinstance(n.args[0], ast.Constant):
            return ast.copy_location(ast.Name(id='p_' + n.args[0].value.replace('.', '_'), ctx=ast.Load()), n)
        n = self.generic_visit(n)
        if isinstance(n.func, ast.Name) and n.func.id == 'sqrt':
            n.func = ast.Attribute(value=ast.Name(id='np', ctx=ast.Load()), attr='sqrt', ctx=ast.Load())
        return n


RADIUS_FUNCS = {('solver', 'solve_main'), ('controller', 'Controller.check_and_fix_geometry'), ('controller', 'Controller.soft_restart'),
                ('controller', 'Controller.__init__')}


def radius_sites(trees):
    """yield (file, qualname, target, ordinal, expr) for every assignment to delta/rho/rhoend (attribute or the loop-local rhoend)"""
    for fname, tree in trees.items():
        funcs = []
        for n in tree.body:
            if isinstance(n, ast.FunctionDef):
                funcs.append((n.name, n))
            elif isinstance(n, ast.ClassDef):
                funcs += [(n.name + '.' + k.name, k) for k in n.body if isinstance(k, ast.FunctionDef)]
        for qual, fn in funcs:
            ords = {}
            for s in ast.walk(fn):
                if isinstance(s, ast.Assign) and len(s.targets) == 1:
                    t = s.targets[0]
                    nm = None
                    if isinstance(t, ast.Attribute) and isinstance(t.value, ast.Name) and t.value.id in ('control', 'self') and t.attr in ('delta', 'rho', 'rhoend'):
                        nm = t.attr
                    elif isinstance(t, ast.Name) and t.id == 'rhoend' and qual in ('solve_main', 'solve'):
                        nm = 'rhoend'
                    if nm is not None:
                        yield fname, qual, nm, s.lineno, s.value


def gen_radius(trees, util):
    sites = sorted(radius_sites(trees), key=lambda t: (t[0], t[1], t[3]))
    out = []
    counts = {}
    index = []
    for fname, qual, nm, line, expr in sites:
        if (fname, qual) == ('controller', 'Controller.reduce_rho'):
            continue        # translated as a whole function (py_controller_reduce_rho)
        k = (fname, qual, nm)
        counts[k] = counts.get(k, -1) + 1
        e2 = _Norm().visit(ast.parse(ast.unparse(expr), mode='eval').body)
        names = sorted({x.id for x in ast.walk(e2) if isinstance(x, ast.Name) and x.id not in ('np', 'max', 'min')})
        tr = expr_tr(util, {x: 'T' for x in names})
        txt, _ = tr.e(e2, want='T')
        cname = 'py_rad_%s_%s_%s_%d' % (fname, qual.replace('.', '_').replace('__', ''), nm, counts[k])
        out.append('Definition %s %s : T :=\n%s.\n' % (cname, ' '.join('(l_%s : T)' % x for x in names), tr.finish(txt)))
        index.append((fname, qual, nm, counts[k], cname, names))
    idx = 'Definition radius_site_index : list (string * string * string * Z * list string) := [\n' + ';\n'.join(
        '  ("%s"%%string, "%s"%%string, "%s"%%string, %d, [%s])' % (f, q_, n_, o, '; '.join('"%s"%%string' % x for x in names)) for (f, q_, n_, o, c, names) in index) + '].\n'
    return '\n'.join(out) + '\n', idx


# ------------------------------------------------------------------------------------------------ kernels (C12, C14)
def gen_kernels(trees, util):
    out = []
    # d_within_bounds: exactly these four statements
    tr_tree = trees['trust_region']
    f = [n for n in tr_tree.body if isinstance(n, ast.FunctionDef) and n.name == 'd_within_bounds']
    if len(f) != 1:
        raise Untranslatable('UNTRANSLATABLE: d_within_bounds not found exactly once')
    f = f[0]
    body = [ast.unparse(s) for s in f.body if not (isinstance(s, ast.Expr) and isinstance(s.value, ast.Constant))]
    expect = ['xnew = np.maximum(np.minimum(xopt + d, su), sl)', 'xnew[xbdi == -1] = sl[xbdi == -1]', 'xnew[xbdi == 1] = su[xbdi == 1]', 'd = xnew - xopt', 'return d']
    if [a.arg for a in f.args.args] != ['d', 'xopt', 'sl', 'su', 'xbdi'] or body != expect:
        raise Untranslatable('UNTRANSLATABLE line %d: d_within_bounds is not the four-statement clip (got %r)' % (f.lineno, body))
    t = expr_tr(util, {'d': 'vec', 'xopt': 'vec', 'sl': 'vec', 'su': 'vec'})
    clip, _ = t.e(f.body[-5 + 0].value if False else [s for s in f.body if isinstance(s, ast.Assign)][0].value, want='vec')
    out.append('(* xnew of d_within_bounds: clip, then components flagged -1 / +1 in xbdi are set to the bound itself *)\n'
               'Fixpoint mask_bounds (xnew sl su : vec) (xbdi : list Z) : vec :=\n'
               '  match xnew, sl, su, xbdi with\n'
               '  | x :: xn, l :: sl\', u :: su\', b :: xb => (if Z.eqb b (-1) then l else if Z.eqb b 1 then u else x) :: mask_bounds xn sl\' su\' xb\n'
               '  | _, _, _, _ => []\n  end.\n'
               'Definition py_tr_d_within_bounds_xnew (l_d l_xopt l_sl l_su : vec) (l_xbdi : list Z) : vec :=\n'
               'mask_bounds %s l_sl l_su l_xbdi.\n'
               'Definition py_tr_d_within_bounds (l_d l_xopt l_sl l_su : vec) (l_xbdi : list Z) : vec :=\n'
               'vmap2 sub (py_tr_d_within_bounds_xnew l_d l_xopt l_sl l_su l_xbdi) l_xopt.\n' % t.finish(clip))
    # generator tails: results[:, i] = np.maximum(np.minimum(results[:, i], upper), lower) in a loop over range(num_pts)
    ut = trees['util']
    for gname in ('random_orthog_directions_within_bounds', 'random_directions_within_bounds'):
        g = [n for n in ut.body if isinstance(n, ast.FunctionDef) and n.name == gname]
        if len(g) != 1:
            raise Untranslatable('UNTRANSLATABLE: %s not found' % gname)
        g = g[0]
        loops = [s for s in g.body if isinstance(s, ast.For)]
        last = loops[-1] if loops else None
        ok = last is not None and ast.unparse(last.target) == 'i' and ast.unparse(last.iter) == 'range(num_pts)' and len(last.body) == 1 and \
            isinstance(last.body[0], ast.Assign) and ast.unparse(last.body[0].targets[0]) == 'results[:, i]' and \
            isinstance(g.body[-1], ast.Return) and g.body.index(last) == len(g.body) - 2
        if not ok:
            raise Untranslatable('UNTRANSLATABLE line %d: %s does not end with the clipping loop over range(num_pts) followed by return' % (g.lineno, gname))
        rhs = last.body[0].value
        e2 = ast.parse(ast.unparse(rhs).replace('results[:, i]', 'col'), mode='eval').body
        t = expr_tr(util, {'col': 'vec', 'lower': 'vec', 'upper': 'vec'})
        txt, _ = t.e(e2, want='vec')
        out.append('Definition py_util_%s_tail (l_col l_lower l_upper : vec) : vec :=\n%s.\n' % (gname, t.finish(txt)))
    return '\n'.join(out) + '\n'


# ------------------------------------------------------------------------------------------------ coordinate initialisation (C14)
class _InitNorm(ast.NodeTransformer):
    """self.delta -> delta ; self.model.sl[dirn] / self.model.sl -> sl ; same for su ; at_*_boundary[dirn] -> at_*"""

    def visit_Subscript(self, n):
        t = ast.unparse(n)
        m = {'self.model.sl[dirn]': 'sl', 'self.model.su[dirn]': 'su', 'at_lower_boundary[dirn]': 'at_lower', 'at_upper_boundary[dirn]': 'at_upper'}
        if t in m:
            return ast.copy_location(ast.Name(id=m[t], ctx=ast.Load()), n)
        fail(n, 'unexpected subscript in the coordinate initialisation: %s' % t)

    def visit_Attribute(self, n):
        t = ast.unparse(n)
        m = {'self.delta': 'delta', 'self.model.sl': 'sl', 'self.model.su': 'su'}
        if t in m:
            return ast.copy_location(ast.Name(id=m[t], ctx=ast.Load()), n)
        fail(n, 'unexpected attribute in the coordinate initialisation: %s' % t)


def gen_coord_init(trees, util):
    """the decision logic of Controller.initialise_coordinate_directions for one coordinate (bounds case): the two
    boundary tests, the first step and the second step, as scalar Gallina functions; fail closed on the statement texts
    around them (the step is written into xpts_added[k, dirn] and evaluated through as_absolute_coordinates)"""
    ct = trees['controller']
    cls = [n for n in ct.body if isinstance(n, ast.ClassDef) and n.name == 'Controller']
    fn = [k for k in (cls[0].body if cls else []) if isinstance(k, ast.FunctionDef) and k.name == 'initialise_coordinate_directions']
    if len(fn) != 1:
        raise Untranslatable('UNTRANSLATABLE: Controller.initialise_coordinate_directions not found exactly once')
    fn = fn[0]
    def assigns(name, root):
        return [a for a in ast.walk(root) if isinstance(a, ast.Assign) and len(a.targets) == 1 and ast.unparse(a.targets[0]) == name]
    out = []
    for nm, var in (('at_lower_boundary', 'sl'), ('at_upper_boundary', 'su')):
        a = assigns(nm, fn)
        if len(a) != 1:
            fail(fn, '%s must be assigned exactly once' % nm)
        e2 = _InitNorm().visit(ast.parse(ast.unparse(a[0].value), mode='eval').body)
        t = expr_tr(util, {var: 'T', 'delta': 'T'})
        txt, _ = t.e(e2, want='B')
        out.append('Definition py_init_%s (l_%s l_delta : T) : bool :=\n%s.\n' % (nm, var, t.finish(txt)))
    # the sequential branch: for k in range(1, num_directions + 1): if 1 <= k < self.n() + 1: ... elif self.n() + 1 <= k < 2 * self.n() + 1: ...
    loops = [l for l in ast.walk(fn) if isinstance(l, ast.For) and ast.unparse(l.iter) == 'range(1, num_directions + 1)']
    seq = [l for l in loops if l.body and isinstance(l.body[0], ast.If) and ast.unparse(l.body[0].test) == '1 <= k < self.n() + 1']
    if len(seq) != 1:
        fail(fn, 'sequential coordinate loop not found exactly once')
    first = seq[0].body[0]
    if not (len(first.orelse) == 1 and isinstance(first.orelse[0], ast.If) and ast.unparse(first.orelse[0].test) == 'self.n() + 1 <= k < 2 * self.n() + 1'):
        fail(first, 'second-step branch not found')
    second = first.orelse[0]
    btxt = [ast.unparse(x) for x in first.body]
    if btxt[0] != 'dirn = k - 1' or btxt[-1] != 'xpts_added[k, dirn] = stepa' or len(assigns('stepa', ast.Module(body=first.body, type_ignores=[]))) != 1:
        fail(first, 'first-step branch is not dirn = k - 1; stepa = ...; xpts_added[k, dirn] = stepa (got %r)' % btxt)
    sa = assigns('stepa', ast.Module(body=first.body, type_ignores=[]))[0]
    e2 = _InitNorm().visit(ast.parse(ast.unparse(sa.value), mode='eval').body)
    t = expr_tr(util, {'at_upper': 'B', 'delta': 'T'})
    txt, _ = t.e(e2, want='T')
    out.append('Definition py_init_stepa (l_at_upper : bool) (l_delta : T) : T :=\n%s.\n' % t.finish(txt))
    # every other stepa in the function that feeds a first step (the run_in_parallel loop) must be the same expression
    for a in assigns('stepa', fn):
        if a is not sa and ast.unparse(a.value) not in (ast.unparse(sa.value), 'xpts_added[k - self.n(), dirn]', 'None'):
            fail(a, 'a first step computed differently: %s' % ast.unparse(a.value))
    # second step: stepb = <e0>; if at_lower_boundary[dirn]: stepb = <e1>; if at_upper_boundary[dirn]: stepb = <e2>; xpts_added[k, dirn] = stepb
    stx = [x for x in second.body if not (isinstance(x, ast.Expr) and isinstance(x.value, ast.Constant))]
    txts = [ast.unparse(x) for x in stx]
    if not (txts[0] == 'dirn = k - self.n() - 1' and txts[1] == 'stepa = xpts_added[k - self.n(), dirn]' and txts[-1] == 'xpts_added[k, dirn] = stepb' and len(stx) == 6
            and isinstance(stx[2], ast.Assign) and ast.unparse(stx[2].targets[0]) == 'stepb'
            and isinstance(stx[3], ast.If) and ast.unparse(stx[3].test) == 'at_lower_boundary[dirn]' and not stx[3].orelse and len([y for y in stx[3].body if isinstance(y, ast.Assign)]) == 1
            and isinstance(stx[4], ast.If) and ast.unparse(stx[4].test) == 'at_upper_boundary[dirn]' and not stx[4].orelse and len([y for y in stx[4].body if isinstance(y, ast.Assign)]) == 1):
        fail(second, 'second-step branch has an unexpected shape: %r' % txts)
    def only_assign(ifn):
        ys = [y for y in ifn.body if not (isinstance(y, ast.Expr) and isinstance(y.value, ast.Constant))]
        if len(ys) != 1 or ast.unparse(ys[0].targets[0]) != 'stepb':
            fail(ifn, 'branch does more than assign stepb')
        return ys[0].value
    es = [stx[2].value, only_assign(stx[3]), only_assign(stx[4])]
    parts = []
    for e in es:
        e2 = _InitNorm().visit(ast.parse(ast.unparse(e), mode='eval').body)
        t = expr_tr(util, {'delta': 'T', 'sl': 'T', 'su': 'T'})
        txt, _ = t.e(e2, want='T')
        parts.append(t.finish(txt))
    out.append('Definition py_init_stepb (l_at_lower l_at_upper : bool) (l_delta l_sl l_su : T) : T :=\n'
               '  let s0 := %s in\n  let s1 := if l_at_lower then %s else s0 in\n  if l_at_upper then %s else s1.\n' % tuple(parts))
    # the point evaluated is the clipped one
    evals = [ast.unparse(a.value) for a in assigns('x', seq[0])]
    if evals != ['self.model.as_absolute_coordinates(xpts_added[k, :])']:
        fail(seq[0], 'the coordinate loop does not evaluate as_absolute_coordinates(xpts_added[k, :]) (got %r)' % evals)
    return '\n'.join(out) + '\n'


# ------------------------------------------------------------------------------------------------ x0 sampling block (C02)
X0_ORACLE = dict(name='eval_least_squares_with_regularisation', ans='ans',
                 argorder=['objfun', 'x', 'h', 'argsf', 'argsh', 'verbose', 'eval_num', 'pt_num', 'full_x_thresh', 'check_for_overflow'],
                 log=[('x', 'vec'), ('eval_num', 'Z'), ('pt_num', 'Z')],
                 require={'objfun': 'objfun', 'h': 'h', 'argsf': 'argsf', 'argsh': 'argsh'})
X0_DROP = {'m', 'rvec_list', 'obj_list'}       # names that only hold residual storage; every other statement is kept


def x0_block_source(solver_tree):
    """the counter slice of `if r0_avg_old is None:` in solve_main, up to the end of the sampling loop, as the source of a
    function x0_block(nf_so_far, nx_so_far, maxfun, number_of_samples, x0, scaling_changes) -> (nf, nx, num_samples_run, exit_info)"""
    fn = find_func(solver_tree, 'solve_main')
    ifs = [s for s in fn.body if isinstance(s, ast.If)]
    if not ifs or ast.unparse(ifs[0].test) != 'r0_avg_old is None':
        fail(fn, 'solve_main does not start with `if r0_avg_old is None:`')
    body = ifs[0].body
    loops = [i for i, s in enumerate(body) if isinstance(s, ast.For)]
    if len(loops) != 1:
        fail(ifs[0], 'expected exactly one sampling loop in the x0 block')
    k = [0]

    def base(t):
        while isinstance(t, (ast.Subscript, ast.Attribute)):
            t = t.value
        return t.id if isinstance(t, ast.Name) else None

    def is_oracle(v):
        return isinstance(v, ast.Call) and isinstance(v.func, ast.Name) and v.func.id == X0_ORACLE['name']

    def rewrite(s):
        if isinstance(s, ast.Expr) and isinstance(s.value, ast.Constant):
            return []
        if isinstance(s, ast.Assign) and len(s.targets) == 1:
            tg = s.targets[0]
            if is_oracle(s.value):
                k[0] += 1
                new = ast.parse('r_%d, o_%d = 0' % (k[0], k[0])).body[0]
                new.value = s.value
                return [ast.copy_location(new, s)]
            names = [base(e) for e in (tg.elts if isinstance(tg, ast.Tuple) else [tg])]
            if all(n in X0_DROP for n in names):
                return []
            if ast.unparse(tg) == 'number_of_samples':
                if ast.unparse(s.value) != 'max(nsamples(rhobeg, rhobeg, 0, nruns_so_far), 1)':
                    fail(s, 'number_of_samples of the x0 block is not max(nsamples(...), 1)')
                return []
            return [s]
        if isinstance(s, ast.For):
            nb = []
            for b in s.body:
                nb += rewrite(b)
            return [ast.copy_location(ast.For(target=s.target, iter=s.iter, body=nb, orelse=[]), s)]
        return [s]
    out = []
    for s in body[:loops[0] + 1]:
        out += rewrite(s)
    src = 'def x0_block(nf_so_far, nx_so_far, maxfun, number_of_samples, x0, scaling_changes):\n'
    for s in out:
        src += '\n'.join('    ' + l for l in ast.unparse(s).split('\n')) + '\n'
    src += '    return (nf, nx, num_samples_run, exit_info)\n'
    return src


def gen_x0_block(solver_tree, util, consts):
    from .py2coq import translate_function
    src = x0_block_source(solver_tree)
    sp = dict(toplevel=True, params={'nf_so_far': 'Z', 'nx_so_far': 'Z', 'maxfun': 'Z', 'number_of_samples': 'Z', 'x0': 'vec', 'scaling_changes': 'opt:scal'},
              ret='tup:Z|Z|Z|opt:exit', oracle=X0_ORACLE, locals={'exit_info': 'opt:exit'})
    mod = Module('solver', ast.parse(src), funcs={'x0_block': sp}, others={'util': util})
    mod.consts = dict(consts)
    return '(* counter slice of the x0 sampling block of solve_main:\n' + src.replace('*)', '* )') + '*)\n' + translate_function(mod, 'x0_block') + '\n'
