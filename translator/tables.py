"""Site tables (DESIGN 3.3): data, not code.  For every function of the listed source files emit
  T_calls    every call of a tabled callee, with its argument texts, enclosing guards and ordinal
  T_assigns  every assignment / augmented assignment to a tabled target (self.nf, control.delta, nruns_so_far, ...)
  T_returns  every return of the tabled functions with the texts of the returned tuple elements
  T_regions  for every `... = *.evaluate_objective(...)` statement the control-flow tree from the call to the first
             commit / exit on every path
  T_defs     names and parameter lists of functions and lambdas bound to tabled names
The decision whether a table is acceptable is made by Gallina checkers (DV.Lib.Tables), never here."""
import ast

CALLEES = {'save_point', 'change_point', 'add_new_point', 'add_new_sample', 'swap_points', 'shift_base', 'get_final_results',
           'evaluate_objective', 'eval_least_squares_with_regularisation', 'objfun', 'objfun_orig', 'ExitInformation', 'OptimResults',
           'solve_main', 'soft_restart', 'reduce_rho', 'h', 'prox_uh', 'dykstra', 'save_info_from_control', 'Controller', 'Model',
           'remove_scaling', 'apply_scaling', 'gradient_Fu', 'nsamples', 'ParameterList', 'DiagnosticInfo', 'trsbox', 'd_within_bounds',
           'ctrsbox_sfista', 'ctrsbox_pgd', 'ctrsbox_geometry', 'trsbox_geometry', 'pbox', 'pball', 'copy', 'astype', 'seed', 'append', 'allclose', 'initialise_random_directions', 'initialise_coordinate_directions',
           'random_orthog_directions_within_bounds', 'random_directions_within_bounds', 'get_new_direction_for_growing',
           'add_new_direction_while_growing', 'move_furthest_points_momentum', 'geometry_step', 'calculate_ratio', 'trust_region_step', 'list', 'dict', 'items'}
TARGET_ATTRS = {'nf', 'nx', 'delta', 'rho', 'rhoend', 'rhobeg', 'maxfun', 'kopt', 'eval_num', 'nsamples', 'objsave', 'xsave',
                'last_successful_iter', 'last_run_fixed_rho', 'total_unsuccessful_restarts', 'factorisation_current',
                'rsave', 'points', 'fval_v', 'objval', 'jacsave', 'jacsave_eval_nums', 'nsamples_save', 'eval_num_save', 'model_jac', 'model_jac_eval_nums',
                'model_const', 'xbase', 'sl', 'su', 'x', 'resid', 'obj', 'jacobian', 'nruns', 'flag', 'msg', 'xmin_eval_num', 'jacmin_eval_nums',
                'diagnostic_info', 'projections'}
TARGET_NAMES = {'nruns_so_far', 'nf', 'nx', 'rhoend', 'rhobeg', 'exit_info', 'objfun', 'objfun_orig', 'xl_orig', 'xu_orig', 'xl', 'xu', 'x0',
                'number_of_samples', 'num_samples_run', 'rvec_list', 'x', 'xnew', 'current_iter', 'nruns', 'maxfun', 'npt', 'user_params',
                'scaling_changes', 'projections', 'params', 'xmin', 'rmin', 'objmin', 'jacmin', 'xmin_eval_num', 'jacmin_eval_nums',
                'last_successful_run', 'total_unsuccessful_restarts', 'exit_flag', 'exit_msg', 'results', 'nsamples_min',
                'rvec', 'obj', 'nsamples', 'x_eval_num', 'jac_eval_nums', 'xmin2', 'rmin2', 'objmin2', 'jacmin2', 'nsamples2',
                'xmin_eval_num2', 'jacmin_eval_nums2', 'diagnostic_info', 'r0_avg', 'obj0_avg', 'nx_so_far', 'nf_so_far', 'x0_eval_num',
                'xlb', 'xub', 'xp', 'bproj', 'xabs', 'ok_to_do_restart', 'soln_dict', 'resid', 'jacobian', 'flag', 'msg', 'soln', 'output', 'd', 'P', 'p', 'pred_reduction', 'g', 'H', 'J', 'r', 'W', 'right_scaling', 'left_scaling',
                'eval_nx', 'tau', 'bounds_error', 'kmin', 'knew', 'sq_distances', 'all_sq_dist', 'furthest_points', 'closest_points', 'distsq', 'upper_limit', 'xopt', 'default_growing_method_set_by_user'}
COMMITS = {'save_point', 'change_point', 'add_new_point'}
FILES = ('util', 'model', 'controller', 'solver', 'trust_region', 'params', 'diagnostic_info')


def q(s):
    return '"' + s.replace('"', '""') + '"'


def zl(z):
    return str(z) if z >= 0 else '(%d)' % z


def dotted(f):
    try:
        return ast.unparse(f)
    except Exception:
        return '?'


def last_name(f):
    if isinstance(f, ast.Attribute):
        return f.attr
    if isinstance(f, ast.Name):
        return f.id
    return '?'


def is_log(s):
    from .py2coq import is_logging_stmt
    return is_logging_stmt(s)


class Walker:
    def __init__(self, modname, tree):
        self.mod = modname
        self.tree = tree
        self.calls, self.assigns, self.returns, self.regions, self.defs, self.flows = [], [], [], [], [], []
        self.ordinals = {}

    def run(self):
        for n in self.tree.body:
            if isinstance(n, ast.FunctionDef):
                self.func(n, n.name)
            elif isinstance(n, ast.ClassDef):
                for k in n.body:
                    if isinstance(k, ast.FunctionDef):
                        self.func(k, n.name + '.' + k.name)
                    elif isinstance(k, (ast.Assign, ast.AnnAssign, ast.AugAssign)):
                        # state shared by all instances of the class (and by all calls of solve in one process)
                        self.defs.append((self.mod, n.name, 'classattr:' + ast.unparse(k), [], k.lineno))

    def func(self, fn, qual):
        a = fn.args
        params = [x.arg for x in a.posonlyargs + a.args] + (['*' + a.vararg.arg] if a.vararg else []) + [x.arg for x in a.kwonlyargs]
        self.defs.append((self.mod, qual, 'def', params, fn.lineno))
        self.block(fn.body, qual, [], rest=[])

    def ordinal(self, qual, key):
        k = (qual, key)
        self.ordinals[k] = self.ordinals.get(k, -1) + 1
        return self.ordinals[k]

    def exprs(self, node, qual, guards):
        for c in ast.walk(node):
            if isinstance(c, ast.Call):
                ln = last_name(c.func)
                dt = dotted(c.func)
                if ln in CALLEES or dt.startswith('np.random') or dt.startswith('random.') or dt.startswith('user_params.') or \
                        (ln == 'params' and any(k.arg == 'new_value' for k in c.keywords)):      # parameter writes, not the hundreds of reads
                    args = [ast.unparse(x) for x in c.args] + ['%s=%s' % (k.arg, ast.unparse(k.value)) if k.arg else '**' + ast.unparse(k.value) for k in c.keywords]
                    self.calls.append((self.mod, qual, ln, dt, self.ordinal(qual, ln), args, list(guards), c.lineno))
            elif isinstance(c, ast.Lambda):
                pass

    def block(self, stmts, qual, guards, rest):
        """rest = statements that follow this block in the enclosing blocks (for region continuation)"""
        for i, s in enumerate(stmts):
            after = stmts[i + 1:]
            if isinstance(s, ast.FunctionDef):
                self.func(s, qual + '.' + s.name)      # nested function (e.g. the proj closures of ctrsbox_*)
                continue
            if isinstance(s, ast.ClassDef):
                continue
            if isinstance(s, ast.If):
                cond = ast.unparse(s.test)
                self.exprs(s.test, qual, guards)
                self.block(s.body, qual, guards + [(True, cond)], rest=after + rest)
                self.block(s.orelse, qual, guards + [(False, cond)], rest=after + rest)
                # `if c: ...; break/return/continue/raise` without else: what follows runs only when c is false
                if not s.orelse and s.body and isinstance(s.body[-1], (ast.Break, ast.Return, ast.Continue, ast.Raise)):
                    guards = guards + [(False, cond)]
                continue
            if isinstance(s, (ast.For, ast.While)):
                hdr = ('for %s in %s' % (ast.unparse(s.target), ast.unparse(s.iter))) if isinstance(s, ast.For) else ('while %s' % ast.unparse(s.test))
                self.exprs(s.iter if isinstance(s, ast.For) else s.test, qual, guards)
                self.block(s.body, qual, guards + [(True, hdr)], rest=[ast.Continue()])
                self.block(s.orelse, qual, guards, rest=after + rest)
                continue
            if isinstance(s, ast.Try):
                self.block(s.body, qual, guards + [(True, 'try')], rest=after + rest)
                for h in s.handlers:
                    self.block(h.body, qual, guards + [(True, 'except ' + (ast.unparse(h.type) if h.type else ''))], rest=after + rest)
                self.block(s.finalbody, qual, guards, rest=after + rest)
                continue
            if isinstance(s, ast.With):
                self.block(s.body, qual, guards, rest=after + rest)
                continue
            # simple statements
            if isinstance(s, ast.Return):
                vals = []
                if s.value is not None:
                    vals = [ast.unparse(e) for e in s.value.elts] if isinstance(s.value, ast.Tuple) else [ast.unparse(s.value)]
                self.returns.append((self.mod, qual, self.ordinal(qual, '#return'), vals, list(guards), s.lineno))
            if isinstance(s, (ast.Break, ast.Continue, ast.Raise)):
                kind = type(s).__name__.lower()
                self.flows.append((self.mod, qual, kind, self.ordinal(qual, '#' + kind), list(guards), getattr(s, 'lineno', 0)))
            if isinstance(s, ast.Delete):
                self.flows.append((self.mod, qual, ast.unparse(s), self.ordinal(qual, '#del'), list(guards), s.lineno))
            if isinstance(s, (ast.Assign, ast.AugAssign, ast.AnnAssign)):
                targets = s.targets if isinstance(s, ast.Assign) else [s.target]
                flat = []
                for t in targets:
                    flat += (t.elts if isinstance(t, ast.Tuple) else [t])
                op = '=' if not isinstance(s, ast.AugAssign) else {ast.Add: '+=', ast.Sub: '-=', ast.Mult: '*=', ast.Div: '/='}.get(type(s.op), '?=')
                val = ast.unparse(s.value) if s.value is not None else ''
                for ti, t in enumerate(flat):
                    base = t
                    while isinstance(base, ast.Subscript):
                        base = base.value
                    name = base.attr if isinstance(base, ast.Attribute) else (base.id if isinstance(base, ast.Name) else '?')
                    if (isinstance(base, ast.Attribute) and (name in TARGET_ATTRS or name.startswith('EXIT_'))) or (isinstance(base, ast.Name) and name in TARGET_NAMES):
                        self.assigns.append((self.mod, qual, name, ast.unparse(t), op, val, self.ordinal(qual, '=' + name), list(guards), s.lineno, ti, len(flat)))
                    if isinstance(s.value, ast.Lambda) and isinstance(t, ast.Name):
                        la = s.value.args
                        params = [x.arg for x in la.args] + (['*' + la.vararg.arg] if la.vararg else [])
                        self.defs.append((self.mod, qual + '.' + t.id, 'lambda:' + ast.unparse(s.value.body), params, s.lineno))
                if isinstance(s.value, ast.Call) and last_name(s.value.func) == 'evaluate_objective':
                    o = self.ordinals.get((qual, 'evaluate_objective'), -1) + 1
                    self.regions.append((self.mod, qual, o, [ast.unparse(x) for x in s.value.args], region(after, rest, depth=0), s.lineno))
            for child in ast.iter_child_nodes(s):
                if isinstance(child, ast.expr):
                    self.exprs(child, qual, guards)


# ------------------------------------------------------------------------------------------------ regions
def guard_class(test):
    t = ast.unparse(test)
    if t in ('exit_info is not None',):
        return 'GExitInfoSet', t
    if t in ('num_samples_run > 0',):
        return 'GHasSamples', t
    if t in ('np.any(np.isnan(rvec_list))', 'np.any(np.isnan(rvec_list[:num_samples_run, :]))'):
        return 'GHasNaN', t
    return 'GOpaque', t


def commit_of(s):
    if isinstance(s, ast.Expr) and isinstance(s.value, ast.Call) and last_name(s.value.func) in COMMITS:
        c = s.value
        args = [ast.unparse(x) for x in c.args] + ['%s=%s' % (k.arg, ast.unparse(k.value)) for k in c.keywords]
        return last_name(c.func), args
    return None


def region(stmts, rest, depth):
    """Coq term of type region for the statement list `stmts` continued by `rest`"""
    if depth > 40:
        return 'RDeferred'
    for i, s in enumerate(stmts):
        after = stmts[i + 1:]
        if is_log(s) and not isinstance(s, ast.If):
            continue
        if isinstance(s, ast.If):
            if is_log(s):
                continue
            gc, gt = guard_class(s.test)
            return '(RBranch %s %s %s %s)' % (gc, q(gt), region(s.body + after, rest, depth + 1), region(s.orelse + after, rest, depth + 1))
        cm = commit_of(s)
        if cm is not None:
            return '(RCommit %s [%s] %s)' % (q(cm[0]), '; '.join(q(a) for a in cm[1]), 'RStop')
        if isinstance(s, ast.Return):
            return '(RExit "return")'
        if isinstance(s, ast.Break):
            return '(RExit "break")'
        if isinstance(s, ast.Continue):
            return '(RExit "continue")'
        if isinstance(s, ast.Raise):
            return 'RRaise'
        if isinstance(s, (ast.For, ast.While)):
            return '(ROpaqueLoop %s)' % q(ast.unparse(s).split('\n')[0][:80])
        if isinstance(s, ast.Assign) and isinstance(s.value, ast.Call):
            ln = last_name(s.value.func)
            if ln == 'evaluate_objective':
                return 'RNextEval'
            if ln == 'soft_restart':
                return '(RRestart %s)' % region(after, rest, depth + 1)
            # an assignment that re-binds exit_info from another call: subsequent `exit_info is not None` guards are about that call
            tnames = []
            for t in s.targets:
                tnames += [ast.unparse(e) for e in (t.elts if isinstance(t, ast.Tuple) else [t])]
            if 'exit_info' in tnames:
                return '(RRebind %s %s)' % (q(ln), region_rebound(after, rest, depth + 1))
        if isinstance(s, ast.Assign) and ast.unparse(s.targets[0]) == 'exit_info':
            return '(RRebind "assign" %s)' % region_rebound(after, rest, depth + 1)
        # any other simple statement: no effect on the saved/incumbent bookkeeping
        continue
    if rest:
        return region(rest, [], depth + 1)
    return '(RExit "end")'


def region_rebound(stmts, rest, depth):
    """after exit_info has been re-bound by another call, `exit_info is not None` no longer refers to the evaluation"""
    txt = region(stmts, rest, depth)
    return txt.replace('RBranch GExitInfoSet', 'RBranch GOtherExitInfoSet')


# ------------------------------------------------------------------------------------------------ emission
def guards_lit(gs):
    return '[' + '; '.join('(%s, %s)' % ('true' if p else 'false', q(t)) for p, t in gs) + ']'


def slist(xs):
    return '[' + '; '.join(q(x) for x in xs) + ']'


HEADER = '''(* GENERATED from /repo/dfols/*.py by /verif/translator/tables.py -- site tables; regenerated on every check *)
From Coq Require Import ZArith List Bool String.
Require Import DV.Lib.Tables.
Import ListNotations.
Open Scope Z_scope.
Open Scope string_scope.
'''


def bnd(node):
    if isinstance(node, ast.Constant) and node.value is None:
        return 'BNone'
    if isinstance(node, ast.UnaryOp) and isinstance(node.op, ast.USub) and isinstance(node.operand, ast.Constant):
        node = ast.Constant(value=-node.operand.value)
    if isinstance(node, ast.Constant) and isinstance(node.value, bool):
        return '(BOther %s)' % q(ast.unparse(node))
    if isinstance(node, ast.Constant) and isinstance(node.value, int):
        return '(BZ %s)' % zl(node.value)
    if isinstance(node, ast.Constant) and isinstance(node.value, float):
        from .py2coq import float_lit
        m, e = float_lit(node.value)
        return '(BF %s %s)' % (zl(m), zl(e))
    return '(BOther %s)' % q(ast.unparse(node))


def params_table(tree):
    """rows of ParameterList.param_type: key, type string, None allowed, lower, upper; and the defaults' keys of __init__"""
    rows, keys = [], []
    for cls in [n for n in tree.body if isinstance(n, ast.ClassDef) and n.name == 'ParameterList']:
        for fn in [k for k in cls.body if isinstance(k, ast.FunctionDef)]:
            if fn.name == 'param_type':
                for node in ast.walk(fn):
                    if isinstance(node, ast.If) and isinstance(node.test, ast.Compare) and ast.unparse(node.test.left) == 'key' and \
                            isinstance(node.test.comparators[0], ast.Constant):
                        key = node.test.comparators[0].value
                        st = [s for s in node.body if isinstance(s, ast.Assign)]
                        if len(st) == 1 and isinstance(st[0].value, ast.Tuple) and len(st[0].value.elts) == 4 and \
                                ast.unparse(st[0].targets[0]) == '(type_str, nonetype_ok, lower, upper)':
                            t, nn, lo, hi = st[0].value.elts
                            rows.append('  (%s, %s, %s, %s, %s)' % (q(key), q(ast.unparse(t).strip("'")), 'true' if ast.unparse(nn) == 'True' else 'false', bnd(lo), bnd(hi)))
                        else:
                            rows.append('  (%s, "?", false, (BOther "unrecognised row"), BNone)' % q(key))
            if fn.name == '__init__':
                for node in ast.walk(fn):
                    if isinstance(node, ast.Assign) and isinstance(node.targets[0], ast.Subscript) and ast.unparse(node.targets[0].value) == 'self.params' and \
                            isinstance(node.targets[0].slice, ast.Constant):
                        keys.append(node.targets[0].slice.value)
    return rows, keys


def doc_exit_names():
    import os, re
    repo = os.environ.get('DFOLS_REPO', '/repo')
    names = []
    try:
        txt = open(os.path.join(repo, 'docs', 'userguide.rst')).read()
        for m in re.finditer(r'EXIT_[A-Z_]+', txt):
            if m.group(0) not in names:
                names.append(m.group(0))
    except OSError:
        pass
    return names


def generate(load):
    ws = []
    for f in FILES:
        w = Walker(f, load(f))
        w.run()
        ws.append(w)
    out = [HEADER]
    out.append('Definition T_calls : list csite := [')
    out.append(';\n'.join('  mk_csite %s %s %s %s %s %s %s %s' % (q(m), q(fn), q(ln), q(dt), zl(o), slist(args), guards_lit(g), zl(line))
                          for w in ws for (m, fn, ln, dt, o, args, g, line) in w.calls))
    out.append('].\n')
    out.append('Definition T_assigns : list asite := [')
    out.append(';\n'.join('  mk_asite %s %s %s %s %s %s %s %s %s %s %s' % (q(m), q(fn), q(nm), q(tt), q(op), q(val), zl(o), guards_lit(g), zl(line), zl(ti), zl(tn))
                          for w in ws for (m, fn, nm, tt, op, val, o, g, line, ti, tn) in w.assigns))
    out.append('].\n')
    out.append('Definition T_returns : list rsite := [')
    out.append(';\n'.join('  mk_rsite %s %s %s %s %s %s' % (q(m), q(fn), zl(o), slist(vals), guards_lit(g), zl(line))
                          for w in ws for (m, fn, o, vals, g, line) in w.returns))
    out.append('].\n')
    out.append('Definition T_flows : list fsite := [')
    out.append(';\n'.join('  mk_fsite %s %s %s %s %s %s' % (q(m), q(fn), q(k), zl(o), guards_lit(g), zl(line))
                          for w in ws for (m, fn, k, o, g, line) in w.flows))
    out.append('].\n')
    out.append('Definition T_regions : list rgsite := [')
    out.append(';\n'.join('  mk_rgsite %s %s %s %s %s\n    %s' % (q(m), q(fn), zl(o), slist(args), zl(line), r)
                          for w in ws for (m, fn, o, args, r, line) in w.regions))
    out.append('].\n')
    out.append('Definition T_defs : list dsite := [')
    out.append(';\n'.join('  mk_dsite %s %s %s %s %s' % (q(m), q(fn), q(k), slist(ps), zl(line))
                          for w in ws for (m, fn, k, ps, line) in w.defs))
    out.append('].\n')
    rows, keys = params_table(load('params'))
    out.append('Definition T_params : list (string * string * bool * bnd * bnd) := [\n' + ';\n'.join(rows) + '].\n')
    out.append('Definition T_param_defaults : list string := ' + slist(keys) + '.\n')
    out.append('Definition T_doc_exit_names : list string := ' + slist(doc_exit_names()) + '.\n')
    n = sum(len(w.calls) + len(w.assigns) + len(w.returns) + len(w.regions) + len(w.defs) + len(w.flows) for w in ws)
    return '\n'.join(out), n
