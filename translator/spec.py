"""Schemas for the translated functions: field and parameter types (the translator rejects anything that does
not fit them).  These are *type annotations for untyped Python*, not descriptions of behaviour."""

# ---------------------------------------------------------------- util.py
UTIL_FUNCS = {
    'sumsq': dict(toplevel=True, pure=True, params={'x': 'vec'}, ret='T'),
    'apply_scaling': dict(toplevel=True, pure=True, params={'x_raw': 'vec', 'scaling_changes': 'opt:scal'}, ret='vec'),
    'remove_scaling': dict(toplevel=True, pure=True, params={'x_scaled': 'vec', 'scaling_changes': 'opt:scal'}, ret='vec'),
    'pbox': dict(toplevel=True, pure=True, params={'x': 'vec', 'l': 'vec', 'u': 'vec'}, ret='vec'),
    'pball': dict(toplevel=True, pure=True, params={'x': 'vec', 'c': 'vec', 'r': 'T'}, ret='vec'),
    'dykstra': dict(toplevel=True, params={'P': 'list:proj', 'x0': 'vec', 'max_iter': 'Z', 'tol': 'T'},
                    defaults={'max_iter': '100', 'tol': '(ofdy 7737125245533627 (-86))'},
                    ret='vec', fuel='(Z.to_nat l_max_iter)', locals={'cI': 'T'},
                    extra_ret=[('y', 'mat'), ('cI', 'T'), ('n', 'Z')], pure_wrapper='l_x0'),
}

# ---------------------------------------------------------------- model.py
MODEL_FIELDS = {
    'dim': 'Z', 'resid_dim': 'Z', 'num_pts': 'Z', 'npt_so_far': 'Z',
    'xbase': 'vec', 'sl': 'vec', 'su': 'vec', 'projections': 'list:proj',
    'points': 'mat', 'fval_v': 'mat', 'objval': 'vec',
    'kopt': 'Z', 'nsamples': 'zvec', 'eval_num': 'zvec', 'objbeg': 'T', 'abs_tol': 'T', 'rel_tol': 'T',
    'model_const': 'vec', 'model_jac': 'mat', 'model_jac_eval_nums': 'opt:zvec',
    'xsave': 'opt:vec', 'rsave': 'opt:vec', 'objsave': 'opt:T', 'jacsave': 'opt:mat',
    'nsamples_save': 'opt:Z', 'eval_num_save': 'opt:Z', 'jacsave_eval_nums': 'opt:zvec',
    'factorisation_current': 'B', 'h': 'opt:hfun', 'scaling_changes': 'opt:scal',
}

MODEL_FUNCS = {
    'n': dict(pure=True, params={}, ret='Z'),
    'm': dict(pure=True, params={}, ret='Z'),
    'npt': dict(pure=True, params={}, ret='Z'),
    'xpt': dict(pure=True, ignore_asserts=True, params={'k': 'Z', 'abs_coordinates': 'B'}, defaults={'abs_coordinates': 'false'}, ret='vec'),
    'xopt': dict(pure=True, params={'abs_coordinates': 'B'}, defaults={'abs_coordinates': 'false'}, ret='vec'),
    'ropt': dict(pure=True, params={}, ret='vec'),
    'objopt': dict(pure=True, params={}, ret='T'),
    'as_absolute_coordinates': dict(pure=True, params={'x': 'vec'}, fixed={'full_dykstra': False}, ret='vec'),
    'min_objective_value': dict(pure=True, params={}, ret='T'),
    'change_point': dict(params={'k': 'Z', 'x': 'vec', 'rvec': 'vec', 'eval_num': 'Z', 'allow_kopt_update': 'B'},
                         defaults={'allow_kopt_update': 'true'}),
    'swap_points': dict(params={'k1': 'Z', 'k2': 'Z'}),
    'add_new_sample': dict(params={'k': 'Z', 'rvec_extra': 'vec'}),
    'add_new_point': dict(params={'x': 'vec', 'rvec': 'vec', 'eval_num': 'Z'}),
    'shift_base': dict(params={'xbase_shift': 'vec'}),
    'save_point': dict(params={'x': 'vec', 'rvec': 'vec', 'nsamples': 'Z', 'eval_num': 'Z', 'x_in_abs_coords': 'B'},
                       defaults={'x_in_abs_coords': 'true'}, ret='B'),
    'get_final_results': dict(params={}, ret='tup:opt:vec|opt:vec|opt:T|opt:mat|opt:Z|opt:Z|opt:zvec'),
    'build_full_model': dict(pure=True, params={}, ret='tup:vec|mat'),
}

# ---------------------------------------------------------------- controller.py
CONTROLLER_CONSTS = ('EXIT_TR_INCREASE_WARNING', 'EXIT_AUTO_DETECT_RESTART_WARNING', 'EXIT_FALSE_SUCCESS_WARNING',
                     'EXIT_SLOW_WARNING', 'EXIT_MAXFUN_WARNING', 'EXIT_SUCCESS', 'EXIT_INPUT_ERROR',
                     'EXIT_TR_INCREASE_ERROR', 'EXIT_LINALG_ERROR', 'EXIT_EVAL_ERROR')

CONTROLLER_FIELDS = {
    'model': 'rec:model_state', 'nf': 'Z', 'nx': 'Z', 'maxfun': 'Z',
    'rhobeg': 'T', 'delta': 'T', 'rho': 'T', 'rhoend': 'T',
    'h': 'opt:hfun', 'scaling_changes': 'opt:scal', 'last_successful_iter': 'Z',
}

EVAL_ORACLE = dict(
    name='eval_least_squares_with_regularisation', ans='ans',
    argorder=['objfun', 'x', 'h', 'argsf', 'argsh', 'verbose', 'eval_num', 'pt_num', 'full_x_thresh', 'check_for_overflow'],
    log=[('x', 'vec'), ('eval_num', 'Z'), ('pt_num', 'Z')],
    require={'objfun': 'self.objfun', 'h': 'self.h', 'argsf': 'self.argsf', 'argsh': 'self.argsh'},
)

CONTROLLER_FUNCS = {
    'n': dict(pure=True, params={}, ret='Z'),
    'm': dict(pure=True, params={}, ret='Z'),
    'evaluate_objective': dict(params={'x': 'vec', 'number_of_samples': 'Z'}, fixed_any=('params',),
                               ret='tup:mat|vec|Z|opt:exit', oracle=EVAL_ORACLE, locals={'exit_info': 'opt:exit'}),
    'reduce_rho': dict(params={'current_iter': 'Z'}, fixed_any=('params',), pkeys={'tr_radius.alpha1': 'T', 'tr_radius.alpha2': 'T'}),
    # synthetic: choose_point_to_replace after its lagrange_gradient call (see gen.derive_chooser); cs, gs are the oracle's answer
    'choose_point_loop': dict(params={'d': 'vec', 'skip_kopt': 'B', 'cs': 'vec', 'gs': 'mat'}, ret='opt:Z',
                              locals={'scaden': 'opt:T', 'knew': 'opt:Z'}),
}

# ---------------------------------------------------------------- trust_region.py (the linear / geometry solvers over box and ball)
TR_CONSTS = ('ZERO_THRESH',)
TR_FUNCS = {
    'ball_step': dict(toplevel=True, pure=True, params={'x0': 'vec', 'g': 'vec', 'Delta': 'T'}, ret='T'),
    'trsbox_linear': dict(toplevel=True, params={'g': 'vec', 'a_in': 'vec', 'b_in': 'vec', 'Delta': 'T'}, fixed={'use_fortran': False}, ret='vec',
                          locals={'cons_dirns': 'zvec', 'hit_upper': 'opt:B', 'idx_hit': 'opt:Z'}),
    'd_within_bounds': dict(toplevel=True, pure=True, params={'d': 'vec', 'xopt': 'vec', 'sl': 'vec', 'su': 'vec', 'xbdi': 'zvec'}, ret='vec'),
    'alt_trust_step': dict(toplevel=True, params={'n': 'Z', 'xopt': 'vec', 'H': 'mat', 'sl': 'vec', 'su': 'vec', 'd': 'vec', 'xbdi': 'zvec', 'nact': 'Z',
                                                  'gnew': 'vec', 'qred': 'T'}, ret='tup:vec|vec',
                           locals={'iact': 'opt:Z'}, predeclare={'rdprev': 'T', 'rdnext': 'T', 'xsav': 'Z', 'angt': 'T'}),
    'trsbox': dict(toplevel=True, params={'xopt': 'vec', 'g': 'vec', 'H': 'mat', 'sl': 'vec', 'su': 'vec', 'delta': 'T'}, fixed={'use_fortran': False},
                   ret='tup:vec|vec|T', locals={'iact': 'opt:Z'}, predeclare={'gredsq': 'T', 'itermax': 'Z', 'gredsq0': 'T', 'ggsav': 'T'},
                   drop_asserts=('xopt.shape == (n,)', 'g.shape == (n,)', 'len(H.shape) == 2', 'H.shape == (n, n)', 'np.allclose(H, H.T)',
                                 'sl.shape == (n,)', 'su.shape == (n,)')),
    'trsbox_geometry': dict(toplevel=True, params={'xbase': 'vec', 'c': 'T', 'g': 'vec', 'lower': 'vec', 'upper': 'vec', 'Delta': 'T'},
                            fixed={'use_fortran': False}, ret='vec'),
}
