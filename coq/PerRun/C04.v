(* P.C04 -- The best point ever evaluated is never lost.
   (1) table obligations over the regions regenerated from controller.py / solver.py: after every evaluation, on
       every control-flow path, the evaluated point is committed (written into the interpolation set or offered to
       the saved slot) with coherent arguments before the path leaves the region;
   (2) model theorems over the regenerated Model methods: every value offered by a commit stays covered by
       min(incumbent, saved) along every admissible history, and the final-result query returns a value at least as
       good as everything covered;  (3) the hard-restart merge keeps the better result. *)
From Coq Require Import ZArith List Bool String Lia Reals.
Require Import DV.Base.Prelude DV.Base.F64 DV.Base.OrdLaws DV.Spec.Schema DV.Lib.MSpec DV.Lib.MBook DV.Lib.MDyk DV.Lib.Tables.
From G Require Import Gen_util Gen_model Gen_tables.
From P Require Import Char_model C17 Slots.
Import ListNotations.
Open Scope Z_scope.
Open Scope string_scope.

(* ---- (1) tables ---- *)
Definition region_key (g : rgsite) : string * Z := (g_func g, g_ord g).
Definition has_region (c : csite) : bool :=
  existsb (fun g => streq (g_func g) (c_func c) && (Z.eqb (g_ord g) (c_ord c)) && streq (g_file g) (c_file c)) T_regions.
(* evaluation sites whose results are collected in a list and committed by a later loop (init.run_in_parallel):
   their point numbers are captured with the evaluation (C03_deferred_point_numbers_coherent); every other site must have a region *)
Definition deferred_sites : list csite := filter (fun c => negb (has_region c)) (calls_of T_calls "evaluate_objective").
Definition deferred_known (c : csite) : bool :=
  existsb (fun g => match snd g with
                    | "params('init.run_in_parallel') and num_directions <= self.n()" => fst g
                    | "params('init.run_in_parallel')" => fst g
                    | _ => false end) (c_guards c).

Theorem C04_every_region_commits : forallb (fun g => region_ok (g_region g)) T_regions = true.
Proof. vm_compute. reflexivity. Qed.
Theorem C04_every_eval_site_is_tabled : forallb deferred_known deferred_sites = true /\ (Z.leb 9 (Z.of_nat (List.length T_regions))) = true.
Proof. vm_compute. split; reflexivity. Qed.
Theorem C04_region_checker_sound : forall r, region_ok r = true -> forall env, good (exec env r).
Proof. exact region_ok_sound. Qed.
Corollary C04_every_path_commits : forall g, In g T_regions -> forall env, good (exec env (g_region g)).
Proof.
  intros g Hg env. apply region_ok_sound. pose proof C04_every_region_commits as H. rewrite forallb_forall in H. exact (H g Hg).
Qed.

(* the user's objective is called from exactly one place, and evaluate_objective is the only caller of that place
   inside the Controller; the x0 sampling loop of solve_main is the only other one *)
Definition objfun_callers : list (string * string) :=
  map (fun c => (c_file c, c_func c)) (calls_of T_calls "objfun").
Definition eval_ls_callers : list (string * string) :=
  map (fun c => (c_file c, c_func c)) (calls_of T_calls "eval_least_squares_with_regularisation").
Theorem C04_single_choke_point :
  objfun_callers = [("util", "eval_least_squares_with_regularisation")] /\
  forallb (fun p => (streq (fst p) "controller" && streq (snd p) "Controller.evaluate_objective") || (streq (fst p) "solver" && streq (snd p) "solve_main")) eval_ls_callers = true.
Proof. vm_compute. split; reflexivity. Qed.

(* a soft restart moves the incumbent's slot: the incumbent must have been saved first, unconditionally (hypothesis `inc_saved` of the
   model theorem at that site) *)
Definition incumbent_saved_before_restart : bool :=
  existsb (fun c => streq (c_func c) "Controller.soft_restart" &&
                    slist_eq (c_args c) ["self.model.xopt(abs_coordinates=True)"; "self.model.ropt()"; "self.model.nsamples[self.model.kopt]";
                                         "self.model.eval_num[self.model.kopt]"; "x_in_abs_coords=True"] &&
                    forallb (fun g => negb (fst g)) (c_guards c) &&
                    (* ... before any point of the model is moved *)
                    forallb (fun w => Z.ltb (c_line c) (c_line w)) (filter (fun w => streq (c_func w) "Controller.soft_restart")
                       (calls_of T_calls "change_point" ++ calls_of T_calls "add_new_point" ++ calls_of T_calls "evaluate_objective")))
          (calls_of T_calls "save_point").
Theorem C04_incumbent_saved_before_soft_restart : incumbent_saved_before_restart = true.
Proof. vm_compute. reflexivity. Qed.

(* ---- (1b) the slot a commit overwrites is not the incumbent's: P.Slots, checked on the same regenerated tables ---- *)
Theorem C04_overwritten_slot_is_not_the_incumbent :
  change_sites_ok && growing_slot_ok && tr_slot_ok && chooser_skips_incumbent && geometry_callers_ok && distances_read_clipped_points = true.
Proof. exact Slots_overwritten_slot_is_not_the_incumbent. Qed.

(* ---- (3) hard-restart merge: the new run's result replaces the old one only if strictly better, or the old is NaN ---- *)
Definition merge_guard_ok : bool :=
  forallb (fun a => has_guard (a_guards a) true "objmin2 < objmin or np.isnan(objmin)")
          (filter (fun a => streq (a_func a) "solve" && negb (Z.eqb (a_ord a) 0)) (assigns_of T_assigns "objmin")).
Theorem C04_merge_is_guarded : merge_guard_ok = true /\ (Z.leb 2 (Z.of_nat (List.length (filter (fun a => streq (a_func a) "solve") (assigns_of T_assigns "objmin"))))) = true.
Proof. vm_compute. split; reflexivity. Qed.

Section C04.
Context `{A : Arith} `{L : !OrdLaws A}.
Definition merge (old new : T) : T := if lt new old || isnan old then new else old.
Theorem C04_merge_keeps_better : forall old new, noworse (merge old new) old /\ noworse (merge old new) new.
Proof.
  intros old new. unfold merge. destruct (lt new old) eqn:E1; cbn [orb].
  - destruct (lt_true_nonnan _ _ E1) as [Hn Ho]. split; [|apply noworse_refl]. intros _. split; auto. now apply lt_le_nn.
  - destruct (isnan old) eqn:E2.
    + split; [intros H; congruence|apply noworse_refl].
    + split; [apply noworse_refl|]. intros Hn. split; auto. apply nlt_le_nn; auto.
Qed.

(* ---- (2) model level, on the regenerated methods ---- *)
Theorem C04_offered_values_stay_covered : forall ops st st', wf st -> IncOK st -> run_admissible ops st -> grun ops st = Ok st' ->
  IncOK st' /\ (forall v, covers st v -> covers st' v) /\ (forall w, In w (offered_along ops st) -> covers st' w).
Proof. intros ops st st' W I Ad H. rewrite grun_eq in H. exact (run_covers ops st st' W I Ad H). Qed.
Theorem C04_final_no_worse_than_covered : forall st v st' x r o j ns en je, covers st v ->
  py_model_get_final_results st = Ok (st', (x, r, o, j, ns, en, je)) -> exists res, o = Some res /\ noworse res v.
Proof. intros st v st' x r o j ns en je Hc H. rewrite get_final_results_eq in H. exact (covers_final _ _ _ _ _ _ _ _ _ _ Hc H). Qed.
(* end to end on the model: whatever was offered during the history, the returned objective is no worse *)
Corollary C04_returned_objective_is_best : forall ops st st' st'' x r o j ns en je w, wf st -> IncOK st -> run_admissible ops st ->
  grun ops st = Ok st' -> In w (offered_along ops st) \/ w = objv st (kopt st) ->
  py_model_get_final_results st' = Ok (st'', (x, r, o, j, ns, en, je)) -> exists res, o = Some res /\ noworse res w.
Proof.
  intros ops st st' st'' x r o j ns en je w W I Ad H Hw Hf.
  destruct (C04_offered_values_stay_covered ops st st' W I Ad H) as (_ & Hkeep & Hnew).
  eapply C04_final_no_worse_than_covered; [|exact Hf].
  destruct Hw as [Hw| ->]; [apply Hnew; exact Hw|]. apply Hkeep. left. apply noworse_refl.
Qed.
(* the furthest point is not the incumbent: the incumbent is at distance zero, the threshold is non-negative *)
Theorem C04_furthest_point_is_not_the_incumbent : forall (ds : list T) (kopt knew : nat) thresh,
  nth kopt ds zero = zero -> le zero thresh = true -> le (nth knew ds zero) thresh = false -> knew <> kopt.
Proof. intros ds kopt knew thresh H0 Ht Hk ->. rewrite H0 in Hk. congruence. Qed.
End C04.
(* over the reals: the squared distance of a point to itself, as distances_to_xopt computes it, is zero *)
Lemma C04_distance_to_self_is_zero : forall x : list R, MDyk.ssq (MDyk.vsub x x) = 0%R.
Proof. induction x as [|a x IH]; cbn; [reflexivity|]. unfold MDyk.vsub in IH. rewrite IH. ring. Qed.

Print Assumptions C04_every_region_commits.
Print Assumptions C04_every_eval_site_is_tabled.
Print Assumptions C04_every_path_commits.
Print Assumptions C04_single_choke_point.
Print Assumptions C04_merge_is_guarded.
Print Assumptions C04_overwritten_slot_is_not_the_incumbent.
Print Assumptions C04_furthest_point_is_not_the_incumbent.
Print Assumptions C04_distance_to_self_is_zero.
Print Assumptions C04_merge_keeps_better.
Print Assumptions C04_returned_objective_is_best.
