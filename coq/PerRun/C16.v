(* P.C16 -- Interpolation models survive base shifts (partial: exact-real mechanism theorems; LAPACK enters as an oracle).
   [R] on the regenerated Model.shift_base: the residual models m(p) = c + J (p - xbase) take the same value at every fixed
   absolute point before and after a base shift, and J is unchanged (hence so are the assembled gradient and Hessian at a fixed
   point);  [R] the Gauss-Newton assembly g = 2 J'r, H = 2 J'J satisfies g.s + s'Hs/2 = |r + Js|^2 - |r|^2, proved for the function
   regenerated from Model.build_full_model;  every method that changes the point set clears the cached factorisation (table + MBook).
   Reproduction of the data by the fitted model and the Lagrange identities depend on LAPACK's least-squares solve and are
   validated by the oracle sweep with conditioning-scaled tolerances. *)
From Coq Require Import ZArith List Bool String Lia Reals Lra.
From Flocq Require Import Core Raux.
Require Import DV.Base.Prelude DV.Base.F64 DV.Base.OrdLaws DV.Spec.Schema DV.Lib.MSpec DV.Lib.MBook DV.Lib.MDyk DV.Lib.MInterp DV.Lib.MRad DV.Lib.Tables.
From G Require Import Gen_util Gen_model Gen_tables.
From P Require Import Char_model.
Import ListNotations.

(* value of the residual models at the point with coordinates d relative to the base point *)
Definition model_at (st : @model_state ArithR) (d : list R) : list R := vadd (model_const st) (mv (model_jac st) d).
Theorem C16_shift_keeps_model_values : forall (st st' : @model_state ArithR) s d,
  @py_model_shift_base ArithR st s = Ok (st', tt) -> List.length d = List.length s -> List.length (model_const st) = List.length (model_jac st) ->
  model_at st' (vsub d s) = model_at st d /\ model_jac st' = model_jac st /\ xbase st' = vadd (xbase st) s.
Proof.
  intros st st' s d H Hl Hc. rewrite (@shift_base_eq ArithR) in H.
  destruct (shift_base_coords st s st' H) as (Hx & _ & _ & Hmc & Hj). unfold model_at. rewrite Hmc, Hj. split; [|split; auto].
  apply shift_model_invariance; auto.
Qed.
(* absolute coordinates of a stored point are unchanged: (xbase + s) + (p - s) = xbase + p *)
Theorem C16_shift_keeps_absolute_points : forall (xb p s : list R), List.length xb = List.length p -> List.length s = List.length p ->
  vadd (vadd xb s) (vsub p s) = vadd xb p.
Proof. intros xb p s H1 H2. apply add_sub_cancel; lia. Qed.
Theorem C16_gauss_newton_assembly : forall J r s n, Forall (fun row => List.length row = n) J -> List.length r = List.length J ->
  (2 * sdot (jt_r J r n) s + / 2 * (2 * ssq (mv J s)) = ssq (vadd r (mv J s)) - ssq r)%R.
Proof. exact gauss_newton_identity. Qed.

Section Any.
Context `{A : Arith}.
(* the cached factorisation is invalidated by every operation that changes the point set or the base point *)
Theorem C16_cache_cleared : forall st k x r en a st', py_model_change_point st k x r en a = Ok (st', tt) -> factorisation_current st' = false.
Proof.
  intros st k x r en a st' H. rewrite change_point_eq in H. dst st. unfold s_change_point, s_npt, s_objopt, s_sumsq in H. fields.
  destruct h_ as [hf|]; break_in H; injection H as <-; reflexivity.
Qed.
Theorem C16_cache_cleared_by_shift : forall st s st', py_model_shift_base st s = Ok (st', tt) -> factorisation_current st' = false.
Proof.
  intros st s st' H. rewrite shift_base_eq in H. unfold s_shift_base in H. cbv beta delta [bind] in H.
  destruct (for_loop _ _ st) as [st1|]; [|discriminate]. cbv zeta in H. injection H as <-. reflexivity.
Qed.
Theorem C16_cache_cleared_by_append : forall st x r en st', py_model_add_new_point st x r en = Ok (st', tt) -> factorisation_current st' = false.
Proof.
  intros st x r en st' H. rewrite add_new_point_eq in H. dst st. unfold s_add_new_point, s_npt, s_objopt, s_sumsq in H. fields.
  destruct h_ as [hf|]; break_in H; injection H as <-; reflexivity.
Qed.
End Any.

(* the same identity for the function regenerated from Model.build_full_model: with r = c + J xopt, the (g, H) it returns
   satisfy  g.s + s'Hs/2 = |r + Js|^2 - |r|^2  for every s -- the quadratic model of the objective is exactly the squared norm of
   the linearised residuals (exact reals; numpy's J.T and np.dot(A, B) as Prelude.matT / matmat) *)
Lemma c_two_R : @ofdy ArithR 1 1 = 2%R.
Proof. rewrite ofdyR. cbn [bpow]. change (Z.pow_pos radix2 1) with 2%Z. lra. Qed.
Theorem C16_build_full_model_is_gauss_newton : forall (st : @model_state ArithR) s n, model_jac st <> [] ->
  Forall (fun row => List.length row = n) (model_jac st) -> List.length (model_const st) = List.length (model_jac st) -> List.length s = n ->
  let r := vadd (model_const st) (mv (model_jac st) (@py_model_xopt ArithR st false)) in
  let '(g, H) := @py_model_build_full_model ArithR st in
  (sdot g s + / 2 * sdot s (mv H s) = ssq (vadd r (mv (model_jac st) s)) - ssq r)%R.
Proof.
  intros st s n Hne HJ Hc Hs.
  assert (E: @py_model_build_full_model ArithR st = MInterp.bfm (model_jac st) (model_const st) (@py_model_xopt ArithR st false)).
  { unfold py_model_build_full_model, MInterp.bfm. cbv zeta. rewrite c_two_R. reflexivity. }
  rewrite E. exact (build_full_model_gauss_newton (model_jac st) (model_const st) (@py_model_xopt ArithR st false) s n Hne HJ Hc Hs).
Qed.
(* the source text of build_full_model and of the constant-term computation is what the algebra above models *)
Open Scope string_scope.
Definition bfm (target value : string) : bool :=
  existsb (fun a => streq (a_func a) "Model.build_full_model" && streq (a_target a) target && streq (a_value a) value) T_assigns.
Theorem C16_assembly_source :
  bfm "r" "self.model_const + np.dot(self.model_jac, self.xopt())" = true /\ bfm "J" "self.model_jac" = true /\
  bfm "g" "2.0 * np.dot(J.T, r)" = true /\ bfm "H" "2.0 * np.dot(J.T, J)" = true /\
  (* the constant term is re-based from xopt to xbase with the Jacobian that is finally stored (also after full-rank completion) *)
  forallb (fun a => streq (a_value a) "dg[0, :] - np.dot(self.model_jac, xopt)")
          (filter (fun a => streq (a_func a) "Model.interpolate_mini_models_svd" && streq (a_target a) "self.model_const") T_assigns) = true /\
  Z.of_nat (List.length (filter (fun a => streq (a_func a) "Model.interpolate_mini_models_svd" && streq (a_target a) "self.model_const") T_assigns)) = 2%Z.
Proof. vm_compute. repeat split; reflexivity. Qed.

Print Assumptions C16_shift_keeps_model_values.
Print Assumptions C16_gauss_newton_assembly.
Print Assumptions C16_build_full_model_is_gauss_newton.
Print Assumptions C16_cache_cleared.
