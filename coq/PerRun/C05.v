(* P.C05 -- Linear least squares (partial: mechanism theorems in exact reals; convergence within the budget is validated only).
   [R] an affine residual r(x) = A x - b is reproduced exactly by the model (c, J) = (A xk - b, A) based at any xk -- so it solves the
   interpolation / regression system for ANY point set, and with a unique least-squares solution it is the fit;  [R] for that
   model the Gauss-Newton quadratic equals the true change of the objective, |r + J s|^2 - |r|^2 = f(x + s) - f(x), so the
   acceptance ratio is exactly 1;  [R] the model survives base shifts (C16).  The claim "within 1e-6 (1+f) of the constrained minimum
   with the default budget, flag success" is a global convergence statement about a floating-point heuristic: it is checked by the
   oracle sweep against scipy.optimize.lsq_linear, not proved. *)
From Coq Require Import ZArith List Bool String Lia Reals Lra.
Require Import DV.Base.Prelude DV.Base.F64 DV.Base.OrdLaws DV.Spec.Schema DV.Lib.MSpec DV.Lib.MBook DV.Lib.MDyk DV.Lib.MInterp DV.Lib.Tables.
From G Require Import Gen_util Gen_model Gen_tables.
From P Require Import Char_model C16.
Import ListNotations.

Theorem C05_affine_residual_is_interpolated_exactly : forall A b xk y, List.length y = List.length xk -> List.length b = List.length A ->
  vadd (vsub (mv A xk) b) (mv A (vsub y xk)) = vsub (mv A y) b.
Proof. exact affine_model_exact. Qed.
(* predicted reduction = actual reduction for affine residuals *)
Lemma sub_add_assoc (u v b : list R) : List.length v = List.length u -> List.length b = List.length u -> vadd (vsub u b) v = vsub (vadd u v) b.
Proof.
  revert v b. induction u as [|a u IH]; intros [|c v] [|d b] H1 H2; try discriminate; [reflexivity|].
  unfold vadd, vsub in *. cbn [vmap2]. rewrite IH by (cbn in *; lia). f_equal. ring.
Qed.
Theorem C05_model_is_exact_for_affine_residuals : forall A b x s n, Forall (fun row => List.length row = n) A -> List.length b = List.length A ->
  List.length s = List.length x ->
  let r := vsub (mv A x) b in
  (2 * sdot (jt_r A r n) s + / 2 * (2 * ssq (mv A s)) = ssq (vsub (mv A (vadd x s)) b) - ssq r)%R.
Proof.
  intros A b x s n HA Hb Hs r. assert (Hr: List.length r = List.length A).
  { unfold r. rewrite vsub_len; rewrite mv_length; auto. }
  rewrite (gauss_newton_identity A r s n HA Hr). f_equal. f_equal.
  rewrite mv_add by auto. unfold r. apply sub_add_assoc; rewrite !mv_length; auto.
Qed.

(* the same for the function regenerated from Model.build_full_model: when the residual models are the exact affine fit
   (J = A, c = A xbase - b), the quadratic model (g, H) it assembles at xopt predicts exactly the true change of the objective *)
Theorem C05_generated_model_predicts_the_true_change : forall (st : @model_state ArithR) b s n,
  model_jac st <> [] -> Forall (fun row => List.length row = n) (model_jac st) -> List.length b = List.length (model_jac st) ->
  List.length (xbase st) = n -> List.length (@py_model_xopt ArithR st false) = n -> List.length s = n ->
  model_const st = vsub (mv (model_jac st) (xbase st)) b ->
  let x := vadd (xbase st) (@py_model_xopt ArithR st false) in
  let '(g, H) := @py_model_build_full_model ArithR st in
  (sdot g s + / 2 * sdot s (mv H s) = ssq (vsub (mv (model_jac st) (vadd x s)) b) - ssq (vsub (mv (model_jac st) x) b))%R.
Proof.
  intros st b s n Hne HJ Hb Hxb Hxo Hs Hc. cbv zeta.
  assert (Hcl: List.length (model_const st) = List.length (model_jac st)) by (rewrite Hc, vsub_len; rewrite mv_length; auto).
  pose proof (C16_build_full_model_is_gauss_newton st s n Hne HJ Hcl Hs) as G. cbv zeta in G.
  destruct (@py_model_build_full_model ArithR st) as [g H]. rewrite G.
  set (J := model_jac st) in *. set (xo := @py_model_xopt ArithR st false) in *.
  assert (E1: vadd (model_const st) (mv J xo) = vsub (mv J (vadd (xbase st) xo)) b).
  { assert (Hl0: List.length (xbase st) = List.length xo) by exact (eq_trans Hxb (eq_sym Hxo)).
    rewrite Hc, (mv_add J (xbase st) xo Hl0). apply sub_add_assoc; rewrite !mv_length; auto. }
  rewrite E1. f_equal. f_equal.
  assert (Hl: List.length (vadd (xbase st) xo) = List.length s).
  { rewrite (vadd_length (xbase st) xo (eq_trans Hxb (eq_sym Hxo))). exact (eq_trans Hxb (eq_sym Hs)). }
  rewrite (mv_add J (vadd (xbase st) xo) s Hl). apply sub_add_assoc; rewrite !mv_length; auto.
Qed.

Print Assumptions C05_affine_residual_is_interpolated_exactly.
Print Assumptions C05_generated_model_predicts_the_true_change.
Print Assumptions C05_model_is_exact_for_affine_residuals.
