(* P.C01 -- Bound constraints are never violated at any evaluation point.
   "Exactly inside the box" holds iff the LAST operation applied to a value before it reaches the user's function is a
   min/max against the user's bounds; it is independent of whatever base-point, scaling, trust-region, geometry,
   growing or restart arithmetic produced the value.  The theorems are about the expressions regenerated from solve():
   the argument the objective wrapper passes on, the x of the result object, and the push of x0 into the box.  They
   hold for every arithmetic satisfying OrdLaws -- in particular for all binary64 values, infinities included. *)
From Coq Require Import ZArith List Bool String Lia Reals.
Require Import DV.Base.Prelude DV.Base.F64 DV.Base.OrdLaws DV.Spec.Schema DV.Lib.Tables.
From G Require Import Gen_util Gen_solver Gen_tables.
Import ListNotations.

Section C01.
Context `{A : Arith} `{L : !OrdLaws A}.

Theorem C01_evaluation_point_in_bounds : forall x xl xu, okbox xl xu -> List.length x = List.length xl -> vnonnan x ->
  vin xl xu (py_solver_eval_point x xl xu).
Proof. intros x xl xu Hb Hl Hn. unfold py_solver_eval_point. apply vclip_xl_in; auto. Qed.

Theorem C01_returned_x_in_bounds : forall xmin sc xl xu, okbox xl xu ->
  List.length (py_util_remove_scaling xmin sc) = List.length xl -> vnonnan (py_util_remove_scaling xmin sc) ->
  vin xl xu (py_solver_result_x xmin sc xl xu).
Proof. intros xmin sc xl xu Hb Hl Hn. unfold py_solver_result_x. apply vclip_xl_in; auto. Qed.

(* the clip never hides a NaN: "x is not NaN" is a hypothesis that cannot be dropped, and a NaN point stays visible *)
Theorem C01_nan_stays_nan : forall x l u, isnan x = true -> isnan u = false -> isnan (npmin (npmax x l) u) = true.
Proof. intros. apply clip_nan; auto. Qed.

(* the starting point is pushed into the box by the masked assignments x0[x0<xl]=xl[..]; x0[x0>xu]=xu[..] *)
Lemma push_scalar x l u : isnan x = false -> le l u = true -> inb l u (if lt u (if lt x l then l else x) then u else (if lt x l then l else x)).
Proof.
  intros Hx Hlu. destruct (le_true_nonnan _ _ Hlu) as [Hl Hu]. unfold inb. apply le_true in Hlu; auto.
  destruct (lt x l) eqn:E1.
  - apply lt_true in E1; auto. destruct (lt u l) eqn:E2.
    + apply lt_true in E2; auto. exfalso. apply (Rlt_irrefl (key l)). eapply Rle_lt_trans; eauto.
    + apply lt_false in E2; auto. split; apply le_true; auto. apply Rle_refl.
  - apply lt_false in E1; auto. destruct (lt u x) eqn:E2.
    + apply lt_true in E2; auto. split; apply le_true; auto. apply Rle_refl.
    + apply lt_false in E2; auto. split; apply le_true; auto.
Qed.
Theorem C01_x0_pushed_into_box : forall xl xu x0, okbox xl xu -> List.length x0 = List.length xl -> vnonnan x0 ->
  vin xl xu (py_solver_push_x0 x0 xl xu).
Proof.
  intros xl xu x0 Hb. unfold py_solver_push_x0. revert x0.
  induction Hb as [|a b l u Hab Hb IH]; intros x0 Hlen Hn.
  - destruct x0; constructor.
  - destruct x0 as [|y x0]; [discriminate|]. apply Forall_cons_iff in Hn as [Hy Hn]. cbn. constructor.
    + cbn. apply push_scalar; auto.
    + apply IH; auto.
Qed.
End C01.

(* why the final clip is needed: in binary64 the base-point arithmetic alone overshoots.  xbase = 1.0, lower = 1e-17:
   the step clipped to the shifted bound is lower - xbase, and xbase + (lower - xbase) = 0.0 < lower. *)
Example C01_unclipped_arithmetic_overshoots :
  let xb := of_bits 4607182418800017408 in let lo := of_bits 4352464011485697175 in
  @le ArithF64 lo (@add ArithF64 xb (@sub ArithF64 lo xb)) = false /\
  @le ArithF64 lo (@npmin ArithF64 (@npmax ArithF64 (@add ArithF64 xb (@sub ArithF64 lo xb)) lo) (of_bits 4607182418800017408)) = true.
Proof. vm_compute. split; reflexivity. Qed.
(* non-vacuity of the hypotheses on binary64: a concrete box and point *)
Example C01_hypotheses_satisfiable :
  @okbox ArithF64 (vof [0; 13830554455654793216]) (vof [4607182418800017408; 4611686018427387904]) /\
  @vnonnan ArithF64 (vof [4602678819172646912; 4616189618054758400]).
Proof. split; repeat constructor. Qed.

(* ---- tables: the clipped value is what reaches the user's function, and nothing rebinds the names involved ---- *)
Open Scope string_scope.
Definition solve_assigns (name : string) : list asite := filter (fun a => streq (a_func a) "solve" && streq (a_name a) name) T_assigns.
Definition wrapper_def_ok : bool :=
  existsb (fun d => streq (d_func d) "solve.objfun" && streq (d_kind d) "lambda:objfun_orig(np.minimum(np.maximum(x, xl_orig), xu_orig), *args)" &&
                    slist_eq (d_params d) ["x"; "*args"]) T_defs.
Definition names_bound_once : bool :=
  match solve_assigns "objfun", solve_assigns "objfun_orig", solve_assigns "xl_orig", solve_assigns "xu_orig" with
  | [w], [o], [l], [u] =>
      streq (a_value o) "(xl.copy(), xu.copy(), objfun)" && Z.eqb (a_index o) 2 && streq (a_target o) "objfun_orig" &&
      streq (a_value l) "(xl.copy(), xu.copy(), objfun)" && Z.eqb (a_index l) 0 && streq (a_target l) "xl_orig" &&
      streq (a_value u) "(xl.copy(), xu.copy(), objfun)" && Z.eqb (a_index u) 1 && streq (a_target u) "xu_orig" &&
      Z.ltb (a_line o) (a_line w) &&
      (* the wrapper is installed unconditionally (no enclosing `if`; only fall-through of early returns) *)
      forallb (fun g => negb (fst g)) (a_guards w) && forallb (fun g => negb (fst g)) (a_guards o) &&
      (* bound before the first run and before any scaling of xl/xu *)
      forallb (fun c => Z.ltb (a_line w) (c_line c) && streq (List.hd "" (c_args c)) "objfun")
              (filter (fun c => streq (c_func c) "solve") (calls_of T_calls "solve_main"))
  | _, _, _, _ => false
  end.
(* objfun_orig is called only inside the wrapper; the user's function is otherwise reached only as objfun(x, *argsf) *)
Definition only_wrapper_calls_orig : bool :=
  match calls_of T_calls "objfun_orig" with
  | [c] => streq (c_func c) "solve" && slist_eq (c_args c) ["np.minimum(np.maximum(x, xl_orig), xu_orig)"; "*args"]
  | _ => false
  end &&
  match calls_of T_calls "objfun" with
  | [c] => streq (c_func c) "eval_least_squares_with_regularisation" && slist_eq (c_args c) ["x"; "*argsf"]
  | _ => false
  end.
(* xl / xu are not modified between the user's arrays (or the +-1e20 defaults) and the copies the wrapper uses, except by
   the documented replacement of the box by a projection when `projections` is given *)
Definition bounds_writes_before_copy_ok : bool :=
  match solve_assigns "xl_orig" with
  | [l] => forallb (fun a => negb (Z.ltb (a_line a) (a_line l)) ||
                             mem (a_value a) ["None"; "-1e+20 * np.ones((n,))"; "1e+20 * np.ones((n,))";
                                              "bounds[0].astype(float) if bounds[0] is not None else None";
                                              "bounds[1].astype(float) if bounds[1] is not None else None"] ||
                             (* malformed bounds are dropped only on the way to the input-error return (no evaluation follows: C07) *)
                             (streq (a_value a) "(-1e+20 * np.ones((n,)), 1e+20 * np.ones((n,)), False)" && has_guard (a_guards a) true "bounds_error is not None" &&
                              existsb (fun c => streq (c_func c) "solve" && slist_eq (c_args c) ["EXIT_INPUT_ERROR"; "bounds_error"] &&
                                                has_guard (c_guards c) true "exit_info is None and bounds_error is not None") (calls_of T_calls "ExitInformation")))
                   (solve_assigns "xl" ++ solve_assigns "xu")
  | _ => false
  end.
Theorem C01_wrapper_is_the_only_way_in : wrapper_def_ok = true /\ names_bound_once = true /\ only_wrapper_calls_orig = true /\ bounds_writes_before_copy_ok = true.
Proof. vm_compute. repeat split; reflexivity. Qed.
Theorem C01_result_x_is_clipped :
  existsb (fun c => streq (c_func c) "solve" && streq (List.hd "" (c_args c)) "np.minimum(np.maximum(remove_scaling(xmin, scaling_changes), xl_orig), xu_orig)")
          (calls_of T_calls "OptimResults") = true.
Proof. vm_compute. reflexivity. Qed.

Print Assumptions C01_evaluation_point_in_bounds.
Print Assumptions C01_returned_x_in_bounds.
Print Assumptions C01_x0_pushed_into_box.
Print Assumptions C01_unclipped_arithmetic_overshoots.
Print Assumptions C01_wrapper_is_the_only_way_in.
