(* P.Char_model -- per-run obligation: the functions regenerated from /repo/dfols/{util,model}.py on this run are
   extensionally equal to the reference model DV.Lib.MSpec that the bookkeeping theorems are proved about.
   This is the only file that looks inside generated code.  The tactic first tries conversion; if the source was
   rewritten without changing its meaning (reordered assignments, renamed locals, restructured conditionals) it
   falls back to symbolic execution on a destructed state with case analysis on every condition. *)
From Coq Require Import ZArith List Bool String Lia.
Require Import DV.Base.Prelude DV.Spec.Schema DV.Lib.MSpec DV.Lib.MBook.
From G Require Import Gen_util Gen_model.
Import ListNotations.
Open Scope Z_scope.

Ltac split_conds :=
  repeat match goal with
  | |- context[if ?c then _ else _] => let E := fresh "E" in destruct c eqn:E
  | |- context[match ?o with Some _ => _ | None => _ end] => let E := fresh "E" in destruct o eqn:E
  end.
Ltac gen_eq_with unf :=
  intros; first
  [ reflexivity
  | unf; try reflexivity; fields; try reflexivity; split_conds; reflexivity
  | match goal with st : model_state |- _ => dst st end; unf; fields; split_conds; reflexivity ].

Section Char.
Context `{A : Arith}.

Ltac unf_all := unfold py_util_sumsq, py_util_apply_scaling, py_util_remove_scaling, py_util_pbox, py_util_pball,
  py_model_n, py_model_m, py_model_npt, py_model_xpt, py_model_xopt, py_model_ropt, py_model_objopt,
  py_model_as_absolute_coordinates, py_model_min_objective_value, py_model_change_point, py_model_swap_points,
  py_model_add_new_sample, py_model_add_new_point, py_model_shift_base, py_model_save_point, py_model_get_final_results,
  s_sumsq, s_apply_scaling, s_remove_scaling, s_pbox, s_pball, s_n, s_m, s_npt, s_xpt, s_xopt, s_ropt, s_objopt,
  s_as_absolute_coordinates, s_min_objective_value, s_change_point, s_swap_points, s_add_new_sample, s_add_new_point,
  s_shift_base, s_save_point, s_get_final_results in *.

Lemma sumsq_eq : forall x, py_util_sumsq x = s_sumsq x. Proof. gen_eq_with unf_all. Qed.
Lemma apply_scaling_eq : forall x sc, py_util_apply_scaling x sc = s_apply_scaling x sc. Proof. gen_eq_with unf_all. Qed.
Lemma remove_scaling_eq : forall x sc, py_util_remove_scaling x sc = s_remove_scaling x sc. Proof. gen_eq_with unf_all. Qed.
Lemma pbox_eq : forall x l u, py_util_pbox x l u = s_pbox x l u. Proof. gen_eq_with unf_all. Qed.
Lemma pball_eq : forall x c r, py_util_pball x c r = s_pball x c r. Proof. gen_eq_with unf_all. Qed.
Lemma dykstra_run_eq : forall P x0 mi tol, py_util_dykstra_run P x0 mi tol = s_dykstra_run P x0 mi tol. Proof. intros; reflexivity. Qed.
Lemma dykstra_eq : forall P x0 mi tol, py_util_dykstra P x0 mi tol = s_dykstra P x0 mi tol. Proof. intros; reflexivity. Qed.
Lemma npt_eq : forall st, py_model_npt st = s_npt st. Proof. gen_eq_with unf_all. Qed.
Lemma xpt_eq : forall st k a, py_model_xpt st k a = s_xpt st k a. Proof. gen_eq_with unf_all. Qed.
Lemma xopt_eq : forall st a, py_model_xopt st a = s_xopt st a. Proof. gen_eq_with unf_all. Qed.
Lemma ropt_eq : forall st, py_model_ropt st = s_ropt st. Proof. gen_eq_with unf_all. Qed.
Lemma objopt_eq : forall st, py_model_objopt st = s_objopt st. Proof. gen_eq_with unf_all. Qed.
Lemma as_abs_eq : forall st x, py_model_as_absolute_coordinates st x = s_as_absolute_coordinates st x. Proof. gen_eq_with unf_all. Qed.
Lemma min_obj_eq : forall st, py_model_min_objective_value st = s_min_objective_value st. Proof. gen_eq_with unf_all. Qed.
Lemma change_point_eq : forall st k x r en a, py_model_change_point st k x r en a = s_change_point st k x r en a.
Proof. gen_eq_with unf_all. Qed.
Lemma swap_points_eq : forall st k1 k2, py_model_swap_points st k1 k2 = s_swap_points st k1 k2. Proof. gen_eq_with unf_all. Qed.
Lemma add_new_sample_eq : forall st k r, py_model_add_new_sample st k r = s_add_new_sample st k r. Proof. gen_eq_with unf_all. Qed.
Lemma add_new_point_eq : forall st x r en, py_model_add_new_point st x r en = s_add_new_point st x r en. Proof. gen_eq_with unf_all. Qed.
Lemma shift_base_eq : forall st s, py_model_shift_base st s = s_shift_base st s. Proof. gen_eq_with unf_all. Qed.
Lemma save_point_eq : forall st x r ns en a, py_model_save_point st x r ns en a = s_save_point st x r ns en a. Proof. gen_eq_with unf_all. Qed.
Lemma get_final_results_eq : forall st, py_model_get_final_results st = s_get_final_results st. Proof. gen_eq_with unf_all. Qed.
End Char.
