(* P.C08 -- Bad objective values at any evaluation are survived gracefully.
   Model level (regenerated Model methods, every arithmetic -- in particular binary64 where NaN/inf are ordinary values and every
   comparison is the IEEE one): a NaN never displaces a non-NaN value in the saved slot, the final-result query prefers any
   non-NaN value, a re-sample never leaves the incumbent on a NaN while a non-NaN value is stored.
   Table level: after a NaN evaluation the run leaves through the evaluation-error exit (regions, with C04); the subproblem
   solvers are never called on a non-finite model; no `try` block encloses a call that reaches the user's function, and nothing is
   evaluated after an exception. *)
From Coq Require Import ZArith List Bool String Lia.
Require Import DV.Base.Prelude DV.Base.F64 DV.Base.OrdLaws DV.Spec.Schema DV.Lib.MSpec DV.Lib.MBook DV.Lib.Tables.
From G Require Import Gen_util Gen_model Gen_tables.
From P Require Import Char_model C17.
Import ListNotations.
Open Scope Z_scope.

Section C08.
Context `{A : Arith} `{L : !OrdLaws A}.
(* "noworse b a" := if a is not NaN then b is not NaN and b <= a *)
Theorem C08_nan_never_displaces_saved_value : forall st x r ns en ab st' b s, py_model_save_point st x r ns en ab = Ok (st', b) ->
  objsave st = Some s -> isnan s = false -> exists s', objsave st' = Some s' /\ isnan s' = false /\ le s' s = true.
Proof.
  intros st x r ns en ab st' b s H Hs Hn. destruct (C17_save_keeps_better st x r ns en ab st' b H) as (s' & E & _ & Hold).
  exists s'. split; [exact E|]. exact (Hold s Hs Hn).
Qed.
Theorem C08_finite_offer_replaces_saved_nan : forall st x r ns en ab st' b,
  py_model_save_point st x r ns en ab = Ok (st', b) ->
  let v := obj_of st r (if ab then x else s_as_absolute_coordinates st x) in
  isnan v = false -> exists s', objsave st' = Some s' /\ isnan s' = false /\ le s' v = true.
Proof.
  intros st x r ns en ab st' b H v Hv. destruct (C17_save_keeps_better st x r ns en ab st' b H) as (s' & E & Hnew & _).
  exists s'. split; [exact E|]. exact (Hnew Hv).
Qed.
Theorem C08_final_prefers_non_nan : forall st st' x r o j ns en je, py_model_get_final_results st = Ok (st', (x, r, o, j, ns, en, je)) ->
  exists v, o = Some v /\ (isnan (objv st (kopt st)) = false -> isnan v = false /\ le v (objv st (kopt st)) = true) /\
            (forall s, objsave st = Some s -> isnan s = false -> isnan v = false /\ le v s = true).
Proof.
  intros st st' x r o j ns en je H. destruct (C17_final_is_better_of_two st st' x r o j ns en je H) as (v & E & H1 & H2).
  exists v. split; [exact E|]. split; [exact H1|exact H2].
Qed.
Theorem C08_resample_never_leaves_incumbent_on_nan : forall st k r st', wf st -> py_model_add_new_sample st k r = Ok (st', tt) ->
  forall j, 0 <= j < npt_so_far st' -> isnan (objv st' j) = false -> isnan (objv st' (kopt st')) = false -> le (objv st' (kopt st')) (objv st' j) = true.
Proof. intros st k r st' W H j Hj Hjn Hk. exact (C17_resample_restores_minimum st k r st' W H Hk j Hj Hjn). Qed.
End C08.

(* ---- tables ---- *)
Open Scope string_scope.
Definition nonfinite_guard : string :=
  "np.any(np.isnan(gopt)) or np.any(np.isnan(H)) or (not np.all(np.isfinite(gopt))) or (not np.all(np.isfinite(H)))".
Definition subproblem_guarded : bool :=
  forallb (fun c => has_guard (c_guards c) false nonfinite_guard)
          (filter (fun c => streq (c_file c) "controller") (calls_of T_calls "ctrsbox_pgd" ++ calls_of T_calls "ctrsbox_sfista")) &&
  Z.eqb (Z.of_nat (List.length (filter (fun c => streq (c_file c) "controller") (calls_of T_calls "ctrsbox_pgd" ++ calls_of T_calls "ctrsbox_sfista")))) 5.
(* exception transparency: no call that reaches the user's function (or a user callback) sits inside a try block *)
Definition in_try (c : csite) : bool := existsb (fun g => prefix "try" (snd g) || prefix "except" (snd g)) (c_guards c).
Definition reaches_user (c : csite) : bool :=
  mem (c_callee c) ["objfun"; "objfun_orig"; "evaluate_objective"; "eval_least_squares_with_regularisation"; "h"; "prox_uh"; "nsamples"; "solve_main";
                    "geometry_step"; "soft_restart"].
Definition exception_transparent : bool := forallb (fun c => negb (reaches_user c && in_try c)) T_calls.
(* NaN residuals at the trial step end the run with the evaluation-error flag (or raise, if the user asked for that) *)
Definition nan_exit_ok : bool :=
  existsb (fun c => streq (c_func c) "solve_main" && streq (List.hd "" (c_args c)) "EXIT_EVAL_ERROR" && has_guard (c_guards c) true "np.any(np.isnan(rvec_list))" &&
                    has_guard (c_guards c) false "params('interpolation.throw_error_on_nans')") (calls_of T_calls "ExitInformation").
(* success is never reported with a non-finite objective: final override in solve() *)
Definition success_override_ok : bool :=
  existsb (fun c => streq (c_func c) "solve" && streq (List.hd "" (c_args c)) "EXIT_EVAL_ERROR" &&
                    has_guard (c_guards c) true "exit_info.flag == EXIT_SUCCESS and (not np.isfinite(objmin))") (calls_of T_calls "ExitInformation").
Theorem C08_subproblem_solvers_skip_nonfinite_models : subproblem_guarded = true.
Proof. vm_compute. reflexivity. Qed.
Theorem C08_user_exceptions_propagate : exception_transparent = true.
Proof. vm_compute. reflexivity. Qed.
(* scipy's norm raises ValueError on a non-finite gradient (overflow-sized residuals): where solve_main takes it to form tau,
   the call sits in a try whose handler gives tau a value *)
Definition tau_norm_is_caught : bool :=
  let tw := filter (fun a => streq (a_func a) "solve_main" && streq (a_name a) "tau") T_assigns in
  forallb (fun a => negb (match index 0 "LA.norm(" (a_value a) with Some _ => true | None => false end) || has_guard (a_guards a) true "try") tw &&
  existsb (fun a => match index 0 "LA.norm(" (a_value a) with Some _ => true | None => false end) tw &&
  existsb (fun a => has_guard (a_guards a) true "except ValueError" && streq (a_value a) "1.0") tw.
Theorem C08_norm_of_a_nonfinite_gradient_is_caught : tau_norm_is_caught = true.
Proof. vm_compute. reflexivity. Qed.
Theorem C08_nan_and_success_exits : nan_exit_ok = true /\ success_override_ok = true.
Proof. vm_compute. split; reflexivity. Qed.
(* regions: shared with C04 -- every path after an evaluation commits the point, or is the NaN path, or raises *)
Theorem C08_every_region_ok : forallb (fun g => region_ok (g_region g)) T_regions = true.
Proof. vm_compute. reflexivity. Qed.

Print Assumptions C08_nan_never_displaces_saved_value.
Print Assumptions C08_final_prefers_non_nan.
Print Assumptions C08_subproblem_solvers_skip_nonfinite_models.
Print Assumptions C08_user_exceptions_propagate.
