(* P.Slots -- which slot of the interpolation set a commit may overwrite (shared by C04 and C18).
   The model theorems of C04 (MBook.run_covers) assume every history is `admissible`: the incumbent's slot is overwritten
   only by a no-worse value, or after the incumbent was saved.  This file discharges that hypothesis site by site on the
   tables regenerated from controller.py / solver.py / model.py: every change_point call names its slot as (a) a fresh
   slot, (b) the result of choose_point_to_replace(skip_kopt=True), whose loop skips the incumbent, (c) that chooser with
   skip_kopt=False under the guard `ratio > 0.0` (improving step), (d) the furthest point by distances_to_xopt, which
   reads the points as the model reads them so that the incumbent is at distance 0, under a guard that the distance
   exceeds the threshold, (e) one of the furthest points with the last (the incumbent) excluded by the loop bound, or
   (f) any point inside soft_restart, where the incumbent is saved first (C04_incumbent_saved_before_soft_restart). *)
From Coq Require Import ZArith List Bool String Lia.
Require Import DV.Base.Prelude DV.Spec.Schema DV.Lib.MGeom DV.Lib.Tables.
From G Require Import Gen_util Gen_model Gen_controller Gen_tables.
Import ListNotations.
Open Scope Z_scope.
Open Scope string_scope.

Definition asg (func name : string) : list asite := filter (fun a => streq (a_func a) func && streq (a_name a) name) T_assigns.
Definition vals_in (func name : string) (allowed : list string) : bool :=
  negb (Nat.eqb (List.length (asg func name)) 0) && forallb (fun a => mem (a_value a) allowed) (asg func name).
Definition src_calls (callee : string) : list csite :=
  filter (fun c => streq (c_file c) "controller" || streq (c_file c) "solver") (calls_of T_calls callee).
Definition arg0 (c : csite) : string := match c_args c with a :: _ => a | [] => "" end.
(* every write into the interpolation set names its slot in one of these ways *)
Definition change_sites_ok : bool :=
  forallb (fun c => mem (c_func c ++ "|" ++ arg0 c)
     ["Controller.initialise_coordinate_directions|k + 1"; "Controller.initialise_coordinate_directions|k";   (* fresh slots of the initial set *)
      "Controller.initialise_random_directions|1 + ndirns";
      "Controller.add_new_direction_while_growing|kmin"; "Controller.geometry_step|knew";
      "Controller.move_furthest_points_momentum|knew"; "solve_main|knew"]) (src_calls "change_point")
  && Z.leb 9 (Z.of_nat (List.length (src_calls "change_point"))).
(* growing: a fresh slot, or the slot chosen with the incumbent skipped *)
Definition growing_slot_ok : bool :=
  vals_in "Controller.add_new_direction_while_growing" "kmin"
    ["self.model.npt()"; "self.choose_point_to_replace(xnew - self.model.xopt(), skip_kopt=True)"].
(* trust-region step: incumbent skipped; it may be re-selected only after an improving step (ratio > 0), or a fresh slot while growing *)
Definition tr_slot_ok : bool :=
  vals_in "solve_main" "knew" ["control.choose_point_to_replace(d, skip_kopt=True)"; "control.choose_point_to_replace(d, skip_kopt=False)"; "control.model.npt()"] &&
  forallb (fun a => negb (streq (a_value a) "control.choose_point_to_replace(d, skip_kopt=False)") || has_guard (a_guards a) true "ratio > 0.0") (asg "solve_main" "knew") &&
  existsb (fun a => streq (a_value a) "control.choose_point_to_replace(d, skip_kopt=True)") (asg "solve_main" "knew").
(* choose_point_to_replace(skip_kopt=True) never returns the incumbent's slot *)
Definition chooser_skips_incumbent : bool :=
  vals_in "Controller.choose_point_to_replace" "knew" ["None"; "k"] &&
  forallb (fun a => negb (streq (a_value a) "k") || has_guard (a_guards a) false "skip_kopt and k == self.model.kopt") (asg "Controller.choose_point_to_replace" "knew").
(* geometry steps: the furthest point (distance above a non-negative threshold), one of the furthest points with the last
   (closest = incumbent) excluded, or any point after the incumbent was saved (soft restart, checked above) *)
Definition geometry_callers_ok : bool :=
  forallb (fun c => mem (c_func c ++ "|" ++ arg0 c)
     ["Controller.check_and_fix_geometry|knew"; "Controller.soft_restart|knew"; "Controller.move_furthest_points|knew"]) (src_calls "geometry_step") &&
  vals_in "Controller.check_and_fix_geometry" "knew" ["np.argmax(sq_distances)"] &&
  vals_in "Controller.check_and_fix_geometry" "sq_distances" ["self.model.distances_to_xopt()"] &&
  vals_in "Controller.check_and_fix_geometry" "distsq" ["sq_distances[knew]"] &&
  forallb (fun c => negb (streq (c_func c) "Controller.check_and_fix_geometry") || has_guard (c_guards c) false "distsq <= distsq_thresh") (src_calls "geometry_step") &&
  forallb (fun f => vals_in f "knew" ["furthest_points[i]"] && vals_in f "furthest_points" ["np.argsort(all_sq_dist)[::-1]"] &&
                    vals_in f "all_sq_dist" ["self.model.distances_to_xopt()[:self.model.npt()]"])
          ["Controller.move_furthest_points"; "Controller.move_furthest_points_momentum"] &&
  forallb (fun c => negb (streq (c_func c) "Controller.move_furthest_points") ||
                    has_guard (c_guards c) true "for i in range(min(num_pts_to_move, len(furthest_points) - 1))") (src_calls "geometry_step") &&
  forallb (fun c => negb (streq (c_func c) "Controller.move_furthest_points_momentum") ||
                    has_guard (c_guards c) true "for i in range(min(num_pts_to_move, len(furthest_points) - 1))") (src_calls "change_point").
(* distances are measured between the points as the model reads them (clipped), so the incumbent is at distance 0 from itself *)
Definition distances_read_clipped_points : bool :=
  vals_in "Model.distances_to_xopt" "sq_distances" ["np.zeros((self.npt(),))"; "sumsq(self.xpt(k) - xopt)"] &&
  vals_in "Model.distances_to_xopt" "xopt" ["self.xopt()"] &&
  existsb (fun r => streq (r_func r) "Model.xopt" && slist_eq (r_vals r) ["self.xpt(self.kopt, abs_coordinates=abs_coordinates)"]) T_returns &&
  Z.eqb (count_true (fun r => streq (r_func r) "Model.xopt") T_returns) 1.
(* (b) proved on the regenerated selection loop itself (translator: gen.derive_chooser takes the loop of choose_point_to_replace
   verbatim, with what lagrange_gradient returned as parameters cs, gs): for every state, step, Lagrange data and arithmetic, the
   slot it returns is a valid index and, with skip_kopt, is not the incumbent's; the loop does not touch the state *)
Section Chooser.
Context `{A : Arith}.
Definition chosen_ok (st : controller_state) (skip : bool) (i : Z) (c : option Z * option T) : Prop :=
  match fst c with Some k => 0 <= k < i /\ (skip = true -> k <> kopt (c_model st)) | None => True end.
Theorem Slots_chooser_never_selects_the_incumbent : forall st d skip cs gs st' r,
  py_controller_choose_point_loop st d skip cs gs = Ok (st', r) ->
  st' = st /\ match r with Some k => 0 <= k < py_model_npt (c_model st) /\ (skip = true -> k <> kopt (c_model st)) | None => True end.
Proof.
  intros st d skip cs gs st' r H. unfold py_controller_choose_point_loop in H. cbv zeta in H.
  match type of H with bind (@for_loop ?C ?l ?b ?c0) _ = _ => destruct (@for_loop C l b c0) as [c'|] eqn:El; [|discriminate] end.
  cbn [bind] in H. destruct c' as [knew scaden]. injection H as <- <-. split; [reflexivity|].
  unfold rangeZ in El. set (n := py_model_npt (c_model st)) in *.
  destruct (Z_le_gt_dec 0 n) as [Hn|Hn].
  2:{ replace (Z.to_nat (n - 0)) with O in El by lia. cbn in El. injection El as <- _. exact I. }
  match type of El with for_loop _ ?b _ = _ =>
    destruct (for_rangeN_inv (chosen_ok st skip) (fun _ => False) b 0 (Z.to_nat (n - 0)) 0 (None, None) (knew, scaden) ltac:(lia)) as [[]|HP]; auto end.
  - intros i c c1 Hi HP Hb. destruct c as [kn sc]. unfold chosen_ok in *. cbn [fst] in *.
    destruct (skip && (i =? kopt (c_model st))%Z) eqn:Es.
    + injection Hb as <-. cbn [fst]. destruct kn as [k|]; auto. destruct HP; split; auto; lia.
    + match type of Hb with bind (if ?c then _ else _) _ = _ => destruct c end; cbn [bind] in Hb; injection Hb as <-; cbn [fst].
      * split; [lia|]. intros ->. cbn [andb] in Es. apply Z.eqb_neq in Es. exact Es.
      * destruct kn as [k|]; auto. destruct HP; split; auto; lia.
  - intros i c c1 Hi HP Hb. destruct c as [kn sc].
    destruct (skip && (i =? kopt (c_model st))%Z); [discriminate|].
    match type of Hb with bind (if ?c then _ else _) _ = _ => destruct c end; cbn [bind] in Hb; discriminate.
  - exact I.
  - unfold chosen_ok in HP. cbn [fst] in HP. destruct knew as [k|]; auto. destruct HP; split; auto; lia.
Qed.
End Chooser.
Theorem Slots_overwritten_slot_is_not_the_incumbent :
  change_sites_ok && growing_slot_ok && tr_slot_ok && chooser_skips_incumbent && geometry_callers_ok && distances_read_clipped_points = true.
Proof. vm_compute. reflexivity. Qed.

Print Assumptions Slots_overwritten_slot_is_not_the_incumbent.
Print Assumptions Slots_chooser_never_selects_the_incumbent.
