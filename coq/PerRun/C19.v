(* P.C19 -- Results are reproducible and caller data are never modified (partial: table obligations only).
   (1) every use of NumPy's global random generator lies in a direction generator whose call sites are guarded by an option
       documented as random (random initial directions, a non-empty growing phase, restarts.increase_npt,
       regression.momentum_extra_steps) -- with the one exception listed in known_findings.json (F35: coordinate initialisation
       with projections);  (2) the prologue of solve() re-binds x0 and the bounds to fresh float copies before any in-place write,
       builds a fresh ParameterList and only iterates user_params.
   Bit-identical repetition of whole runs is validated by the sweep, not proved. *)
From Coq Require Import ZArith List Bool String Lia.
Require Import DV.Lib.Tables.
From G Require Import Gen_tables.
Import ListNotations.
Open Scope Z_scope.
Open Scope string_scope.

Definition contains (pat s : string) : bool := match index 0 pat s with Some _ => true | None => false end.
Definition is_rng (c : csite) : bool := prefix "np.random" (c_dotted c) || prefix "random." (c_dotted c) || prefix "np.random" (c_callee c).
Definition rng_sites : list csite := filter is_rng T_calls.
Definition generators : list string := ["random_orthog_directions_within_bounds"; "random_directions_within_bounds"].
(* where the global generator is touched *)
Definition rng_site_ok (c : csite) : bool :=
  (streq (c_file c) "util" && mem (c_func c) generators) ||
  (streq (c_func c) "Controller.initialise_coordinate_directions" && has_guard (c_guards c) true "self.model.projections").   (* F35 *)
(* who calls the generators, and under which option *)
Definition random_option_guard (g : bool * string) : bool :=
  fst g && (streq (snd g) "params('init.random_initial_directions')" || contains "not finished_growing" (snd g) ||
            prefix "params('restarts.increase_npt')" (snd g) || streq (snd g) "params('regression.momentum_extra_steps')").
Definition wrappers : list string := ["initialise_random_directions"; "add_new_direction_while_growing"; "get_new_direction_for_growing"; "move_furthest_points_momentum"].
Definition generator_caller_ok (c : csite) : bool :=
  (* direct callers are the four wrappers or the npt-increasing branch of soft_restart *)
  mem (c_func c) ["Controller.initialise_random_directions"; "Controller.add_new_direction_while_growing"; "Controller.get_new_direction_for_growing";
                  "Controller.move_furthest_points_momentum"] ||
  (streq (c_func c) "Controller.soft_restart" && existsb random_option_guard (c_guards c)).
Definition wrapper_caller_ok (c : csite) : bool := existsb random_option_guard (c_guards c).
Theorem C19_rng_only_under_random_options :
  forallb rng_site_ok rng_sites = true /\
  forallb generator_caller_ok (filter (fun c => mem (c_callee c) generators) T_calls) = true /\
  forallb wrapper_caller_ok (filter (fun c => mem (c_callee c) wrappers) T_calls) = true /\
  Z.of_nat (List.length rng_sites) = 6 /\ Z.of_nat (List.length (filter (fun c => mem (c_callee c) wrappers) T_calls)) = 5.
Proof. vm_compute. repeat split; reflexivity. Qed.
(* deterministic coordinate initialisation is what runs unless random initial directions were requested *)
Theorem C19_default_initialisation_is_coordinate :
  existsb (fun c => streq (c_func c) "solve_main" && has_guard (c_guards c) false "params('init.random_initial_directions')")
          (calls_of T_calls "initialise_coordinate_directions") = true.
Proof. vm_compute. reflexivity. Qed.

(* ---- caller data ---- *)
Definition solve_assigns_to (name : string) : list asite := filter (fun a => streq (a_func a) "solve" && streq (a_name a) name) T_assigns.
Definition first_line (l : list asite) : Z := fold_right (fun a m => Z.min (a_line a) m) 1000000 l.
Definition x0_copied_first : bool :=
  match filter (fun a => streq (a_target a) "x0") (solve_assigns_to "x0") with
  | a :: _ => streq (a_value a) "x0.astype(float)" &&
              forallb (fun w => Z.ltb (a_line a) (a_line w)) (filter (fun w => negb (streq (a_target w) "x0")) (solve_assigns_to "x0"))
  | [] => false
  end.
Definition bounds_never_written_in_place : bool :=
  forallb (fun a => streq (a_target a) (a_name a)) (solve_assigns_to "xl" ++ solve_assigns_to "xu") &&
  existsb (fun a => streq (a_value a) "bounds[0].astype(float) if bounds[0] is not None else None") (solve_assigns_to "xl") &&
  existsb (fun a => streq (a_value a) "bounds[1].astype(float) if bounds[1] is not None else None") (solve_assigns_to "xu").
Definition user_params_only_read : bool :=
  match solve_assigns_to "user_params" with [] => true | _ => false end &&
  existsb (fun c => streq (c_func c) "solve" && streq (c_dotted c) "user_params.items") T_calls &&
  existsb (fun c => streq (c_func c) "solve" && streq (c_callee c) "ParameterList") T_calls &&
  existsb (fun c => streq (c_func c) "solve" && streq (c_dotted c) "list" && slist_eq (c_args c) ["projections"]) T_calls.
(* nothing is deleted from the caller's objects, and the only method called on user_params is items() *)
Definition nothing_deleted_or_mutated : bool :=
  forallb (fun f => negb (streq (f_func f) "solve" && prefix "del " (f_kind f))) T_flows &&
  forallb (fun c => negb (prefix "user_params." (c_dotted c)) || streq (c_dotted c) "user_params.items") T_calls.
(* no state survives a call: the classes of the package have no class-level (shared) attributes *)
Definition no_shared_class_state : bool := forallb (fun d => negb (prefix "classattr:" (d_kind d))) T_defs.
Theorem C19_caller_data_untouched : x0_copied_first = true /\ bounds_never_written_in_place = true /\ user_params_only_read = true /\
  nothing_deleted_or_mutated = true.
Proof. vm_compute. repeat split; reflexivity. Qed.
Theorem C19_no_state_shared_between_calls : no_shared_class_state = true.
Proof. vm_compute. reflexivity. Qed.

Print Assumptions C19_rng_only_under_random_options.
Print Assumptions C19_caller_data_untouched.
Print Assumptions C19_no_state_shared_between_calls.
