(* P.C02 -- Evaluation budget and evaluation counters are exact.
   (1) theorems about the regenerated Controller.evaluate_objective (the single choke point): budget never exceeded,
       nf advances by exactly the samples run = min(requested, remaining budget), nx advances by one iff a sample was
       run, the log gets consecutive evaluation numbers with one point number and one x;
   (2) every reachable accounting state (any sequence of evaluations, any requested counts, any maxfun): the log is
       numbered 1..nf without gaps, point numbers 1..nx without gaps, equal point number => identical x;
   (3) the x0 sampling block of solve_main (regenerated counter slice) refines the same accounting step;
   (4) tables regenerated from solver.py/controller.py: no other write to the counters, restarts are admitted only while
       nf < maxfun (so the block's hypothesis nf_so_far < maxfun holds), results report the machine's counters. *)
From Coq Require Import ZArith List Bool String Lia.
Require Import DV.Base.Prelude DV.Spec.Schema DV.Lib.MSpec DV.Lib.CSpec DV.Lib.MEval DV.Lib.MX0 DV.Lib.Tables.
From G Require Import Gen_util Gen_model Gen_controller Gen_solver Gen_tables.
From P Require Import Char_model Char_controller.
Import ListNotations.
Open Scope Z_scope.

Section C02.
Context `{A : Arith}.
Theorem C02_evaluate_objective_accounting : forall st x ns orc log st' orc' log' rvecs objs run ex,
  0 <= ns -> c_nf st <= c_maxfun st ->
  py_controller_evaluate_objective st x ns orc log = Ok (st', orc', log', (rvecs, objs, run, ex)) ->
  eval_post st (py_util_remove_scaling x (c_scaling_changes st)) ns log st' log' run ex.
Proof.
  intros st x ns orc log st' orc' log' rvecs objs run ex H1 H2 H. rewrite evaluate_objective_eq in H. rewrite remove_scaling_eq.
  exact (evaluate_objective_spec _ _ _ _ _ _ _ _ _ _ _ _ H1 H2 H).
Qed.
Theorem C02_evaluate_objective_refines_accounting : forall st x ns orc log st' orc' log' rvecs objs run ex,
  0 <= ns -> c_nf st <= c_maxfun st ->
  py_controller_evaluate_objective st x ns orc log = Ok (st', orc', log', (rvecs, objs, run, ex)) ->
  acct_of st' log' = acct_eval (acct_of st log) (py_util_remove_scaling x (c_scaling_changes st)) ns /\
  run = Z.min ns (c_maxfun st - c_nf st) /\ frame st st'.
Proof.
  intros st x ns orc log st' orc' log' rvecs objs run ex H1 H2 H. rewrite evaluate_objective_eq in H. rewrite remove_scaling_eq.
  exact (evaluate_objective_refines _ _ _ _ _ _ _ _ _ _ _ _ H1 H2 H).
Qed.
(* the x0 sampling block at the start of solve_main -- the only objective calls not made through evaluate_objective --
   behaves exactly like one evaluate_objective call on a fresh point.  py_solver_x0_block is the counter slice of that
   block regenerated from solver.py; it equals the reference model of DV.Lib.MX0, whose accounting theorem transfers. *)
Lemma x0_block_eq : forall nf0 nx0 mf ns x0 sc orc log, py_solver_x0_block nf0 nx0 mf ns x0 sc orc log = sx0_block nf0 nx0 mf ns x0 sc orc log.
Proof.
  intros; first [reflexivity | unfold py_solver_x0_block, sx0_block; rewrite ?remove_scaling_eq; reflexivity ].
Qed.
Theorem C02_x0_block_refines_accounting : forall nf0 nx0 mf ns x0 sc orc log orc' log' nf nx run ex,
  1 <= ns -> nf0 < mf ->
  py_solver_x0_block nf0 nx0 mf ns x0 sc orc log = Ok (orc', log', (nf, nx, run, ex)) ->
  {| a_nf := nf; a_nx := nx; a_maxfun := mf; a_log := log' |} =
    acct_eval {| a_nf := nf0; a_nx := nx0; a_maxfun := mf; a_log := log |} (py_util_remove_scaling x0 sc) ns /\
  run = Z.min ns (mf - nf0) /\ (run < ns -> ex <> None) /\ (run = ns -> ex = None).
Proof.
  intros nf0 nx0 mf ns x0 sc orc log orc' log' nf nx run ex H1 H2 H. rewrite x0_block_eq in H. rewrite remove_scaling_eq.
  split; [exact (x0_block_refines _ _ _ _ _ _ _ _ _ _ _ _ _ _ H1 H2 H)|].
  destruct (x0_block_spec _ _ _ _ _ _ _ _ _ _ _ _ _ _ H1 H2 H) as (E & _ & _ & _ & _ & E1 & E2). auto.
Qed.
(* every reachable accounting state *)
Theorem C02_log_wellformed_forever : forall (calls : list (vec * Z)) a, acct_ok a -> Forall (fun c => 0 <= snd c) calls ->
  acct_ok (fold_left (fun a c => acct_eval a (fst c) (snd c)) calls a).
Proof. exact acct_run_ok. Qed.
Theorem C02_budget_and_counts : forall (calls : list (vec * Z)) a, acct_ok a -> Forall (fun c => 0 <= snd c) calls ->
  let a' := fold_left (fun a c => acct_eval a (fst c) (snd c)) calls a in
  a_nf a' <= a_maxfun a' /\ lenZ (a_log a') = a_nf a' /\ last_pt (a_log a') 0 = a_nx a'.
Proof. exact acct_budget. Qed.
(* a whole run of solve_main: the x0 block followed by any sequence of evaluate_objective calls, started from any
   well-formed accounting state (the previous runs'), ends in a well-formed accounting state within the budget *)
Theorem C02_whole_run_accounting : forall nf0 nx0 mf ns x0 sc orc log orc' log' nf nx run ex (calls : list (vec * Z)),
  acct_ok {| a_nf := nf0; a_nx := nx0; a_maxfun := mf; a_log := log |} -> 1 <= ns -> nf0 < mf ->
  py_solver_x0_block nf0 nx0 mf ns x0 sc orc log = Ok (orc', log', (nf, nx, run, ex)) ->
  Forall (fun c => 0 <= snd c) calls ->
  let a' := fold_left (fun a c => acct_eval a (fst c) (snd c)) calls {| a_nf := nf; a_nx := nx; a_maxfun := mf; a_log := log' |} in
  acct_ok a' /\ a_nf a' <= mf /\ lenZ (a_log a') = a_nf a'.
Proof.
  intros nf0 nx0 mf ns x0 sc orc log orc' log' nf nx run ex calls Ha Hns Hlt Hx Hc.
  destruct (C02_x0_block_refines_accounting _ _ _ _ _ _ _ _ _ _ _ _ _ _ Hns Hlt Hx) as (E & _). cbv zeta. rewrite E.
  assert (Ha1: acct_ok (acct_eval {| a_nf := nf0; a_nx := nx0; a_maxfun := mf; a_log := log |} (py_util_remove_scaling x0 sc) ns))
    by (apply acct_eval_ok; [exact Ha|lia]).
  pose proof (acct_run_ok calls _ Ha1 Hc) as Hok. split; [exact Hok|].
  destruct (acct_budget calls _ Ha1 Hc) as (H1 & H2 & _). split; [|exact H2].
  assert (Em: forall cs a, a_maxfun (fold_left (fun a c => acct_eval a (fst c) (snd c)) cs a) = a_maxfun a).
  { induction cs as [|c cs IH]; intros a; cbn [fold_left]; [reflexivity|]. rewrite IH. reflexivity. }
  rewrite Em in H1. exact H1.
Qed.
(* non-vacuity: the empty log with any positive budget is a well-formed accounting state *)
Example C02_initial_state_ok : forall mf, 0 <= mf -> acct_ok {| a_nf := 0; a_nx := 0; a_maxfun := mf; a_log := [] |}.
Proof. intros mf H. unfold acct_ok. cbn. repeat split; auto; lia. Qed.
End C02.

(* ---- tables ---- *)
Open Scope string_scope.
Definition counter_write_ok (a : asite) : bool :=
  let f := a_func a in let t := a_target a in let v := a_value a in let o := a_op a in
  (streq f "Controller.__init__" && ((streq t "self.nf" && streq v "nf") || (streq t "self.nx" && streq v "nx") || (streq t "self.maxfun" && streq v "maxfun"))) ||
  (streq f "Controller.evaluate_objective" && streq o "+=" && streq v "1" &&
     ((streq t "self.nf" && has_guard (a_guards a) false "self.nf >= self.maxfun") ||
      (streq t "self.nx" && has_guard (a_guards a) false "self.nf >= self.maxfun" && has_guard (a_guards a) true "not incremented_nx"))) ||
  (streq f "OptimResults.__init__" && ((streq t "self.nf" && streq v "nf") || (streq t "self.nx" && streq v "nx"))) ||
  (streq f "OptimResults.from_dict" && ((streq t "nf" && streq v "soln_dict['nf']") || (streq t "nx" && streq v "soln_dict['nx']"))) ||
  (streq f "solve_main" &&
     ((streq t "nf" && streq o "=" && streq v "nf_so_far + 1" && has_guard (a_guards a) true "r0_avg_old is None") ||
      (streq t "nx" && streq o "=" && streq v "nx_so_far + 1" && has_guard (a_guards a) true "r0_avg_old is None") ||
      (streq t "nf" && streq o "+=" && streq v "1" && has_guard (a_guards a) false "nf >= maxfun" && has_guard (a_guards a) true "for i in range(1, number_of_samples)") ||
      (streq t "nf" && streq o "=" && streq v "nf_so_far" && has_guard (a_guards a) false "r0_avg_old is None") ||
      (streq t "nx" && streq o "=" && streq v "nx_so_far" && has_guard (a_guards a) false "r0_avg_old is None"))) ||
  (streq f "solve" &&
     ((streq o "=" && streq v "0" && (streq t "nf" || streq t "nx")) ||
      (streq t "nf" && Z.eqb (a_index a) 5 && Z.eqb (a_arity a) 12) || (streq t "nx" && Z.eqb (a_index a) 6 && Z.eqb (a_arity a) 12) ||
      (streq t "maxfun" && streq v "min(100 * (n + 1), 1000)"))).
Definition counter_writes : list asite := filter (fun a => streq (a_name a) "nf" || streq (a_name a) "nx" || streq (a_name a) "maxfun") T_assigns.
Theorem C02_no_other_counter_write : forallb counter_write_ok counter_writes = true /\ Z.leb 17 (Z.of_nat (List.length counter_writes)) = true.
Proof. vm_compute. split; reflexivity. Qed.

(* the objective wrapper is reached only through evaluate_objective and the x0 loop, always with the current counters *)
Definition eval_call_ok (c : csite) : bool :=
  (streq (c_func c) "Controller.evaluate_objective" && mem "eval_num=self.nf" (c_args c) && mem "pt_num=self.nx" (c_args c) &&
     streq (nth 1 (c_args c) "") "remove_scaling(x, self.scaling_changes)" && streq (nth 0 (c_args c) "") "self.objfun") ||
  (streq (c_func c) "solve_main" && mem "eval_num=nf" (c_args c) && mem "pt_num=nx" (c_args c) &&
     streq (nth 1 (c_args c) "") "remove_scaling(x0, scaling_changes)" && streq (nth 0 (c_args c) "") "objfun" && has_guard (c_guards c) true "r0_avg_old is None").
Theorem C02_choke_points : forallb eval_call_ok (calls_of T_calls "eval_least_squares_with_regularisation") = true /\
  Z.of_nat (List.length (calls_of T_calls "eval_least_squares_with_regularisation")) = 3%Z /\
  map (fun c => (c_file c, c_func c)) (calls_of T_calls "objfun") = [("util", "eval_least_squares_with_regularisation")].
Proof. vm_compute. repeat split; reflexivity. Qed.

(* hard restarts are admitted only while budget remains (so the unconditional first evaluation of a fresh run fits) *)
Definition contains (pat s : string) : bool := match index 0 pat s with Some _ => true | None => false end.
Definition restart_guard_ok (c : csite) : bool :=
  existsb (fun g => fst g && contains "(nf < maxfun)" (snd g) && prefix "while " (snd g)) (c_guards c) ||
  negb (existsb (fun g => prefix "while " (snd g)) (c_guards c)).      (* the first run: nf = 0 < maxfun by input validation *)
Theorem C02_restart_admission : forallb restart_guard_ok (filter (fun c => streq (c_func c) "solve") (calls_of T_calls "solve_main")) = true.
Proof. vm_compute. reflexivity. Qed.

(* every requested sample count is max(nsamples(...), 1) *)
Definition nsamples_ok (a : asite) : bool :=
  match index 0 "max(nsamples(" (a_value a) with Some 0%nat => match index 0 "), 1)" (a_value a) with Some _ => true | None => false end | _ => false end.
Theorem C02_requested_counts_positive :
  forallb nsamples_ok (filter (fun a => streq (a_name a) "number_of_samples" && streq (a_func a) "solve_main") T_assigns) = true.
Proof. vm_compute. reflexivity. Qed.

Print Assumptions C02_evaluate_objective_accounting.
Print Assumptions C02_x0_block_refines_accounting.
Print Assumptions C02_whole_run_accounting.
Print Assumptions C02_log_wellformed_forever.
Print Assumptions C02_budget_and_counts.
Print Assumptions C02_no_other_counter_write.
Print Assumptions C02_choke_points.
Print Assumptions C02_restart_admission.
