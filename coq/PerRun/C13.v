(* P.C13 -- Geometry and convex-constrained step solvers stay inside their regions (partial).
   Theorems: [R] the ball projector lands in the ball, |pball(x,c,r) - c| <= r, on the regenerated pball; after at least
   one Dykstra sweep the result is an output of the LAST projector (C15), and the tables show that in ctrsbox_pgd, ctrsbox_sfista
   and ctrsbox_linear the last projector is the trust-region ball around the centre and that the step handed back is
   dykstra(P, centre + d0) - centre; the regularised step handed to the main loop is replaced by zero when its predicted
   reduction is negative (table).  [R] trsbox_linear / trsbox_geometry (regenerated) stay inside their box and ball for every input (MGeom, MGeomBall).
   Global optimality of the geometry step is validated by the oracle sweep (bisection oracle on the clipped ray), not proved. *)
From Coq Require Import ZArith List Bool String Lia Reals Lra.
Require Import DV.Base.Prelude DV.Base.F64 DV.Base.OrdLaws DV.Spec.Schema DV.Lib.MSpec DV.Lib.MBook DV.Lib.MDyk DV.Lib.MBall DV.Lib.MGeom DV.Lib.MGeomBall DV.Lib.Tables.
From G Require Import Gen_util Gen_model Gen_trust_region Gen_tables.
From P Require Import Char_model C15.
Import ListNotations.

Theorem C13_ball_projector_lands_in_ball : forall (x c : list R) (r : R), (0 < r)%R -> List.length x = List.length c ->
  (ssq (vsub (@py_util_pball ArithR x c r) c) <= r * r)%R.
Proof. intros x c r Hr Hl. rewrite (@pball_eq ArithR). exact (pball_in_ball x c r Hr Hl). Qed.
(* with the ball projected last, every step the convex solvers obtain from their projection satisfies |d| <= Delta *)
Theorem C13_projected_step_within_radius : forall (P : list (list R -> list R)) (c x0 : list R) (delta : R) mi (tol : R) x y cI n,
  P <> [] -> last_proj P = (fun w => @py_util_pball ArithR w c delta) -> (0 < delta)%R ->
  @py_util_dykstra_run ArithR P x0 mi tol = Ok (x, y, cI, n) -> (1 <= n)%Z ->
  (forall z, x = last_proj P z -> List.length z = List.length c) ->
  (ssq (vsub x c) <= delta * delta)%R.
Proof.
  intros P c x0 delta mi tol x y cI n Hne Hlast Hd H Hn Hlen.
  destruct (@C15_sweeps_and_last_projector ArithR P x0 mi tol x y cI n Hne H) as (_ & _ & Hz & _).
  destruct (Hz Hn) as [z Ez]. pose proof (Hlen z Ez) as Hl. rewrite Ez, Hlast. apply C13_ball_projector_lands_in_ball; auto.
Qed.

(* ---- the bound-constrained geometry solver: regenerated trsbox_geometry / trsbox_linear / ball_step ---- *)
Lemma ball_step_eq `{A : Arith} : @py_trust_region_ball_step A = @s_ball_step A. Proof. reflexivity. Qed.
Lemma trsbox_linear_eq `{A : Arith} : @py_trust_region_trsbox_linear A = @s_trsbox_linear A. Proof. reflexivity. Qed.
Lemma trsbox_geometry_eq `{A : Arith} : @py_trust_region_trsbox_geometry A = @s_trsbox_geometry A. Proof. reflexivity. Qed.
(* [R] whatever the linear solver returns lies in the box it was given, widened to contain [-ZT, ZT] (ZT = ZERO_THRESH = 1e-14) *)
Theorem C13_linear_solver_stays_in_its_box : forall (g a b : list R) (Delta : R) (s : list R),
  List.length a = List.length g -> List.length b = List.length g ->
  @py_trust_region_trsbox_linear ArithR g a b Delta = Ok s ->
  List.length s = List.length g /\
  forall j, (0 <= j < lenZ g)%Z -> (Rmin (@getT ArithR a j) (- ZT) <= @getT ArithR s j <= Rmax (@getT ArithR b j) ZT)%R.
Proof. intros g a b Delta s. rewrite (@trsbox_linear_eq ArithR). apply trsbox_linear_in_box. Qed.
(* [R] the geometry step for bound constraints: when trsbox_geometry returns x (its two asserts passed: xbase is inside the box
   up to ZT), every coordinate of x lies in [lower - 2 ZT, upper + 2 ZT], and in [lower - ZT, upper + ZT] when xbase is feasible *)
Theorem C13_geometry_step_inside_the_box : forall (xbase g lower upper : list R) (c Delta : R) (x : list R),
  List.length g = List.length xbase -> List.length lower = List.length xbase -> List.length upper = List.length xbase ->
  @py_trust_region_trsbox_geometry ArithR xbase c g lower upper Delta = Ok x ->
  List.length x = List.length xbase /\
  forall j, (0 <= j < lenZ xbase)%Z ->
    (@getT ArithR lower j - 2 * ZT <= @getT ArithR x j <= @getT ArithR upper j + 2 * ZT)%R /\
    ((@getT ArithR lower j <= @getT ArithR xbase j <= @getT ArithR upper j)%R ->
     (@getT ArithR lower j - ZT <= @getT ArithR x j <= @getT ArithR upper j + ZT)%R).
Proof.
  intros xbase g lower upper c Delta x Hg Hl Hu H. rewrite (@trsbox_geometry_eq ArithR) in H.
  destruct (trsbox_geometry_in_box xbase g lower upper c Delta x Hg Hl Hu H) as (Hlen & Hbox). split; [exact Hlen|].
  intros j Hj. destruct (Hbox j Hj) as (A1 & A2 & B). pose proof ZT_pos as Hz. revert B. unfold Rmin, Rmax.
  destruct (Rle_dec _ _); destruct (Rle_dec _ _); intros B; split; intros; lra.
Qed.
(* [R] ... and in the trust region: |s| <= Delta for the linear solver, |x - xbase| <= Delta for the geometry step, for every input
   (no sign condition on Delta is needed: the starting point 0 has norm 0 <= Delta^2) *)
Theorem C13_linear_solver_stays_in_the_ball : forall (g a b : list R) (Delta : R) (s : list R),
  List.length a = List.length g -> List.length b = List.length g ->
  @py_trust_region_trsbox_linear ArithR g a b Delta = Ok s -> (ssq s <= Delta * Delta)%R.
Proof. intros g a b Delta s. rewrite (@trsbox_linear_eq ArithR). apply trsbox_linear_in_ball. Qed.
Theorem C13_geometry_step_inside_the_ball : forall (xbase g lower upper : list R) (c Delta : R) (x : list R),
  List.length g = List.length xbase -> List.length lower = List.length xbase -> List.length upper = List.length xbase ->
  @py_trust_region_trsbox_geometry ArithR xbase c g lower upper Delta = Ok x -> (ssq (vsub x xbase) <= Delta * Delta)%R.
Proof. intros xbase g lower upper c Delta x. rewrite (@trsbox_geometry_eq ArithR). apply trsbox_geometry_in_ball. Qed.
(* the definitions run: on a concrete binary64 instance the regenerated solver returns a point, inside the box *)
Example C13_geometry_runs :
  match @py_trust_region_trsbox_geometry ArithF64 (vof [0; 0]%Z) (of_bits 4607182418800017408) (vof [4607182418800017408; 13835058055282163712]%Z)
          (vof [13830554455654793216; 13830554455654793216]%Z) (vof [4607182418800017408; 4607182418800017408]%Z) (of_bits 4611686018427387904) with
  | Ok x => Z.eqb (lenZ x) 2 | Err _ => false end = true.
Proof. vm_compute. reflexivity. Qed.

(* ---- tables ---- *)
Open Scope string_scope.
Definition ball_last (f centre radius : string) : bool :=
  existsb (fun d => streq (d_func d) (f ++ ".trproj") && streq (d_kind d) ("lambda:pball(w, " ++ centre ++ ", " ++ radius ++ ")") && slist_eq (d_params d) ["w"]) T_defs &&
  existsb (fun a => streq (a_func a) f && streq (a_target a) "P" && streq (a_value a) "list(projections)") T_assigns &&
  match filter (fun c => streq (c_func c) f && streq (c_callee c) "append") T_calls with
  | [c] => streq (c_dotted c) "P.append" && slist_eq (c_args c) ["trproj"]
  | _ => false end &&
  existsb (fun a => streq (a_func a) (f ++ ".proj") && streq (a_target a) "p" && streq (a_value a) ("dykstra(P, " ++ centre ++ " + d0, max_iter=d_max_iters, tol=d_tol)")) T_assigns &&
  existsb (fun r => streq (r_func r) (f ++ ".proj") && slist_eq (r_vals r) ["p - " ++ centre]) T_returns.
Theorem C13_trust_region_ball_is_projected_last :
  ball_last "ctrsbox_sfista" "xopt" "delta" = true /\ ball_last "ctrsbox_pgd" "xopt" "delta" = true /\ ball_last "ctrsbox_linear" "xbase" "Delta" = true.
Proof. vm_compute. repeat split; reflexivity. Qed.
Theorem C13_zero_step_replaces_model_increase :
  existsb (fun a => streq (a_func a) "Controller.trust_region_step" && streq (a_target a) "d" && streq (a_value a) "np.zeros(d.shape)" &&
                    has_guard (a_guards a) true "pred_reduction < 0.0" && has_guard (a_guards a) false "self.h is None") T_assigns = true /\
  (* ... where the predicted reduction compares h at the un-scaled incumbent with the regularised model value of the step *)
  forallb (fun a => streq (a_value a) "self.h(remove_scaling(self.model.xopt(abs_coordinates=True), self.scaling_changes), *self.argsh) - model_value(gopt, H, d, self.model.xopt(abs_coordinates=True), self.h, self.argsh, self.scaling_changes)")
          (filter (fun a => streq (a_func a) "Controller.trust_region_step" && streq (a_name a) "pred_reduction") T_assigns) = true /\
  existsb (fun a => streq (a_func a) "Controller.trust_region_step" && streq (a_name a) "pred_reduction") T_assigns = true.
Proof. vm_compute. repeat split; reflexivity. Qed.
(* the geometry solvers return the better of the minimiser and the maximiser of the linear function *)
Theorem C13_geometry_returns_better_of_two :
  forallb (fun f => existsb (fun r => streq (r_func r) f && has_guard (r_guards r) true "abs(c + np.dot(g, smin)) >= abs(c + np.dot(g, smax))") T_returns)
          ["ctrsbox_geometry"; "trsbox_geometry"] = true.
Proof. vm_compute. reflexivity. Qed.

Print Assumptions C13_ball_projector_lands_in_ball.
Print Assumptions C13_linear_solver_stays_in_its_box.
Print Assumptions C13_geometry_step_inside_the_box.
Print Assumptions C13_linear_solver_stays_in_the_ball.
Print Assumptions C13_geometry_step_inside_the_ball.
Print Assumptions C13_projected_step_within_radius.
Print Assumptions C13_trust_region_ball_is_projected_last.
