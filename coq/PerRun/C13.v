(* P.C13 -- Geometry and convex-constrained step solvers stay inside their regions (partial).
   Theorems: [R] the ball projector lands in the ball, |pball(x,c,r) - c| <= r, on the regenerated pball; after at least
   one Dykstra sweep the result is an output of the LAST projector (C15), and the tables show that in ctrsbox_pgd, ctrsbox_sfista
   and ctrsbox_linear the last projector is the trust-region ball around the centre and that the step handed back is
   dykstra(P, centre + d0) - centre; the regularised step handed to the main loop is replaced by zero when its predicted
   reduction is negative (table).  Global optimality of the geometry step and the box clause of trsbox_linear are validated by
   the oracle sweep (bisection oracle on the clipped ray), not proved. *)
From Coq Require Import ZArith List Bool String Lia Reals Lra.
Require Import DV.Base.Prelude DV.Base.F64 DV.Base.OrdLaws DV.Spec.Schema DV.Lib.MSpec DV.Lib.MBook DV.Lib.MDyk DV.Lib.MBall DV.Lib.Tables.
From G Require Import Gen_util Gen_model Gen_tables.
From P Require Import Char_model C15.
Import ListNotations.

Theorem C13_ball_projector_lands_in_ball : forall (x c : list R) (r : R), (0 < r)%R -> List.length x = List.length c ->
  (ssq (vsub (@py_util_pball ArithR x c r) c) <= r * r)%R.
Proof. intros x c r Hr Hl. rewrite (@pball_eq ArithR). exact (pball_in_ball x c r Hr Hl). Qed.
(* with the ball projected last, every step the convex solvers obtain from their projection satisfies |d| <= Delta *)
Theorem C13_projected_step_within_radius : forall (P : list (list R -> list R)) (c x0 : list R) (delta : R) mi (tol : R) x y cI n,
  P <> [] -> last_proj P = (fun w => @py_util_pball ArithR w c delta) -> (0 < delta)%R ->
  @py_util_dykstra_run ArithR P x0 mi tol = Ok (x, y, cI, n) -> (1 <= n)%Z ->
  (forall z, x = last_proj P z -> List.length z = List.length c) ->
  (ssq (vsub x c) <= delta * delta)%R.
Proof.
  intros P c x0 delta mi tol x y cI n Hne Hlast Hd H Hn Hlen.
  destruct (@C15_sweeps_and_last_projector ArithR P x0 mi tol x y cI n Hne H) as (_ & _ & Hz & _).
  destruct (Hz Hn) as [z Ez]. pose proof (Hlen z Ez) as Hl. rewrite Ez, Hlast. apply C13_ball_projector_lands_in_ball; auto.
Qed.

(* ---- tables ---- *)
Open Scope string_scope.
Definition ball_last (f centre radius : string) : bool :=
  existsb (fun d => streq (d_func d) (f ++ ".trproj") && streq (d_kind d) ("lambda:pball(w, " ++ centre ++ ", " ++ radius ++ ")") && slist_eq (d_params d) ["w"]) T_defs &&
  existsb (fun a => streq (a_func a) f && streq (a_target a) "P" && streq (a_value a) "list(projections)") T_assigns &&
  match filter (fun c => streq (c_func c) f && streq (c_callee c) "append") T_calls with
  | [c] => streq (c_dotted c) "P.append" && slist_eq (c_args c) ["trproj"]
  | _ => false end &&
  existsb (fun a => streq (a_func a) (f ++ ".proj") && streq (a_target a) "p" && streq (a_value a) ("dykstra(P, " ++ centre ++ " + d0, max_iter=d_max_iters, tol=d_tol)")) T_assigns &&
  existsb (fun r => streq (r_func r) (f ++ ".proj") && slist_eq (r_vals r) ["p - " ++ centre]) T_returns.
Theorem C13_trust_region_ball_is_projected_last :
  ball_last "ctrsbox_sfista" "xopt" "delta" = true /\ ball_last "ctrsbox_pgd" "xopt" "delta" = true /\ ball_last "ctrsbox_linear" "xbase" "Delta" = true.
Proof. vm_compute. repeat split; reflexivity. Qed.
Theorem C13_zero_step_replaces_model_increase :
  existsb (fun a => streq (a_func a) "Controller.trust_region_step" && streq (a_target a) "d" && streq (a_value a) "np.zeros(d.shape)" &&
                    has_guard (a_guards a) true "pred_reduction < 0.0" && has_guard (a_guards a) false "self.h is None") T_assigns = true /\
  (* ... where the predicted reduction compares h at the un-scaled incumbent with the regularised model value of the step *)
  forallb (fun a => streq (a_value a) "self.h(remove_scaling(self.model.xopt(abs_coordinates=True), self.scaling_changes), *self.argsh) - model_value(gopt, H, d, self.model.xopt(abs_coordinates=True), self.h, self.argsh, self.scaling_changes)")
          (filter (fun a => streq (a_func a) "Controller.trust_region_step" && streq (a_name a) "pred_reduction") T_assigns) = true /\
  existsb (fun a => streq (a_func a) "Controller.trust_region_step" && streq (a_name a) "pred_reduction") T_assigns = true.
Proof. vm_compute. repeat split; reflexivity. Qed.
(* the geometry solvers return the better of the minimiser and the maximiser of the linear function *)
Theorem C13_geometry_returns_better_of_two :
  forallb (fun f => existsb (fun r => streq (r_func r) f && has_guard (r_guards r) true "abs(c + np.dot(g, smin)) >= abs(c + np.dot(g, smax))") T_returns)
          ["ctrsbox_geometry"; "trsbox_geometry"] = true.
Proof. vm_compute. reflexivity. Qed.

Print Assumptions C13_ball_projector_lands_in_ball.
Print Assumptions C13_projected_step_within_radius.
Print Assumptions C13_trust_region_ball_is_projected_last.
