(* P.C09 -- General convex constraints hold at every evaluation up to Dykstra's tolerance.
   (1) the Dykstra theorems of C15 on the regenerated function (distance bound from the stopping rule [R]; the last
       projector's set holds exactly; sweep count);
   (2) every point the model hands out in absolute coordinates is, when projections are given, literally the output
       of dykstra(projections, xbase + step) -- a theorem about the regenerated Model.as_absolute_coordinates / xpt;
   (3) tables from solve(): the bound box is turned into a projector and appended LAST, and the starting point is
       replaced by its projection unconditionally. *)
From Coq Require Import ZArith List Bool String Lia Reals Lra.
Require Import DV.Base.Prelude DV.Base.F64 DV.Base.OrdLaws DV.Spec.Schema DV.Lib.MSpec DV.Lib.MBook DV.Lib.MDyk DV.Lib.Tables.
From G Require Import Gen_util Gen_model Gen_tables.
From P Require Import Char_model C15.
Import ListNotations.
Open Scope Z_scope.

Section C09.
Context `{A : Arith}.
(* default tolerance / sweep bound used by the model when mapping a step to user space: dykstra's own defaults *)
Definition dflt_tol : T := ofdy 7737125245533627 (-86).     (* the binary64 value of the literal 1e-10 *)
Theorem C09_eval_point_is_dykstra_output : forall st x, projections st <> [] ->
  py_model_as_absolute_coordinates st x = py_util_dykstra (projections st) (vmap2 add (xbase st) x) 100 dflt_tol.
Proof. intros st x Hp. unfold py_model_as_absolute_coordinates. destruct (projections st); [congruence|]. reflexivity. Qed.
Theorem C09_stored_point_is_dykstra_output : forall st k, projections st <> [] ->
  py_model_xpt st k true = py_util_dykstra (projections st) (vmap2 add (xbase st) (getrow (points st) k)) 100 dflt_tol.
Proof. intros st k Hp. unfold py_model_xpt. cbn [negb]. destruct (projections st); [congruence|]. reflexivity. Qed.
(* the wrapper returns the x component of the loop state (or the input if the loop state is an error, which cannot happen:
   the loop runs on explicit fuel max_iter and its guard contains n < max_iter) *)
Theorem C09_wrapper_projects_state : forall P x0 mi tol x y cI n,
  py_util_dykstra_run P x0 mi tol = Ok (x, y, cI, n) -> py_util_dykstra P x0 mi tol = x.
Proof. intros P x0 mi tol x y cI n H. unfold py_util_dykstra. rewrite H. reflexivity. Qed.

Context `{L : !OrdLaws A}.
(* with the bound box appended last, every point produced after >= 1 sweep satisfies the bounds exactly *)
Theorem C09_box_last_exact : forall P x0 mi tol x y cI n l u z,
  P <> [] -> last_proj P = (fun v => py_util_pbox v l u) -> okbox l u ->
  py_util_dykstra_run P x0 mi tol = Ok (x, y, cI, n) -> 1 <= n ->
  x = last_proj P z -> List.length z = List.length l -> vnonnan z -> vin l u x.
Proof.
  intros P x0 mi tol x y cI n l u z Hne Hlast Hbox H Hn Hz Hlen Hnn.
  rewrite Hz, Hlast. unfold py_util_pbox. apply vclip_xl_in; auto.
Qed.
End C09.

(* [R] the tolerance clause, restated from C15 *)
Theorem C09_tolerance_bound : forall n (P : list (list R -> list R)) (x0 : list R) max_iter (tol : R) (x : list R) y cI k,
  Pok n P -> List.length x0 = n -> @py_util_dykstra_run ArithR P x0 max_iter tol = Ok (x, y, cI, k) -> 1 <= k -> k < max_iter ->
  forall i0, 0 <= i0 < lenZ P -> exists z w, z = getD (fun v_ => v_) P i0 w /\ (ssq (vsub x z) < IZR (lenZ P) * tol)%R.
Proof.
  intros n P x0 mi tol x y cI k HP Hx H Hk Hlt i0 Hi0.
  destruct (C15_stopping_rule_bounds_distance n P x0 mi tol x y cI k HP Hx H Hk) as (HcI & _ & Hb & Hrule).
  destruct (Hb i0 Hi0) as (z & w & Ez & Hz). exists z, w. split; auto.
  specialize (Hrule Hlt). assert (Hp: (0 < IZR (lenZ P))%R) by (apply IZR_lt; lia).
  eapply Rle_lt_trans; [exact Hz|]. apply Rmult_lt_compat_l; auto.
Qed.

(* ---- tables ---- *)
Open Scope string_scope.
Definition box_appended_last : bool :=
  existsb (fun d => streq (d_func d) "solve.bproj" && streq (d_kind d) "lambda:pbox(w, xlb, xub)" && slist_eq (d_params d) ["w"]) T_defs &&
  match filter (fun c => streq (c_func c) "solve") (calls_of T_calls "append") with
  | [c] => streq (c_dotted c) "projections.append" && slist_eq (c_args c) ["bproj"] && has_guard (c_guards c) true "projections" &&
           (* ... and projections is not re-bound or extended afterwards *)
           forallb (fun a => Z.ltb (a_line a) (c_line c)) (filter (fun a => streq (a_func a) "solve" && streq (a_name a) "projections") T_assigns)
  | _ => false
  end &&
  existsb (fun a => streq (a_func a) "solve" && streq (a_target a) "xlb" && streq (a_value a) "xl.copy()") T_assigns &&
  existsb (fun a => streq (a_func a) "solve" && streq (a_target a) "xub" && streq (a_value a) "xu.copy()") T_assigns.
(* x0 := dykstra(projections, x0, user tolerance) unconditionally (no np.allclose gate) *)
Definition x0_projected : bool :=
  existsb (fun a => streq (a_func a) "solve" && streq (a_target a) "xp" &&
                    streq (a_value a) "dykstra(projections, x0, max_iter=params('dykstra.max_iters'), tol=params('dykstra.d_tol'))" &&
                    has_guard (a_guards a) true "projections") T_assigns &&
  existsb (fun a => streq (a_func a) "solve" && streq (a_target a) "x0" && streq (a_value a) "xp.copy()" &&
                    has_guard (a_guards a) true "projections" &&
                    negb (existsb (fun g => prefix "not np.allclose" (snd g)) (a_guards a))) T_assigns.
(* every dykstra call inside the model/controller projects onto the model's projection list *)
Definition dykstra_calls_ok : bool :=
  forallb (fun c => (streq (c_file c) "solver") || mem (List.hd "" (c_args c)) ["self.projections"; "self.model.projections"])
          (filter (fun c => negb (streq (c_file c) "trust_region")) (calls_of T_calls "dykstra")).
(* every point handed to evaluate_objective is the variable x, and the last assignment to x before the call, in the same
   function, is x = <model>.as_absolute_coordinates(...): the evaluated point is the projected one, not the raw step *)
Definition last_x_before (func : string) (line : Z) : option asite :=
  fold_left (fun best a => if streq (a_func a) func && streq (a_name a) "x" && streq (a_target a) "x" && Z.ltb (a_line a) line
                           then match best with Some b => if Z.ltb (a_line b) (a_line a) then Some a else best | None => Some a end
                           else best) T_assigns None.
Definition eval_sites : list csite :=
  filter (fun c => streq (c_file c) "controller" || streq (c_file c) "solver") (calls_of T_calls "evaluate_objective").
Definition eval_points_are_projected : bool :=
  forallb (fun c => streq (List.hd "" (c_args c)) "x" &&
                    match last_x_before (c_func c) (c_line c) with
                    | Some a => prefix "self.model.as_absolute_coordinates(" (a_value a) || prefix "control.model.as_absolute_coordinates(" (a_value a)
                    | None => false end) eval_sites &&
  Z.leb 11 (Z.of_nat (List.length eval_sites)).
(* the list built in solve() (user sets, box last) is the one every run projects onto: each solve_main(...) call in solve(), the
   Controller(...) call in solve_main and the Model(...) call in Controller.__init__ pass it on by name, and the Model constructor
   stores it (the positions are checked against the callee's parameter list by C03_runs_start_with_the_callers_counters) *)
Definition passes_projections (c : csite) : bool := mem "projections" (c_args c) || mem "projections=projections" (c_args c).
Definition projections_reach_every_run : bool :=
  let sm := filter (fun c => streq (c_func c) "solve") (calls_of T_calls "solve_main") in
  let ct := filter (fun c => streq (c_func c) "solve_main") (calls_of T_calls "Controller") in
  let md := filter (fun c => streq (c_func c) "Controller.__init__") (calls_of T_calls "Model") in
  Nat.eqb (List.length sm) 3 && Nat.eqb (List.length ct) 1 && Nat.eqb (List.length md) 1 &&
  forallb passes_projections (sm ++ ct ++ md) &&
  (* the only write of a .projections attribute anywhere is the constructor's unconditional self.projections = projections *)
  match filter (fun a => streq (a_name a) "projections" && negb (streq (a_target a) "projections")) T_assigns with
  | [a] => streq (a_func a) "Model.__init__" && streq (a_target a) "self.projections" && streq (a_value a) "projections" &&
           match a_guards a with [] => true | _ => false end
  | _ => false end &&
  negb (existsb (fun a => streq (a_file a) "solver" && streq (a_func a) "solve_main" && streq (a_name a) "projections") T_assigns).
Theorem C09_the_projection_list_reaches_every_run : projections_reach_every_run = true.
Proof. vm_compute. reflexivity. Qed.
Theorem C09_every_evaluated_point_is_projected : eval_points_are_projected = true.
Proof. vm_compute. reflexivity. Qed.
Theorem C09_box_is_projected_last : box_appended_last = true.
Proof. vm_compute. reflexivity. Qed.
Theorem C09_x0_is_projected : x0_projected = true.
Proof. vm_compute. reflexivity. Qed.
Theorem C09_model_projects_onto_the_given_sets : dykstra_calls_ok = true.
Proof. vm_compute. reflexivity. Qed.

Print Assumptions C09_eval_point_is_dykstra_output.
Print Assumptions C09_box_last_exact.
Print Assumptions C09_tolerance_bound.
Print Assumptions C09_every_evaluated_point_is_projected.
Print Assumptions C09_the_projection_list_reaches_every_run.
Print Assumptions C09_box_is_projected_last.
Print Assumptions C09_x0_is_projected.
