(* P.C15 -- Dykstra's projection is feasible, respects its stopping rule, and keeps the last box exactly.
   Theorems about the function regenerated from util.py (py_util_dykstra_run returns the whole loop state
   (x, y, cI, n)).  The clause "within 1e-3 of the true projection" is NOT a theorem (Dykstra's change-based stopping
   rule does not imply it; see known_findings.json) and is only validated by the sweep. *)
From Coq Require Import ZArith List Bool String Lia Reals Lra.
Require Import DV.Base.Prelude DV.Base.F64 DV.Base.OrdLaws DV.Spec.Schema DV.Lib.MSpec DV.Lib.MBook DV.Lib.MDyk.
From G Require Import Gen_util Gen_model.
From P Require Import Char_model.
Import ListNotations.
Open Scope Z_scope.

(* [R] stopping rule => feasibility bound: with p projectors, whenever at least one sweep was made the result x has, for
   every projector i, an output z of that projector (a point of the i-th set) with |x - z|^2 <= p * cI; and when the loop
   ended before max_iter sweeps, cI < tol.  Hence dist(x, C_i) < sqrt(p * tol). *)
Theorem C15_stopping_rule_bounds_distance : forall n (P : list (list R -> list R)) (x0 : list R) max_iter (tol : R) x y cI k,
  Pok n P -> List.length x0 = n -> @py_util_dykstra_run ArithR P x0 max_iter tol = Ok (x, y, cI, k) -> 1 <= k ->
  (0 <= cI)%R /\ List.length x = n /\
  (forall i0, 0 <= i0 < lenZ P -> exists z w, z = getD (fun v_ => v_) P i0 w /\ (ssq (vsub x z) <= IZR (lenZ P) * cI)%R) /\
  (k < max_iter -> (cI < tol)%R).
Proof. intros n P x0 mi tol x y cI k HP Hx H Hk. rewrite (@dykstra_run_eq ArithR) in H. exact (dykstra_run_bound n P x0 mi tol x y cI k HP Hx H Hk). Qed.

(* [R] a point already in all sets is returned unchanged, after exactly one sweep *)
Theorem C15_feasible_point_unchanged : forall (P : list (list R -> list R)) (x0 : list R) max_iter (tol : R),
  1 <= max_iter -> (0 < tol <= @finf ArithR)%R -> (forall i, 0 <= i < lenZ P -> getD (fun v_ => v_) P i x0 = x0) ->
  exists y, @py_util_dykstra_run ArithR P x0 max_iter tol = Ok (x0, y, 0%R, 1).
Proof. intros P x0 mi tol H1 H2 H3. destruct (dykstra_run_fixed_point P x0 mi tol H1 H2 H3) as [y Hy]. exists y. rewrite (@dykstra_run_eq ArithR). exact Hy. Qed.

Section Any.
Context `{A : Arith}.
(* any arithmetic (binary64 included): at most max_iter sweeps; after at least one sweep the result IS an output of the
   last projector; with zero sweeps the input is returned *)
Theorem C15_sweeps_and_last_projector : forall P x0 max_iter tol x y cI n, P <> [] ->
  py_util_dykstra_run P x0 max_iter tol = Ok (x, y, cI, n) ->
  0 <= n /\ (n <= max_iter \/ n = 0) /\ (1 <= n -> exists z, x = last_proj P z) /\ (n = 0 -> x = x0) /\ (n < max_iter -> le tol cI = false).
Proof. intros P x0 mi tol x y cI n Hne H. rewrite dykstra_run_eq in H. exact (dykstra_run_last P x0 mi tol x y cI n Hne H). Qed.

Context `{L : !OrdLaws A}.
(* ... so when the last set is a box [l,u] (as solve() arranges for bound constraints) the result satisfies l <= x <= u
   exactly, whatever the other projectors did and however many sweeps were made (>= 1) *)
Theorem C15_last_box_holds_exactly : forall P x0 max_iter tol x y cI n l u,
  P <> [] -> last_proj P = (fun v => py_util_pbox v l u) -> okbox l u ->
  (forall z, List.length (py_util_pbox z l u) = List.length l -> vnonnan z -> List.length z = List.length l) ->
  py_util_dykstra_run P x0 max_iter tol = Ok (x, y, cI, n) -> 1 <= n ->
  forall z, x = last_proj P z -> List.length z = List.length l -> vnonnan z -> vin l u x.
Proof.
  intros P x0 mi tol x y cI n l u Hne Hlast Hbox _ H Hn z Hz Hlen Hnn.
  rewrite Hz, Hlast. unfold py_util_pbox. apply vclip_xl_in; auto.
Qed.
End Any.

(* pbox as used for the last projector is the exact clip, and pbox/pball regenerated equal the reference *)
Theorem C15_pbox_is_clip : forall `{A : Arith} x l u, py_util_pbox x l u = vmap2 npmin (vmap2 npmax x l) u.
Proof. intros. reflexivity. Qed.

Print Assumptions C15_stopping_rule_bounds_distance.
Print Assumptions C15_feasible_point_unchanged.
Print Assumptions C15_sweeps_and_last_projector.
Print Assumptions C15_last_box_holds_exactly.
