(* P.C12 -- The box trust-region subproblem solver returns feasible steps (box clause: theorem; decrease clauses: validated).
   Every return of trsbox / alt_trust_step hands back d_within_bounds(d, xopt, sl, su, xbdi) (table), whose regenerated
   definition builds xnew = clip(xopt + d) with the components flagged in xbdi set to the bound itself and returns xnew - xopt.
   [ord] xnew lies in [sl, su] exactly, for every d, every xbdi, all binary64 values;  [R] xopt + (xnew - xopt) = xnew, so in
   exact arithmetic the step satisfies the box exactly.  In binary64 the single rounding of xnew - xopt can move xopt + d one
   ulp outside (known finding F30); the point the solver evaluates is clipped again (C01). *)
From Coq Require Import ZArith List Bool String Lia Reals Lra.
Require Import DV.Base.Prelude DV.Base.F64 DV.Base.OrdLaws DV.Spec.Schema DV.Lib.MSpec DV.Lib.MTrs DV.Lib.Tables.
From G Require Import Gen_util Gen_trust_region Gen_solver Gen_tables.
Import ListNotations.

Section C12.
Context `{A : Arith} `{L : !OrdLaws A}.
Lemma mask_in sl su : okbox sl su -> forall xnew xbdi, vin sl su xnew -> List.length xbdi = List.length xnew -> vin sl su (mask_bounds xnew sl su xbdi).
Proof.
  intros Hb. induction Hb as [|l u sl su Hlu Hb IH]; intros xnew xbdi Hv Hlen.
  - inversion Hv; subst. destruct xbdi; constructor.
  - inversion Hv as [|? x ? xn Hx Hrest]; subst. destruct xbdi as [|b xb]; [discriminate|]. cbn [mask_bounds]. constructor.
    + cbn [fst snd] in *. destruct (le_true_nonnan _ _ Hlu) as [Hl Hu]. destruct (Z.eqb b (-1)); [|destruct (Z.eqb b 1)]; auto.
      * split; [now apply le_refl_nn|exact Hlu].
      * split; [exact Hlu|now apply le_refl_nn].
    + apply IH; auto.
Qed.
Theorem C12_new_point_is_in_the_box_exactly : forall d xopt sl su xbdi, okbox sl su ->
  List.length (vmap2 add xopt d) = List.length sl -> List.length xbdi = List.length sl -> vnonnan (vmap2 add xopt d) ->
  vin sl su (py_tr_d_within_bounds_xnew d xopt sl su xbdi).
Proof.
  intros d xopt sl su xbdi Hb Hl1 Hl2 Hn. unfold py_tr_d_within_bounds_xnew.
  pose proof (vclip_max_min_in sl su (vmap2 add xopt d) Hb Hl1 Hn) as Hc. apply mask_in; auto.
  assert (Hsu: List.length su = List.length sl) by (clear -Hb; induction Hb; cbn; auto).
  rewrite (vmap2_length npmax), (vmap2_length npmin). rewrite Hl1, Hsu, Hl2. rewrite !Nat.min_id. reflexivity.
Qed.
End C12.

(* [R] the returned step is exactly xnew - xopt, so xopt + d = xnew *)
Theorem C12_step_reaches_new_point_exactly : forall (xnew xopt : list R), List.length xnew = List.length xopt ->
  @vmap2 ArithR Rplus xopt (@vmap2 ArithR Rminus xnew xopt) = xnew.
Proof.
  induction xnew as [|a xn IH]; intros [|b xo] H; try discriminate; [reflexivity|]. cbn [vmap2]. rewrite IH by (cbn in H; lia). f_equal. ring.
Qed.
Theorem C12_step_definition : forall `{A : Arith} d xopt sl su xbdi,
  py_tr_d_within_bounds d xopt sl su xbdi = vmap2 sub (py_tr_d_within_bounds_xnew d xopt sl su xbdi) xopt.
Proof. reflexivity. Qed.

(* ---- the whole of TRSBOX is regenerated as functions (trsbox, alt_trust_step, d_within_bounds); they are equal to the frozen
   reference models of DV.Lib.MTrs, and the regenerated d_within_bounds is the function the box theorems above are about ---- *)
Lemma d_within_bounds_eq `{A : Arith} : @py_trust_region_d_within_bounds A = @s_d_within_bounds A. Proof. reflexivity. Qed.
Lemma alt_trust_step_eq `{A : Arith} : @py_trust_region_alt_trust_step A = @s_alt_trust_step A. Proof. reflexivity. Qed.
Lemma trsbox_eq `{A : Arith} : @py_trust_region_trsbox A = @s_trsbox A. Proof. reflexivity. Qed.
Lemma mask_bounds_bsel `{A : Arith} : forall (xn sl su : vec) (xb : list Z),
  List.length sl = List.length xn -> List.length su = List.length xn -> List.length xb = List.length xn ->
  bsel (zmask (fun z_ => Z.eqb z_ 1) xb) su (bsel (zmask (fun z_ => Z.eqb z_ (-1)) xb) sl xn) = mask_bounds xn sl su xb.
Proof.
  induction xn as [|x xn IH]; intros [|l sl] [|u su] [|b xb] H1 H2 H3; try discriminate; try reflexivity.
  cbn [zmask map bsel mask_bounds]. rewrite <- IH by (cbn in *; lia). unfold zmask.
  destruct (Z.eqb_spec b (-1)) as [->|]; [reflexivity|]. destruct (Z.eqb b 1); reflexivity.
Qed.
Theorem C12_the_step_function_is_the_one_proved_about : forall `{A : Arith} d xopt sl su xbdi,
  List.length d = List.length xopt -> List.length sl = List.length xopt -> List.length su = List.length xopt -> List.length xbdi = List.length xopt ->
  py_trust_region_d_within_bounds d xopt sl su xbdi = py_tr_d_within_bounds d xopt sl su xbdi.
Proof.
  intros A0 d xopt sl su xbdi Hd Hl Hu Hb. unfold py_trust_region_d_within_bounds, py_tr_d_within_bounds, py_tr_d_within_bounds_xnew. cbv zeta.
  set (x0 := vmap2 npmax (vmap2 npmin (vmap2 add xopt d) su) sl).
  assert (Hx0: List.length x0 = List.length xopt) by (unfold x0; rewrite !vmap2_length; lia).
  assert (Hm: forall f, List.length (zmask f xbdi) = List.length xopt) by (intros f; unfold zmask; rewrite map_length; exact Hb).
  rewrite (bscatter_bfilt x0 sl); [|lia|rewrite Hm; lia].
  rewrite bscatter_bfilt; [|rewrite bsel_length; lia|rewrite bsel_length, Hm; lia].
  rewrite mask_bounds_bsel by lia. reflexivity.
Qed.

(* tables: every return of trsbox and alt_trust_step goes through d_within_bounds (or forwards alt_trust_step's own result) *)
Open Scope string_scope.
Definition step_return_ok (r : rsite) : bool :=
  let s := List.hd "" (r_vals r) in
  streq s "d_within_bounds(d, xopt, sl, su, xbdi)" || (streq (r_func r) "trsbox" && streq s "d" && has_guard (r_guards r) true "need_alt_trust_step") ||
  (streq (r_func r) "trsbox" && prefix "trustregion.solve(" s).
Theorem C12_every_return_is_clipped :
  forallb step_return_ok (filter (fun r => streq (r_file r) "trust_region" && (streq (r_func r) "trsbox" || streq (r_func r) "alt_trust_step")) T_returns) = true /\
  Z.leb 4 (Z.of_nat (List.length (filter (fun r => streq (r_file r) "trust_region" && (streq (r_func r) "trsbox" || streq (r_func r) "alt_trust_step")) T_returns))) = true.
Proof. vm_compute. split; reflexivity. Qed.
(* the rounding that the exact-real statement hides: a concrete binary64 case where xopt + (xnew - xopt) < sl (known finding F30) *)
Example C12_binary64_step_can_round_outside :
  let xopt := of_bits 4594212051873190380 in let sl := of_bits 13830374311669698396 in   (* 0.14, -0.98 *)
  let d := @sub ArithF64 sl xopt in @lt ArithF64 (@add ArithF64 xopt d) sl = true.
Proof. vm_compute. reflexivity. Qed.

Print Assumptions C12_new_point_is_in_the_box_exactly.
Print Assumptions C12_step_reaches_new_point_exactly.
Print Assumptions C12_every_return_is_clipped.
Print Assumptions C12_the_step_function_is_the_one_proved_about.
