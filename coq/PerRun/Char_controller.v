(* P.Char_controller -- per-run obligation: the Controller methods regenerated from /repo/dfols/controller.py on this run are
   extensionally equal to the reference model DV.Lib.CSpec. *)
From Coq Require Import ZArith List Bool String Lia.
Require Import DV.Base.Prelude DV.Spec.Schema DV.Lib.MSpec DV.Lib.CSpec DV.Lib.MBook DV.Lib.MEval.
From G Require Import Gen_util Gen_model Gen_controller.
From P Require Import Char_model.
Import ListNotations.
Open Scope Z_scope.

Section Char.
Context `{A : Arith}.
Lemma exit_codes_eq : (c_EXIT_TR_INCREASE_WARNING, c_EXIT_AUTO_DETECT_RESTART_WARNING, c_EXIT_FALSE_SUCCESS_WARNING, c_EXIT_SLOW_WARNING,
   c_EXIT_MAXFUN_WARNING, c_EXIT_SUCCESS, c_EXIT_INPUT_ERROR, c_EXIT_TR_INCREASE_ERROR, c_EXIT_LINALG_ERROR, c_EXIT_EVAL_ERROR) =
  (5, 4, 3, 2, 1, 0, -1, -2, -3, -4).
Proof. reflexivity. Qed.
Lemma evaluate_objective_eq : forall st x ns orc log, py_controller_evaluate_objective st x ns orc log = sc_evaluate_objective st x ns orc log.
Proof.
  intros; first [reflexivity |
    unfold py_controller_evaluate_objective, sc_evaluate_objective, py_controller_m, sc_m, py_model_m, s_m;
    rewrite ?sumsq_eq, ?remove_scaling_eq, ?min_obj_eq; reflexivity ].
Qed.
Lemma reduce_rho_eq : forall st it a1 a2, py_controller_reduce_rho st it a1 a2 = sc_reduce_rho st it a1 a2.
Proof.
  intros; first [reflexivity |
    destruct st; unfold py_controller_reduce_rho, sc_reduce_rho; cfields;
    repeat match goal with |- context[if ?c then _ else _] => destruct c end; reflexivity ].
Qed.
End Char.
