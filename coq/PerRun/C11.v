(* P.C11 -- The returned Jacobian is the fit through the evaluations it names (partial).
   The Jacobian and the evaluation numbers it was fitted to are snapshotted together (regenerated save_point /
   get_final_results: theorems from C17/C03; table: model_jac_eval_nums := eval_num.copy() at the fit);  [R] dividing column i
   by scale_i expresses the same linear map in the user's coordinates x_user = shift + scale*x;  [R] for affine residuals the
   fit is A (C05).  Accuracy "up to rounding amplified by conditioning" is validated against an independent lstsq fit. *)
From Coq Require Import ZArith List Bool String Lia Reals Lra.
Require Import DV.Base.Prelude DV.Base.F64 DV.Base.OrdLaws DV.Spec.Schema DV.Lib.MSpec DV.Lib.MBook DV.Lib.MDyk DV.Lib.MInterp DV.Lib.Tables.
From G Require Import Gen_util Gen_model Gen_tables.
From P Require Import Char_model.
Import ListNotations.

Theorem C11_unscaled_jacobian_is_the_same_map : forall J scale delta, Forall (fun s => s <> 0%R) scale ->
  Forall (fun row => List.length row = List.length scale) J -> List.length delta = List.length scale ->
  mv (map (fun row => scale_cols row scale) J) (vmul scale delta) = mv J delta.
Proof. exact unscale_jacobian. Qed.

Section Any.
Context `{A : Arith}.
(* a saved point carries the Jacobian and the evaluation numbers current at the time of saving -- together *)
Theorem C11_saved_jacobian_and_numbers_travel_together : forall st x r ns en ab st', py_model_save_point st x r ns en ab = Ok (st', true) ->
  jacsave st' = Some (model_jac st) /\ jacsave_eval_nums st' = model_jac_eval_nums st.
Proof.
  intros st x r ns en ab st' H. rewrite save_point_eq in H. pose proof (save_point_fields _ _ _ _ _ _ _ _ H) as F. cbv zeta in F.
  destruct F as (_ & Ht & _). destruct (Ht eq_refl) as (_ & _ & _ & _ & _ & H1 & H2). auto.
Qed.
Theorem C11_returned_pair_is_one_snapshot : forall st st' x r o j ns en je, py_model_get_final_results st = Ok (st', (x, r, o, j, ns, en, je)) ->
  (j = Some (model_jac st) /\ je = model_jac_eval_nums st) \/ (j = jacsave st /\ je = jacsave_eval_nums st).
Proof.
  intros st st' x r o j ns en je H. rewrite get_final_results_eq in H. destruct (final_results_fields _ _ _ _ _ _ _ _ _ H) as [_ F]. cbv zeta in F.
  destruct (match objsave st with None => true | Some s => _ end); [left|right]; tauto.
Qed.
End Any.

Open Scope string_scope.
Theorem C11_numbers_are_snapshotted_at_the_fit :
  existsb (fun a => streq (a_func a) "Model.interpolate_mini_models_svd" && streq (a_target a) "self.model_jac_eval_nums" && streq (a_value a) "self.eval_num.copy()") T_assigns = true /\
  (* un-scaling loop of solve(): jacmin[:, i] /= scale_i for every i, only when scaling is used and a Jacobian exists *)
  existsb (fun a => streq (a_func a) "solve" && streq (a_target a) "jacmin[:, i]" && streq (a_value a) "jacmin[:, i] / scaling_changes[1][i]" &&
                    has_guard (a_guards a) true "scaling_changes is not None and jacmin is not None" && has_guard (a_guards a) true "for i in range(n)") T_assigns = true.
Proof. vm_compute. split; reflexivity. Qed.

Print Assumptions C11_unscaled_jacobian_is_the_same_map.
Print Assumptions C11_returned_pair_is_one_snapshot.
Print Assumptions C11_numbers_are_snapshotted_at_the_fit.
