(* P.C03 -- The returned solution is a point that was really evaluated.
   Model level (regenerated Model methods): every commit writes ONE coherent slot (point, residual, objective of that
   residual at that point, sample count, evaluation number), re-samples keep it coherent, the saved slot and the
   final-result query return one stored record.  Table level (regenerated from controller.py / solver.py): every
   commit site passes the point just evaluated, the residuals just obtained, their number and the current point
   counter (or copies one stored record); result tuples are forwarded position by position up to OptimResults. *)
From Coq Require Import ZArith List Bool String Lia.
Require Import DV.Base.Prelude DV.Base.F64 DV.Base.OrdLaws DV.Spec.Schema DV.Lib.MSpec DV.Lib.MBook DV.Lib.Tables.
From G Require Import Gen_util Gen_model Gen_tables.
From P Require Import Char_model C17.
Import ListNotations.
Open Scope Z_scope.
Open Scope string_scope.

(* ---- table level ---- *)
Definition incumbent_save_args : list string :=
  ["self.model.xopt(abs_coordinates=True)"; "self.model.ropt()"; "self.model.nsamples[self.model.kopt]";
   "self.model.eval_num[self.model.kopt]"; "x_in_abs_coords=True"].
Definition passthrough_save_args : list string :=
  ["x_in_abs_coords_to_save"; "rvec_to_save"; "nsamples_to_save"; "self.nx"; "x_in_abs_coords=True"].
Definition save_site_ok (c : csite) : bool :=
  commit_args_ok "save_point" (c_args c) || slist_eq (c_args c) incumbent_save_args ||
  (slist_eq (c_args c) passthrough_save_args && streq (c_func c) "Controller.soft_restart").
(* the pass-through arguments of soft_restart are never used (all callers pass None) *)
Definition soft_restart_caller_ok (c : csite) : bool :=
  mem "x_in_abs_coords_to_save=None" (c_args c) && mem "rvec_to_save=None" (c_args c) && mem "nsamples_to_save=None" (c_args c).
Definition write_site_ok (c : csite) : bool := commit_args_ok (c_callee c) (c_args c).
Definition last_guard (gs : guards) : bool * string := List.last gs (false, "").
(* a re-sample goes to the slot written by the commit of the same function, with the i-th residual of the same call *)
Definition first_arg (c : csite) : string := List.hd "" (c_args c).
Definition sample_site_ok (c : csite) : bool :=
  match c_args c with
  | [k; r] => streq r "rvec_extra=rvec_list[i, :]" && Bool.eqb (fst (last_guard (c_guards c))) true &&
              streq (snd (last_guard (c_guards c))) "for i in range(1, num_samples_run)" &&
              existsb (fun w => streq (c_func w) (c_func c) &&
                                (streq (first_arg w) k || (streq (c_callee w) "add_new_point" && streq k "self.model.npt() - 1")))
                      (calls_of T_calls "change_point" ++ calls_of T_calls "add_new_point")
  | _ => false
  end.

Theorem C03_save_sites_coherent : forallb save_site_ok (calls_of T_calls "save_point") = true.
Proof. vm_compute. reflexivity. Qed.
Theorem C03_soft_restart_passes_nothing : forallb soft_restart_caller_ok (calls_of T_calls "soft_restart") = true.
Proof. vm_compute. reflexivity. Qed.
Theorem C03_write_sites_coherent : forallb write_site_ok (calls_of T_calls "change_point" ++ calls_of T_calls "add_new_point") = true.
Proof. vm_compute. reflexivity. Qed.
Theorem C03_sample_sites_coherent : forallb sample_site_ok (calls_of T_calls "add_new_sample") = true.
Proof. vm_compute. reflexivity. Qed.
(* deferred commits (init.run_in_parallel): the point number passed to the commit is the one captured with the evaluation.
   Every use of `eval_nx` is in a function where (i) eval_nx is component 4 of the same 5-tuple whose component 0 is
   rvec_list, and (ii) the only producer of those tuples appends evaluate_objective(...) + (self.nx,) *)
Definition funcs_using_eval_nx : list string :=
  map c_func (filter (fun c => mem "eval_nx" (c_args c)) (calls_of T_calls "save_point" ++ calls_of T_calls "change_point" ++ calls_of T_calls "add_new_point")).
Definition eval_nx_provenance_ok (f : string) : bool :=
  let en := filter (fun a => streq (a_func a) f && streq (a_name a) "eval_nx") T_assigns in
  let ap := filter (fun c => streq (c_func c) f && streq (c_dotted c) "eval_obj_results.append") T_calls in
  negb (Nat.eqb (List.length en) 0) && negb (Nat.eqb (List.length ap) 0) &&
  forallb (fun a => Z.eqb (a_index a) 4 && Z.eqb (a_arity a) 5 && prefix "eval_obj_results[" (a_value a) &&
                    existsb (fun r => streq (a_func r) f && streq (a_name r) "rvec_list" && streq (a_value r) (a_value a) && Z.eqb (a_index r) 0 &&
                                      Z.eqb (a_line r) (a_line a)) T_assigns) en &&
  forallb (fun c => slist_eq (c_args c) ["self.evaluate_objective(x, number_of_samples, params) + (self.nx,)"]) ap.
Theorem C03_deferred_point_numbers_coherent :
  forallb eval_nx_provenance_ok funcs_using_eval_nx = true /\ Z.leb 4 (Z.of_nat (List.length funcs_using_eval_nx)) = true.
Proof. vm_compute. split; reflexivity. Qed.
(* a run is started with the caller's counters in the callee's order: every positional argument of the solve_main(...) calls in
   solve() and of Controller(...) in solve_main is the variable that carries the value of the parameter in that position
   (same name, or the documented alias), so that evaluation / point numbers continue where the previous run stopped *)
Definition alias_ok (param arg : string) : bool :=
  streq param arg ||
  mem (param ++ "<-" ++ arg) ["x0<-xmin"; "nruns_so_far<-nruns"; "nf_so_far<-nf"; "nx_so_far<-nx"; "r0<-r0_avg"; "r0_nsamples<-num_samples_run"].
Fixpoint positional_ok (params args : list string) : bool :=
  match params, args with
  | _, [] => true
  | [], _ :: _ => false
  | p :: ps, a :: rest => match index 0 "=" a with
                          | Some _ => forallb (fun kw => match index 0 "=" kw with Some _ => true | None => false end) rest    (* keywords from here on *)
                          | None => alias_ok p a && positional_ok ps rest
                          end
  end.
Definition def_params (func : string) : list string :=
  match filter (fun d => streq (d_func d) func && streq (d_kind d) "def") T_defs with [d] => d_params d | _ => [] end.
Definition run_start_calls_ok : bool :=
  let sm := filter (fun c => streq (c_func c) "solve") (calls_of T_calls "solve_main") in
  let ct := filter (fun c => streq (c_func c) "solve_main") (calls_of T_calls "Controller") in
  Nat.eqb (List.length sm) 3 && Nat.eqb (List.length ct) 1 &&
  forallb (fun c => positional_ok (def_params "solve_main") (c_args c) && Nat.leb 22 (List.length (c_args c))) sm &&
  forallb (fun c => positional_ok (List.tl (def_params "Controller.__init__")) (c_args c) && Nat.leb 17 (List.length (c_args c))) ct.
Theorem C03_runs_start_with_the_callers_counters : run_start_calls_ok = true.
Proof. vm_compute. reflexivity. Qed.
(* swap_points is not used by the solver (no history of solve() contains it) *)
Theorem C03_no_swap_in_solver : calls_of T_calls "swap_points" = [].
Proof. vm_compute. reflexivity. Qed.

(* result tuples: get_final_results -> solve_main -> solve -> OptimResults, position by position *)
Definition tuple_from (func value : string) : list (string * Z) :=
  map (fun a => (a_name a, a_index a)) (filter (fun a => streq (a_func a) func && streq (a_value a) value) T_assigns).
Definition returns_of (func : string) : list (list string) := map r_vals (filter (fun r => streq (r_func r) func) T_returns).
Definition nthS (l : list string) (n : nat) : string := nth n l "".
Definition final_unpack_ok : bool :=
  let t := tuple_from "solve_main" "control.model.get_final_results()" in
  (* both calls unpack to the same seven names in the same positions *)
  forallb (fun p => existsb (fun q => streq (fst p) (fst q) && Z.eqb (snd p) (snd q)) t)
          [("x", 0); ("rvec", 1); ("obj", 2); ("jacmin", 3); ("nsamples", 4); ("x_eval_num", 5); ("jac_eval_nums", 6)] &&
  Z.eqb (Z.of_nat (List.length t)) 14.
Definition final_return_ok (r : list string) : bool :=
  streq (nthS r 0) "x" && streq (nthS r 1) "rvec" && streq (nthS r 2) "obj" && streq (nthS r 4) "nsamples" &&
  streq (nthS r 10) "x_eval_num" && streq (nthS r 11) "jac_eval_nums" && (streq (nthS r 3) "jacmin" || streq (nthS r 3) "None") &&
  streq (nthS r 5) "control.nf" && streq (nthS r 6) "control.nx".
Definition x0_return_ok (r : list string) : bool :=
  streq (nthS r 0) "x0" && streq (nthS r 1) "r0_avg" && streq (nthS r 2) "obj0_avg" && streq (nthS r 4) "num_samples_run" &&
  streq (nthS r 5) "nf" && streq (nthS r 6) "nx" && streq (nthS r 10) "xmin_eval_num" && streq (nthS r 3) "None".
Definition solve_main_returns_ok : bool :=
  match returns_of "solve_main" with
  | [r0; r1; r2] => x0_return_ok r0 && final_return_ok r1 && final_return_ok r2
  | _ => false
  end.
(* in the x0 exit the evaluation number is the point counter and the objective includes h *)
Definition x0_exit_values_ok : bool :=
  existsb (fun a => streq (a_func a) "solve_main" && streq (a_name a) "xmin_eval_num" && streq (a_value a) "nx") T_assigns &&
  existsb (fun a => streq (a_func a) "solve_main" && streq (a_name a) "obj0_avg" &&
                    streq (a_value a) "sumsq(r0_avg) if h is None else sumsq(r0_avg) + h(remove_scaling(x0, scaling_changes), *argsh)") T_assigns.
Definition solve_unpack_ok : bool :=
  let firsts := filter (fun a => streq (a_func a) "solve" && Z.eqb (a_arity a) 12) T_assigns in
  forallb (fun p => existsb (fun a => streq (a_name a) (fst p) && Z.eqb (a_index a) (snd p)) firsts)
    [("xmin", 0); ("rmin", 1); ("objmin", 2); ("jacmin", 3); ("nsamples_min", 4); ("nf", 5); ("nx", 6); ("nruns", 7);
     ("exit_info", 8); ("diagnostic_info", 9); ("xmin_eval_num", 10); ("jacmin_eval_nums", 11)] &&
  forallb (fun p => existsb (fun a => streq (a_name a) (fst p) && Z.eqb (a_index a) (snd p)) firsts)
    [("xmin2", 0); ("rmin2", 1); ("objmin2", 2); ("jacmin2", 3); ("nsamples2", 4); ("xmin_eval_num2", 10); ("jacmin_eval_nums2", 11)].
Definition merge_tuple_ok : bool :=
  existsb (fun a => streq (a_func a) "solve" && streq (a_name a) "xmin" && streq (a_value a) "(xmin2, rmin2, objmin2, nsamples2, xmin_eval_num2)" &&
                    Z.eqb (a_index a) 0 && Z.eqb (a_arity a) 5) T_assigns &&
  existsb (fun a => streq (a_func a) "solve" && streq (a_name a) "xmin_eval_num" && streq (a_value a) "(xmin2, rmin2, objmin2, nsamples2, xmin_eval_num2)" &&
                    Z.eqb (a_index a) 4) T_assigns &&
  existsb (fun a => streq (a_func a) "solve" && streq (a_name a) "objmin" && streq (a_value a) "(xmin2, rmin2, objmin2, nsamples2, xmin_eval_num2)" &&
                    Z.eqb (a_index a) 2) T_assigns &&
  existsb (fun a => streq (a_func a) "solve" && streq (a_name a) "rmin" && streq (a_value a) "(xmin2, rmin2, objmin2, nsamples2, xmin_eval_num2)" &&
                    Z.eqb (a_index a) 1) T_assigns.
Definition result_ctor_ok : bool :=
  existsb (fun c => streq (c_func c) "solve" &&
      slist_eq (List.tl (c_args c)) ["rmin"; "objmin"; "jacmin"; "nf"; "nx"; "nruns"; "exit_flag"; "exit_msg"; "xmin_eval_num"; "jacmin_eval_nums"] &&
      streq (List.hd "" (c_args c)) "np.minimum(np.maximum(remove_scaling(xmin, scaling_changes), xl_orig), xu_orig)")
    (calls_of T_calls "OptimResults") &&
  existsb (fun d => streq (d_func d) "OptimResults.__init__" &&
      slist_eq (d_params d) ["self"; "xmin"; "rmin"; "objmin"; "jacmin"; "nf"; "nx"; "nruns"; "exit_flag"; "exit_msg"; "xmin_eval_num"; "jacmin_eval_nums"]) T_defs.
(* a restarted run labels its first point with the evaluation number it really has *)
Definition restart_label_ok : bool :=
  existsb (fun c => streq (c_func c) "solve" && mem "x0_eval_num_old=xmin_eval_num" (c_args c) && mem "r0_avg_old=rmin" (c_args c)) (calls_of T_calls "solve_main") &&
  existsb (fun a => streq (a_func a) "solve_main" && streq (a_name a) "x0_eval_num" && streq (a_value a) "nx") T_assigns &&
  existsb (fun a => streq (a_func a) "solve_main" && streq (a_name a) "x0_eval_num" && streq (a_value a) "x0_eval_num_old if x0_eval_num_old is not None else nx") T_assigns &&
  existsb (fun c => streq (c_func c) "solve_main" && mem "x0_eval_num=x0_eval_num" (c_args c)) (calls_of T_calls "Controller") &&
  existsb (fun c => streq (c_func c) "Controller.__init__" && mem "x0_eval_num=x0_eval_num" (c_args c)) (calls_of T_calls "Model") &&
  existsb (fun a => streq (a_func a) "Model.__init__" && streq (a_target a) "self.eval_num[0]" && streq (a_value a) "x0_eval_num") T_assigns.

Theorem C03_result_tuples_forwarded :
  final_unpack_ok = true /\ solve_main_returns_ok = true /\ x0_exit_values_ok = true /\ solve_unpack_ok = true /\
  merge_tuple_ok = true /\ result_ctor_ok = true /\ restart_label_ok = true.
Proof. vm_compute. repeat split; reflexivity. Qed.

(* stored records never alias the caller's arrays: the translated model treats values as immutable, so the defensive
   copies that make this true of the NumPy code are checked on the source text *)
Definition model_assign (func target value : string) : bool :=
  existsb (fun a => streq (a_file a) "model" && streq (a_func a) func && streq (a_target a) target && streq (a_value a) value) T_assigns.
Definition defensive_copies_ok : bool :=
  model_assign "Model.save_point" "self.rsave" "rvec.copy()" && model_assign "Model.change_point" "self.points[k, :]" "x.copy()" &&
  model_assign "Model.change_point" "self.fval_v[k, :]" "rvec.copy()" && model_assign "Model.__init__" "self.xbase" "x0.copy()" &&
  model_assign "Model.save_point" "self.jacsave" "self.model_jac.copy() if self.model_jac is not None else None" &&
  existsb (fun a => streq (a_func a) "Model.save_point" && streq (a_name a) "xabs" && streq (a_value a) "x.copy() if x_in_abs_coords else self.as_absolute_coordinates(x)") T_assigns.
Theorem C03_stored_records_are_copies : defensive_copies_ok = true.
Proof. vm_compute. reflexivity. Qed.

(* ---- model level (restated from C17 for this property) ---- *)
Section C03.
Context `{A : Arith}.
Theorem C03_commit_writes_one_coherent_slot : forall st k x r en st', wf st -> py_model_change_point st k x r en true = Ok (st', tt) ->
  slot_of st' k = mk_slot x r (obj_of st r (vmap2 add (xbase st) x)) 1 en /\ (forall j, 0 <= j -> j <> k -> slot_of st' j = slot_of st j).
Proof. exact C17_replace_writes_one_slot. Qed.
Theorem C03_append_writes_one_coherent_slot : forall st x r en st', wf st -> npt_so_far st = num_pts st -> py_model_add_new_point st x r en = Ok (st', tt) ->
  slot_of st' (npt_so_far st) = mk_slot x r (obj_of st r (vmap2 add (xbase st) x)) 1 en /\ (forall j, 0 <= j < npt_so_far st -> slot_of st' j = slot_of st j).
Proof. exact C17_append_writes_one_slot. Qed.
Theorem C03_save_stores_one_coherent_record : forall st x r ns en ab st', py_model_save_point st x r ns en ab = Ok (st', true) ->
  let xa := if ab then x else s_as_absolute_coordinates st x in
  xsave st' = Some xa /\ rsave st' = Some r /\ objsave st' = Some (obj_of st r xa) /\ nsamples_save st' = Some ns /\ eval_num_save st' = Some en.
Proof.
  intros st x r ns en ab st' H. rewrite save_point_eq in H. pose proof (save_point_fields _ _ _ _ _ _ _ _ H) as F. cbv zeta in *.
  destruct F as (_ & Ht & _). destruct (Ht eq_refl) as (H1 & H2 & H3 & H4 & H5 & _). auto.
Qed.
Theorem C03_save_rejects_without_change : forall st x r ns en ab st', py_model_save_point st x r ns en ab = Ok (st', false) -> st' = st.
Proof.
  intros st x r ns en ab st' H. rewrite save_point_eq in H. pose proof (save_point_fields _ _ _ _ _ _ _ _ H) as F. cbv zeta in *.
  destruct F as (_ & _ & Hf & _). auto.
Qed.
Section O.
Context `{L : !OrdLaws A}.
Theorem C03_final_result_is_one_stored_record : forall st st' x r o j ns en je, py_model_get_final_results st = Ok (st', (x, r, o, j, ns, en, je)) ->
  (x = Some (s_xpt st (kopt st) true) /\ r = Some (sl_r (slot_of st (kopt st))) /\ o = Some (sl_obj (slot_of st (kopt st))) /\
   ns = Some (sl_ns (slot_of st (kopt st))) /\ en = Some (sl_en (slot_of st (kopt st)))) \/
  (x = xsave st /\ r = rsave st /\ o = objsave st /\ ns = nsamples_save st /\ en = eval_num_save st).
Proof. exact C17_final_is_coherent. Qed.
End O.
End C03.

Print Assumptions C03_save_sites_coherent.
Print Assumptions C03_deferred_point_numbers_coherent.
Print Assumptions C03_runs_start_with_the_callers_counters.
Print Assumptions C03_write_sites_coherent.
Print Assumptions C03_sample_sites_coherent.
Print Assumptions C03_result_tuples_forwarded.
Print Assumptions C03_commit_writes_one_coherent_slot.
Print Assumptions C03_save_stores_one_coherent_record.
Print Assumptions C03_final_result_is_one_stored_record.
