(* P.C07 -- solve always returns a well-formed result; bad input is reported, not raised.
   (1) the parameter table regenerated from params.py is well formed for every npt, so validation of any (key, value) is a
       total decision (Accept / Reject / unknown key) and acceptance means: tabled type and inside the tabled range (MValid);
   (2) tables from solve(): every input-error exit carries a non-empty message and leads to ONE return of a result built with the
       constructor's full arity, flag and message, zero counters, before the objective can be called; unknown keys raise ValueError;
       every documented exit code is exposed on the result object and has a message stem. *)
From Coq Require Import ZArith List Bool String Lia.
Require Import DV.Lib.Tables DV.Lib.MValid.
From G Require Import Gen_tables.
Import ListNotations.
Open Scope Z_scope.
Open Scope string_scope.

Definition inst (npt : Z) (b : bnd) : bnd :=
  match b with BOther t => if streq t "npt" then BZ npt else if streq t "npt - 1" then BZ (npt - 1) else b | _ => b end.
Definition table (npt : Z) : list row := map (fun r => match r with (k, ty, nn, lo, hi) => (k, ty, nn, inst npt lo, inst npt hi) end) T_params.

Theorem C07_parameter_table_wellformed : forall npt, table_wellformed (table npt) = true.
Proof. intros npt. vm_compute. reflexivity. Qed.
Theorem C07_validation_is_total : forall npt key v, check_param (table npt) key v <> BadTable.
Proof. intros. apply check_param_total. apply C07_parameter_table_wellformed. Qed.
Theorem C07_accepted_values_are_typed_and_in_range : forall npt key v, check_param (table npt) key v = Accept ->
  exists ty none_ok lo hi, find_row (table npt) key = Some (key, ty, none_ok, lo, hi) /\
    ((v = VNone /\ none_ok = true) \/ (has_type ty v /\ (ty = "int" \/ ty = "float" -> ge_bnd v lo = true /\ le_bnd v hi = true))).
Proof. intros npt key v. apply check_param_sound. Qed.
(* every default key has a row and every row a default: no parameter escapes validation *)
Theorem C07_table_covers_all_parameters :
  forallb (fun k => existsb (fun r => match r with (k', _, _, _, _) => streq k k' end) T_params) T_param_defaults = true /\
  forallb (fun r => match r with (k', _, _, _, _) => mem k' T_param_defaults end) T_params = true /\
  Z.leb 60 (Z.of_nat (List.length T_params)) = true.
Proof. vm_compute. repeat split; reflexivity. Qed.
(* examples: out-of-range, wrong type, boundary, bool-for-int (Python: bool is an int) *)
Example C07_examples :
  check_param (table 5) "tr_radius.eta1" (VFloat (QArith_base.Qmake 2 1)) = Reject /\ check_param (table 5) "tr_radius.eta1" (VInt 0) = Reject /\
  check_param (table 5) "tr_radius.eta1" (VFloat (QArith_base.Qmake 1 10)) = Accept /\ check_param (table 5) "restarts.max_npt" (VInt 4) = Reject /\
  check_param (table 5) "restarts.max_npt" (VInt 5) = Accept /\ check_param (table 5) "no.such.key" VNone = UnknownKey /\
  check_param (table 5) "slow.history_for_slow" (VBool true) = Accept /\ check_param (table 5) "model.abs_tol" VFloatNaN = Reject.
Proof. vm_compute. repeat split; reflexivity. Qed.

(* ---- tables from solve() ---- *)
Definition input_exits : list csite := filter (fun c => streq (nth 0 (c_args c) "") "EXIT_INPUT_ERROR") (calls_of T_calls "ExitInformation").
(* a message is a string literal, or the variable bounds_error, which solve() binds only to None or to string literals *)
Definition literal_msg (s : string) : bool := Nat.ltb 2 (String.length s) && prefix "'" s.
Definition bounds_error_is_literal : bool :=
  forallb (fun a => streq (a_value a) "None" || literal_msg (a_value a)) (filter (fun a => streq (a_func a) "solve" && streq (a_name a) "bounds_error") T_assigns).
Definition input_exits_ok : bool :=
  forallb (fun c => streq (c_func c) "solve" &&
                    (literal_msg (nth 1 (c_args c) "") ||
                     (streq (nth 1 (c_args c) "") "bounds_error" && bounds_error_is_literal && has_guard (c_guards c) true "exit_info is None and bounds_error is not None"))) input_exits &&
  Z.leb 18 (Z.of_nat (List.length input_exits)).
(* the graceful return: OptimResults(None, None, None, None, 0, 0, 0, exit_flag, exit_msg, None, None) under `exit_info is not None`,
   with the constructor's arity, placed before the first run *)
Definition graceful_return_ok : bool :=
  match filter (fun c => streq (c_func c) "solve" && streq (List.hd "" (c_args c)) "None") (calls_of T_calls "OptimResults") with
  | [c] => slist_eq (c_args c) ["None"; "None"; "None"; "None"; "0"; "0"; "0"; "exit_flag"; "exit_msg"; "None"; "None"] &&
           has_guard (c_guards c) true "exit_info is not None" &&
           forallb (fun s => Z.ltb (c_line c) (c_line s)) (filter (fun s => streq (c_func s) "solve") (calls_of T_calls "solve_main" ++ calls_of T_calls "dykstra")) &&
           forallb (fun e => Z.ltb (c_line e) (c_line c)) input_exits &&
           existsb (fun d => streq (d_func d) "OptimResults.__init__" && Z.eqb (Z.of_nat (List.length (d_params d))) (1 + Z.of_nat (List.length (c_args c)))) T_defs &&
           existsb (fun r => streq (r_func r) "solve" && slist_eq (r_vals r) ["results"] && has_guard (r_guards r) true "exit_info is not None" && Z.ltb (c_line c) (r_line r) &&
                             Z.ltb (r_line r) (c_line c + 3)) T_returns
  | _ => false
  end.
(* unknown parameter names raise ValueError *)
Definition unknown_key_raises : bool :=
  existsb (fun f => streq (f_func f) "ParameterList.__call__" && streq (f_kind f) "raise" && has_guard (f_guards f) false "key in self.params") T_flows.
(* the result object exposes every exit-code constant named in the user guide *)
Definition exposes (nm : string) : bool :=
  existsb (fun a => streq (a_func a) "OptimResults.__init__" && streq (a_target a) ("self." ++ nm) && streq (a_value a) nm) T_assigns.
(* every entry of user_params reaches ParameterList.__call__ (which raises for unknown names): the write in solve()'s loop over
   user_params.items() is unconditional *)
Definition every_user_entry_is_looked_up : bool :=
  existsb (fun c => streq (c_func c) "solve" && slist_eq (c_args c) ["key"; "new_value=val"] &&
                    match c_guards c with
                    | [(true, "user_params is not None"); (true, g)] => prefix "for " g
                    | _ => false end) (calls_of T_calls "params").
(* ParameterList.__call__ raises ValueError on a second write of the same key, so the solver's own parameter writes must never
   hit a key the user wrote: each is guarded by "the user has not set it" in one of the three forms below *)
Definition user_did_not_set (key : string) (gs : list (bool * string)) : bool :=
  has_guard gs true ("not params.params_changed[" ++ key ++ "]") ||
  (mem key ["'growing.full_rank.use_full_rank_interp'"; "'growing.perturb_trust_region_step'"] &&
   has_guard gs true "default_growing_method_set_by_user is not None and (not default_growing_method_set_by_user)" &&
   existsb (fun a => streq (a_func a) "solve" && streq (a_target a) "default_growing_method_set_by_user" &&
                     streq (a_value a) "user_params is not None and ('growing.full_rank.use_full_rank_interp' in user_params or 'growing.perturb_trust_region_step' in user_params)")
           T_assigns) ||
  has_guard gs true ("params(" ++ key ++ ") is None").
Definition own_writes_respect_the_users : bool :=
  forallb (fun c => slist_eq (c_args c) ["key"; "new_value=val"] ||
                    match c_args c with [k; _] => user_did_not_set k (c_guards c) | _ => false end) (calls_of T_calls "params").
Theorem C07_own_parameter_writes_never_collide_with_the_users : own_writes_respect_the_users = true.
Proof. vm_compute. reflexivity. Qed.
Theorem C07_input_errors_are_reported_not_raised : input_exits_ok = true /\ graceful_return_ok = true /\ unknown_key_raises = true /\ every_user_entry_is_looked_up = true.
Proof. vm_compute. repeat split; reflexivity. Qed.
Theorem C07_result_exposes_documented_exit_codes : forallb exposes T_doc_exit_names = true /\ Z.leb 9 (Z.of_nat (List.length T_doc_exit_names)) = true.
Proof. vm_compute. split; reflexivity. Qed.

Print Assumptions C07_validation_is_total.
Print Assumptions C07_accepted_values_are_typed_and_in_range.
Print Assumptions C07_input_errors_are_reported_not_raised.
Print Assumptions C07_own_parameter_writes_never_collide_with_the_users.
Print Assumptions C07_result_exposes_documented_exit_codes.
