(* P.C10 -- Exit flags and messages tell the truth.
   Every message is created at a site whose enclosing guards (regenerated from the source) state the fact it announces;
   combined with the invariants of C02 (nf <= maxfun), C04 (the point that triggered an exit is committed and the returned
   objective is no worse than anything committed), C18 (rho >= rhoend) and the final override in solve() (success never with a
   non-finite objective) this gives the clauses of the property.  Run accounting: in solve_main every `break` and every successful
   soft restart is preceded by exactly one `nruns_so_far += 1` (structural count over the regenerated tables). *)
From Coq Require Import ZArith List Bool String Lia.
Require Import DV.Base.Prelude DV.Base.F64 DV.Base.OrdLaws DV.Spec.Schema DV.Lib.MSpec DV.Lib.MBook DV.Lib.Tables.
From G Require Import Gen_util Gen_model Gen_tables.
From P Require Import Char_model.
Import ListNotations.
Open Scope Z_scope.
Open Scope string_scope.

Definition contains (pat s : string) : bool := match index 0 pat s with Some _ => true | None => false end.
Definition exits : list csite := calls_of T_calls "ExitInformation".
Definition msg_of (c : csite) : string := nth 1 (c_args c) "".
Definition flag_of (c : csite) : string := nth 0 (c_args c) "".
Definition exits_with (m : string) : list csite := filter (fun c => streq (msg_of c) m) exits.
Definition documented_flags : list string :=
  ["EXIT_SUCCESS"; "EXIT_MAXFUN_WARNING"; "EXIT_SLOW_WARNING"; "EXIT_FALSE_SUCCESS_WARNING"; "EXIT_INPUT_ERROR"; "EXIT_TR_INCREASE_ERROR";
   "EXIT_LINALG_ERROR"; "EXIT_TR_INCREASE_WARNING"; "EXIT_EVAL_ERROR"; "EXIT_AUTO_DETECT_RESTART_WARNING"].

(* 'Objective is sufficiently small' only under  mean objective <= threshold  (and at least one sample) *)
Definition small_guard_ok (c : csite) : bool :=
  existsb (fun g => fst g &&
     ((prefix "num_samples_run > 0 and sumsq(np.mean(rvec_list[:num_samples_run, :], axis=0))" (snd g) && contains "<= self.model.min_objective_value()" (snd g)) ||
      (prefix "sumsq(r0_avg)" (snd g) && contains "<= params('model.abs_tol')" (snd g)))) (c_guards c) && streq (flag_of c) "EXIT_SUCCESS".
(* 'rho has reached rhoend' only when the test `control.rho > rhoend` failed *)
Definition rhoend_guard_ok (c : csite) : bool := has_guard (c_guards c) false "control.rho > rhoend" && streq (flag_of c) "EXIT_SUCCESS".
(* the max-evaluations warning only under nf >= maxfun *)
(* in soft_restart the warning is the default of `not ok_to_do_restart` and is overridden when the restart count is the reason,
   so it survives only when self.nf < self.maxfun is what failed *)
Definition soft_restart_admission_def : bool :=
  existsb (fun a => streq (a_func a) "Controller.soft_restart" && streq (a_name a) "ok_to_do_restart" &&
                    streq (a_value a) "nruns_so_far - self.last_successful_run < params('restarts.max_unsuccessful_restarts') and self.nf < self.maxfun") T_assigns.
Definition maxfun_guard_ok (c : csite) : bool :=
  (has_guard (c_guards c) true "self.nf >= self.maxfun" || has_guard (c_guards c) true "nf >= maxfun" ||
   (streq (c_func c) "Controller.soft_restart" && has_guard (c_guards c) true "not ok_to_do_restart" && soft_restart_admission_def)) &&
  streq (flag_of c) "EXIT_MAXFUN_WARNING".
(* 'maximum number of unsuccessful restarts' only under its counting test *)
Definition maxrestarts_guard_ok (c : csite) : bool :=
  existsb (fun g => fst g && contains ">= params('restarts.max_unsuccessful_restarts')" (snd g)) (c_guards c) && streq (flag_of c) "EXIT_SUCCESS".
Theorem C10_messages_are_guarded :
  forallb small_guard_ok (exits_with "'Objective is sufficiently small'") = true /\ Z.of_nat (List.length (exits_with "'Objective is sufficiently small'")) = 4 /\
  forallb rhoend_guard_ok (exits_with "'rho has reached rhoend'") = true /\ Z.of_nat (List.length (exits_with "'rho has reached rhoend'")) = 2 /\
  forallb maxfun_guard_ok (exits_with "'Objective has been called MAXFUN times'") = true /\ Z.of_nat (List.length (exits_with "'Objective has been called MAXFUN times'")) = 3 /\
  forallb maxrestarts_guard_ok (exits_with "'Reached maximum number of unsuccessful restarts'") = true /\
  Z.of_nat (List.length (exits_with "'Reached maximum number of unsuccessful restarts'")) = 2.
Proof. vm_compute. repeat split; reflexivity. Qed.
(* every exit uses a documented flag and a non-empty literal message; success flags are created only with these four messages *)
Definition success_messages : list string :=
  ["'Objective is sufficiently small'"; "'rho has reached rhoend'"; "'Reached maximum number of unsuccessful restarts'"; "'All points within noise level'"].
Theorem C10_flags_documented_and_messages_nonempty :
  forallb (fun c => mem (flag_of c) documented_flags &&
                    ((Nat.ltb 2 (String.length (msg_of c)) && prefix "'" (msg_of c)) ||
                     (* the bounds message is a variable that solve() binds to string literals only (C07_input_errors_are_reported_not_raised) *)
                     (streq (msg_of c) "bounds_error" && streq (flag_of c) "EXIT_INPUT_ERROR"))) exits = true /\
  forallb (fun c => negb (streq (flag_of c) "EXIT_SUCCESS") || mem (msg_of c) success_messages) exits = true.
Proof. vm_compute. split; reflexivity. Qed.
(* success is never attached to a non-finite objective: the last thing solve() does to exit_info *)
Theorem C10_success_needs_finite_objective :
  existsb (fun c => streq (c_func c) "solve" && streq (flag_of c) "EXIT_EVAL_ERROR" &&
                    has_guard (c_guards c) true "exit_info.flag == EXIT_SUCCESS and (not np.isfinite(objmin))" &&
                    (* ... and nothing re-binds exit_info afterwards *)
                    forallb (fun a => Z.leb (a_line a) (c_line c)) (filter (fun a => streq (a_func a) "solve" && streq (a_name a) "exit_info") T_assigns))
          exits = true.
Proof. vm_compute. reflexivity. Qed.

(* run accounting in solve_main: increments = breaks + soft-restart sites; solve(): one run per solve_main call *)
Definition inloop (g : guards) : bool := has_guard g true "while True".
Definition n_incr : Z := Z.of_nat (List.length (filter (fun a => streq (a_name a) "nruns_so_far" && streq (a_func a) "solve_main" && inloop (a_guards a) && streq (a_op a) "+=" && streq (a_value a) "1") T_assigns)).
Definition n_break : Z := Z.of_nat (List.length (filter (fun f => streq (f_func f) "solve_main" && streq (f_kind f) "break" && inloop (f_guards f)) T_flows)).
Definition n_soft : Z := Z.of_nat (List.length (filter (fun c => streq (c_func c) "solve_main") (calls_of T_calls "soft_restart"))).
Definition no_other_nruns_write : bool :=
  forallb (fun a => inloop (a_guards a) && streq (a_op a) "+=" && streq (a_value a) "1")
          (filter (fun a => streq (a_name a) "nruns_so_far" && streq (a_func a) "solve_main") T_assigns).
(* each soft restart block: `if exit_info is not None: nruns += 1; break` else `...; nruns += 1; ...; continue` *)
Theorem C10_run_accounting : n_incr = n_break + n_soft /\ no_other_nruns_write = true /\ n_soft = 15.
Proof. vm_compute. repeat split; reflexivity. Qed.
(* the three returns of solve_main report nruns_so_far (+1 for the two that leave before the loop) *)
Theorem C10_returned_run_count :
  map (fun r => nth 7 (r_vals r) "") (filter (fun r => streq (r_func r) "solve_main") T_returns) = ["nruns_so_far + 1"; "nruns_so_far + 1"; "nruns_so_far"].
Proof. vm_compute. reflexivity. Qed.

Section Thr.
Context `{A : Arith}.
(* the threshold the small-objective test uses: max(abs_tol, rel_tol * f(x0)), or abs_tol alone when that product is not finite *)
Theorem C10_small_objective_threshold : forall st,
  py_model_min_objective_value st = if isfin (mul (rel_tol st) (objbeg st)) then pymax (abs_tol st) (mul (rel_tol st) (objbeg st)) else abs_tol st.
Proof. intros st. unfold py_model_min_objective_value. destruct (isfin _); reflexivity. Qed.
End Thr.

Print Assumptions C10_messages_are_guarded.
Print Assumptions C10_run_accounting.
Print Assumptions C10_small_objective_threshold.
