(* P.C20 -- Results survive a JSON round trip.
   Model (DV.Lib.MJson): JSON values, util.replace_nan_with_none, the encoder/decoder pair of every field; theorem
   result_roundtrip: from_dict (to_dict r) = r for every result record (any vector/matrix sizes, any NaN pattern, missing
   Jacobian), and to_dict r contains no NaN (strict JSON).  Tie: the field tables regenerated from OptimResults.to_dict /
   from_dict / __init__ and from util.replace_nan_with_none must be exactly the converter pairs of the model. *)
From Coq Require Import ZArith List Bool String Lia.
Require Import DV.Base.Prelude DV.Base.F64 DV.Lib.MJson DV.Lib.Tables.
From G Require Import Gen_tables.
Import ListNotations.
Open Scope Z_scope.
Open Scope string_scope.

Theorem C20_roundtrip_reproduces_every_field : forall r : result, from_dict (to_dict r) = r.
Proof. exact result_roundtrip. Qed.
Theorem C20_to_dict_is_strict_json : forall r : result, no_nan (to_dict r) = true.
Proof. exact to_dict_is_strict_json. Qed.
Theorem C20_vectors_of_any_length_and_nan_pattern : forall v, dec_vec (replace_nan (enc_vec v)) = v.
Proof. exact vec_roundtrip. Qed.
(* non-vacuity: a record with NaN entries and no Jacobian *)
Example C20_example_with_nan :
  let r := {| r_x := Some (vof [4607182418800017408; 9221120237041090560]); r_resid := Some (vof [9221120237041090560]); r_obj := of_bits 9221120237041090560;
              r_jac := None; r_nf := 3; r_nx := 3; r_nruns := 1; r_flag := 1; r_msg := "w"; r_xnum := 2; r_jnums := None |} in
  from_dict (to_dict r) = r /\ no_nan (to_dict r) = true.
Proof. split; [apply result_roundtrip|apply to_dict_is_strict_json]. Qed.

(* ---- the source uses exactly these converter pairs ---- *)
Definition enc_of (field : string) : string :=
  match filter (fun a => streq (a_func a) "OptimResults.to_dict" && streq (a_target a) ("soln_dict['" ++ field ++ "']")) T_assigns with
  | [a] => a_value a | _ => "?" end.
Definition dec_of (name : string) : string :=
  match filter (fun a => streq (a_func a) "OptimResults.from_dict" && streq (a_target a) name) T_assigns with
  | [a] => a_value a | _ => "?" end.
Definition opt_list (f : string) : string := "self." ++ f ++ ".tolist() if self." ++ f ++ " is not None else None".
Definition arr (f ty : string) : string := "np.array(soln_dict['" ++ f ++ "'], dtype=" ++ ty ++ ") if soln_dict['" ++ f ++ "'] is not None else None".
Definition item (f : string) : string := "soln_dict['" ++ f ++ "']".
Definition fields_ok : bool :=
  streq (enc_of "x") (opt_list "x") && streq (dec_of "x") (arr "x" "float") &&
  streq (enc_of "resid") (opt_list "resid") && streq (dec_of "resid") (arr "resid" "float") &&
  streq (enc_of "jacobian") (opt_list "jacobian") && streq (dec_of "jacobian") (arr "jacobian" "float") &&
  streq (enc_of "jacmin_eval_nums") (opt_list "jacmin_eval_nums") && streq (dec_of "jacmin_eval_nums") (arr "jacmin_eval_nums" "int") &&
  streq (enc_of "obj") "float(self.obj)" && streq (dec_of "obj") "soln_dict['obj'] if soln_dict['obj'] is not None else np.nan" &&
  streq (enc_of "nf") "int(self.nf)" && streq (dec_of "nf") (item "nf") && streq (enc_of "nx") "int(self.nx)" && streq (dec_of "nx") (item "nx") &&
  streq (enc_of "nruns") "int(self.nruns)" && streq (dec_of "nruns") (item "nruns") && streq (enc_of "flag") "int(self.flag)" && streq (dec_of "flag") (item "flag") &&
  streq (enc_of "msg") "str(self.msg)" && streq (dec_of "msg") (item "msg") &&
  streq (enc_of "xmin_eval_num") "int(self.xmin_eval_num)" && streq (dec_of "xmin_eval_num") (item "xmin_eval_num") &&
  streq (enc_of "diagnostic_info") "self.diagnostic_info.to_dict() if self.diagnostic_info is not None else None".
(* to_dict writes exactly these twelve keys; from_dict hands the decoded values to the constructor in its parameter order;
   the constructor stores each parameter in the field of the same meaning *)
Definition key_count_ok : bool :=
  Z.eqb (Z.of_nat (List.length (filter (fun a => streq (a_func a) "OptimResults.to_dict" && streq (a_name a) "soln_dict" && negb (streq (a_target a) "soln_dict")) T_assigns))) 12.
Definition ctor_ok : bool :=
  existsb (fun c => streq (c_func c) "OptimResults.from_dict" &&
                    slist_eq (c_args c) ["x"; "resid"; "obj"; "jacobian"; "nf"; "nx"; "nruns"; "flag"; "msg"; "xmin_eval_num"; "jacmin_eval_nums"]) (calls_of T_calls "OptimResults") &&
  existsb (fun d => streq (d_func d) "OptimResults.__init__" &&
                    slist_eq (d_params d) ["self"; "xmin"; "rmin"; "objmin"; "jacmin"; "nf"; "nx"; "nruns"; "exit_flag"; "exit_msg"; "xmin_eval_num"; "jacmin_eval_nums"]) T_defs &&
  forallb (fun p => existsb (fun a => streq (a_func a) "OptimResults.__init__" && streq (a_target a) (fst p) && streq (a_value a) (snd p)) T_assigns)
    [("self.x", "xmin"); ("self.resid", "rmin"); ("self.obj", "objmin"); ("self.jacobian", "jacmin"); ("self.nf", "nf"); ("self.nx", "nx"); ("self.nruns", "nruns");
     ("self.flag", "exit_flag"); ("self.msg", "exit_msg"); ("self.xmin_eval_num", "xmin_eval_num"); ("self.jacmin_eval_nums", "jacmin_eval_nums")].
(* util.replace_nan_with_none: dict -> recurse on values, list -> recurse on items, float NaN -> None, anything else unchanged *)
Definition replace_nan_source_ok : bool :=
  match map (fun r => (r_vals r, r_guards r)) (filter (fun r => streq (r_func r) "replace_nan_with_none") T_returns) with
  | [(["{k: replace_nan_with_none(v) for k, v in d.items()}"], [(true, "isinstance(d, dict)")]);
     (["[replace_nan_with_none(i) for i in d]"], [(false, "isinstance(d, dict)"); (true, "isinstance(d, list)")]);
     (["None"], [(false, "isinstance(d, dict)"); (false, "isinstance(d, list)"); (true, "isinstance(d, float) and math.isnan(d)")]);
     (["d"], [(false, "isinstance(d, dict)"); (false, "isinstance(d, list)"); (false, "isinstance(d, float) and math.isnan(d)")])] => true
  | _ => false
  end.
Definition nan_replacement_applied : bool :=
  existsb (fun r => streq (r_func r) "OptimResults.to_dict" && slist_eq (r_vals r) ["replace_nan_with_none(soln_dict)"] && has_guard (r_guards r) true "replace_nan") T_returns.
Theorem C20_source_uses_the_modelled_converters :
  fields_ok = true /\ key_count_ok = true /\ ctor_ok = true /\ replace_nan_source_ok = true /\ nan_replacement_applied = true.
Proof. vm_compute. repeat split; reflexivity. Qed.

Print Assumptions C20_roundtrip_reproduces_every_field.
Print Assumptions C20_to_dict_is_strict_json.
Print Assumptions C20_source_uses_the_modelled_converters.
