(* P.C14 -- The initial interpolation set is feasible next to bounds; direction generators stay in their bounds (partial).
   Theorems: [ord] the last statement of both random-direction generators clips every returned direction into
   [lower, upper] exactly (regenerated expression; all binary64 values); the points the solver evaluates are inside the user's
   bounds by C01; [R] the decision logic of the coordinate initialisation regenerated from controller.py (the two boundary
   tests, the first and the second step along a coordinate, then the clip of as_absolute_coordinates) puts both points of
   every coordinate inside [sl, su], at a distance between fl(0.01)*rhobeg >= 0.01*rhobeg and 2*rhobeg from x0, and apart
   from each other, for every box with sl <= 0 <= su and su - sl >= 2*rhobeg (what solve() guarantees after projecting x0
   and checking the gap).  Off-diagonal points (k > 2n, copies of first-step coordinates, possibly swapped), affine
   independence and conditioning < 1e4, and the length of the generated directions, are validated by the oracle sweep only
   (the orthogonal generator's 2*delta directions are known finding F19). *)
From Coq Require Import ZArith List Bool String Lia Reals Lra.
From Flocq Require Import Core Raux.
Require Import DV.Base.Prelude DV.Base.F64 DV.Base.OrdLaws DV.Spec.Schema DV.Lib.MRad DV.Lib.Tables.
From G Require Import Gen_util Gen_solver Gen_tables.
Import ListNotations.

Section C14.
Context `{A : Arith} `{L : !OrdLaws A}.
Theorem C14_generated_directions_are_inside_bounds : forall col lower upper, okbox lower upper -> List.length col = List.length lower -> vnonnan col ->
  vin lower upper (py_util_random_directions_within_bounds_tail col lower upper) /\
  vin lower upper (py_util_random_orthog_directions_within_bounds_tail col lower upper).
Proof. intros col lo up Hb Hl Hn. split; apply vclip_max_min_in; auto. Qed.
End C14.

Open Scope string_scope.
(* the requested number of directions: both generators allocate / slice num_pts columns and return them transposed *)
Theorem C14_generators_return_requested_count :
  existsb (fun r => streq (r_func r) "random_directions_within_bounds" && slist_eq (r_vals r) ["results.T"]) T_returns = true /\
  existsb (fun r => streq (r_func r) "random_orthog_directions_within_bounds" && slist_eq (r_vals r) ["results[:, :num_pts].T"]) T_returns = true.
Proof. vm_compute. split; reflexivity. Qed.
(* coordinate initialisation is what runs by default, through as_absolute_coordinates (so C01/C09 apply to its points) *)
Theorem C14_initial_points_go_through_the_model :
  forallb (fun c => mem (List.hd "" (c_args c)) ["x"])
          (filter (fun c => streq (c_func c) "Controller.initialise_coordinate_directions" || streq (c_func c) "Controller.initialise_random_directions") (calls_of T_calls "evaluate_objective")) = true.
Proof. vm_compute. reflexivity. Qed.

(* ---- coordinate initialisation, one coordinate, exact reals ---- *)
Section CoordInit.
Local Open Scope R_scope.
Definition c01 : R := @ofdy ArithR 5764607523034235 (-59).          (* the double nearest to 0.01 *)
Lemma c01_bounds : 1 / 100 <= c01 <= 1001 / 100000.
Proof.
  unfold c01. rewrite ofdyR. cbn [bpow]. change (Z.pow_pos radix2 59) with 576460752303423488%Z.
  assert (H: 0 < IZR 576460752303423488) by (apply IZR_lt; lia).
  split.
  - apply (Rmult_le_reg_r (IZR 576460752303423488)); auto. rewrite Rmult_assoc, Rinv_l, Rmult_1_r by lra.
    apply (Rmult_le_reg_l 100); [lra|]. replace (100 * (1 / 100 * IZR 576460752303423488)) with (IZR 576460752303423488) by lra.
    rewrite <- mult_IZR. apply IZR_le. lia.
  - apply (Rmult_le_reg_r (IZR 576460752303423488)); auto. rewrite Rmult_assoc, Rinv_l, Rmult_1_r by lra.
    apply (Rmult_le_reg_l 100000); [lra|]. replace (100000 * (1001 / 100000 * IZR 576460752303423488)) with (1001 * IZR 576460752303423488) by lra.
    rewrite <- !mult_IZR. apply IZR_le. lia.
Qed.
(* one coordinate of Model.as_absolute_coordinates, relative to xbase: np.minimum(np.maximum(sl, x), su) *)
Definition clipR (sl su x : R) : R := Rmin (Rmax sl x) su.
Definition first_point (sl su delta : R) : R :=
  clipR sl su (@py_init_stepa ArithR (@py_init_at_upper_boundary ArithR su delta) delta).
Definition second_point (sl su delta : R) : R :=
  clipR sl su (@py_init_stepb ArithR (@py_init_at_lower_boundary ArithR sl delta) (@py_init_at_upper_boundary ArithR su delta) delta sl su).
Lemma c_two : @ofdy ArithR 1 1 = 2. Proof. rewrite ofdyR. cbn [bpow]. change (Z.pow_pos radix2 1) with 2%Z. lra. Qed.
Lemma c_mtwo : @ofdy ArithR (-1) 1 = -2. Proof. rewrite ofdyR. cbn [bpow]. change (Z.pow_pos radix2 1) with 2%Z. lra. Qed.
Lemma c_m01 : @ofdy ArithR (-5764607523034235) (-59) = - c01.
Proof. unfold c01. rewrite !ofdyR. change (IZR (-5764607523034235)) with (- IZR 5764607523034235). lra. Qed.
Ltac rmm := unfold Rmin, Rmax in *;
  repeat (match goal with
          | |- context[Rle_dec ?a ?b] => destruct (Rle_dec a b)
          | H : context[Rle_dec ?a ?b] |- _ => destruct (Rle_dec a b)
          end); try lra.
Theorem C14_coordinate_points_feasible_and_spread : forall sl su delta, 0 < delta -> sl <= 0 <= su -> 2 * delta <= su - sl ->
  let a := first_point sl su delta in let b := second_point sl su delta in
  sl <= a <= su /\ sl <= b <= su /\
  c01 * delta <= Rabs a <= delta /\ c01 * delta <= Rabs b <= 2 * delta /\
  c01 * delta <= Rabs (a - b).
Proof.
  intros sl su delta Hd [Hl Hu] Hg. cbv zeta. pose proof c01_bounds as [Hc1 Hc2].
  unfold first_point, second_point, py_init_stepa, py_init_stepb, py_init_at_upper_boundary, py_init_at_lower_boundary, clipR.
  rewrite ?pymin_R, ?pymax_R, c_two, c_mtwo, c_m01. cbn [lt mul fneg ArithR]. change (@ofdy ArithR 5764607523034235 (-59)) with c01.
  assert (Hcd: 0 < c01 * delta <= 1001 / 100000 * delta) by (split; nra).
  replace (- c01 * delta) with (- (c01 * delta)) by ring. set (e := c01 * delta) in *. clearbody e. clear Hc1 Hc2.
  case (Rlt_bool_spec su e); intros Hau; case (Rlt_bool_spec (- e) sl); intros Hal; cbn [negb].
  - (* both flags: impossible, the gap would be below 2 delta *) exfalso. lra.
  - (* at the upper bound only *)
    assert (Hs: sl <= -(198/100) * delta) by lra.
    repeat split; try (apply Rabs_le); try (unfold Rabs; destruct (Rcase_abs _)); rmm.
  - (* at the lower bound only *)
    assert (Hs: (198/100) * delta <= su) by lra.
    repeat split; try (apply Rabs_le); try (unfold Rabs; destruct (Rcase_abs _)); rmm.
  - (* interior *)
    repeat split; try (apply Rabs_le); try (unfold Rabs; destruct (Rcase_abs _)); rmm.
Qed.
(* hypotheses are satisfiable, and the conclusion is not trivial: x0 exactly on its upper bound *)
Example C14_coordinate_points_example : first_point (-3) 0 1 = -1 /\ second_point (-3) 0 1 = -2.
Proof.
  unfold first_point, second_point, py_init_stepa, py_init_stepb, py_init_at_upper_boundary, py_init_at_lower_boundary, clipR.
  rewrite ?pymin_R, ?pymax_R, c_two, c_mtwo, c_m01. cbn [lt mul fneg ArithR]. change (@ofdy ArithR 5764607523034235 (-59)) with c01. pose proof c01_bounds as [Hc1 Hc2].
  case (Rlt_bool_spec 0 (c01 * 1)); intros H1; [|exfalso; lra]. case (Rlt_bool_spec (- c01 * 1) (-3)); intros H2; [exfalso; lra|].
  cbn [negb]. split; rmm.
Qed.
End CoordInit.

Print Assumptions C14_generated_directions_are_inside_bounds.
Print Assumptions C14_generators_return_requested_count.
Print Assumptions C14_coordinate_points_feasible_and_spread.
