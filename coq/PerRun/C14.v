(* P.C14 -- The initial interpolation set is feasible next to bounds; direction generators stay in their bounds (partial).
   Theorems: [ord] the last statement of both random-direction generators clips every returned direction into
   [lower, upper] exactly (regenerated expression; all binary64 values); the points the solver evaluates are inside the user's
   bounds by C01.  Distances in [0.01, 2]*rhobeg, affine independence and conditioning < 1e4 of the coordinate initialisation, and
   the length of the generated directions, are validated by the oracle sweep only (the orthogonal generator's 2*delta directions are
   known finding F19). *)
From Coq Require Import ZArith List Bool String Lia.
Require Import DV.Base.Prelude DV.Base.F64 DV.Base.OrdLaws DV.Spec.Schema DV.Lib.Tables.
From G Require Import Gen_util Gen_solver Gen_tables.
Import ListNotations.

Section C14.
Context `{A : Arith} `{L : !OrdLaws A}.
Theorem C14_generated_directions_are_inside_bounds : forall col lower upper, okbox lower upper -> List.length col = List.length lower -> vnonnan col ->
  vin lower upper (py_util_random_directions_within_bounds_tail col lower upper) /\
  vin lower upper (py_util_random_orthog_directions_within_bounds_tail col lower upper).
Proof. intros col lo up Hb Hl Hn. split; apply vclip_max_min_in; auto. Qed.
End C14.

Open Scope string_scope.
(* the requested number of directions: both generators allocate / slice num_pts columns and return them transposed *)
Theorem C14_generators_return_requested_count :
  existsb (fun r => streq (r_func r) "random_directions_within_bounds" && slist_eq (r_vals r) ["results.T"]) T_returns = true /\
  existsb (fun r => streq (r_func r) "random_orthog_directions_within_bounds" && slist_eq (r_vals r) ["results[:, :num_pts].T"]) T_returns = true.
Proof. vm_compute. split; reflexivity. Qed.
(* coordinate initialisation is what runs by default, through as_absolute_coordinates (so C01/C09 apply to its points) *)
Theorem C14_initial_points_go_through_the_model :
  forallb (fun c => mem (List.hd "" (c_args c)) ["x"])
          (filter (fun c => streq (c_func c) "Controller.initialise_coordinate_directions" || streq (c_func c) "Controller.initialise_random_directions") (calls_of T_calls "evaluate_objective")) = true.
Proof. vm_compute. reflexivity. Qed.

Print Assumptions C14_generated_directions_are_inside_bounds.
Print Assumptions C14_generators_return_requested_count.
