(* P.C18 -- Trust-region radii obey their invariants.
   Preservation at every write site: the expressions assigned to delta / rho / rhoend are regenerated from solver.py and
   controller.py (Gen_solver: one definition per write site, in source order); each is shown to preserve
     Rad_inv := 0 < rhoend <= rho <= delta <= 1e10  /\  rho <= rhobeg
   in exact real arithmetic, for all values of the run-time inputs (ratio, dnorm, dist, tau) in their ranges.  The table
   obligation says there is no other write site.  An invariant preserved by every write holds at every observation point,
   whatever the control flow between them. *)
From Coq Require Import ZArith List Bool String Lia Reals Lra.
From Flocq Require Import Core Raux.
Require Import DV.Base.Prelude DV.Base.F64 DV.Base.OrdLaws DV.Spec.Schema DV.Lib.MSpec DV.Lib.CSpec DV.Lib.MEval DV.Lib.MRad DV.Lib.Tables.
From G Require Import Gen_util Gen_model Gen_controller Gen_solver Gen_tables.
From P Require Import Char_model Char_controller.
Import ListNotations.
Local Open Scope R_scope.

Ltac rnorm := rewrite ?pymax_R, ?pymin_R, ?c_half, ?c_three_halves, ?c_1e10; cbn [mul div add sub fsqrt ArithR].

(* ---- geometry / safety updates: delta := max(min(0.1*delta, 0.5*dist), 1.5*rho) ---- *)
Lemma geom_update_inv (delta dist rho : R) : 0 < rho <= delta -> delta <= cap -> 3 / 2 * rho <= cap ->
  let d' := Rmax (Rmin (@ofdy ArithR 3602879701896397 (-55) * delta) (/ 2 * dist)) (3 / 2 * rho) in rho <= d' <= cap.
Proof.
  intros H1 H2 H3. cbv zeta. pose proof c_tenth as Ht. split.
  - apply Rle_trans with (3 / 2 * rho); [lra|apply Rmax_r].
  - apply Rmax_lub; auto. apply Rle_trans with (@ofdy ArithR 3602879701896397 (-55) * delta); [apply Rmin_l|]. unfold cap in *. nra.
Qed.
Theorem C18_geometry_update_keeps_invariant : forall rhoend rho delta rhobeg dist,
  Rad_inv rhoend rho delta rhobeg -> 3 / 2 * rho <= cap ->
  Rad_inv rhoend rho (@py_rad_controller_Controller_check_and_fix_geometry_delta_0 ArithR delta dist rho) rhobeg.
Proof.
  intros rhoend rho delta rhobeg dist (H1 & H2 & H3 & H4) H5. unfold py_rad_controller_Controller_check_and_fix_geometry_delta_0. rnorm.
  destruct (geom_update_inv delta dist rho ltac:(lra) H3 H5) as [Ha Hb]. unfold Rad_inv. repeat split; try lra.
Qed.
Theorem C18_safety_update_keeps_invariant : forall rhoend rho delta rhobeg distsq,
  Rad_inv rhoend rho delta rhobeg -> 3 / 2 * rho <= cap ->
  Rad_inv rhoend rho (@py_rad_solver_solve_main_delta_1 ArithR delta distsq rho) rhobeg.
Proof.
  intros rhoend rho delta rhobeg distsq (H1 & H2 & H3 & H4) H5. unfold py_rad_solver_solve_main_delta_1. rnorm.
  destruct (geom_update_inv delta (sqrt distsq) rho ltac:(lra) H3 H5) as [Ha Hb]. unfold Rad_inv. repeat split; try lra.
Qed.

(* ---- the three-case update after a trust-region step, followed by the snap `if delta <= 1.5*rho: delta = rho` ---- *)
(* unsuccessful (ratio < eta1): delta := min(gamma_dec*delta, dnorm)/tau ; tau in (0,1] is 1 unless a regulariser is used *)
Theorem C18_decrease_update_keeps_invariant : forall rhoend rho delta rhobeg dnorm gd tau,
  Rad_inv rhoend rho delta rhobeg -> 0 <= dnorm <= delta -> 0 < gd < 1 -> 0 < tau <= 1 -> delta <= cap * tau ->
  Rad_inv rhoend rho (snap (@py_rad_solver_solve_main_delta_2 ArithR delta dnorm gd tau) rho) rhobeg /\
  Rad_inv rhoend rho (snap (@py_rad_solver_solve_main_delta_3 ArithR delta dnorm gd tau) rho) rhobeg.
Proof.
  intros rhoend rho delta rhobeg dnorm gd tau (H1 & H2 & H3 & H4) Hd Hg Ht Hc.
  unfold py_rad_solver_solve_main_delta_2, py_rad_solver_solve_main_delta_3. rnorm.
  assert (Hq: Rmin (gd * delta) dnorm / tau <= cap).
  { apply (Rmult_le_reg_r tau); [lra|]. unfold Rdiv. rewrite Rmult_assoc, Rinv_l, Rmult_1_r by lra.
    apply Rle_trans with (gd * delta); [apply Rmin_l|]. nra. }
  assert (Hs: snap (Rmin (gd * delta) dnorm / tau) rho <= cap).
  { eapply Rle_trans; [apply snap_le|]. apply Rmax_lub; lra. }
  pose proof (snap_ge rho (Rmin (gd * delta) dnorm / tau) ltac:(lra)).
  unfold Rad_inv; repeat split; lra.
Qed.
(* acceptable (eta1 <= ratio <= eta2): delta := max(gamma_dec*delta, dnorm) *)
Theorem C18_keep_update_keeps_invariant : forall rhoend rho delta rhobeg dnorm gd,
  Rad_inv rhoend rho delta rhobeg -> 0 <= dnorm <= delta -> 0 < gd < 1 ->
  Rad_inv rhoend rho (snap (@py_rad_solver_solve_main_delta_4 ArithR delta dnorm gd) rho) rhobeg /\
  Rad_inv rhoend rho (snap (@py_rad_solver_solve_main_delta_5 ArithR delta dnorm gd) rho) rhobeg.
Proof.
  intros rhoend rho delta rhobeg dnorm gd (H1 & H2 & H3 & H4) Hd Hg.
  unfold py_rad_solver_solve_main_delta_4, py_rad_solver_solve_main_delta_5. rnorm.
  assert (Hq: Rmax (gd * delta) dnorm <= cap) by (apply Rmax_lub; [nra|lra]).
  assert (Hs: snap (Rmax (gd * delta) dnorm) rho <= cap) by (eapply Rle_trans; [apply snap_le|]; apply Rmax_lub; lra).
  pose proof (snap_ge rho (Rmax (gd * delta) dnorm) ltac:(lra)).
  unfold Rad_inv; repeat split; lra.
Qed.
(* very successful (ratio > eta2): delta := min(max(gamma_inc*delta, gamma_inc_overline*dnorm), 1e10) -- any gammas *)
Theorem C18_increase_update_keeps_invariant : forall rhoend rho delta rhobeg dnorm gi gio,
  Rad_inv rhoend rho delta rhobeg ->
  Rad_inv rhoend rho (snap (@py_rad_solver_solve_main_delta_6 ArithR delta dnorm gi gio) rho) rhobeg.
Proof.
  intros rhoend rho delta rhobeg dnorm gi gio (H1 & H2 & H3 & H4).
  unfold py_rad_solver_solve_main_delta_6. rnorm.
  assert (Hq: Rmin (Rmax (gi * delta) (gio * dnorm)) 10000000000 <= cap) by (unfold cap; apply Rmin_r).
  assert (Hs: snap (Rmin (Rmax (gi * delta) (gio * dnorm)) 10000000000) rho <= cap) by (eapply Rle_trans; [apply snap_le|]; apply Rmax_lub; lra).
  pose proof (snap_ge rho (Rmin (Rmax (gi * delta) (gio * dnorm)) 10000000000) ltac:(lra)).
  unfold Rad_inv; repeat split; lra.
Qed.
(* the snap is the write `control.delta = control.rho` under the guard `control.delta <= 1.5 * control.rho` *)
Theorem C18_snap_site_is_rho : forall rho, @py_rad_solver_solve_main_delta_7 ArithR rho = rho.
Proof. reflexivity. Qed.

(* ---- rho reduction (regenerated Controller.reduce_rho) ---- *)
Theorem C18_reduce_rho_keeps_invariant : forall (st st' : @controller_state ArithR) it a1 a2 rhobeg,
  Rad_inv (c_rhoend st) (c_rho st) (c_delta st) rhobeg -> 0 < a1 < 1 -> 0 < a2 < 1 ->
  @py_controller_reduce_rho ArithR st it a1 a2 = Ok (st', tt) ->
  Rad_inv (c_rhoend st') (c_rho st') (c_delta st') rhobeg /\ c_rho st' <= c_rho st /\ c_rhoend st' = c_rhoend st.
Proof.
  intros st st' it a1 a2 rhobeg HI H1 H2 H. rewrite (@reduce_rho_eq ArithR) in H.
  destruct (reduce_rho_inv st st' it a1 a2 rhobeg HI H1 H2 H) as (Ha & Hb & Hc & _). auto.
Qed.

(* ---- restart / initialisation / resets: delta and rho are set to rhobeg; rhoend is rescaled by a factor in (0,1] ---- *)
Theorem C18_reset_sites : forall rhobeg rhoend,
  @py_rad_controller_Controller_init_delta_0 ArithR rhobeg = rhobeg /\ @py_rad_controller_Controller_init_rho_0 ArithR rhobeg = rhobeg /\
  @py_rad_controller_Controller_init_rhoend_0 ArithR rhoend = rhoend /\
  @py_rad_controller_Controller_soft_restart_delta_0 ArithR rhobeg = rhobeg /\ @py_rad_controller_Controller_soft_restart_rho_0 ArithR rhobeg = rhobeg /\
  @py_rad_solver_solve_main_delta_0 ArithR rhobeg = rhobeg /\ @py_rad_solver_solve_main_rho_0 ArithR rhobeg = rhobeg /\
  @py_rad_solver_solve_main_rhoend_0 ArithR rhoend = rhoend.
Proof. intros. repeat split; reflexivity. Qed.
Theorem C18_restart_state_satisfies_invariant : forall rhobeg rhoend, 0 < rhoend <= rhobeg -> rhobeg <= cap -> Rad_inv rhoend rhobeg rhobeg rhobeg.
Proof. intros. unfold Rad_inv. repeat split; lra. Qed.
Theorem C18_rhoend_rescale_keeps_invariant : forall rhoend rho delta rhobeg s, Rad_inv rhoend rho delta rhobeg -> 0 < s <= 1 ->
  Rad_inv (@py_rad_solver_solve_main_rhoend_1 ArithR s rhoend) rho delta rhobeg /\ Rad_inv (@py_rad_solver_solve_rhoend_0 ArithR s rhoend) rho delta rhobeg.
Proof.
  intros rhoend rho delta rhobeg s (H1 & H2 & H3 & H4) Hs. unfold py_rad_solver_solve_main_rhoend_1, py_rad_solver_solve_rhoend_0. cbn [mul ArithR].
  unfold Rad_inv. repeat split; try lra; nra.
Qed.
(* all 15 per-restart rescalings in solve_main are the same expression *)
Theorem C18_all_rescalings_identical : forall s r,
  let f := @py_rad_solver_solve_main_rhoend_1 ArithR s r in
  [@py_rad_solver_solve_main_rhoend_2 ArithR s r; @py_rad_solver_solve_main_rhoend_3 ArithR s r; @py_rad_solver_solve_main_rhoend_4 ArithR s r;
   @py_rad_solver_solve_main_rhoend_5 ArithR s r; @py_rad_solver_solve_main_rhoend_6 ArithR s r; @py_rad_solver_solve_main_rhoend_7 ArithR s r;
   @py_rad_solver_solve_main_rhoend_8 ArithR s r; @py_rad_solver_solve_main_rhoend_9 ArithR s r; @py_rad_solver_solve_main_rhoend_10 ArithR s r;
   @py_rad_solver_solve_main_rhoend_11 ArithR s r; @py_rad_solver_solve_main_rhoend_12 ArithR s r; @py_rad_solver_solve_main_rhoend_13 ArithR s r;
   @py_rad_solver_solve_main_rhoend_14 ArithR s r; @py_rad_solver_solve_main_rhoend_15 ArithR s r] = repeat f 14.
Proof. intros. reflexivity. Qed.

(* the hypothesis 0 < tau <= 1 of the decrease update: tau is 1.0, or min(<measure>, 1.0) followed by the reset
   `if not tau > 0.0: tau = 1.0`, and nothing else writes tau before the radius update reads it *)
Definition tau_writes : list asite := filter (fun a => streq (a_func a) "solve_main" && streq (a_name a) "tau") T_assigns.
Definition tau_writes_ok : bool :=
  forallb (fun a => streq (a_op a) "=" && (streq (a_value a) "1.0" || streq (a_value a) "min(criticality_measure / (LA.norm(gopt) + lh), 1.0)")) tau_writes &&
  (* the positivity reset exists and comes after every other write ... *)
  existsb (fun g => streq (a_value g) "1.0" && has_guard (a_guards g) true "not tau > 0.0" &&
                    forallb (fun a => Z.leb (a_line a) (a_line g)) tau_writes &&
                    (* ... and before the radius writes that divide by tau *)
                    forallb (fun w => Z.ltb (a_line g) (a_line w))
                            (filter (fun w => streq (a_func w) "solve_main" && streq (a_name w) "delta" &&
                                              match index 0 "/ tau" (a_value w) with Some _ => true | None => false end) T_assigns)) tau_writes &&
  Z.eqb (Z.of_nat (List.length (filter (fun w => streq (a_func w) "solve_main" && streq (a_name w) "delta" &&
                                               match index 0 "/ tau" (a_value w) with Some _ => true | None => false end) T_assigns))) 2.
Theorem C18_tau_is_written_only_as_a_positive_fraction : tau_writes_ok = true.
Proof. vm_compute. reflexivity. Qed.
Local Open Scope R_scope.
(* what those writes produce, over the reals: min(c, 1) reset to 1 when not positive lies in (0, 1] for every c *)
Lemma C18_tau_in_range : forall c : R, let t := Rmin c 1 in let t' := if Rlt_bool 0 t then t else 1 in 0 < t' <= 1.
Proof.
  intros c. cbv zeta. case Rlt_bool_spec; intros H; [|lra]. split; [exact H|apply Rmin_r].
Qed.
(* a parameter value outside the hypothesis breaks the lemma: with tau small the decrease update exceeds the cap *)
Example C18_tau_hypothesis_needed : exists delta dnorm gd tau rho, 0 < rho <= delta /\ delta <= cap /\ 0 <= dnorm <= delta /\ 0 < gd < 1 /\ 0 < tau <= 1 /\
  ~ (snap (@py_rad_solver_solve_main_delta_2 ArithR delta dnorm gd tau) rho <= cap).
Proof.
  exists cap, cap, (1/2), (1/4), 1. unfold py_rad_solver_solve_main_delta_2. rnorm. unfold cap.
  repeat split; try lra. unfold snap. assert (E: Rmin (1 / 2 * 10000000000) 10000000000 / (1 / 4) = 20000000000).
  { rewrite Rmin_left by lra. lra. } rewrite E. case Rle_bool_spec; intros; lra.
Qed.

(* ---- tables: there is no other write to delta / rho / rhoend ---- *)
Open Scope string_scope.
Local Open Scope Z_scope.
Definition expected_radius_sites : list (string * string * string * Z) :=
  [("controller", "Controller.__init__", "delta", 1); ("controller", "Controller.__init__", "rho", 1); ("controller", "Controller.__init__", "rhoend", 1);
   ("controller", "Controller.check_and_fix_geometry", "delta", 1); ("controller", "Controller.soft_restart", "delta", 1);
   ("controller", "Controller.soft_restart", "rho", 1); ("solver", "solve", "rhoend", 1); ("solver", "solve_main", "rhoend", 16);
   ("solver", "solve_main", "delta", 8); ("solver", "solve_main", "rho", 1)].
Definition count_sites (f q n : string) : Z :=
  Z.of_nat (List.length (filter (fun e => match e with (f', q', n', _, _) => streq f f' && streq q q' && streq n n' end) radius_site_index)).
Definition radius_writes_exhaustive : bool :=
  forallb (fun e => match e with (f, q, n, k) => Z.eqb (count_sites f q n) k end) expected_radius_sites &&
  Z.eqb (Z.of_nat (List.length radius_site_index)) 32 &&
  (* and the generic assignment table knows no writer outside these functions and reduce_rho *)
  forallb (fun a => mem (a_func a) ["Controller.__init__"; "Controller.check_and_fix_geometry"; "Controller.soft_restart"; "Controller.reduce_rho"; "solve_main"; "solve"])
          (filter (fun a => (streq (a_name a) "delta" || streq (a_name a) "rho" || streq (a_name a) "rhoend") && negb (streq (a_file a) "diagnostic_info") && negb (streq (a_file a) "trust_region")) T_assigns).
(* the snap follows the three-case update under its guard, the resets are guarded by their parameters *)
Definition snap_guard_ok : bool :=
  existsb (fun a => streq (a_func a) "solve_main" && streq (a_target a) "control.delta" && streq (a_value a) "control.rho" &&
                    has_guard (a_guards a) true "control.delta <= 1.5 * control.rho") T_assigns &&
  existsb (fun a => streq (a_func a) "solve_main" && streq (a_target a) "control.rho" && streq (a_value a) "rhobeg" &&
                    has_guard (a_guards a) true "params('growing.reset_rho')") T_assigns &&
  existsb (fun a => streq (a_func a) "solve_main" && streq (a_target a) "control.delta" && streq (a_value a) "rhobeg" &&
                    has_guard (a_guards a) true "params('growing.reset_delta')") T_assigns.
Theorem C18_radius_writes_exhaustive : radius_writes_exhaustive = true /\ snap_guard_ok = true.
Proof. vm_compute. split; reflexivity. Qed.

Print Assumptions C18_geometry_update_keeps_invariant.
Print Assumptions C18_decrease_update_keeps_invariant.
Print Assumptions C18_keep_update_keeps_invariant.
Print Assumptions C18_increase_update_keeps_invariant.
Print Assumptions C18_reduce_rho_keeps_invariant.
Print Assumptions C18_rhoend_rescale_keeps_invariant.
Print Assumptions C18_radius_writes_exhaustive.
