(* P.C06 -- Convex regularised least squares (partial: table obligations + the zero-step rule; convergence is validated only).
   Tables regenerated from the source: every call of the regulariser h carries *argsh and nothing else, every call of prox_uh
   carries (point, u, *argsprox); the box handed to the regularised subproblem is the true box in the coordinates of its centre
   (xbase + sl, xbase + su with an absolute centre); a step with negative predicted reduction is replaced by zero. *)
From Coq Require Import ZArith List Bool String Lia.
Require Import DV.Lib.Tables.
From G Require Import Gen_tables.
Import ListNotations.
Open Scope Z_scope.
Open Scope string_scope.

Definition h_call_ok (c : csite) : bool :=
  match c_args c with
  | [x; a] => (streq a "*argsh" || streq a "*self.argsh") && (prefix "remove_scaling(" x || streq x "x")
  | _ => false end.
Definition prox_call_ok (c : csite) : bool :=
  (* the point is a fresh temporary (xopt + d un-scaled), so a proximal operator that works in place cannot alias anything the caller reuses *)
  match c_args c with [x; u; a] => streq u "u" && streq a "*argsprox" && streq x "remove_scaling(xopt + d, scaling_changes)" | _ => false end.
Theorem C06_user_callbacks_receive_their_arguments :
  forallb h_call_ok (filter (fun c => streq (c_dotted c) "h" || streq (c_dotted c) "self.h") (calls_of T_calls "h")) = true /\
  forallb prox_call_ok (calls_of T_calls "prox_uh") = true /\
  (* gradient_Fu is called with its six declared arguments (it takes *argsprox from the enclosing scope) *)
  forallb (fun c => slist_eq (c_args c) ["xopt"; "g"; "H"; "u"; "prox_uh"; "d"]) (calls_of T_calls "gradient_Fu") = true /\
  existsb (fun d => streq (d_func d) "ctrsbox_sfista.gradient_Fu" && slist_eq (d_params d) ["xopt"; "g"; "H"; "u"; "prox_uh"; "d"]) T_defs = true.
Proof. vm_compute. repeat split; reflexivity. Qed.
(* the regularised subproblem is centred at the absolute incumbent, so its box must be absolute too *)
Definition true_box (d : dsite) : bool := streq (d_kind d) "lambda:pbox(x, self.model.xbase + self.model.sl, self.model.xbase + self.model.su)".
Theorem C06_regularised_subproblem_uses_the_true_box :
  forallb true_box (filter (fun d => streq (d_file d) "controller" && (streq (d_func d) "Controller.trust_region_step.proj" || streq (d_func d) "Controller.evaluate_criticality_measure.proj")) T_defs) = true /\
  Z.of_nat (List.length (filter (fun d => streq (d_file d) "controller" && (streq (d_func d) "Controller.trust_region_step.proj" || streq (d_func d) "Controller.evaluate_criticality_measure.proj")) T_defs)) = 2 /\
  forallb (fun c => streq (List.hd "" (c_args c)) "self.model.xopt(abs_coordinates=True)") (filter (fun c => streq (c_file c) "controller") (calls_of T_calls "ctrsbox_sfista")) = true.
Proof. vm_compute. repeat split; reflexivity. Qed.
Theorem C06_model_increase_gives_zero_step :
  existsb (fun a => streq (a_func a) "Controller.trust_region_step" && streq (a_target a) "d" && streq (a_value a) "np.zeros(d.shape)" &&
                    has_guard (a_guards a) true "pred_reduction < 0.0") T_assigns = true.
Proof. vm_compute. reflexivity. Qed.

Print Assumptions C06_user_callbacks_receive_their_arguments.
Print Assumptions C06_regularised_subproblem_uses_the_true_box.
