(* P.C17 -- Model bookkeeping stays consistent under any sequence of updates.
   The theorems are stated about the functions REGENERATED from /repo/dfols/model.py on this run (prefix py_model_);
   Char_model proves them equal to the reference model, MBook/MReal carry the proofs.  Property theorems only. *)
From Coq Require Import ZArith List Bool String Lia Reals.
Require Import DV.Base.Prelude DV.Base.F64 DV.Base.OrdLaws DV.Spec.Schema DV.Lib.MSpec DV.Lib.MBook DV.Lib.MReal.
From G Require Import Gen_util Gen_model.
From P Require Import Char_model.
Import ListNotations.
Open Scope Z_scope.

Section C17.
Context `{A : Arith}.

(* the update machine over the generated methods *)
Definition gstep (st : model_state) (o : op) : res model_state :=
  match o with
  | OChange k x r en => bind (py_model_change_point st k x r en true) (fun p => Ok (fst p))
  | OSwap k1 k2 => if in_range st k1 && in_range st k2 then bind (py_model_swap_points st k1 k2) (fun p => Ok (fst p)) else Err IndexError
  | OSample k r => bind (py_model_add_new_sample st k r) (fun p => Ok (fst p))
  | OAdd x r en => if npt_so_far st =? num_pts st then bind (py_model_add_new_point st x r en) (fun p => Ok (fst p)) else Err OtherError
  | OShift sh => bind (py_model_shift_base st sh) (fun p => Ok (fst p))
  | OSave x r ns en abs => bind (py_model_save_point st x r ns en abs) (fun p => Ok (fst p))
  end.
Fixpoint grun (ops : list op) (st : model_state) : res model_state :=
  match ops with [] => Ok st | o :: ops' => bind (gstep st o) (grun ops') end.
Lemma gstep_eq st o : gstep st o = step st o.
Proof.
  destruct o; cbn [gstep step];
    rewrite ?change_point_eq, ?swap_points_eq, ?add_new_sample_eq, ?add_new_point_eq, ?shift_base_eq, ?save_point_eq; reflexivity.
Qed.
Lemma grun_eq ops : forall st, grun ops st = run ops st.
Proof. induction ops as [|o ops IH]; intros st; cbn [grun run]; [reflexivity|]. rewrite gstep_eq. destruct (step st o); cbn [bind]; auto. Qed.

(* shape of the arrays is kept by every sequence *)
Theorem C17_wellformed : forall ops st st', wf st -> grun ops st = Ok st' -> wf st'.
Proof. intros ops st st' W H. rewrite grun_eq in H. exact (run_wf ops st st' W H). Qed.

(* (a) each stored objective equals sumsq(stored residual) [+ h at the point it was computed for] -- every reachable state *)
Theorem C17_objective_consistent : forall ops st st', wf st -> ObjOk st -> grun ops st = Ok st' -> ObjOk st'.
Proof. intros ops st st' W O H. rewrite grun_eq in H. exact (run_ObjOk ops st st' W O H). Qed.

(* (b),(c) the five parallel arrays behave as ONE array of slots (point, residual, objective, sample count,
   evaluation number): a replacement writes one fresh slot with count 1 and the given evaluation number and touches
   no other slot; a swap exchanges whole slots (evaluation numbers and sample counts travel with their points);
   a new sample adds exactly one to the count of its slot and keeps its evaluation number and point. *)
Theorem C17_replace_writes_one_slot : forall st k x r en st', wf st -> py_model_change_point st k x r en true = Ok (st', tt) ->
  slot_of st' k = fresh_slot st x r en /\ (forall j, 0 <= j -> j <> k -> slot_of st' j = slot_of st j).
Proof. intros st k x r en st' W H. rewrite change_point_eq in H. destruct (change_point_slots _ _ _ _ _ _ _ W H) as (_ & H1 & H2 & _). exact (conj H1 H2). Qed.
Theorem C17_swap_moves_whole_slots : forall st k1 k2 st', wf st -> 0 <= k1 < npt_so_far st -> 0 <= k2 < npt_so_far st ->
  py_model_swap_points st k1 k2 = Ok (st', tt) ->
  (forall j, 0 <= j -> slot_of st' j = slot_of st (swap_idx k1 k2 j)) /\ kopt st = swap_idx k1 k2 (kopt st').
Proof. intros st k1 k2 st' W H1 H2 H. rewrite swap_points_eq in H. destruct (swap_points_slots _ _ _ _ W H1 H2 H) as (_ & _ & _ & Ha & Hb & _). exact (conj Ha Hb). Qed.
Theorem C17_sample_counts_exact : forall st k r st', wf st -> py_model_add_new_sample st k r = Ok (st', tt) ->
  slot_of st' k = resampled st (slot_of st k) r /\ sl_ns (slot_of st' k) = sl_ns (slot_of st k) + 1 /\
  sl_en (slot_of st' k) = sl_en (slot_of st k) /\ (forall j, 0 <= j -> j <> k -> slot_of st' j = slot_of st j).
Proof.
  intros st k r st' W H. rewrite add_new_sample_eq in H.
  destruct (add_new_sample_slots _ _ _ _ W H) as (_ & _ & _ & _ & H1 & H2 & _). rewrite H1. repeat split; auto.
Qed.
Theorem C17_append_writes_one_slot : forall st x r en st', wf st -> npt_so_far st = num_pts st -> py_model_add_new_point st x r en = Ok (st', tt) ->
  slot_of st' (npt_so_far st) = fresh_slot st x r en /\ (forall j, 0 <= j < npt_so_far st -> slot_of st' j = slot_of st j).
Proof. intros st x r en st' W F H. rewrite add_new_point_eq in H. destruct (add_new_point_slots _ _ _ _ _ W F H) as (_ & _ & _ & H1 & H2 & _). exact (conj H1 H2). Qed.
Theorem C17_shift_keeps_book : forall st s st', py_model_shift_base st s = Ok (st', tt) -> same_book st st'.
Proof. intros st s st' H. rewrite shift_base_eq in H. exact (shift_base_book _ _ _ H). Qed.

Section Order.
Context `{L : !OrdLaws A}.
(* (d) the incumbent index designates the smallest stored objective in every reachable state, along any sequence
   that never overwrites the incumbent itself with a worse value (NaN entries are never "smaller") *)
Theorem C17_incumbent_is_minimum : forall ops st st', wf st -> KoptMin st -> run_untainted ops st -> grun ops st = Ok st' -> KoptMin st'.
Proof. intros ops st st' W K U H. rewrite grun_eq in H. exact (run_KoptMin ops st st' W K U H). Qed.
(* ... and a re-sample re-establishes it unconditionally *)
Theorem C17_resample_restores_minimum : forall st k r st', wf st -> py_model_add_new_sample st k r = Ok (st', tt) -> KoptMin st'.
Proof. intros st k r st' W H. rewrite add_new_sample_eq in H. exact (sample_KoptMin _ _ _ _ W H). Qed.
(* (e) the saved slot only ever improves, and a NaN never displaces a non-NaN value *)
Theorem C17_save_keeps_better : forall st x r ns en ab st' b, py_model_save_point st x r ns en ab = Ok (st', b) ->
  exists s', objsave st' = Some s' /\ noworse s' (obj_of st r (if ab then x else s_as_absolute_coordinates st x)) /\
             (forall s, objsave st = Some s -> noworse s' s).
Proof. intros st x r ns en ab st' b H. rewrite save_point_eq in H. exact (save_point_best _ _ _ _ _ _ _ _ H). Qed.
(* the final-result query returns the better of incumbent and saved point, preferring any non-NaN value *)
Theorem C17_final_is_better_of_two : forall st st' x r o j ns en je, py_model_get_final_results st = Ok (st', (x, r, o, j, ns, en, je)) ->
  exists v, o = Some v /\ noworse v (objv st (kopt st)) /\ (forall s, objsave st = Some s -> noworse v s).
Proof. intros st st' x r o j ns en je H. rewrite get_final_results_eq in H. exact (final_results_best _ _ _ _ _ _ _ _ _ H). Qed.
(* ... and the tuple it returns is one coherent record: all fields from the incumbent slot, or all from the saved slot *)
Theorem C17_final_is_coherent : forall st st' x r o j ns en je, py_model_get_final_results st = Ok (st', (x, r, o, j, ns, en, je)) ->
  (x = Some (s_xpt st (kopt st) true) /\ r = Some (sl_r (slot_of st (kopt st))) /\ o = Some (sl_obj (slot_of st (kopt st))) /\
   ns = Some (sl_ns (slot_of st (kopt st))) /\ en = Some (sl_en (slot_of st (kopt st)))) \/
  (x = xsave st /\ r = rsave st /\ o = objsave st /\ ns = nsamples_save st /\ en = eval_num_save st).
Proof.
  intros st st' x r o j ns en je H. rewrite get_final_results_eq in H.
  destruct (final_results_fields _ _ _ _ _ _ _ _ _ H) as [_ F]. cbv zeta in F.
  destruct (match objsave st with None => true | Some s => _ end); [left|right]; tauto.
Qed.
End Order.
End C17.

(* (b) in exact real arithmetic: the weights k/(k+1), 1/(k+1) used by add_new_sample make the stored residual the
   arithmetic mean of all samples received (count * mean = sum), for any number of samples *)
Theorem C17_running_mean_is_arithmetic_mean : forall (rs : list (list R)) (m : list R) (c : Z) (S : list R), (0 <= c)%Z ->
  Forall (fun r => List.length r = List.length m) rs -> List.length S = List.length m -> map (Rmult (IZR c)) m = S ->
  let '(m', c') := fold_samples m c rs in c' = (c + Z.of_nat (List.length rs))%Z /\ map (Rmult (IZR c')) m' = sum_samples S rs.
Proof. exact running_mean_is_mean. Qed.
(* the residual written by the generated add_new_sample is exactly the one this fold uses *)
Theorem C17_resample_uses_running_mean_weights : forall (st : @model_state ArithR) s r,
  sl_r (resampled st s r) = resampled_resid (sl_ns s) (sl_r s) r.
Proof. intros; reflexivity. Qed.

(* non-vacuity: a concrete binary64 state satisfies wf, ObjOk and KoptMin, and a 4-step history runs to Ok *)
Definition ex_st : @model_state ArithF64 :=
  @mk_model ArithF64 2 2 3 3 (vof [0;0]) (vof [13826050856027422720; 13826050856027422720]) (vof [4602678819172646912; 4602678819172646912]) []
    [vof [0;0]; vof [4602678819172646912;0]; vof [0;4602678819172646912]]
    [vof [4607182418800017408;4607182418800017408]; vof [4611686018427387904;0]; vof [0;4613937818241073152]]
    (vof [4611686018427387904; 4616189618054758400; 4621256167635550208]) 0 [1;1;1] [1;2;3]
    (of_bits 4611686018427387904) (of_bits 4427486594234968593) (of_bits 4307583784117748259)
    (vof [0;0]) [vof [0;0]; vof [0;0]] None None None None None None None None false None None.
Definition ex_ops : list (@op ArithF64) :=
  [@OChange ArithF64 1 (vof [0;0]) (vof [0;0]) 4; @OSample ArithF64 1 (vof [4607182418800017408;0]); @OSwap ArithF64 0 2;
   @OSave ArithF64 (vof [0;0]) (vof [0;0]) 1 4 true].
Example C17_nonvacuous : is_ok (grun ex_ops ex_st) = true.
Proof. vm_compute. reflexivity. Qed.

Print Assumptions C17_wellformed.
Print Assumptions C17_objective_consistent.
Print Assumptions C17_replace_writes_one_slot.
Print Assumptions C17_swap_moves_whole_slots.
Print Assumptions C17_sample_counts_exact.
Print Assumptions C17_append_writes_one_slot.
Print Assumptions C17_shift_keeps_book.
Print Assumptions C17_incumbent_is_minimum.
Print Assumptions C17_resample_restores_minimum.
Print Assumptions C17_save_keeps_better.
Print Assumptions C17_final_is_better_of_two.
Print Assumptions C17_final_is_coherent.
Print Assumptions C17_running_mean_is_arithmetic_mean.
