(* DV.Base.Prelude -- the vocabulary that generated (translated) code and the hand-written machines share.
   No Reals, no axioms: everything here is executable and closed under the global context. *)
From Coq Require Import ZArith List Bool Lia.
Import ListNotations.
Open Scope Z_scope.

(* ---- arithmetic interface ------------------------------------------------------------------ *)
Class Arith := {
  T : Type;
  add : T -> T -> T; sub : T -> T -> T; mul : T -> T -> T; div : T -> T -> T;
  fsqrt : T -> T; fabs : T -> T; fneg : T -> T;
  le : T -> T -> bool; lt : T -> T -> bool; feq : T -> T -> bool;   (* IEEE: false if a NaN is involved *)
  isnan : T -> bool;
  ofZ : Z -> T;
  ofdy : Z -> Z -> T;            (* m * 2^e, exact value of a Python float literal *)
  finf : T;                      (* float('inf') / np.inf *)
  dflt : T }.                    (* default for totalised indexing; never the reason a theorem holds *)

Inductive exn := AssertionError | IndexError | OtherError.
Inductive res (A : Type) := Ok (a : A) | Err (e : exn).
Arguments Ok {A}. Arguments Err {A}.
Definition bind {A B} (r : res A) (f : A -> res B) : res B := match r with Ok a => f a | Err e => Err e end.
Definition is_ok {A} (r : res A) : bool := match r with Ok _ => true | Err _ => false end.
Definition is_none {A} (o : option A) := match o with None => true | _ => false end.
Definition is_some {A} (o : option A) := negb (is_none o).

(* ---- list utilities (index type Z, as in the Python source) ---------------------------------- *)
Fixpoint upd {A} (l : list A) (n : nat) (v : A) : list A :=
  match l, n with [], _ => [] | _ :: l', O => v :: l' | a :: l', S n' => a :: upd l' n' v end.
Definition updZ {A} (l : list A) (k : Z) (v : A) : list A := if k <? 0 then l else upd l (Z.to_nat k) v.
Definition getD {A} (d : A) (x : list A) (k : Z) : A := nth (Z.to_nat k) x d.
Definition getZ (x : list Z) (k : Z) : Z := getD 0 x k.
Definition firstnZ {A} (k : Z) (l : list A) : list A := firstn (Z.to_nat k) l.
Definition lenZ {A} (l : list A) : Z := Z.of_nat (length l).
Definition memZ (k : Z) (l : list Z) : bool := existsb (Z.eqb k) l.
(* NumPy boolean-mask indexing: v[m] (the entries where m holds, in order), v[m] = c, v[m] = w (w has one entry per True of m) *)
Fixpoint bfilt {X} (v : list X) (m : list bool) : list X :=
  match v, m with x :: v', b :: m' => if b then x :: bfilt v' m' else bfilt v' m' | _, _ => [] end.
Fixpoint bset {X} (v : list X) (m : list bool) (c : X) : list X :=
  match v, m with x :: v', b :: m' => (if b then c else x) :: bset v' m' c | _, _ => v end.
Fixpoint bscatter {X} (v : list X) (m : list bool) (e : list X) : list X :=
  match v, m with
  | x :: v', true :: m' => match e with y :: e' => y :: bscatter v' m' e' | [] => x :: bscatter v' m' [] end
  | x :: v', false :: m' => x :: bscatter v' m' e
  | _, _ => v
  end.
Definition zmask (p : Z -> bool) (z : list Z) : list bool := map p z.
Definition band2 (a b : list bool) : list bool := map (fun p => andb (fst p) (snd p)) (combine a b).
Definition swapZ {A} (d : A) (l : list A) (a b : Z) : list A := updZ (updZ l a (getD d l b)) b (getD d l a).
Fixpoint rangeN (start : Z) (n : nat) : list Z := match n with O => [] | S k => start :: rangeN (start + 1) k end.
Definition rangeZ (a b : Z) : list Z := rangeN a (Z.to_nat (b - a)).
Definition repeatZ {A} (v : A) (n : Z) : list A := repeat v (Z.to_nat n).

Lemma upd_length {X} (l : list X) n v : length (upd l n v) = length l.
Proof. revert n; induction l; destruct n; simpl; auto. Qed.
Lemma nth_upd_same {X} (l : list X) n v d : (n < length l)%nat -> nth n (upd l n v) d = v.
Proof. revert n; induction l; destruct n; simpl; intros; try lia; auto. apply IHl; lia. Qed.
Lemma nth_upd_other {X} (l : list X) n m v d : n <> m -> nth m (upd l n v) d = nth m l d.
Proof. revert n m; induction l; destruct n, m; simpl; intros; try lia; auto. Qed.
Lemma updZ_length {X} (l : list X) k v : length (updZ l k v) = length l.
Proof. unfold updZ; destruct (k <? 0); auto using upd_length. Qed.
Lemma getD_updZ_same {X} (d : X) l k v : 0 <= k < lenZ l -> getD d (updZ l k v) k = v.
Proof. unfold getD, updZ, lenZ; intros. destruct (Z.ltb_spec k 0); [lia|]. apply nth_upd_same. lia. Qed.
Lemma getD_updZ_other {X} (d : X) l k j v : 0 <= j -> k <> j -> getD d (updZ l k v) j = getD d l j.
Proof. unfold getD, updZ; intros. destruct (Z.ltb_spec k 0); auto. apply nth_upd_other. lia. Qed.
Lemma getZ_updZ_same l k v : 0 <= k < lenZ l -> getZ (updZ l k v) k = v.
Proof. apply (getD_updZ_same 0). Qed.
Lemma getZ_updZ_other l k j v : 0 <= j -> k <> j -> getZ (updZ l k v) j = getZ l j.
Proof. apply (getD_updZ_other 0). Qed.
Lemma updZ_updZ {X} (l : list X) k v w : updZ (updZ l k v) k w = updZ l k w.
Proof. unfold updZ. destruct (k <? 0); auto. generalize (Z.to_nat k). induction l; destruct n; simpl; auto. f_equal. apply IHl. Qed.
Lemma lenZ_updZ {X} (l : list X) k v : lenZ (updZ l k v) = lenZ l.
Proof. unfold lenZ; now rewrite updZ_length. Qed.
Lemma lenZ_app {X} (l l' : list X) : lenZ (l ++ l') = lenZ l + lenZ l'.
Proof. unfold lenZ; rewrite app_length; lia. Qed.
Lemma lenZ_nonneg {X} (l : list X) : 0 <= lenZ l. Proof. unfold lenZ; lia. Qed.
Lemma getD_app_l {X} (d : X) l l' k : 0 <= k < lenZ l -> getD d (l ++ l') k = getD d l k.
Proof. unfold getD, lenZ; intros. apply app_nth1. lia. Qed.
Lemma getD_app_r {X} (d : X) l v : getD d (l ++ [v]) (lenZ l) = v.
Proof. unfold getD, lenZ. rewrite Nat2Z.id, app_nth2, Nat.sub_diag by lia. reflexivity. Qed.
Lemma rangeN_length s n : length (rangeN s n) = n.
Proof. revert s; induction n; simpl; auto. Qed.
Lemma rangeN_In s n i : In i (rangeN s n) <-> s <= i < s + Z.of_nat n.
Proof. revert s; induction n as [|n IH]; intros s; simpl; [lia|]. rewrite IH. lia. Qed.

(* ---- loops: structural recursion on the index list / on explicit fuel -------------------------- *)
Inductive exn_fuel := OutOfFuel.
Fixpoint for_loop {C} (l : list Z) (body : Z -> C -> res (C * bool)) (c : C) : res C :=
  match l with
  | [] => Ok c
  | i :: l' => match body i c with
               | Err e => Err e
               | Ok (c', true) => Ok c'              (* break *)
               | Ok (c', false) => for_loop l' body c'
               end
  end.
(* while cond: body; the Boolean in the result says whether the fuel ran out with cond still true *)
Fixpoint while_loop {C} (fuel : nat) (cond : C -> bool) (body : C -> res (C * bool)) (c : C) : res (C * bool) :=
  if cond c then
    match fuel with
    | O => Ok (c, true)
    | S f => match body c with
             | Err e => Err e
             | Ok (c', true) => Ok (c', false)
             | Ok (c', false) => while_loop f cond body c'
             end
    end
  else Ok (c, false).

(* ---- vectors and matrices over an arithmetic ------------------------------------------------ *)
Section V.
  Context `{Arith}.
  Definition vec := list T.
  Definition mat := list vec.
  Definition vmap (f : T -> T) (x : vec) : vec := map f x.
  Fixpoint vmap2 (f : T -> T -> T) (x y : vec) : vec :=
    match x, y with a :: x', b :: y' => f a b :: vmap2 f x' y' | _, _ => [] end.
  Definition getT (x : vec) (k : Z) : T := getD dflt x k.
  Definition getrow (x : mat) (k : Z) : vec := getD [] x k.
  Definition zero : T := ofZ 0.
  Definition one : T := ofZ 1.
  (* sequential kernels; the correspondence harness substitutes sequential Python versions for BLAS *)
  Definition dot (x y : vec) : T := fold_left (fun acc p => add acc (mul (fst p) (snd p))) (combine x y) zero.
  Definition sumsq (x : vec) : T := dot x x.
  Definition matvec (m : mat) (x : vec) : vec := map (fun r => dot r x) m.
  Definition vzeros (n : Z) : vec := repeatZ zero n.
  (* transpose and matrix product (numpy's M.T and np.dot(A, B)); the number of columns is read off the first row *)
  Definition mcol (m : mat) (j : nat) : vec := map (fun r => nth j r zero) m.
  Definition ncols (m : mat) : nat := match m with [] => O | r :: _ => length r end.
  Definition matT (m : mat) : mat := map (mcol m) (seq 0 (ncols m)).
  Definition matmat (a b : mat) : mat := map (fun r => map (fun j => dot r (mcol b j)) (seq 0 (ncols b))) a.
  (* numpy.maximum / numpy.minimum (ties and non-NaN second argument return the SECOND argument) *)
  Definition npmax (a b : T) : T := if lt b a || isnan a then a else b.
  Definition npmin (a b : T) : T := if lt a b || isnan a then a else b.
  (* Python builtins max(a,b) / min(a,b) *)
  Definition pymax (a b : T) : T := if lt a b then b else a.
  Definition pymin (a b : T) : T := if lt b a then b else a.
  Definition isfin (x : T) : bool := negb (isnan x) && lt (fabs x) finf.   (* np.isfinite *)
  Definition vclip (l u x : vec) : vec := vmap2 npmin (vmap2 npmax l x) u.   (* np.minimum(np.maximum(l, x), u) *)
  Definition vany (f : T -> bool) (x : vec) : bool := existsb f x.
  (* numpy.argmin: index of the first NaN if any, else of the first minimum *)
  Fixpoint argmin_from (l : vec) (i : Z) (best : T) (bi : Z) : Z :=
    match l with
    | [] => bi
    | a :: l' => if isnan best then bi
                 else if isnan a || lt a best then argmin_from l' (i + 1) a i
                 else argmin_from l' (i + 1) best bi
    end.
  Definition np_argmin (l : vec) : Z := match l with [] => 0 | a :: l' => argmin_from l' 1 a 0 end.
  Fixpoint argmax_from (l : vec) (i : Z) (best : T) (bi : Z) : Z :=
    match l with
    | [] => bi
    | a :: l' => if isnan best then bi
                 else if isnan a || lt best a then argmax_from l' (i + 1) a i
                 else argmax_from l' (i + 1) best bi
    end.
  Definition np_argmax (l : vec) : Z := match l with [] => 0 | a :: l' => argmax_from l' 1 a 0 end.
  (* column means of the first k rows: np.mean(rows[:k, :], axis=0) computed as (sum of rows) / k, pairwise-free *)
  Definition vsum_rows (rows : mat) : vec :=
    match rows with [] => [] | r :: rs => fold_left (vmap2 add) rs r end.
  Definition vmean_rows (rows : mat) : vec := vmap (fun s => div s (ofZ (lenZ rows))) (vsum_rows rows).
  Definition vnorm (x : vec) : T := fsqrt (sumsq x).            (* np.linalg.norm of a vector *)
  Definition vcmp2 (f : T -> T -> bool) (x y : vec) : list bool := map (fun p => f (fst p) (snd p)) (combine x y).   (* x <= y as a mask *)
  Definition vsum (x : vec) : T := fold_left add x zero.           (* np.sum of a vector, summed left to right *)
  (* int(v): truncation toward zero, for |v| < 2^52 (None for NaN and beyond: ValueError / OverflowError or out of the modelled range) *)
  Fixpoint floor_search (fuel : nat) (lo hi : Z) (v : T) : Z :=     (* ofZ lo <= v < ofZ hi *)
    match fuel with
    | O => lo
    | S f => if Z.leb hi (lo + 1) then lo
             else let mid := (lo + hi) / 2 in if le (ofZ mid) v then floor_search f mid hi v else floor_search f lo mid v
    end.
  Definition py_int (v : T) : option Z :=
    if isnan v then None
    else if le (ofZ 0) v then (if lt v (ofZ 4503599627370496) then Some (floor_search 60 0 4503599627370496 v) else None)
    else (if lt (ofZ (-4503599627370496)) v then Some (- floor_search 60 0 4503599627370496 (fneg v)) else None).
  (* np.where(test(v))[0]: ascending indices of the entries that pass; v[idxs] = c; i in idxs *)
  Fixpoint where_from (f : T -> bool) (x : vec) (i : Z) : list Z :=
    match x with [] => [] | a :: x' => if f a then i :: where_from f x' (i + 1) else where_from f x' (i + 1) end.
  Definition where_idx (f : T -> bool) (x : vec) : list Z := where_from f x 0.
  Definition vall2 (f : T -> T -> bool) (x y : vec) : bool := forallb (fun p => f (fst p) (snd p)) (combine x y).   (* np.all(x <= y) *)
  Definition set_many (x : vec) (idxs : list Z) (c : T) : vec := fold_left (fun acc k => updZ acc k c) idxs x.
  Definition vmaxabs (x : vec) : T :=                            (* np.max(np.abs(x)), NaN-propagating *)
    match x with [] => dflt | a :: x' => fold_left (fun m b => npmax m (fabs b)) x' (fabs a) end.

  Lemma vmap2_length f x y : length (vmap2 f x y) = Nat.min (length x) (length y).
  Proof. revert y; induction x; destruct y; simpl; auto. Qed.
  Lemma vmap_length f x : length (vmap f x) = length x.
  Proof. apply map_length. Qed.
  Lemma vclip_length l u x : length l = length x -> length u = length x -> length (vclip l u x) = length x.
  Proof. intros; unfold vclip; rewrite !vmap2_length; lia. Qed.
End V.
