(* DV.Base.OrdLaws -- order reasoning factored through one law class: comparisons of non-NaN values are the
   comparisons of a real-valued key.  Proved for binary64 (all 2^64 patterns, infinities included) and for R.
   Every min/max/clip theorem is proved once from the laws and therefore holds on both instances. *)
From Coq Require Import ZArith List Bool Reals Lia Lra.
From Flocq Require Import Core BinarySingleNaN.
Require Import DV.Base.Prelude DV.Base.F64.
Import ListNotations.

Class OrdLaws (A : Arith) := {
  key : T -> R;
  le_key : forall x y, isnan x = false -> isnan y = false -> le x y = Rle_bool (key x) (key y);
  lt_key : forall x y, isnan x = false -> isnan y = false -> lt x y = Rlt_bool (key x) (key y);
  le_nan_l : forall x y, isnan x = true -> le x y = false;
  le_nan_r : forall x y, isnan y = true -> le x y = false;
  lt_nan_l : forall x y, isnan x = true -> lt x y = false;
  lt_nan_r : forall x y, isnan y = true -> lt x y = false;
  finf_nn : isnan finf = false }.

Section Laws.
  Context `{A : Arith} `{L : !OrdLaws A}.
  Local Open Scope R_scope.
  Lemma le_true x y : isnan x = false -> isnan y = false -> (le x y = true <-> key x <= key y).
  Proof. intros; rewrite le_key by auto; case Rle_bool_spec; intuition (try discriminate; lra). Qed.
  Lemma le_false x y : isnan x = false -> isnan y = false -> (le x y = false <-> key y < key x).
  Proof. intros; rewrite le_key by auto; case Rle_bool_spec; intuition (try discriminate; lra). Qed.
  Lemma lt_true x y : isnan x = false -> isnan y = false -> (lt x y = true <-> key x < key y).
  Proof. intros; rewrite lt_key by auto; case Rlt_bool_spec; intuition (try discriminate; lra). Qed.
  Lemma lt_false x y : isnan x = false -> isnan y = false -> (lt x y = false <-> key y <= key x).
  Proof. intros; rewrite lt_key by auto; case Rlt_bool_spec; intuition (try discriminate; lra). Qed.
  Lemma le_true_nonnan x y : le x y = true -> isnan x = false /\ isnan y = false.
  Proof.
    intros Hl. destruct (isnan x) eqn:Ex; [rewrite le_nan_l in Hl by auto; discriminate|].
    destruct (isnan y) eqn:Ey; [rewrite le_nan_r in Hl by auto; discriminate|]. auto.
  Qed.
  Lemma lt_true_nonnan x y : lt x y = true -> isnan x = false /\ isnan y = false.
  Proof.
    intros Hl. destruct (isnan x) eqn:Ex; [rewrite lt_nan_l in Hl by auto; discriminate|].
    destruct (isnan y) eqn:Ey; [rewrite lt_nan_r in Hl by auto; discriminate|]. auto.
  Qed.

  (* y is inside [l,u] exactly, as the IEEE comparisons l <= y and y <= u *)
  Definition inb (l u y : T) : Prop := le l y = true /\ le y u = true.

  (* the scalar fact behind every "exactly inside the box" statement:
     np.minimum(np.maximum(l, x), u) and np.minimum(np.maximum(x, l), u) lie in [l,u] for every non-NaN x *)
  Lemma clip_lx l u x : isnan x = false -> le l u = true -> inb l u (npmin (npmax l x) u).
  Proof.
    intros Hx Hlu. destruct (le_true_nonnan _ _ Hlu) as [Hl Hu]. unfold inb, npmax, npmin.
    apply le_true in Hlu; auto. rewrite Hl, orb_false_r. destruct (lt x l) eqn:E1.
    - apply lt_true in E1; auto. rewrite Hl, orb_false_r. destruct (lt l u) eqn:E2.
      + apply lt_true in E2; auto. split; apply le_true; auto; lra.
      + apply lt_false in E2; auto. split; apply le_true; auto; lra.
    - apply lt_false in E1; auto. rewrite Hx, orb_false_r. destruct (lt x u) eqn:E2.
      + apply lt_true in E2; auto. split; apply le_true; auto; lra.
      + apply lt_false in E2; auto. split; apply le_true; auto; lra.
  Qed.
  Lemma clip_xl l u x : isnan x = false -> le l u = true -> inb l u (npmin (npmax x l) u).
  Proof.
    intros Hx Hlu. destruct (le_true_nonnan _ _ Hlu) as [Hl Hu]. unfold inb, npmax, npmin.
    apply le_true in Hlu; auto. rewrite Hx, orb_false_r. destruct (lt l x) eqn:E1.
    - apply lt_true in E1; auto. rewrite Hx, orb_false_r. destruct (lt x u) eqn:E2.
      + apply lt_true in E2; auto. split; apply le_true; auto; lra.
      + apply lt_false in E2; auto. split; apply le_true; auto; lra.
    - apply lt_false in E1; auto. rewrite Hl, orb_false_r. destruct (lt l u) eqn:E2.
      + apply lt_true in E2; auto. split; apply le_true; auto; lra.
      + apply lt_false in E2; auto. split; apply le_true; auto; lra.
  Qed.
  (* np.maximum(np.minimum(x, u), l): the generator tails of util.py *)
  Lemma clip_max_min l u x : isnan x = false -> le l u = true -> inb l u (npmax (npmin x u) l).
  Proof.
    intros Hx Hlu. destruct (le_true_nonnan _ _ Hlu) as [Hl Hu]. unfold inb, npmax, npmin.
    apply le_true in Hlu; auto. rewrite Hx, orb_false_r. destruct (lt x u) eqn:E1.
    - apply lt_true in E1; auto. rewrite Hx, orb_false_r. destruct (lt l x) eqn:E2.
      + apply lt_true in E2; auto. split; apply le_true; auto; lra.
      + apply lt_false in E2; auto. split; apply le_true; auto; lra.
    - apply lt_false in E1; auto. rewrite Hu, orb_false_r. destruct (lt l u) eqn:E2.
      + apply lt_true in E2; auto. split; apply le_true; auto; lra.
      + apply lt_false in E2; auto. split; apply le_true; auto; lra.
  Qed.
  (* NaN in, NaN out: the clip never hides a NaN (so "not NaN" is a hypothesis, not a consequence) *)
  Lemma clip_nan l u x : isnan x = true -> isnan u = false -> isnan (npmin (npmax x l) u) = true.
  Proof.
    intros Hx Hu. unfold npmax, npmin. rewrite Hx, orb_true_r, Hx, orb_true_r. exact Hx.
  Qed.

  (* vectors *)
  Definition okbox (l u : vec) : Prop := Forall2 (fun a b => le a b = true) l u.
  Definition vin (l u y : vec) : Prop := Forall2 (fun lu y => inb (fst lu) (snd lu) y) (combine l u) y.
  Definition vnonnan (x : vec) : Prop := Forall (fun y => isnan y = false) x.

  Lemma vclip_xl_in l u x : okbox l u -> length x = length l -> vnonnan x ->
    vin l u (vmap2 npmin (vmap2 npmax x l) u).
  Proof.
    intros Hb; revert x. induction Hb as [|a b l u Hab Hb IH]; intros x Hlen Hn.
    - destruct x; constructor.
    - destruct x as [|y x]; [discriminate|]. inversion Hn; subst. cbn. constructor.
      + cbn. apply clip_xl; auto.
      + apply IH; auto.
  Qed.
  Lemma vclip_lx_in l u x : okbox l u -> length x = length l -> vnonnan x -> vin l u (vclip l u x).
  Proof.
    intros Hb; revert x. induction Hb as [|a b l u Hab Hb IH]; intros x Hlen Hn.
    - destruct x; constructor.
    - destruct x as [|y x]; [discriminate|]. inversion Hn; subst. cbn. constructor.
      + cbn. apply clip_lx; auto.
      + apply IH; auto.
  Qed.
  Lemma vclip_max_min_in l u x : okbox l u -> length x = length l -> vnonnan x ->
    vin l u (vmap2 npmax (vmap2 npmin x u) l).
  Proof.
    intros Hb; revert x. induction Hb as [|a b l u Hab Hb IH]; intros x Hlen Hn.
    - destruct x; constructor.
    - destruct x as [|y x]; [discriminate|]. inversion Hn; subst. cbn. constructor.
      + cbn. apply clip_max_min; auto.
      + apply IH; auto.
  Qed.

  (* total preorder facts on non-NaN values *)
  Lemma le_refl_nn x : isnan x = false -> le x x = true.
  Proof. intros; apply le_true; auto; lra. Qed.
  Lemma le_trans_nn x y z : le x y = true -> le y z = true -> le x z = true.
  Proof.
    intros H1 H2. destruct (le_true_nonnan _ _ H1), (le_true_nonnan _ _ H2).
    apply le_true in H1; auto. apply le_true in H2; auto. apply le_true; auto; lra.
  Qed.
  Lemma lt_le_nn x y : lt x y = true -> le x y = true.
  Proof. intros H1. destruct (lt_true_nonnan _ _ H1). apply lt_true in H1; auto. apply le_true; auto; lra. Qed.
  Lemma nlt_le_nn x y : isnan x = false -> isnan y = false -> lt x y = false -> le y x = true.
  Proof. intros Hx Hy H1. apply lt_false in H1; auto. apply le_true; auto. Qed.
  Lemma nle_lt_nn x y : isnan x = false -> isnan y = false -> le x y = false -> lt y x = true.
  Proof. intros Hx Hy H1. apply le_false in H1; auto. apply lt_true; auto. Qed.
End Laws.

(* ---- instance: binary64 ---------------------------------------------------------------------- *)
Section F64Laws.
  Local Open Scope R_scope.
  Definition big : R := bpow radix2 1024.
  Definition fkey (x : F) : R :=
    match x with
    | B754_infinity false => big
    | B754_infinity true => - big
    | _ => B2R x
    end.
  Lemma key_fin (x : F) : is_finite x = true -> - big < fkey x < big.
  Proof.
    intros Hf. assert (H := abs_B2R_lt_emax 53 1024 x).
    destruct x; try discriminate; simpl fkey; unfold big; apply Rabs_lt_inv; exact H.
  Qed.
  Lemma big_pos : 0 < big. Proof. apply bpow_gt_0. Qed.

  Lemma fle_key (x y : F) : is_nan x = false -> is_nan y = false -> Bleb x y = Rle_bool (fkey x) (fkey y).
  Proof.
    intros Hx Hy. pose proof big_pos as Hb.
    destruct (is_finite x) eqn:Fx, (is_finite y) eqn:Fy.
    - rewrite Bleb_correct by assumption.
      destruct x, y; try discriminate; reflexivity.
    - pose proof (key_fin x Fx) as Kx.
      assert (Ex: Bleb x y = match y with B754_infinity false => true | _ => false end).
      { destruct y as [|[]| |]; try discriminate; destruct x as [| | |]; try discriminate; try destruct s; reflexivity. }
      rewrite Ex. destruct y as [|[]| |]; try discriminate; cbn [fkey]; symmetry;
        (apply Rle_bool_true; lra) || (apply Rle_bool_false; lra).
    - pose proof (key_fin y Fy) as Ky.
      assert (Ex: Bleb x y = match x with B754_infinity true => true | _ => false end).
      { destruct x as [|[]| |]; try discriminate; destruct y as [| | |]; try discriminate; try destruct s; reflexivity. }
      rewrite Ex. destruct x as [|[]| |]; try discriminate; cbn [fkey]; symmetry;
        (apply Rle_bool_true; lra) || (apply Rle_bool_false; lra).
    - destruct x as [|[]| |], y as [|[]| |]; try discriminate; cbn; symmetry;
        (apply Rle_bool_true; lra) || (apply Rle_bool_false; lra).
  Qed.
  Lemma flt_key (x y : F) : is_nan x = false -> is_nan y = false -> Bltb x y = Rlt_bool (fkey x) (fkey y).
  Proof.
    intros Hx Hy. pose proof big_pos as Hb.
    destruct (is_finite x) eqn:Fx, (is_finite y) eqn:Fy.
    - rewrite Bltb_correct by assumption.
      destruct x, y; try discriminate; reflexivity.
    - pose proof (key_fin x Fx) as Kx.
      assert (Ex: Bltb x y = match y with B754_infinity false => true | _ => false end).
      { destruct y as [|[]| |]; try discriminate; destruct x as [| | |]; try discriminate; try destruct s; reflexivity. }
      rewrite Ex. destruct y as [|[]| |]; try discriminate; cbn [fkey]; symmetry;
        (apply Rlt_bool_true; lra) || (apply Rlt_bool_false; lra).
    - pose proof (key_fin y Fy) as Ky.
      assert (Ex: Bltb x y = match x with B754_infinity true => true | _ => false end).
      { destruct x as [|[]| |]; try discriminate; destruct y as [| | |]; try discriminate; try destruct s; reflexivity. }
      rewrite Ex. destruct x as [|[]| |]; try discriminate; cbn [fkey]; symmetry;
        (apply Rlt_bool_true; lra) || (apply Rlt_bool_false; lra).
    - destruct x as [|[]| |], y as [|[]| |]; try discriminate; cbn; symmetry;
        (apply Rlt_bool_true; lra) || (apply Rlt_bool_false; lra).
  Qed.
End F64Laws.

#[export] Program Instance LawsF64 : OrdLaws ArithF64 := {| key := fkey |}.
Next Obligation. apply fle_key; auto. Qed.
Next Obligation. apply flt_key; auto. Qed.
Next Obligation. destruct x; try discriminate; destruct y; reflexivity. Qed.
Next Obligation. destruct y; try discriminate; destruct x; reflexivity. Qed.
Next Obligation. destruct x; try discriminate; destruct y; reflexivity. Qed.
Next Obligation. destruct y; try discriminate; destruct x; reflexivity. Qed.

(* ---- instance: exact real arithmetic --------------------------------------------------------- *)
Definition Rfeq (a b : R) : bool := if Req_EM_T a b then true else false.
#[export] Instance ArithR : Arith := {|
  T := R; add := Rplus; sub := Rminus; mul := Rmult; div := Rdiv;
  fsqrt := sqrt; fabs := Rabs; fneg := Ropp;
  le := Rle_bool; lt := Rlt_bool; feq := Rfeq;
  isnan := fun _ => false;
  ofZ := IZR; ofdy := fun m e => (IZR m * bpow radix2 e)%R;
  finf := bpow radix2 1024; dflt := 0%R |}.
#[export] Program Instance LawsR : OrdLaws ArithR := {| key := fun x : @T ArithR => (x : R) |}.
