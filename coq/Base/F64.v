(* DV.Base.F64 -- IEEE-754 binary64 as defined by Flocq (BinarySingleNaN), fully executable by vm_compute.
   This is the instance the correspondence check runs; results are bit-identical with CPython/NumPy. *)
From Coq Require Import ZArith List Bool Lia.
From Flocq Require Import Core BinarySingleNaN Bits.
Require Import DV.Base.Prelude.
Import ListNotations.
Open Scope Z_scope.

Global Instance Hprec53 : FLX.Prec_gt_0 53. Proof. unfold FLX.Prec_gt_0; lia. Qed.
Global Instance Hmax1024 : Prec_lt_emax 53 1024. Proof. unfold Prec_lt_emax; lia. Qed.

Definition F := binary_float 53 1024.
Definition f_ofZ (z : Z) : F := binary_normalize 53 1024 Hprec53 Hmax1024 mode_NE z 0 false.
Definition f_ofdy (m e : Z) : F := binary_normalize 53 1024 Hprec53 Hmax1024 mode_NE m e false.

#[export] Instance ArithF64 : Arith := {|
  T := F;
  add := Bplus mode_NE; sub := Bminus mode_NE; mul := Bmult mode_NE; div := Bdiv mode_NE;
  fsqrt := Bsqrt mode_NE; fabs := Babs; fneg := Bopp;
  le := Bleb; lt := Bltb; feq := Beqb;
  isnan := is_nan;
  ofZ := f_ofZ; ofdy := f_ofdy;
  finf := B754_infinity false;
  dflt := B754_nan |}.

(* IEEE bit patterns in and out (NaN payloads are not modelled: every NaN prints as the quiet NaN) *)
Definition of_bits (z : Z) : F := Binary.B2BSN 53 1024 (b64_of_bits z).
Definition to_bits (x : F) : Z :=
  match x with
  | B754_nan => 0x7ff8000000000000
  | B754_zero s => if s then 0x8000000000000000 else 0
  | B754_infinity s => if s then 0xfff0000000000000 else 0x7ff0000000000000
  | B754_finite s m e H => bits_of_b64 (Binary.B754_finite 53 1024 s m e H)
  end.
Definition vbits (x : list F) : list Z := map to_bits x.
Definition vof (x : list Z) : list F := map of_bits x.
Definition mbits (x : list (list F)) : list (list Z) := map vbits x.
Definition mof (x : list (list Z)) : list (list F) := map vof x.
