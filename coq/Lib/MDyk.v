(* DV.Lib.MDyk -- Dykstra's alternating projections as written in util.py (reference model s_dykstra_run):
   (1) [R] the stopping quantity bounds the distance of the result to every set: one sweep over p projectors,
       started with cI = 0, ends with an x such that every intermediate iterate x^i (which IS an output of
       projector i) satisfies |x - x^i|^2 <= p * cI -- for arbitrary length-preserving functions P_i, any p, any
       dimension;  (2) after at least one sweep the result is an output of the LAST projector (any arithmetic), so a
       box projected last holds exactly;  (3) a common fixed point is returned unchanged after one sweep [R];
       (4) at most max_iter sweeps. *)
From Coq Require Import ZArith List Bool Lia Reals Lra.
From Flocq Require Import Raux.
Require Import DV.Base.Prelude DV.Base.F64 DV.Base.OrdLaws DV.Spec.Schema DV.Lib.MSpec.
Import ListNotations.
Open Scope Z_scope.

(* ---- generic loop principles ---- *)
Lemma for_loop_ind {C} (I : Z -> C -> Prop) (body : Z -> C -> res (C * bool)) :
  forall n s c c', I s c ->
  (forall i c0 c1 b, s <= i < s + Z.of_nat n -> I i c0 -> body i c0 = Ok (c1, b) -> b = false /\ I (i + 1) c1) ->
  for_loop (rangeN s n) body c = Ok c' -> I (s + Z.of_nat n) c'.
Proof.
  induction n as [|n IH]; intros s c c' Hc Hb Hr; cbn [for_loop rangeN] in Hr.
  - injection Hr as <-. replace (s + Z.of_nat 0) with s by lia. exact Hc.
  - destruct (body s c) as [[c1 b]|] eqn:E; [|discriminate].
    destruct (Hb s c c1 b ltac:(lia) Hc E) as [-> H1].
    replace (s + Z.of_nat (S n)) with (s + 1 + Z.of_nat n) by lia.
    eapply IH; [exact H1| |exact Hr]. intros i c0 c2 b Hi. apply Hb. lia.
Qed.
Lemma while_loop_ind {C} (I : C -> Prop) (cond : C -> bool) (body : C -> res (C * bool)) :
  forall fuel c c' oof, I c -> (forall c0 c1 b, I c0 -> cond c0 = true -> body c0 = Ok (c1, b) -> b = false /\ I c1) ->
  while_loop fuel cond body c = Ok (c', oof) -> I c' /\ (oof = false -> cond c' = false).
Proof.
  induction fuel as [|f IH]; intros c c' oof Hc Hb Hr; cbn [while_loop] in Hr.
  - destruct (cond c) eqn:Ec; injection Hr as <- <-; split; auto; discriminate.
  - destruct (cond c) eqn:Ec.
    + destruct (body c) as [[c1 b]|] eqn:E; [|discriminate]. destruct (Hb c c1 b Hc Ec E) as [-> H1].
      eapply IH; eauto.
    + injection Hr as <- <-. split; auto.
Qed.

(* ---- the sweep body, for any arithmetic ---- *)
Section Any.
Context `{A : Arith}.
Definition dk_body (P : list (vec -> vec)) (l_i : Z) (c : T * vec * mat) : res ((T * vec * mat) * bool) :=
  let '(l_cI, l_x, l_y) := c in
  let l_prev_x := l_x in
  let l_x := ((getD (fun v_ => v_) P l_i) (vmap2 sub l_prev_x (getrow l_y l_i))) in
  let l_prev_y := (getrow l_y l_i) in
  let l_y := (updZ l_y l_i (vmap2 sub l_x (vmap2 sub l_prev_x l_prev_y))) in
  let l_cI := (add l_cI (mul (vnorm (vmap2 sub l_prev_y (getrow l_y l_i))) (vnorm (vmap2 sub l_prev_y (getrow l_y l_i))))) in
  Ok ((l_cI, l_x, l_y), false).
Definition dk_sweep (P : list (vec -> vec)) (c : T * vec * mat) : res (T * vec * mat) := for_loop (rangeZ 0 (lenZ P)) (dk_body P) c.
Definition dk_cond (max_iter : Z) (tol : T) (c : T * Z * vec * mat) : bool := let '(l_cI, l_n, l_x, l_y) := c in (Z.ltb l_n max_iter) && (le tol l_cI).
Definition dk_outer (P : list (vec -> vec)) (c : T * Z * vec * mat) : res ((T * Z * vec * mat) * bool) :=
  let '(l_cI, l_n, l_x, l_y) := c in
  let l_cI := (ofZ 0) in
  bind (dk_sweep P (l_cI, l_x, l_y)) (fun '(l_cI, l_x, l_y) => let l_n := (Z.add l_n 1) in Ok ((l_cI, l_n, l_x, l_y), false)).
Lemma dykstra_run_unfold P x0 max_iter tol :
  s_dykstra_run P x0 max_iter tol =
  bind (while_loop (Z.to_nat max_iter) (dk_cond max_iter tol) (dk_outer P) (finf, 0, x0, repeatZ (vzeros (lenZ x0)) (lenZ P)))
       (fun '(c_, oof_) => if (oof_ : bool) then Err OtherError else let '(l_cI, l_n, l_x, l_y) := c_ in Ok ((l_x, l_y, l_cI, l_n))).
Proof. reflexivity. Qed.

(* (2),(4): sweep counter and "last projector" for any arithmetic *)
Definition last_proj (P : list (vec -> vec)) : vec -> vec := getD (fun v_ => v_) P (lenZ P - 1).
Lemma sweep_last P c c' : P <> [] -> dk_sweep P c = Ok c' -> exists z, snd (fst c') = last_proj P z.
Proof.
  intros Hne Hr. unfold dk_sweep, rangeZ in Hr. replace (Z.to_nat (lenZ P - 0)) with (length P) in Hr by (unfold lenZ; rewrite Z.sub_0_r, Nat2Z.id; reflexivity).
  destruct (length P) as [|n] eqn:El; [destruct P; [congruence|discriminate]|].
  assert (Hsplit: forall n s, rangeN s (S n) = rangeN s n ++ [s + Z.of_nat n]).
  { clear. induction n as [|n IH]; intros s; [cbn [rangeN app Z.of_nat]; rewrite Z.add_0_r; reflexivity|].
    change (rangeN s (S (S n))) with (s :: rangeN (s + 1) (S n)). rewrite IH. cbn [rangeN app].
    replace (s + 1 + Z.of_nat n) with (s + Z.of_nat (S n)) by lia. reflexivity. }
  rewrite Hsplit in Hr. clear Hsplit.
  assert (Happ: forall l1 l2 (b : Z -> _ -> res ((T * vec * mat) * bool)) c c', (forall i c0 c1 f, b i c0 = Ok (c1, f) -> f = false) ->
            for_loop (l1 ++ l2) b c = Ok c' -> exists cm, for_loop l1 b c = Ok cm /\ for_loop l2 b cm = Ok c').
  { clear. induction l1 as [|i l1 IH]; intros l2 b c c' Hf Hr; cbn [app for_loop] in *; [eexists; split; eauto|].
    destruct (b i c) as [[c1 f]|] eqn:E; [|discriminate]. rewrite (Hf _ _ _ _ E) in *. eapply IH; eauto. }
  assert (Hnb: forall i c0 c1 f, dk_body P i c0 = Ok (c1, f) -> f = false).
  { intros i [[a b] d] c1 f H. cbv beta iota zeta delta [dk_body] in H. injection H as _ <-. reflexivity. }
  destruct (Happ _ _ (dk_body P) _ _ Hnb Hr) as (cm & _ & Hlast).
  cbn [for_loop] in Hlast. destruct cm as [[cI x] y]. cbv beta iota zeta delta [dk_body] in Hlast. injection Hlast as <-. cbn [fst snd].
  eexists. unfold last_proj. replace (lenZ P - 1) with (0 + Z.of_nat n) by (unfold lenZ; lia). reflexivity.
Qed.

(* (2),(4) for the whole routine, any arithmetic: the number of sweeps is between 0 and max_iter, and after at least one
   sweep the result is an output of the last projector *)
Theorem dykstra_run_last P x0 max_iter tol x y cI n : P <> [] ->
  s_dykstra_run P x0 max_iter tol = Ok (x, y, cI, n) ->
  0 <= n /\ (n <= max_iter \/ n = 0) /\ (1 <= n -> exists z, x = last_proj P z) /\ (n = 0 -> x = x0) /\
  (n < max_iter -> le tol cI = false).
Proof.
  intros Hne Hr. rewrite dykstra_run_unfold in Hr. unfold bind in Hr.
  destruct (while_loop _ _ _ _) as [[c oof]|] eqn:Ew; [|discriminate].
  destruct oof; [discriminate|]. destruct c as [[[cI' n'] x'] y']. injection Hr as <- <- <- <-.
  pose (I := fun c : T * Z * vec * mat => let '(cI, n, x, y) := c in
               0 <= n /\ (n <= max_iter \/ n = 0) /\ (1 <= n -> exists z, x = last_proj P z) /\ (n = 0 -> x = x0)).
  assert (HI0: I (finf, 0, x0, repeatZ (vzeros (lenZ x0)) (lenZ P))).
  { unfold I. split; [lia|]. split; [right; reflexivity|]. split; [intros; lia|reflexivity]. }
  assert (Hstep: forall c0 c1 b, I c0 -> dk_cond max_iter tol c0 = true -> dk_outer P c0 = Ok (c1, b) -> b = false /\ I c1).
  { intros c0 c1 b HIc Hcond Hbody. destruct c0 as [[[cI0 n0] x0'] y0]. unfold I in HIc. unfold dk_cond in Hcond.
    apply andb_true_iff in Hcond as [Hn _]. apply Z.ltb_lt in Hn. unfold dk_outer, bind in Hbody.
    destruct (dk_sweep P (ofZ 0, x0', y0)) as [[[cI1 x1] y1]|] eqn:Es; [|discriminate]. injection Hbody as <- <-. split; auto.
    destruct HIc as (H1 & H2 & H3 & H4). unfold I. repeat split; try lia.
    intros _. destruct (sweep_last P _ _ Hne Es) as [z Hz]. exists z. exact Hz. }
  destruct (while_loop_ind I _ _ _ _ _ _ HI0 Hstep Ew) as [HI Hc].
  unfold I in HI. destruct HI as (H1 & H2 & H3 & H4). repeat split; auto. intros Hlt. specialize (Hc eq_refl).
  unfold dk_cond in Hc. apply andb_false_iff in Hc as [Hc|Hc]; auto. apply Z.ltb_ge in Hc. lia.
Qed.
End Any.

(* ---- exact real arithmetic ---- *)
Ltac rl := change (@T ArithR) with R in *; unfold vec, mat in *; change (@T ArithR) with R in *; lia.
Section Real.
Local Open Scope R_scope.
Notation rv := (list R).
Fixpoint ssq (l : rv) : R := match l with [] => 0 | a :: l' => a * a + ssq l' end.
Lemma ssq_nonneg l : 0 <= ssq l.
Proof. induction l as [|a l IH]; [cbn; lra|]. change (ssq (a :: l)) with (a * a + ssq l). pose proof (Rle_0_sqr a) as H. unfold Rsqr in H. lra. Qed.
Lemma fold_dot (l : list (R * R)) a : fold_left (fun acc p => acc + fst p * snd p) l a = a + fold_right (fun p s => fst p * snd p + s) 0 l.
Proof. revert a; induction l as [|p l IH]; intros a; cbn; [lra|]. rewrite IH. lra. Qed.
Lemma sumsq_ssq (x : rv) : @sumsq ArithR x = ssq x.
Proof.
  unfold sumsq, dot. change (@zero ArithR) with 0. change (@add ArithR) with Rplus. change (@mul ArithR) with Rmult.
  rewrite fold_dot. rewrite Rplus_0_l.
  induction x as [|a x IH]; [reflexivity|]. change (ssq (a :: x)) with (a * a + ssq x). rewrite <- IH. reflexivity.
Qed.
Lemma vnorm_sq (x : rv) : @vnorm ArithR x * @vnorm ArithR x = ssq x.
Proof. unfold vnorm. cbn [fsqrt ArithR]. rewrite sumsq_ssq. apply sqrt_sqrt. apply ssq_nonneg. Qed.
Definition vsub (x y : rv) : rv := @vmap2 ArithR Rminus x y.
Lemma vsub_len x y : length x = length y -> length (vsub x y) = length x.
Proof. revert y; induction x as [|a x IH]; intros [|b y] H; try discriminate; cbn; auto. Qed.

(* the algebraic heart: y_i - y_i' = x^{i-1} - x^i, so cI accumulates the squared steps *)
Lemma step_identity (xn px py : rv) : length xn = length px -> length py = length px ->
  vsub py (vsub xn (vsub px py)) = vsub px xn.
Proof.
  revert px py. induction xn as [|a xn IH]; intros [|b px] [|c py] H1 H2; try discriminate; cbn; auto.
  f_equal; [ring|]. apply IH; cbn in *; lia.
Qed.
(* k * |a + b|^2 <= (k+1) |a|^2 + k (k+1) |b|^2  (from (a - k b)^2 >= 0, componentwise) *)
Lemma ssq_add_bound (k : R) (a b : rv) : 0 <= k -> length a = length b ->
  k * ssq (@vmap2 ArithR Rplus a b) <= (k + 1) * ssq a + k * (k + 1) * ssq b.
Proof.
  intros Hk. revert b. induction a as [|u a IH]; intros [|v b] Hl; try discriminate; cbn [vmap2 ssq]; [nra|].
  specialize (IH b ltac:(cbn in Hl; lia)). pose proof (Rle_0_sqr (u - k * v)) as Hs. unfold Rsqr in Hs.
  assert (k * ((u + v) * (u + v)) <= (k + 1) * (u * u) + k * (k + 1) * (v * v)).
  { assert (H0: (k + 1) * (u * u) + k * (k + 1) * (v * v) - k * ((u + v) * (u + v)) = (u - k * v) * (u - k * v)) by ring. lra. }
  lra.
Qed.
Lemma vsub_chain (x1 x0 z : rv) : length x1 = length x0 -> length z = length x0 ->
  vsub x1 z = @vmap2 ArithR Rplus (vsub x0 z) (vsub x1 x0).
Proof.
  revert x0 z. induction x1 as [|a x1 IH]; intros [|b x0] [|c z] H1 H2; try discriminate; cbn; auto.
  f_equal; [ring|]. apply IH; cbn in *; lia.
Qed.
Lemma ssq_neg (x y : rv) : length x = length y -> ssq (vsub x y) = ssq (vsub y x).
Proof.
  revert y; induction x as [|a x IH]; intros [|b y] H; try discriminate; [reflexivity|]. unfold vsub in *. cbn [vmap2 ssq].
  rewrite IH by (cbn in H; lia). ring.
Qed.

Definition Pok (n : nat) (P : list (rv -> rv)) : Prop := Forall (fun p => forall v, length v = n -> length (p v) = n) P.
Lemma Pok_get n P i : Pok n P -> forall v, length v = n -> length (getD (fun v_ => v_) P i v) = n.
Proof.
  intros HP v Hv. unfold getD. destruct (nth_in_or_default (Z.to_nat i) P (fun v_ => v_)) as [Hin|Hd].
  - unfold Pok in HP. rewrite Forall_forall in HP. apply HP; auto.
  - rewrite Hd. exact Hv.
Qed.

(* state of the sweep seen from a fixed projector index i0: after step j > i0,  |x - z|^2 <= (j - 1 - i0) * (cI - cI0) where
   z = x^{i0} is the iterate produced by P_{i0} and cI0 the value of cI at that moment *)
Definition SweepInv (n : nat) (P : list (rv -> rv)) (i0 : Z) (j : Z) (c : R * rv * list rv) : Prop :=
  let '(cI, x, y) := c in
  length x = n /\ length y = length P /\ Forall (fun r => length r = n) y /\ 0 <= cI /\
  ((i0 < j)%Z -> exists z cI0 w, z = getD (fun v_ => v_) P i0 w /\ length z = n /\ 0 <= cI0 <= cI /\ ssq (vsub x z) <= IZR (j - 1 - i0) * (cI - cI0)).

Lemma getrow_len n (y : list rv) i : Forall (fun r => length r = n) y -> (0 <= i < lenZ y)%Z -> length (@getrow ArithR y i) = n.
Proof.
  intros Hy Hi. unfold getrow, getD. rewrite Forall_forall in Hy. apply Hy. apply nth_In. unfold lenZ in Hi.
  apply Nat2Z.inj_lt. rewrite Z2Nat.id by lia. exact (proj2 Hi).
Qed.
Lemma Forall_updZ {X} (Q : X -> Prop) (l : list X) k v : Forall Q l -> Q v -> Forall Q (updZ l k v).
Proof.
  intros Hl Hv. unfold updZ. destruct (k <? 0)%Z; auto. generalize (Z.to_nat k). induction Hl; intros [|m]; cbn; auto.
Qed.

(* the sweep body written with real-number operations (convertible with the generic one at ArithR) *)
Definition growR (y : list rv) (i : Z) : rv := @getrow ArithR y i.
Definition dk_bodyR (P : list (rv -> rv)) (i : Z) (c : R * rv * list rv) : res ((R * rv * list rv) * bool) :=
  let '(cI, x, y) := c in
  let xn := getD (fun v_ : rv => v_) P i (vsub x (growR y i)) in
  let y' := updZ y i (vsub xn (vsub x (growR y i))) in
  let d := vsub (growR y i) (growR y' i) in
  Ok ((cI + sqrt (@sumsq ArithR d) * sqrt (@sumsq ArithR d), xn, y'), false).
Lemma dk_body_R P i c : @dk_body ArithR P i c = dk_bodyR P i c.
Proof. destruct c as [[cI x] y]. reflexivity. Qed.

Lemma body_step n P i0 i c c1 b : Pok n P -> (0 <= i0)%Z -> (0 <= i < lenZ P)%Z ->
  SweepInv n P i0 i c -> @dk_body ArithR P i c = Ok (c1, b) -> b = false /\ SweepInv n P i0 (i + 1) c1.
Proof.
  intros HP Hi0 Hi HI Hb. rewrite dk_body_R in Hb. destruct c as [[cI x] y]. unfold dk_bodyR in Hb.
  unfold SweepInv in HI. destruct HI as (Hx & Hy & Hrows & HcI & Hz).
  assert (Hiy: (0 <= i < lenZ y)%Z) by (unfold lenZ in *; lia).
  pose proof (getrow_len n y i Hrows Hiy) as Hyi. fold (growR y i) in Hyi.
  set (py := growR y i) in *.
  set (xn := getD (fun v_ : rv => v_) P i (vsub x py)) in *.
  assert (Hxn: length xn = n). { unfold xn. apply Pok_get; auto. rewrite vsub_len; rl. }
  assert (Hrow: growR (updZ y i (vsub xn (vsub x py))) i = vsub xn (vsub x py)).
  { unfold growR, getrow. rewrite getD_updZ_same by exact Hiy. reflexivity. }
  cbv zeta in Hb. rewrite Hrow in Hb. rewrite step_identity in Hb by rl.
  fold (@vnorm ArithR (vsub x xn)) in Hb.
  change (sqrt (@sumsq ArithR (vsub x xn))) with (@vnorm ArithR (vsub x xn)) in Hb. rewrite vnorm_sq in Hb.
  injection Hb as <- <-. split; auto.
  pose proof (ssq_nonneg (vsub x xn)) as Hd.
  unfold SweepInv. split; [exact Hxn|]. split; [rewrite updZ_length; exact Hy|]. split.
  { apply Forall_updZ; auto. rewrite !vsub_len; try lia. rewrite vsub_len; rl. }
  split; [lra|].
  intros Hlt. destruct (Z.eq_dec i i0) as [->|Hne].
  - exists xn, (cI + ssq (vsub x xn)), (vsub x py). repeat split; auto; try lra.
    replace (i0 + 1 - 1 - i0)%Z with 0%Z by lia. rewrite Rmult_0_l.
    assert (E: ssq (vsub xn xn) = 0). { clear. induction xn as [|a xn IH]; [reflexivity|]. unfold vsub in *. cbn [vmap2 ssq]. rewrite IH. ring. } rewrite E. lra.
  - destruct (Hz ltac:(lia)) as (z & cI0 & w & Ez & Hlz & HcI0 & Hbound).
    exists z, cI0, w. repeat split; auto; try lra.
    rewrite (vsub_chain xn x z) by rl.
    set (k := IZR (i - 1 - i0)) in *. assert (Hk: 0 <= k) by (unfold k; apply IZR_le; lia).
    replace (IZR (i + 1 - 1 - i0)) with (k + 1) by (unfold k; rewrite <- plus_IZR; f_equal; lia).
    pose proof (ssq_add_bound k (vsub x z) (vsub xn x) Hk ltac:(rewrite !vsub_len; rl)) as Hab.
    rewrite (ssq_neg xn x) in Hab by rl.
    set (D := ssq (@vmap2 ArithR Rplus (vsub x z) (vsub xn x))) in *. set (S := ssq (vsub x z)) in *. set (d := ssq (vsub x xn)) in *.
    pose proof (ssq_nonneg (@vmap2 ArithR Rplus (vsub x z) (vsub xn x))) as HD. fold D in HD.
    destruct (Rle_lt_or_eq_dec 0 k Hk) as [Hkpos|Hk0].
    + assert (k * D <= k * ((k + 1) * (cI + d - cI0))).
      { assert ((k + 1) * S <= (k + 1) * (k * (cI - cI0))) by (apply Rmult_le_compat_l; lra). nra. }
      apply (Rmult_le_reg_l k); auto.
    + rewrite <- Hk0 in *. assert (HS0: S = 0) by (unfold S in *; pose proof (ssq_nonneg (vsub x z)); lra).
      assert (Hz0: forall (a b : rv), length a = length b -> ssq a = 0 -> ssq (@vmap2 ArithR Rplus a b) = ssq b).
      { clear. induction a as [|u a IH]; intros [|v b] Hl Hs; try discriminate; [reflexivity|]. cbn [vmap2 ssq] in *.
        pose proof (ssq_nonneg a). pose proof (Rle_0_sqr u) as Hu. unfold Rsqr in Hu.
        assert (u * u = 0) by lra. assert (u = 0) by (apply Rsqr_0_uniq; unfold Rsqr; auto). subst u.
        rewrite IH by (try (cbn in Hl; lia); lra). ring. }
      unfold D. rewrite Hz0; [|rewrite !vsub_len; rl|exact HS0]. rewrite (ssq_neg xn x) by rl. fold d. lra.
Qed.

(* (1) one full sweep started with cI = 0 *)
Theorem sweep_bound n P (x0 : rv) (y0 : list rv) cI x y : Pok n P -> length x0 = n -> length y0 = length P -> Forall (fun r => length r = n) y0 ->
  @dk_sweep ArithR P (0, x0, y0) = Ok (cI, x, y) ->
  0 <= cI /\ length x = n /\ length y = length P /\ Forall (fun r => length r = n) y /\
  forall i0, (0 <= i0 < lenZ P)%Z -> exists z w, z = getD (fun v_ => v_) P i0 w /\ ssq (vsub x z) <= IZR (lenZ P) * cI.
Proof.
  intros HP Hx Hy Hrows Hr. unfold dk_sweep, rangeZ in Hr.
  assert (Hall: forall i0, (0 <= i0)%Z -> SweepInv n P i0 (0 + Z.of_nat (Z.to_nat (lenZ P - 0))) (cI, x, y)).
  { intros i0 Hi0. eapply (for_loop_ind (SweepInv n P i0)); [| |exact Hr].
    - unfold SweepInv. repeat split; auto; try lra. intros; lia.
    - intros i c0 c1 b Hi HI Hb. eapply body_step; eauto. unfold lenZ in *. lia. }
  replace (0 + Z.of_nat (Z.to_nat (lenZ P - 0)))%Z with (lenZ P) in Hall by (unfold lenZ; lia).
  destruct (Hall 0%Z ltac:(lia)) as (H1 & H2 & H3 & H4 & _). repeat split; auto.
  intros i0 Hi0. destruct (Hall i0 ltac:(lia)) as (_ & _ & _ & _ & Hz). destruct (Hz ltac:(lia)) as (z & cI0 & w & Ez & Hlz & HcI0 & Hb).
  exists z, w. split; auto. eapply Rle_trans; [exact Hb|].
  assert (IZR (lenZ P - 1 - i0) <= IZR (lenZ P)) by (apply IZR_le; lia).
  assert (0 <= IZR (lenZ P - 1 - i0)) by (apply IZR_le; lia).
  assert (0 <= IZR (lenZ P)) by (apply IZR_le; unfold lenZ; lia). nra.
Qed.

(* (1) for the whole routine: whenever at least one sweep was made, every projector has an output z with
   |x - z|^2 <= p * cI for the final x and the final stopping quantity cI; if the loop ended before max_iter sweeps
   then cI < tol (it stopped by its rule), hence |x - z|^2 < p * tol *)
Theorem dykstra_run_bound n P (x0 : rv) max_iter (tol : R) x y cI k : Pok n P -> length x0 = n ->
  @s_dykstra_run ArithR P x0 max_iter tol = Ok (x, y, cI, k) ->
  (1 <= k)%Z -> 0 <= cI /\ length x = n /\
  (forall i0, (0 <= i0 < lenZ P)%Z -> exists z w, z = getD (fun v_ => v_) P i0 w /\ ssq (vsub x z) <= IZR (lenZ P) * cI) /\
  ((k < max_iter)%Z -> cI < tol).
Proof.
  intros HP Hx Hr Hk. rewrite (@dykstra_run_unfold ArithR) in Hr. unfold bind in Hr.
  destruct (while_loop _ _ _ _) as [[c oof]|] eqn:Ew; [|discriminate].
  destruct oof; [discriminate|]. destruct c as [[[cI' n'] x'] y']. injection Hr as <- <- <- <-.
  pose (I := fun c : R * Z * rv * list rv => let '(cI, k, x, y) := c in
               length x = n /\ length y = length P /\ Forall (fun r => length r = n) y /\
               ((1 <= k)%Z -> 0 <= cI /\ forall i0, (0 <= i0 < lenZ P)%Z -> exists z w, z = getD (fun v_ => v_) P i0 w /\ ssq (vsub x z) <= IZR (lenZ P) * cI)).
  assert (HI0: I (@finf ArithR, 0%Z, x0, @repeatZ rv (@vzeros ArithR (lenZ x0)) (lenZ P))).
  { unfold I. repeat split; auto; try lia.
    - unfold repeatZ. rewrite repeat_length. unfold lenZ. lia.
    - unfold repeatZ. apply Forall_forall. intros r Hr. apply repeat_spec in Hr. subst r. unfold vzeros, repeatZ. rewrite repeat_length. unfold lenZ. lia. }
  assert (Hstep: forall c0 c1 b, I c0 -> @dk_cond ArithR max_iter tol c0 = true -> @dk_outer ArithR P c0 = Ok (c1, b) -> b = false /\ I c1).
  { intros c0 c1 b HIc Hcond Hbody. destruct c0 as [[[cI0 n0] x0'] y0]. unfold I in HIc. destruct HIc as (H1 & H2 & H3 & H4).
    unfold dk_outer, bind in Hbody.
    match type of Hbody with context[match ?t with Ok _ => _ | Err _ => _ end] => destruct t as [[[cI1 x1] y1]|] eqn:Es end; [|discriminate]. injection Hbody as <- <-. split; auto.
    change (@ofZ ArithR 0) with 0 in Es.
    destruct (sweep_bound n P x0' y0 cI1 x1 y1 HP H1 H2 H3 Es) as (G1 & G2 & G3 & G4 & G5).
    unfold I. repeat split; auto. }
  destruct (while_loop_ind I _ _ _ _ _ _ HI0 Hstep Ew) as [HI Hc].
  unfold I in HI. destruct HI as (H1 & H2 & H3 & H4). destruct (H4 Hk) as [H5 H6]. repeat split; auto.
  intros Hlt. specialize (Hc eq_refl). unfold dk_cond in Hc. apply andb_false_iff in Hc as [Hc|Hc]; [apply Z.ltb_ge in Hc; lia|].
  cbn [le ArithR] in Hc. revert Hc. case Rle_bool_spec; intros; [discriminate|lra].
Qed.

(* (3) a point fixed by every projector is returned unchanged after one sweep *)
Lemma vsub_zero (x : rv) n : length x = n -> vsub x (@vzeros ArithR (Z.of_nat n)) = x.
Proof.
  intros <-. unfold vzeros, repeatZ. rewrite Nat2Z.id. induction x as [|a x IH]; [reflexivity|]. cbn [length repeat]. unfold vsub in *. cbn [vmap2]. rewrite IH.
  f_equal. change (@zero ArithR) with 0. ring.
Qed.

Definition zrows (n : nat) (y : list rv) : Prop := Forall (fun r => r = @vzeros ArithR (Z.of_nat n)) y.
Lemma vsub_self (x : rv) : vsub x x = @vzeros ArithR (Z.of_nat (length x)).
Proof.
  unfold vzeros, repeatZ. rewrite Nat2Z.id. induction x as [|a x IH]; [reflexivity|]. unfold vsub in *. cbn [vmap2 length repeat]. rewrite IH.
  f_equal. change (@zero ArithR) with 0. ring.
Qed.
Lemma vsub_self_n (x : rv) n : length x = n -> vsub x x = @vzeros ArithR (Z.of_nat n).
Proof. intros <-. apply vsub_self. Qed.
Lemma ssq_zeros n : ssq (@vzeros ArithR (Z.of_nat n)) = 0.
Proof. unfold vzeros, repeatZ. rewrite Nat2Z.id. induction n as [|n IH]; [reflexivity|]. cbn [repeat ssq]. rewrite IH. change (@zero ArithR) with 0. ring. Qed.
Theorem sweep_fixed_point n P (x0 : rv) (y0 : list rv) cI x y : length x0 = n -> length y0 = length P -> zrows n y0 ->
  (forall i, (0 <= i < lenZ P)%Z -> getD (fun v_ => v_) P i x0 = x0) ->
  @dk_sweep ArithR P (0, x0, y0) = Ok (cI, x, y) -> cI = 0 /\ x = x0 /\ zrows n y /\ length y = length P.
Proof.
  intros Hx Hy Hz Hfix Hr. unfold dk_sweep, rangeZ in Hr.
  pose (I := fun (_ : Z) (c : R * rv * list rv) => let '(cI, x, y) := c in cI = 0 /\ x = x0 /\ zrows n y /\ length y = length P).
  assert (HI: I (0 + Z.of_nat (Z.to_nat (lenZ P - 0)))%Z (cI, x, y)).
  { eapply (for_loop_ind I); [| |exact Hr]; [unfold I; auto|].
    intros i c0 c1 b Hi HIc Hb. rewrite dk_body_R in Hb. destruct c0 as [[cI0 x0'] y0']. unfold I in HIc. destruct HIc as (-> & -> & Hz0 & Hl0).
    unfold dk_bodyR in Hb. cbv zeta in Hb.
    assert (Hiy: (0 <= i < lenZ y0')%Z) by (unfold lenZ in *; lia).
    assert (Hrow: growR y0' i = @vzeros ArithR (Z.of_nat n)).
    { unfold growR, getrow, getD. unfold zrows in Hz0. rewrite Forall_forall in Hz0. apply Hz0. apply nth_In. unfold lenZ in Hiy.
      apply Nat2Z.inj_lt. rewrite Z2Nat.id by lia. exact (proj2 Hiy). }
    rewrite Hrow in Hb. rewrite (vsub_zero x0 n Hx) in Hb. rewrite Hfix in Hb by (unfold lenZ in *; lia).
    rewrite (vsub_self_n x0 n Hx) in Hb.
    assert (Hrow2: growR (updZ y0' i (@vzeros ArithR (Z.of_nat n))) i = @vzeros ArithR (Z.of_nat n)).
    { unfold growR, getrow. rewrite getD_updZ_same by exact Hiy. reflexivity. }
    assert (Hlz: length (@vzeros ArithR (Z.of_nat n)) = n) by (unfold vzeros, repeatZ; rewrite repeat_length; lia).
    rewrite Hrow2 in Hb. rewrite (vsub_self_n _ n Hlz) in Hb.
    change (sqrt (@sumsq ArithR (@vzeros ArithR (Z.of_nat n)))) with (@vnorm ArithR (@vzeros ArithR (Z.of_nat n))) in Hb.
    rewrite vnorm_sq, ssq_zeros in Hb. injection Hb as <- <-. split; auto. unfold I. repeat split; auto; try lra.
    - apply Forall_updZ; auto.
    - rewrite updZ_length. exact Hl0. }
  exact HI.
Qed.

Lemma zrows_init n p : zrows n (@repeatZ rv (@vzeros ArithR (Z.of_nat n)) p).
Proof. unfold zrows, repeatZ. apply Forall_forall. intros r Hr. apply repeat_spec in Hr. exact Hr. Qed.
(* (3) for the whole routine: a point already in all sets is returned unchanged, after exactly one sweep *)
Theorem dykstra_run_fixed_point P (x0 : rv) max_iter (tol : R) : (1 <= max_iter)%Z -> 0 < tol <= @finf ArithR ->
  (forall i, (0 <= i < lenZ P)%Z -> getD (fun v_ => v_) P i x0 = x0) ->
  exists y, @s_dykstra_run ArithR P x0 max_iter tol = Ok (x0, y, 0, 1%Z).
Proof.
  intros Hm Htol Hfix. rewrite (@dykstra_run_unfold ArithR).
  destruct (Z.to_nat max_iter) as [|f] eqn:Ef; [lia|].
  cbn [while_loop]. unfold dk_cond at 1.
  assert (C1: ((0 <? max_iter)%Z && @le ArithR tol (@finf ArithR)) = true).
  { apply andb_true_iff. split; [apply Z.ltb_lt; lia|]. cbn [le ArithR]. apply Rle_bool_true. lra. }
  rewrite C1. unfold dk_outer at 1. unfold bind at 2.
  change (@ofZ ArithR 0) with 0.
  match goal with |- context[match ?t with Ok _ => _ | Err _ => _ end] =>
    match t with dk_sweep _ _ => destruct t as [[[cI x] y]|] eqn:Es end end.
  - assert (Hlen: length (@repeatZ rv (@vzeros ArithR (Z.of_nat (length x0))) (lenZ P)) = length P).
    { unfold repeatZ. rewrite repeat_length. unfold lenZ. lia. }
    destruct (sweep_fixed_point (length x0) P x0 _ cI x y eq_refl Hlen (zrows_init _ _) Hfix Es) as (-> & -> & Hz & Hl).
    exists y. cbv beta iota.
    assert (C2: @dk_cond ArithR max_iter tol (0, (0 + 1)%Z, x0, y) = false).
    { unfold dk_cond. apply andb_false_iff. right. cbn [le ArithR]. apply Rle_bool_false. lra. }
    cbv beta iota. unfold bind. destruct f; cbn [while_loop];
      match goal with |- context[if ?c then _ else _] => replace c with false by (symmetry; exact C2) end; reflexivity.
  - exfalso.
    assert (Htot: forall l c, exists c', for_loop l (@dk_body ArithR P) c = Ok c').
    { induction l as [|i l IH]; intros c; cbn [for_loop]; [eexists; reflexivity|].
      rewrite dk_body_R. destruct c as [[a b] d]. unfold dk_bodyR. cbv zeta. apply IH. }
    destruct (Htot (rangeZ 0 (lenZ P)) (0, x0, @repeatZ rv (@vzeros ArithR (lenZ x0)) (lenZ P))) as [c' Hc'].
    pose proof (eq_trans (eq_sym Es) Hc') as Hbad. discriminate Hbad.
Qed.
End Real.
