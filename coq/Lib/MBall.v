(* DV.Lib.MBall -- [R] the ball projector of util.py lands in the ball:  |pball(x, c, r) - c| <= r  for r > 0. *)
From Coq Require Import ZArith List Bool Lia Reals Lra.
From Flocq Require Import Raux.
Require Import DV.Base.Prelude DV.Base.F64 DV.Base.OrdLaws DV.Spec.Schema DV.Lib.MSpec DV.Lib.MDyk DV.Lib.MRad.
Import ListNotations.
Local Open Scope R_scope.

Lemma ssq_scale (s : R) (v : list R) : ssq (@vmap ArithR (Rmult s) v) = s * s * ssq v.
Proof. induction v as [|a v IH]; cbn [vmap map ssq]; [ring|]. unfold vmap in IH. rewrite IH. ring. Qed.
Lemma vsub_add_cancel (c w : list R) : length c = length w -> vsub (@vmap2 ArithR Rplus c w) c = w.
Proof. revert w; induction c as [|a c IH]; intros [|b w] H; try discriminate; [reflexivity|]. unfold vsub in *. cbn [vmap2]. rewrite IH by (cbn in H; lia). f_equal. ring. Qed.
Lemma npmax_R (a b : R) : @npmax ArithR a b = Rmax a b.
Proof.
  unfold npmax. cbn [lt isnan ArithR]. rewrite orb_false_r. case Rlt_bool_spec; intros H; unfold Rmax; destruct (Rle_dec a b); first [lra | reflexivity].
Qed.
Theorem pball_in_ball (x c : list R) (r : R) : 0 < r -> length x = length c ->
  ssq (vsub (@s_pball ArithR x c r) c) <= r * r.
Proof.
  intros Hr Hl. unfold s_pball. cbn [add mul div ArithR].
  set (v := @vmap2 ArithR (@sub ArithR) x c). change (@vmap2 ArithR (@sub ArithR) x c) with (vsub x c) in v.
  rewrite npmax_R. set (n := @vnorm ArithR v).
  assert (Hn: n * n = ssq v) by apply vnorm_sq.
  assert (Hn0: 0 <= n) by (unfold n, vnorm; cbn [fsqrt ArithR]; apply sqrt_pos).
  set (s := r / Rmax n r).
  assert (Hm: 0 < Rmax n r) by (eapply Rlt_le_trans; [exact Hr|apply Rmax_r]).
  rewrite vsub_add_cancel by (unfold vmap; rewrite map_length; unfold v; rewrite vsub_len; lia).
  change (@vmap ArithR (Rmult s) v) with (@vmap ArithR (Rmult s) v). rewrite ssq_scale, <- Hn.
  assert (Hs: s * n <= r).
  { unfold s. apply (Rmult_le_reg_r (Rmax n r)); auto. replace (r / Rmax n r * n * Rmax n r) with (r * n * (Rmax n r * / Rmax n r)) by (field; lra).
    rewrite Rinv_r by lra. rewrite Rmult_1_r. apply Rmult_le_compat_l; [lra|apply Rmax_l]. }
  assert (Hs0: 0 <= s * n) by (unfold s; apply Rmult_le_pos; auto; apply Rmult_le_pos; [lra|]; left; now apply Rinv_0_lt_compat).
  replace (s * s * (n * n)) with ((s * n) * (s * n)) by ring. apply Rmult_le_compat; auto.
Qed.
