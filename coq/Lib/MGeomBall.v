(* DV.Lib.MGeomBall -- [R] the ball clause of C13 for the linear solver over box and ball (reference models of MGeom):
   every value s_trsbox_linear returns satisfies |s|^2 <= Delta^2, and every point s_trsbox_geometry returns satisfies
   |x - xbase|^2 <= Delta^2, for every input.  ball_step_spec: for |x| <= Delta and a direction of norm >= ZT the step length is
   non-negative and lands on the sphere (the algebra of the quadratic's root).  Invariant of the active-set loop (JInv): the free
   coordinates equal one common non-negative multiple A of the initial direction and |x| <= Delta; when a coordinate meets its
   bound the multiple shrinks to A' in [0, A + alpha], so the new point is dominated coordinate by coordinate by the point on the
   sphere (ssq_le_pointwise). *)
From Coq Require Import ZArith List Bool Lia Reals Lra Psatz.
From Flocq Require Import Raux.
Require Import DV.Base.Prelude DV.Base.F64 DV.Base.OrdLaws DV.Spec.Schema DV.Lib.MDyk DV.Lib.MInterp DV.Lib.MBall DV.Lib.MGeom.
Import ListNotations.
Open Scope Z_scope.

Section BallR.
Local Open Scope R_scope.
Notation gT := (@getT ArithR).
Notation rvec := (list R).

(* the step to the sphere: for |x| <= Delta and g <> 0, ball_step returns alpha >= 0 with |x + alpha g| = Delta *)
Lemma ball_step_spec (x g : rvec) (Delta : R) : length x = length g -> ZT <= @vnorm ArithR g -> ssq x <= Delta * Delta ->
  0 <= @s_ball_step ArithR x g Delta /\
  ssq (vadd x (map (Rmult (@s_ball_step ArithR x g Delta)) g)) = Delta * Delta.
Proof.
  intros Hl Hg Hx. unfold s_ball_step. cbv zeta. cbn [lt fsqrt add sub mul div ofZ ArithR].
  change (@ofdy ArithR 6338253001141147 (-99)) with ZT.
  change (@dot ArithR g x) with (rdot g x). change (@dot ArithR g g) with (rdot g g). change (@dot ArithR x x) with (rdot x x).
  rewrite !rdot_sdot, <- !ssq_sdot.
  assert (Hn: sqrt (ssq g) = @vnorm ArithR g) by (unfold vnorm; cbn [fsqrt ArithR]; now rewrite sumsq_ssq).
  rewrite Hn. case Rlt_bool_spec; [intros H; lra|intros _].
  pose proof ZT_pos as Hz.
  assert (Hgs: 0 < ssq g). { rewrite <- vnorm_sq. apply Rmult_lt_0_compat; lra. }
  set (gx := sdot g x). set (gs := ssq g) in *. set (xs := ssq x) in *.
  assert (Hd: 0 <= gx * gx + gs * (Delta * Delta - xs)). { pose proof (Rle_0_sqr gx) as H. unfold Rsqr in H. assert (0 <= gs * (Delta * Delta - xs)) by (apply Rmult_le_pos; lra). lra. }
  rewrite npmax_R. rewrite Rmax_right by exact Hd.
  set (s := sqrt (gx * gx + gs * (Delta * Delta - xs))).
  assert (Hs2: s * s = gx * gx + gs * (Delta * Delta - xs)) by (apply sqrt_sqrt; exact Hd).
  assert (Hs0: 0 <= s) by apply sqrt_pos.
  assert (Hsg: gx <= s).
  { destruct (Rle_dec gx 0) as [|Hp]; [lra|]. apply Rnot_le_lt in Hp. apply Rsqr_incr_0_var; auto. unfold Rsqr. rewrite Hs2.
    assert (0 <= gs * (Delta * Delta - xs)) by (apply Rmult_le_pos; lra). lra. }
  split.
  - unfold Rdiv. apply Rmult_le_pos; [lra|]. left. now apply Rinv_0_lt_compat.
  - fold xs. rewrite ssq_vadd by (rewrite map_length; lia). rewrite sdot_comm, sdot_scale_l. fold gx.
    change (map (Rmult ((s - gx) / gs)) g) with (@vmap ArithR (Rmult ((s - gx) / gs)) g). rewrite ssq_scale. fold gs. fold xs.
    replace (xs + 2 * ((s - gx) / gs * gx) + (s - gx) / gs * ((s - gx) / gs) * gs) with (xs + (s * s - gx * gx) / gs) by (field; lra).
    rewrite Hs2. field. lra.
Qed.

Lemma ssq_le_pointwise : forall (x y : rvec), length x = length y ->
  (forall j, (0 <= j < lenZ x)%Z -> Rabs (gT x j) <= Rabs (gT y j)) -> ssq x <= ssq y.
Proof.
  induction x as [|u x IH]; intros [|v y] Hl H; try discriminate; [cbn; lra|].
  change (ssq (u :: x)) with (u * u + ssq x). change (ssq (v :: y)) with (v * v + ssq y).
  assert (H0: Rabs u <= Rabs v). { specialize (H 0%Z). unfold getT, getD, lenZ in H. cbn in H. apply H. lia. }
  assert (Hx: ssq x <= ssq y).
  { apply IH; [cbn in Hl; lia|]. intros j Hj. specialize (H (j + 1)%Z). unfold getT, getD, lenZ in *. cbn [length] in H.
    replace (Z.to_nat (j + 1)) with (S (Z.to_nat j)) in H by lia. cbn [nth] in H. apply H. lia. }
  assert (u * u <= v * v). { rewrite <- (Rsqr_abs u), <- (Rsqr_abs v) || idtac. apply Rsqr_le_abs_1 in H0 || idtac. unfold Rsqr in *. lra. }
  lra.
Qed.

Ltac zl := change (@T ArithR) with R in *; lia.
Section Loop.
Variables (a b d0 : rvec) (Delta : R) (N : nat).
Let nZ := Z.of_nat N.
Hypothesis Hab : forall j, (0 <= j < nZ)%Z -> gT a j < 0 < gT b j.

(* the free coordinates have moved along the initial direction by one common non-negative multiple, and |x| <= Delta *)
Definition JInv (c : @ocarry ArithR) : Prop :=
  let '(cs, dirn, x, ret) := c in
  exists A, 0 <= A /\
    (forall j, (0 <= j < nZ)%Z -> memZ j cs = false -> gT dirn j = gT d0 j /\ gT x j = A * gT d0 j) /\
    ssq x <= Delta * Delta.
Definition BPost (c : @ocarry ArithR) : Prop := let '(cs, dirn, x, ret) := c in exists r, ret = Some r /\ ssq r <= Delta * Delta.

Lemma ball_body_step i c c1 brk : Inv a b N i c -> JInv c -> @lin_body ArithR a b Delta nZ i c = Ok (c1, brk) ->
  if brk then BPost c1 else JInv c1.
Proof.
  destruct c as [[[cs dirn] x] ret]. intros (Hret & Hx & Hd & Hnd & Hrg & Hcnt & Hin & Hout) (A & HA & Hfree & Hball) Hb1.
  unfold lin_body in Hb1. cbn [lt add mul ArithR] in Hb1. change (@ZTc ArithR) with ZT in Hb1.
  revert Hb1. case Rlt_bool_spec; intros Hnorm Hb1.
  - injection Hb1 as <- <-. exists x. split; auto.
  - assert (Hlen: length x = length dirn) by (unfold lenZ in *; change (@T ArithR) with R in *; lia).
    destruct (ball_step_spec x dirn Delta Hlen Hnorm Hball) as (Hal0 & Hsph).
    set (al := @s_ball_step ArithR x dirn Delta) in *.
    set (xnew := @vmap2 ArithR Rplus x (@vmap ArithR (Rmult al) dirn)) in *.
    change (vadd x (map (Rmult al) dirn)) with xnew in Hsph.
    unfold rangeZ in Hb1. replace (Z.to_nat (nZ - 0)) with N in Hb1 by (unfold nZ; lia).
    destruct (for_loop (rangeN 0 N) (@lin_inner ArithR a b xnew cs) (None, None, false)) as [c'|] eqn:El; [|discriminate].
    cbn [bind] in Hb1. destruct (inner_spec a b N xnew cs c' El) as [(-> & Hstrict)|(hu & u & -> & Hu & Hum & Hhit)].
    + cbn [negb] in Hb1. injection Hb1 as <- <-. exists xnew. split; auto. lra.
    + cbn [negb] in Hb1. injection Hb1 as <- <-.
      set (bd := @hit_bound ArithR a b hu u).
      destruct (Hfree u Hu Hum) as (Hdu & Hxu). pose proof (Hout u Hu Hum) as Hnz. pose proof ZT_pos as Hz. pose proof (Hab u Hu) as Habu.
      assert (Hxn: forall j, (0 <= j < nZ)%Z -> gT xnew j = gT x j + al * gT dirn j) by (intros j Hj; unfold xnew; apply (step_along N); auto).
      assert (Hd0: gT d0 u <> 0). { rewrite <- Hdu. intros E. rewrite E, Rabs_R0 in Hnz. lra. }
      (* the multiple at which coordinate u meets its bound *)
      set (A' := bd / gT d0 u).
      assert (HA': 0 <= A' <= A + al).
      { pose proof (Hxn u Hu) as E. rewrite Hxu, Hdu in E. replace (A * gT d0 u + al * gT d0 u) with ((A + al) * gT d0 u) in E by ring.
        assert (HAl: 0 <= A + al) by lra. unfold A'.
        destruct Hhit as [(-> & Hlo)|(-> & Hhi)]; unfold bd, hit_bound.
        - (* lower side: (A+al) d0 <= a < 0, so d0 < 0 *)
          rewrite E in Hlo. assert (Hneg: gT d0 u < 0) by (destruct (Rlt_dec (gT d0 u) 0); auto; exfalso; nra).
          split.
          + unfold Rdiv. replace (gT a u * / gT d0 u) with ((- gT a u) * / (- gT d0 u)) by (field; intro Hq; lra). apply Rmult_le_pos; [lra|]. left. apply Rinv_0_lt_compat. lra.
          + apply (Rmult_le_reg_r (- gT d0 u)); [lra|]. assert (Q: gT a u / gT d0 u * - gT d0 u = - gT a u) by (field; intro Hq; lra). rewrite Q. lra.
        - rewrite E in Hhi. assert (Hpos: 0 < gT d0 u) by (destruct (Rlt_dec 0 (gT d0 u)); auto; exfalso; nra).
          split.
          + unfold Rdiv. apply Rmult_le_pos; [lra|]. left. now apply Rinv_0_lt_compat.
          + apply (Rmult_le_reg_r (gT d0 u)); [lra|]. assert (Q: gT b u / gT d0 u * gT d0 u = gT b u) by (field; intro Hq; lra). rewrite Q. lra. }
      set (ac := (bd - gT x u) / gT dirn u).
      assert (Hac: A + ac = A'). { unfold ac, A'. rewrite Hxu, Hdu. field. exact Hd0. }
      set (x1 := @vmap2 ArithR Rplus x (@vmap ArithR (Rmult ac) dirn)).
      assert (Hx1: forall j, (0 <= j < nZ)%Z -> gT x1 j = gT x j + ac * gT dirn j) by (intros j Hj; unfold x1; apply (step_along N); auto).
      assert (Hl1: lenZ x1 = nZ) by (unfold x1; apply lenZ_step; auto).
      exists A'. split; [lra|]. split.
      * intros j Hj Hm. rewrite memZ_app in Hm. apply orb_false_elim in Hm. destruct Hm as (Hm1 & Hm2).
        unfold memZ in Hm2. cbn [existsb] in Hm2. rewrite orb_false_r in Hm2. apply Z.eqb_neq in Hm2.
        rewrite !gT_upd_other by zl. destruct (Hfree j Hj Hm1) as (Hdj & Hxj). split; [exact Hdj|].
        rewrite Hx1 by auto. rewrite Hxj, Hdj, <- Hac. now rewrite Rmult_plus_distr_r.
      * (* |x'| <= |xnew| coordinate by coordinate, and |xnew| = Delta *)
        rewrite <- Hsph. apply ssq_le_pointwise.
        -- rewrite updZ_length. assert (Hln: lenZ xnew = nZ) by (unfold xnew; apply lenZ_step; auto). clear - Hl1 Hln. unfold lenZ in *. change (@T ArithR) with R in *. lia.
        -- intros j Hj0. assert (Hj: (0 <= j < nZ)%Z) by (rewrite lenZ_updZ in Hj0; clear - Hj0 Hl1; unfold lenZ in *; change (@T ArithR) with R in *; lia). rewrite Hxn by auto.
           destruct (Z.eq_dec j u) as [->|Hne].
           ++ rewrite gT_upd_same by zl. rewrite Hxu, Hdu. replace (A * gT d0 u + al * gT d0 u) with ((A + al) * gT d0 u) by ring.
              replace bd with (A' * gT d0 u) by (unfold A'; field; exact Hd0). rewrite !Rabs_mult. apply Rmult_le_compat_r; [apply Rabs_pos|].
              rewrite !Rabs_pos_eq by lra. lra.
           ++ rewrite gT_upd_other by zl. rewrite Hx1 by auto. destruct (memZ j cs) eqn:Em.
              ** destruct (Hin j Hj Em) as (_ & Hz0). rewrite Hz0. rewrite !Rmult_0_r. lra.
              ** destruct (Hfree j Hj Em) as (Hdj & Hxj). rewrite Hxj, Hdj.
                 replace (A * gT d0 j + ac * gT d0 j) with (A' * gT d0 j) by (rewrite <- Hac; ring).
                 replace (A * gT d0 j + al * gT d0 j) with ((A + al) * gT d0 j) by ring.
                 rewrite !Rabs_mult. apply Rmult_le_compat_r; [apply Rabs_pos|]. rewrite !Rabs_pos_eq by lra. lra.
Qed.
End Loop.

Lemma ssq_repeat0 n : ssq (repeat 0 n) = 0.
Proof. induction n as [|n IH]; cbn [repeat ssq]; [reflexivity|]. rewrite IH. ring. Qed.

Theorem trsbox_linear_in_ball (g a_in b_in : rvec) (Delta : R) (r : rvec) :
  length a_in = length g -> length b_in = length g ->
  @s_trsbox_linear ArithR g a_in b_in Delta = Ok r -> ssq r <= Delta * Delta.
Proof.
  intros Hla Hlb Hr. rewrite s_trsbox_linear_unfold in Hr.
  set (a := @widen_lo ArithR a_in) in *. set (b := @widen_hi ArithR b_in) in *.
  assert (Ha: lenZ a = lenZ g) by (unfold a, widen_lo; rewrite (@lenZ_vmap ArithR); unfold lenZ; change (@T ArithR) with R; lia).
  assert (Hb: lenZ b = lenZ g) by (unfold b, widen_hi; rewrite (@lenZ_vmap ArithR); unfold lenZ; change (@T ArithR) with R; lia).
  assert (Hab: forall j, (0 <= j < Z.of_nat (length g))%Z -> gT a j < 0 < gT b j).
  { intros j Hj. assert (Hj': (0 <= j < lenZ g)%Z) by (unfold lenZ; exact Hj). pose proof ZT_pos.
    unfold a, b, widen_lo, widen_hi. rewrite !(@getT_vmap ArithR) by (unfold lenZ in *; change (@T ArithR) with R; lia).
    pose proof (npmin_le_r (gT a_in j) (@fneg ArithR (@ZTc ArithR))) as H1. pose proof (npmax_ge_r (gT b_in j) (@ZTc ArithR)) as H2.
    change (@fneg ArithR (@ZTc ArithR)) with (- ZT) in *. change (@ZTc ArithR) with ZT in *. lra. }
  set (d0 := let '(_, dirn, _, _) := @lin_start ArithR g in dirn).
  match type of Hr with context[@for_loop ?C ?l ?bd ?c0] => destruct (@for_loop C l bd c0) as [c'|] eqn:El end; [|discriminate].
  cbn [bind] in Hr. unfold rangeZ in El.
  destruct (for_rangeN_inv (fun i c => Inv a b (length g) i c /\ JInv d0 Delta (length g) c) (BPost Delta) (@lin_body ArithR a b Delta (lenZ g)) 0%Z (length g) 0%Z
              (@lin_start ArithR g) c' ltac:(lia)) as [HQ|HP]; auto.
  - intros i c c1 Hi (HI & HJ) Hb1. split.
    + exact (body_step a b Delta (length g) Hab i c c1 false HI Hb1).
    + exact (ball_body_step a b d0 Delta (length g) Hab i c c1 false HI HJ Hb1).
  - intros i c c1 Hi (HI & HJ) Hb1. exact (ball_body_step a b d0 Delta (length g) Hab i c c1 true HI HJ Hb1).
  - split; [apply start_inv; auto|].
    unfold d0, lin_start, JInv. cbn [app]. exists 0. split; [lra|]. split.
    + intros j Hj Hm. split; [reflexivity|]. rewrite (@getT_vzeros ArithR) by (unfold lenZ; exact Hj). rewrite zero_R. now rewrite Rmult_0_l.
    + unfold vzeros, repeatZ. rewrite zero_R. rewrite ssq_repeat0. pose proof (Rle_0_sqr Delta) as H. unfold Rsqr in H. exact H.
  - rewrite <- El. do 2 f_equal. unfold lenZ. change (@T ArithR) with R. lia.
  - destruct c' as [[[cs dirn] x] ret]. destruct HQ as (r0 & -> & Hball). injection Hr as <-. exact Hball.
  - destruct c' as [[[cs dirn] x] ret]. destruct HP as ((-> & _) & (A & _ & _ & Hball)). injection Hr as <-. exact Hball.
Qed.

Theorem trsbox_geometry_in_ball (xbase g lower upper : rvec) (c Delta : R) (r : rvec) :
  length g = length xbase -> length lower = length xbase -> length upper = length xbase ->
  @s_trsbox_geometry ArithR xbase c g lower upper Delta = Ok r -> ssq (vsub r xbase) <= Delta * Delta.
Proof.
  intros Hg Hlo Hup Hr. unfold s_trsbox_geometry in Hr. cbn [le add sub ArithR] in Hr.
  destruct (@vall2 ArithR _ _ _) in Hr; [|discriminate]. cbn [negb] in Hr.
  destruct (@vall2 ArithR _ _ _) in Hr; [|discriminate]. cbn [negb] in Hr.
  set (al := @vmap2 ArithR Rminus lower xbase) in *. set (bu := @vmap2 ArithR Rminus upper xbase) in *.
  assert (Hal: length al = length g) by (unfold al; rewrite (@vmap2_length ArithR); change (@T ArithR) with R; lia).
  assert (Hbu: length bu = length g) by (unfold bu; rewrite (@vmap2_length ArithR); change (@T ArithR) with R; lia).
  destruct (@s_trsbox_linear ArithR g al bu Delta) as [smin|] eqn:Emin; [|discriminate]. cbn [bind] in Hr.
  assert (Hng: length (@vmap ArithR (@fneg ArithR) g) = length g) by apply map_length.
  destruct (@s_trsbox_linear ArithR (@vmap ArithR (@fneg ArithR) g) al bu Delta) as [smax|] eqn:Emax; [|discriminate]. cbn [bind] in Hr.
  pose proof (trsbox_linear_in_ball g al bu Delta smin Hal Hbu Emin) as Bmin.
  pose proof (trsbox_linear_in_ball _ al bu Delta smax ltac:(etransitivity; [exact Hal|symmetry; exact Hng]) ltac:(etransitivity; [exact Hbu|symmetry; exact Hng]) Emax) as Bmax.
  destruct (trsbox_linear_in_box g al bu Delta smin Hal Hbu Emin) as (Lmin & _).
  destruct (trsbox_linear_in_box _ al bu Delta smax ltac:(etransitivity; [exact Hal|symmetry; exact Hng]) ltac:(etransitivity; [exact Hbu|symmetry; exact Hng]) Emax) as (Lmax & _).
  destruct (Rle_bool _ _) in Hr; injection Hr as <-; rewrite vsub_add_cancel; auto; change (@T ArithR) with R in *; lia.
Qed.
End BallR.
