(* DV.Lib.MInterp -- exact-real algebra behind C05, C11, C16: linearity of the matrix-vector product as written in the
   model (rows folded left to right), invariance of the residual models under a base shift, the Gauss-Newton identity
   g's + s'Hs/2 = |r + Js|^2 - |r|^2 for g = 2J'r, H = 2J'J, exactness of an affine residual, and column un-scaling. *)
From Coq Require Import ZArith List Bool Lia Reals Lra.
Require Import DV.Base.Prelude DV.Base.F64 DV.Base.OrdLaws DV.Spec.Schema DV.Lib.MSpec DV.Lib.MBook DV.Lib.MDyk.
Import ListNotations.
Local Open Scope R_scope.

Notation rv := (list R).
Definition rdot (x y : rv) : R := @dot ArithR x y.
Fixpoint sdot (x y : rv) : R := match x, y with a :: x', b :: y' => a * b + sdot x' y' | _, _ => 0 end.
Lemma fold_dot2 (l : list (R * R)) a : fold_left (fun acc p => acc + fst p * snd p) l a = a + fold_right (fun p s => fst p * snd p + s) 0 l.
Proof. revert a; induction l as [|p l IH]; intros a; cbn; [lra|]. rewrite IH. lra. Qed.
Lemma rdot_sdot x y : rdot x y = sdot x y.
Proof.
  unfold rdot, dot. change (@zero ArithR) with 0. change (@add ArithR) with Rplus. change (@mul ArithR) with Rmult.
  rewrite fold_dot2, Rplus_0_l. revert y. induction x as [|a x IH]; intros [|b y]; cbn; auto. rewrite IH. reflexivity.
Qed.
Definition vadd (x y : rv) : rv := @vmap2 ArithR Rplus x y.
Lemma sdot_add_r x y z : length y = length z -> sdot x (vadd y z) = sdot x y + sdot x z.
Proof. revert y z. induction x as [|a x IH]; intros [|b y] [|c z] H; try discriminate; cbn; try lra. rewrite IH by (cbn in H; lia). ring. Qed.
Lemma sdot_sub_r x y z : length y = length z -> sdot x (vsub y z) = sdot x y - sdot x z.
Proof. revert y z. induction x as [|a x IH]; intros [|b y] [|c z] H; try discriminate; cbn; try lra. unfold vsub in IH. rewrite IH by (cbn in H; lia). ring. Qed.
Lemma sdot_comm x y : sdot x y = sdot y x.
Proof. revert y; induction x as [|a x IH]; intros [|b y]; cbn; auto. rewrite IH. ring. Qed.
Lemma sdot_scale_l s x y : sdot (map (Rmult s) x) y = s * sdot x y.
Proof. revert y; induction x as [|a x IH]; intros [|b y]; cbn; try ring. rewrite IH. ring. Qed.

(* matrix times vector, row by row (Prelude.matvec on the real instance) *)
Definition mv (J : list rv) (d : rv) : rv := @matvec ArithR J d.
Lemma mv_rows J d : mv J d = map (fun r => sdot r d) J.
Proof. unfold mv, matvec. apply map_ext. intros r. apply rdot_sdot. Qed.
Lemma mv_sub J d s : length d = length s -> mv J (vsub d s) = vsub (mv J d) (mv J s).
Proof.
  intros H. rewrite !mv_rows. induction J as [|r J IH]; [reflexivity|]. cbn [map]. unfold vsub in *. cbn [vmap2]. rewrite IH. apply f_equal2; [apply (sdot_sub_r r d s); auto|reflexivity].
Qed.
Lemma mv_add J d s : length d = length s -> mv J (vadd d s) = vadd (mv J d) (mv J s).
Proof.
  intros H. rewrite !mv_rows. induction J as [|r J IH]; [reflexivity|]. cbn [map]. unfold vadd in *. cbn [vmap2]. rewrite IH. apply f_equal2; [apply (sdot_add_r r d s); auto|reflexivity].
Qed.
Lemma mv_length J d : length (mv J d) = length J. Proof. rewrite mv_rows. apply map_length. Qed.

(* ---- (1) a base shift does not change the residual models at a fixed absolute point ---- *)
(* model: m(p) = c + J (p - xbase).  After shift_base(s): xbase' = xbase + s, c' = c + J s, J' = J. *)
Lemma add_sub_cancel (c u v : rv) : length u = length c -> length v = length c -> vadd (vadd c v) (vsub u v) = vadd c u.
Proof.
  revert u v. induction c as [|a c IH]; intros [|x u] [|y v] H1 H2; try discriminate; [reflexivity|].
  unfold vadd, vsub in *. cbn [vmap2]. rewrite IH by (cbn in *; lia). f_equal. ring.
Qed.
Theorem shift_model_invariance (c : rv) (J : list rv) (d s : rv) : length d = length s -> length c = length J ->
  vadd (vadd c (mv J s)) (mv J (vsub d s)) = vadd c (mv J d).
Proof. intros H Hc. rewrite mv_sub by auto. apply add_sub_cancel; rewrite mv_length; auto. Qed.

(* ---- (2) Gauss-Newton identity ---- *)
(* J'r as the sum of r_i * row_i *)
Fixpoint jt_r (J : list rv) (r : rv) (n : nat) : rv :=
  match J, r with
  | row :: J', ri :: r' => vadd (map (Rmult ri) row) (jt_r J' r' n)
  | _, _ => repeat 0 n
  end.
Lemma sdot_repeat0 n s : sdot (repeat 0 n) s = 0.
Proof. revert s; induction n; intros [|b s]; cbn; auto. rewrite IHn. ring. Qed.
Lemma sdot_vadd_l x y s : length x = length y -> sdot (vadd x y) s = sdot x s + sdot y s.
Proof. intros H. rewrite sdot_comm, sdot_add_r by auto. rewrite (sdot_comm s x), (sdot_comm s y). reflexivity. Qed.
Lemma jt_r_length J r n : Forall (fun row => length row = n) J -> length (jt_r J r n) = n.
Proof.
  revert r; induction J as [|row J IH]; intros r HJ; cbn [jt_r]; [apply repeat_length|]. destruct r as [|ri r]; [apply repeat_length|].
  apply Forall_cons_iff in HJ as [Hr HJ]. unfold vadd. assert (E: forall (x y : rv), length x = n -> length y = n -> length (@vmap2 ArithR Rplus x y) = n).
  { clear. intros x; revert n; induction x as [|a x IHx]; intros n [|b y] H1 H2; cbn in *; subst; auto; try discriminate. }
  apply E; [rewrite map_length; auto|apply IH; auto].
Qed.
(* (J'r) . s = r . (J s) *)
Lemma transpose_dot J r s n : Forall (fun row => length row = n) J -> length r = length J -> sdot (jt_r J r n) s = sdot r (mv J s).
Proof.
  rewrite mv_rows. revert r. induction J as [|row J IH]; intros r HJ Hl; destruct r as [|ri r]; try discriminate; cbn [jt_r map sdot]; [apply sdot_repeat0|].
  apply Forall_cons_iff in HJ as [Hr HJ]. rewrite sdot_vadd_l by (rewrite map_length, jt_r_length; auto).
  rewrite sdot_scale_l, IH by (auto; cbn in Hl; lia). reflexivity.
Qed.
Lemma ssq_sdot x : ssq x = sdot x x.
Proof. induction x as [|a x IH]; cbn; auto. rewrite IH. reflexivity. Qed.
Lemma ssq_vadd x y : length x = length y -> ssq (vadd x y) = ssq x + 2 * sdot x y + ssq y.
Proof. revert y; induction x as [|a x IH]; intros [|b y] H; try discriminate; cbn; [lra|]. unfold vadd in IH. rewrite IH by (cbn in H; lia). ring. Qed.
(* with g = 2 J'r and H = 2 J'J (so that s'Hs = 2 |Js|^2):  g.s + (1/2) s'Hs = |r + Js|^2 - |r|^2 *)
Theorem gauss_newton_identity J r s n : Forall (fun row => length row = n) J -> length r = length J ->
  2 * sdot (jt_r J r n) s + / 2 * (2 * ssq (mv J s)) = ssq (vadd r (mv J s)) - ssq r.
Proof.
  intros HJ Hl. rewrite transpose_dot by auto. rewrite ssq_vadd by (rewrite mv_length; auto). lra.
Qed.

(* ---- (3) an affine residual r(x) = A x - b is reproduced exactly by the model (c, J) = (A xk - b, A) based at xk ---- *)
Lemma sub_add_sub (u v b : rv) : length u = length v -> length b = length v -> vadd (vsub v b) (vsub u v) = vsub u b.
Proof.
  revert u b. induction v as [|a v IH]; intros [|x u] [|c b] H1 H2; try discriminate; [reflexivity|].
  unfold vadd, vsub in *. cbn [vmap2]. rewrite IH by (cbn in *; lia). f_equal. ring.
Qed.
Theorem affine_model_exact A b xk y : length y = length xk -> length b = length A ->
  vadd (vsub (mv A xk) b) (mv A (vsub y xk)) = vsub (mv A y) b.
Proof. intros H Hb. rewrite mv_sub by auto. apply sub_add_sub; rewrite !mv_length; auto. Qed.

(* ---- (4) un-scaling of Jacobian columns: x_user = shift + scale * x_s (componentwise) ---- *)
Definition scale_cols (row scale : rv) : rv := @vmap2 ArithR Rdiv row scale.      (* jac[:, i] / scale[i] *)
Definition vmul (x y : rv) : rv := @vmap2 ArithR Rmult x y.
Theorem unscale_row row scale delta : Forall (fun s => s <> 0) scale -> length row = length scale -> length delta = length scale ->
  sdot (scale_cols row scale) (vmul scale delta) = sdot row delta.
Proof.
  intros Hs. revert row delta. induction Hs as [|s scale Hs0 Hs IH]; intros [|a row] [|d delta] H1 H2; try discriminate; cbn; auto.
  unfold scale_cols, vmul in IH. rewrite IH by (cbn in *; lia). field. exact Hs0.
Qed.
Theorem unscale_jacobian J scale delta : Forall (fun s => s <> 0) scale -> Forall (fun row => length row = length scale) J -> length delta = length scale ->
  mv (map (fun row => scale_cols row scale) J) (vmul scale delta) = mv J delta.
Proof.
  intros Hs HJ Hd. rewrite !mv_rows, map_map. apply map_ext_in. intros row Hin. rewrite Forall_forall in HJ. apply unscale_row; auto.
Qed.

(* ---- (5) the assembly of Model.build_full_model:  r = c + J xopt,  g = 2 J'r,  H = 2 J'J  (J' = matT J) ---- *)
Definition bfm (J : list rv) (c xo : rv) : rv * list rv :=
  let r := @vmap2 ArithR Rplus c (@matvec ArithR J xo) in
  (@vmap ArithR (Rmult 2) (@matvec ArithR (@matT ArithR J) r), map (@vmap ArithR (Rmult 2)) (@matmat ArithR (@matT ArithR J) J)).
Definition rcol (J : list rv) (j : nat) : rv := @mcol ArithR J j.
Lemma nth_map_seq (l : rv) : map (fun j => nth j l 0) (seq 0 (length l)) = l.
Proof.
  induction l as [|a l IH]; [reflexivity|]. cbn [length seq map nth]. f_equal. rewrite <- seq_shift, map_map. exact IH.
Qed.
Lemma sdot_map_plus {X} (f g : X -> R) (l : list X) : forall s, sdot (map (fun j => f j + g j) l) s = sdot (map f l) s + sdot (map g l) s.
Proof. induction l as [|a l IH]; intros [|b s]; cbn; try lra. rewrite IH. ring. Qed.
Lemma sdot_map_zero {X} (l : list X) : forall s, sdot (map (fun _ => 0) l) s = 0.
Proof. induction l as [|a l IH]; intros [|b s]; cbn; try lra. rewrite IH. ring. Qed.
Lemma rcol_cons row J j : rcol (row :: J) j = nth j row 0 :: rcol J j.
Proof. reflexivity. Qed.
(* exchange of the two sums:  sum_j (col_j . r) s_j  =  r . (J s) *)
Lemma exchange_sums (J : list rv) n : forall r s, Forall (fun row => length row = n) J -> length r = length J -> length s = n ->
  sdot (map (fun j => sdot (rcol J j) r) (seq 0 n)) s = sdot r (mv J s).
Proof.
  induction J as [|row J IH]; intros r s HJ Hr Hs.
  - destruct r; [|discriminate]. cbn [rcol mcol map sdot]. rewrite (sdot_map_zero (seq 0 n) s). reflexivity.
  - destruct r as [|ri r]; [discriminate|]. apply Forall_cons_iff in HJ as [Hrow HJ].
    rewrite (map_ext _ (fun j => nth j row 0 * ri + sdot (rcol J j) r)) by (intros j; rewrite rcol_cons; reflexivity).
    rewrite sdot_map_plus. rewrite IH by (auto; cbn in Hr; lia).
    assert (Emv: mv (row :: J) s = sdot row s :: mv J s) by (rewrite !mv_rows; reflexivity).
    rewrite Emv. cbn [sdot]. f_equal.
    rewrite (map_ext _ (fun j => ri * nth j row 0)) by (intros; ring).
    rewrite <- (map_map (fun j => nth j row 0) (Rmult ri)). rewrite <- Hrow, nth_map_seq. apply sdot_scale_l.
Qed.
Lemma rcol_length J j : length (rcol J j) = length J. Proof. apply map_length. Qed.
Lemma ncols_rows (J : list rv) n : J <> [] -> Forall (fun row => length row = n) J -> @ncols ArithR J = n.
Proof. destruct J as [|row J]; [congruence|]. intros _ H. apply Forall_cons_iff in H as [H _]. exact H. Qed.

Lemma vadd_length (x : rv) : forall y, length x = length y -> length (vadd x y) = length x.
Proof. induction x as [|a x IH]; intros [|b y] H; try discriminate; [reflexivity|]. unfold vadd in *. cbn [vmap2 length]. f_equal. apply IH. cbn in H. lia. Qed.
Theorem build_full_model_gauss_newton (J : list rv) (c xo s : rv) n : J <> [] ->
  Forall (fun row => length row = n) J -> length c = length J -> length s = n ->
  let r := vadd c (mv J xo) in
  let '(g, H) := bfm J c xo in
  sdot g s + / 2 * sdot s (mv H s) = ssq (vadd r (mv J s)) - ssq r.
Proof.
  intros Hne HJ Hc Hs. cbv zeta. unfold bfm. fold (mv J xo). fold (vadd c (mv J xo)). set (r := vadd c (mv J xo)).
  assert (Hr: length r = length J).
  { unfold r. rewrite vadd_length by (rewrite mv_length; exact Hc). exact Hc. }
  unfold matT, matmat, matvec. rewrite (ncols_rows J n Hne HJ). rewrite !map_map.
  (* g . s *)
  assert (Eg: sdot (@vmap ArithR (Rmult 2) (map (fun j => @dot ArithR (@mcol ArithR J j) r) (seq 0 n))) s = 2 * sdot r (mv J s)).
  { unfold vmap. rewrite sdot_scale_l. f_equal. rewrite <- (exchange_sums J n r s HJ Hr Hs). f_equal. apply map_ext. intros j. apply rdot_sdot. }
  (* H s, row by row *)
  assert (EH: mv (map (fun i => @vmap ArithR (Rmult 2) (map (fun j => @dot ArithR (@mcol ArithR J i) (@mcol ArithR J j)) (seq 0 n))) (seq 0 n)) s =
              map (fun i => 2 * sdot (rcol J i) (mv J s)) (seq 0 n)).
  { rewrite mv_rows, map_map. apply map_ext. intros i. unfold vmap. rewrite sdot_scale_l. f_equal.
    rewrite <- (exchange_sums J n (rcol J i) s HJ (rcol_length J i) Hs). f_equal. apply map_ext. intros j.
    change (rdot (rcol J i) (rcol J j) = sdot (rcol J j) (rcol J i)). rewrite rdot_sdot. apply sdot_comm. }
  rewrite Eg, EH. rewrite (sdot_comm s).
  rewrite <- (map_map (fun i => sdot (rcol J i) (mv J s)) (Rmult 2)), sdot_scale_l.
  rewrite (exchange_sums J n (mv J s) s HJ (mv_length J s) Hs).
  rewrite ssq_vadd by (rewrite mv_length; exact Hr). rewrite <- ssq_sdot. lra.
Qed.
