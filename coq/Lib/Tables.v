(* DV.Lib.Tables -- types of the generated site tables, generic queries over them, and the post-evaluation
   region checker with its soundness theorem (C04/C08).  Checkers are Gallina functions evaluated by vm_compute
   on the regenerated tables; the translator only transcribes syntax into these records. *)
From Coq Require Import ZArith List Bool String Lia.
Import ListNotations.
Open Scope Z_scope.
Open Scope string_scope.

Definition guards := list (bool * string).
Record csite := mk_csite { c_file : string; c_func : string; c_callee : string; c_dotted : string; c_ord : Z;
                           c_args : list string; c_guards : guards; c_line : Z }.
Record asite := mk_asite { a_file : string; a_func : string; a_name : string; a_target : string; a_op : string; a_value : string;
                           a_ord : Z; a_guards : guards; a_line : Z; a_index : Z; a_arity : Z }.
Record rsite := mk_rsite { r_file : string; r_func : string; r_ord : Z; r_vals : list string; r_guards : guards; r_line : Z }.
Record fsite := mk_fsite { f_file : string; f_func : string; f_kind : string; f_ord : Z; f_guards : guards; f_line : Z }.
Record dsite := mk_dsite { d_file : string; d_func : string; d_kind : string; d_params : list string; d_line : Z }.

Inductive bnd := BNone | BZ (z : Z) | BF (m e : Z) | BOther (txt : string).

(* ---- post-evaluation regions -------------------------------------------------------------------- *)
Inductive gclass := GExitInfoSet | GOtherExitInfoSet | GHasSamples | GHasNaN | GOpaque.
Inductive region :=
| RExit (k : string)                         (* return / break / continue / end of function *)
| RCommit (callee : string) (args : list string) (rest : region)
| RStop
| RBranch (g : gclass) (txt : string) (t e : region)
| RRestart (rest : region)
| RRebind (by_ : string) (rest : region)
| RRaise
| RNextEval
| ROpaqueLoop (txt : string)
| RDeferred.
Record rgsite := mk_rgsite { g_file : string; g_func : string; g_ord : Z; g_args : list string; g_line : Z; g_region : region }.

Definition streq (a b : string) : bool := if string_dec a b then true else false.
Lemma streq_true a b : streq a b = true <-> a = b.
Proof. unfold streq. destruct (string_dec a b); split; intros; auto; discriminate. Qed.
Fixpoint slist_eq (a b : list string) : bool :=
  match a, b with [], [] => true | x :: a', y :: b' => streq x y && slist_eq a' b' | _, _ => false end.
Fixpoint mem (s : string) (l : list string) : bool := match l with [] => false | x :: l' => streq s x || mem s l' end.

(* The argument texts with which an evaluated point may be committed: the point just evaluated (x / xnew as a step),
   the residuals just obtained (first sample, or the mean of the samples run), their number, and the current point counter. *)
Definition is_point_arg (s : string) : bool :=
  mem s ["x"; "xnew"; "x - self.model.xbase"; "x - control.model.xbase"].
Definition is_resid_arg (s : string) : bool :=
  mem s ["rvec_list[0, :]"; "np.mean(rvec_list[:num_samples_run, :], axis=0)"].
(* "eval_nx" is the point number captured right after the evaluation by the run_in_parallel initialisation loops, which
   commit their points later (its provenance is checked by C03_deferred_point_numbers_coherent) *)
Definition is_nx_arg (s : string) : bool := mem s ["self.nx"; "control.nx"; "eval_nx"].
Definition commit_args_ok (callee : string) (args : list string) : bool :=
  match callee, args with
  | "save_point", [x; r; ns; en; ab] => is_point_arg x && is_resid_arg r && streq ns "num_samples_run" && is_nx_arg en && streq ab "x_in_abs_coords=True"
  | "change_point", [k; x; r; en] => is_point_arg x && is_resid_arg r && is_nx_arg en
  | "add_new_point", [x; r; en] => is_point_arg x && is_resid_arg r && is_nx_arg en
  | _, _ => false
  end.

(* A path through the region is acceptable when the evaluated point is committed (offered to save_point or written
   into the interpolation set) before the path leaves the region -- unless nothing was evaluated (HasSamples false),
   the residuals contain NaN (C08's clause), or an exception propagates. *)
Fixpoint region_ok (r : region) : bool :=
  match r with
  | RCommit c a _ => commit_args_ok c a
  | RBranch GHasSamples _ t e => region_ok t                 (* else-branch: no sample was run, nothing to lose *)
  | RBranch GHasNaN _ t e => region_ok e                     (* then-branch: NaN residuals *)
  | RBranch _ _ t e => region_ok t && region_ok e
  | RRestart rest => region_ok rest
  | RRebind _ rest => region_ok rest
  | RRaise => true
  | RExit _ | RStop | RNextEval | ROpaqueLoop _ | RDeferred => false
  end.

(* ---- semantics of a region and soundness of the checker ------------------------------------------ *)
(* An environment decides every guard occurrence (by its text and class); running a region yields the outcome. *)
Inductive outcome := Committed (callee : string) (args : list string) | Lost (how : string) | Raised | NothingEvaluated | NaNPath.
Fixpoint exec (env : gclass -> string -> bool) (r : region) : outcome :=
  match r with
  | RExit k => Lost k
  | RCommit c a _ => Committed c a
  | RStop => Lost "stop"
  | RBranch g txt t e =>
      if env g txt then (match g with GHasNaN => NaNPath | _ => exec env t end)
      else (match g with GHasSamples => NothingEvaluated | _ => exec env e end)
  | RRestart rest => exec env rest
  | RRebind _ rest => exec env rest
  | RRaise => Raised
  | RNextEval => Lost "next evaluation"
  | ROpaqueLoop _ => Lost "loop"
  | RDeferred => Lost "deferred"
  end.
Definition good (o : outcome) : Prop :=
  match o with Committed c a => commit_args_ok c a = true | Lost _ => False | _ => True end.
Theorem region_ok_sound r : region_ok r = true -> forall env, good (exec env r).
Proof.
  induction r as [k|c a rest IH| |g txt t IHt e IHe|rest IH|b rest IH| | |txt|]; cbn [region_ok exec]; intros H env;
    try discriminate; try (cbn; auto; fail); auto.
  - destruct g; cbn in H |- *; try (apply andb_true_iff in H as [H1 H2]); destruct (env _ txt); cbn; auto.
Qed.
(* ---- generic table queries ----------------------------------------------------------------------- *)
Definition calls_of (t : list csite) (callee : string) : list csite := filter (fun c => streq (c_callee c) callee) t.
Definition calls_in (t : list csite) (file func : string) : list csite := filter (fun c => streq (c_file c) file && streq (c_func c) func) t.
Definition assigns_of (t : list asite) (name : string) : list asite := filter (fun a => streq (a_name a) name) t.
Definition has_guard (gs : guards) (pol : bool) (txt : string) : bool := existsb (fun g => Bool.eqb (fst g) pol && streq (snd g) txt) gs.
Definition site_id (c : csite) : string := c_file c ++ ":" ++ c_func c ++ ":" ++ c_callee c.
Fixpoint count_true {X} (f : X -> bool) (l : list X) : Z := match l with [] => 0 | x :: l' => (if f x then 1 else 0) + count_true f l' end.
