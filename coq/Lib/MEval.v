(* DV.Lib.MEval -- evaluation accounting (C02): theorems about the reference model of Controller.evaluate_objective
   and about arbitrary sequences of evaluations.  Integers only; closed under the global context. *)
From Coq Require Import ZArith List Bool String Lia.
Require Import DV.Base.Prelude DV.Spec.Schema DV.Lib.MSpec DV.Lib.CSpec.
Import ListNotations.
Open Scope Z_scope.

Ltac cfields := cbv beta iota zeta delta [bind c_model c_nf c_nx c_maxfun c_rhobeg c_delta c_rho c_rhoend c_h c_scaling_changes c_last_successful_iter
  set_c_model set_c_nf set_c_nx set_c_maxfun set_c_rhobeg set_c_delta set_c_rho set_c_rhoend set_c_h set_c_scaling_changes set_c_last_successful_iter] in *.

Section Eval.
Context `{A : Arith}.

Definition carry := (controller_state * list (vec * T) * list (vec * Z * Z) * option (Z * string) * bool * Z * vec * mat)%type.
Definition maxfun_exit : option (Z * string) := Some (1, "Objective has been called MAXFUN times"%string).

(* the loop body of evaluate_objective, exactly as in the reference model *)
Definition eo_body (l_x : vec) (l_i : Z) (c : carry) : res (carry * bool) :=
  let '(st, orc_, log_, l_exit_info, l_incremented_nx, l_num_samples_run, l_obj_list, l_rvec_list) := c in
  if (Z.leb (c_maxfun st) (c_nf st)) then (
  let l_exit_info := (Some (1, "Objective has been called MAXFUN times"%string)) in
  Ok ((st, orc_, log_, l_exit_info, l_incremented_nx, l_num_samples_run, l_obj_list, l_rvec_list), true)
  ) else (
  let st := set_c_nf st (Z.add (c_nf st) 1) in
  bind (if (negb l_incremented_nx) then (
  let st := set_c_nx st (Z.add (c_nx st) 1) in
  let l_incremented_nx := true in
  Ok (st, l_incremented_nx)
  ) else (
  Ok (st, l_incremented_nx)
  )) (fun '(st, l_incremented_nx) =>
  match orc_ with [] => Err OtherError | ans_ :: orc_ =>
  let log_ := log_ ++ [((s_remove_scaling l_x (c_scaling_changes st)), (c_nf st), (c_nx st))] in
  let l_rvec_list := (updZ l_rvec_list l_i (fst ans_)) in
  let l_obj_list := (updZ l_obj_list l_i (snd ans_)) in
  let l_num_samples_run := (Z.add l_num_samples_run 1) in
  Ok ((st, orc_, log_, l_exit_info, l_incremented_nx, l_num_samples_run, l_obj_list, l_rvec_list), false)
  end)
  ).

(* everything of the controller except the two counters *)
Definition frame (st st' : controller_state) : Prop :=
  c_model st' = c_model st /\ c_maxfun st' = c_maxfun st /\ c_rhobeg st' = c_rhobeg st /\ c_delta st' = c_delta st /\
  c_rho st' = c_rho st /\ c_rhoend st' = c_rhoend st /\ c_h st' = c_h st /\ c_scaling_changes st' = c_scaling_changes st /\
  c_last_successful_iter st' = c_last_successful_iter st.
Lemma frame_refl st : frame st st. Proof. repeat split. Qed.
Lemma frame_trans a b c : frame a b -> frame b c -> frame a c.
Proof. unfold frame; intuition congruence. Qed.

(* log entries written for `run` samples of one point: evaluation numbers nf0+1 .. nf0+run, all with point number nx0+1 and the same x *)
Definition entries (xu : vec) (nf0 nx0 : Z) (run : Z) : list (vec * Z * Z) :=
  map (fun j => (xu, nf0 + j, nx0 + 1)) (rangeZ 1 (run + 1)).
Lemma rangeN_snoc s n : rangeN s (S n) = rangeN s n ++ [s + Z.of_nat n].
Proof.
  revert s; induction n as [|n IH]; intros s; [cbn [rangeN app Z.of_nat]; rewrite Z.add_0_r; reflexivity|].
  change (rangeN s (S (S n))) with (s :: rangeN (s + 1) (S n)). rewrite IH. cbn [rangeN app].
  replace (s + 1 + Z.of_nat n) with (s + Z.of_nat (S n)) by lia. reflexivity.
Qed.
Lemma entries_snoc xu nf0 nx0 run : 0 <= run -> entries xu nf0 nx0 (run + 1) = entries xu nf0 nx0 run ++ [(xu, nf0 + run + 1, nx0 + 1)].
Proof.
  intros H. unfold entries, rangeZ. replace (Z.to_nat (run + 1 + 1 - 1)) with (S (Z.to_nat (run + 1 - 1))) by lia.
  rewrite rangeN_snoc, map_app. cbn [map]. replace (1 + Z.of_nat (Z.to_nat (run + 1 - 1))) with (run + 1) by lia.
  replace (nf0 + (run + 1)) with (nf0 + run + 1) by lia. reflexivity.
Qed.

Definition b2z (b : bool) : Z := if b then 1 else 0.

(* loop invariant: after `run` samples *)
Definition LInv (st0 : controller_state) (log0 : list (vec * Z * Z)) (xu : vec) (c : carry) : Prop :=
  let '(st, orc, log, ex, inc, run, objs, rvecs) := c in
  0 <= run /\ c_nf st = c_nf st0 + run /\ c_nx st = c_nx st0 + b2z inc /\ inc = (0 <? run) /\
  log = log0 ++ entries xu (c_nf st0) (c_nx st0) run /\ frame st0 st.

Lemma eo_body_step st0 log0 l_x i c c' b :
  LInv st0 log0 (s_remove_scaling l_x (c_scaling_changes st0)) c -> eo_body l_x i c = Ok (c', b) ->
  LInv st0 log0 (s_remove_scaling l_x (c_scaling_changes st0)) c' /\
  let '(st, _, _, ex, _, run, _, _) := c in let '(st', _, _, ex', _, run', _, _) := c' in
  if b then run' = run /\ c_maxfun st' <= c_nf st' /\ ex' = maxfun_exit /\ st' = st
  else run' = run + 1 /\ c_nf st < c_maxfun st /\ ex' = ex.
Proof.
  destruct c as [[[[[[[st orc] log] ex] inc] run] objs] rvecs]. unfold LInv, eo_body.
  intros (Hr & Hnf & Hnx & Hinc & Hlog & Hfr) Hb.
  destruct (Z.leb_spec (c_maxfun st) (c_nf st)) as [Hm|Hm].
  - injection Hb as <- <-. split; [intuition|]. unfold maxfun_exit. intuition.
  - destruct st as [cm cnf cnx cmax crb cd cr cre ch csc cl]. destruct st0 as [cm0 cnf0 cnx0 cmax0 crb0 cd0 cr0 cre0 ch0 csc0 cl0]. cfields.
    destruct inc; cbn [negb] in Hb; cfields; (destruct orc as [|ans orc']; [discriminate|]); injection Hb as <- <-;
      unfold frame in *; cfields; destruct Hfr as (F1 & F2 & F3 & F4 & F5 & F6 & F7 & F8 & F9); subst.
    + assert (0 < run) by (symmetry in Hinc; apply Z.ltb_lt in Hinc; lia).
      split; [|repeat split; auto; lia]. cbn [b2z] in *. repeat split; auto; try lia; try (symmetry; apply Z.ltb_lt; lia).
      rewrite entries_snoc by lia. rewrite app_assoc. reflexivity.
    + assert (run = 0) by (symmetry in Hinc; apply Z.ltb_ge in Hinc; lia). subst run.
      split; [|repeat split; auto; lia]. cbn [b2z] in *. repeat split; auto; try lia.
      rewrite entries_snoc by lia. rewrite app_assoc. replace (cnx0 + 0 + 1) with (cnx0 + 1) by lia. repeat f_equal; lia.
Qed.

Definition run_of (c : carry) : Z := let '(_, _, _, _, _, run, _, _) := c in run.
Definition st_of (c : carry) : controller_state := let '(st, _, _, _, _, _, _, _) := c in st.
Definition ex_of (c : carry) : option (Z * string) := let '(_, _, _, ex, _, _, _, _) := c in ex.
Definition log_of (c : carry) : list (vec * Z * Z) := let '(_, _, log, _, _, _, _, _) := c in log.

Lemma eo_loop st0 log0 l_x : forall n i c c',
  LInv st0 log0 (s_remove_scaling l_x (c_scaling_changes st0)) c -> c_nf (st_of c) <= c_maxfun (st_of c) ->
  for_loop (rangeN i n) (eo_body l_x) c = Ok c' ->
  LInv st0 log0 (s_remove_scaling l_x (c_scaling_changes st0)) c' /\ c_nf (st_of c') <= c_maxfun (st_of c') /\
  ((run_of c' = run_of c + Z.of_nat n /\ ex_of c' = ex_of c) \/
   (run_of c <= run_of c' < run_of c + Z.of_nat n /\ c_nf (st_of c') = c_maxfun (st_of c') /\ ex_of c' = maxfun_exit)).
Proof.
  induction n as [|n IH]; intros i c c' HI Hle Hl; cbn [for_loop rangeN] in Hl.
  - injection Hl as <-. split; auto. split; auto. left. split; [lia|reflexivity].
  - destruct (eo_body l_x i c) as [[c1 b]|] eqn:E; [|discriminate].
    pose proof (eo_body_step _ _ _ _ _ _ _ HI E) as [HI1 Hs].
    destruct c as [[[[[[[st orc] log] ex] inc] run] objs] rvecs]. destruct c1 as [[[[[[[st1 orc1] log1] ex1] inc1] run1] objs1] rvecs1].
    cbn [run_of st_of ex_of] in *. destruct b.
    + injection Hl as <-. destruct Hs as (-> & Hm & -> & ->). cbn [run_of st_of ex_of]. split; auto. split; [lia|]. right. repeat split; lia.
    + destruct Hs as (-> & Hm & ->).
      assert (Hle1: c_nf st1 <= c_maxfun st1).
      { unfold LInv in HI, HI1. destruct HI as (_ & Hnf & _ & _ & _ & Hf). destruct HI1 as (_ & Hnf1 & _ & _ & _ & Hf1).
        destruct Hf as (_ & Hm0 & _). destruct Hf1 as (_ & Hm1 & _). lia. }
      destruct (IH (i + 1) _ c' HI1 Hle1 Hl) as (HI' & Hle' & Hc). cbn [run_of st_of ex_of] in Hc. split; auto. split; auto.
      destruct Hc as [[Hr He]|(Hr & Hm' & He)]; [left; split; [lia|auto]|right; repeat split; auto; lia].
Qed.

(* ---------------------------------------------------------------- the whole call *)
Record eval_post (st : controller_state) (xu : vec) (ns : Z) (log : list (vec * Z * Z))
                 (st' : controller_state) (log' : list (vec * Z * Z)) (run : Z) (ex : option (Z * string)) : Prop := {
  ep_run : 0 <= run <= ns;
  ep_run_exact : run = Z.min ns (c_maxfun st - c_nf st);        (* requested, or what the budget still allowed *)
  ep_nf : c_nf st' = c_nf st + run;
  ep_budget : c_nf st' <= c_maxfun st';
  ep_nx : c_nx st' = c_nx st + (if 0 <? run then 1 else 0);
  ep_log : log' = log ++ entries xu (c_nf st) (c_nx st) run;
  ep_frame : frame st st';
  ep_short : run < ns -> c_nf st' = c_maxfun st' /\ ex <> None }.

Theorem evaluate_objective_spec st l_x ns orc log st' orc' log' rvecs objs run ex :
  0 <= ns -> c_nf st <= c_maxfun st ->
  sc_evaluate_objective st l_x ns orc log = Ok (st', orc', log', (rvecs, objs, run, ex)) ->
  eval_post st (s_remove_scaling l_x (c_scaling_changes st)) ns log st' log' run ex.
Proof.
  intros Hns Hle Hr. unfold sc_evaluate_objective in Hr.
  change (fun l_i '(st, orc_, log_, l_exit_info, l_incremented_nx, l_num_samples_run, l_obj_list, l_rvec_list) => _) with (eo_body l_x) in Hr.
  cbv zeta in Hr. unfold bind at 1 in Hr. unfold rangeZ in Hr.
  match type of Hr with context[@for_loop ?C ?l ?b ?c0] => remember (@for_loop C l b c0) as fl eqn:El end; symmetry in El; destruct fl as [c1|]; [|discriminate Hr].
  match type of El with for_loop _ _ ?c0 = _ => assert (HI0: LInv st log (s_remove_scaling l_x (c_scaling_changes st)) c0) end.
  { unfold LInv. split; [lia|]. split; [lia|]. split; [cbn [b2z]; lia|]. split; [reflexivity|]. split; [|apply frame_refl].
    unfold entries, rangeZ. cbn. symmetry; apply app_nil_r. }
  destruct (eo_loop _ _ _ _ _ _ _ HI0 Hle El) as (HI1 & Hle1 & Hc).
  destruct c1 as [[[[[[[st1 orc1] log1] ex1] inc1] run1] objs1] rvecs1]. cbn [run_of st_of ex_of] in *.
  assert (Hfin: st' = st1 /\ log' = log1 /\ run = run1 /\ (ex1 <> None -> ex <> None)).
  { destruct (c_h st1); unfold bind in Hr;
      match type of Hr with context[if ?c then _ else _] => destruct c end; cbv beta iota in Hr; injection Hr as <- <- <- <- <- <- <-; repeat split; auto; intros; discriminate. }
  destruct Hfin as (-> & -> & -> & Hex). clear Hr.
  unfold LInv in HI1. destruct HI1 as (Hr0 & Hnf & Hnx & Hinc & Hlog & Hfr).
  assert (Hmax: c_maxfun st1 = c_maxfun st) by (destruct Hfr as (_ & H & _); exact H).
  replace (Z.of_nat (Z.to_nat (ns - 0))) with ns in Hc by lia.
  constructor; auto; try lia.
  all: try (destruct Hc as [[Hr _]|(Hr & Hm & _)]; lia).
  - rewrite Hnx, Hinc. destruct (0 <? run1); reflexivity.
  - intros Hlt. destruct Hc as [[Hr _]|(Hr & Hm & He)]; [lia|]. split; auto. apply Hex. rewrite He. discriminate.
Qed.

(* ---------------------------------------------------------------- any sequence of evaluations *)
(* global well-formedness of the evaluation log: evaluation numbers are 1,2,..,nf in order; point numbers start at 1,
   never decrease, never skip, end at nx; entries sharing a point number carry the identical x *)
Fixpoint log_ok (log : list (vec * Z * Z)) (nf nx : Z) (lastx : option vec) : Prop :=
  match log with
  | [] => True
  | (x, e, p) :: rest =>
      e = nf + 1 /\ (p = nx \/ p = nx + 1) /\ (p = nx -> lastx = Some x) /\ log_ok rest (nf + 1) p (Some x)
  end.
Fixpoint last_pt (log : list (vec * Z * Z)) (nx : Z) : Z := match log with [] => nx | (_, _, p) :: rest => last_pt rest p end.
Fixpoint last_x (log : list (vec * Z * Z)) (lx : option vec) : option vec := match log with [] => lx | (x, _, _) :: rest => last_x rest (Some x) end.

Lemma lenZ_cons {X} (a : X) l : lenZ (a :: l) = 1 + lenZ l.
Proof. unfold lenZ. change (List.length (a :: l)) with (S (List.length l)). rewrite Nat2Z.inj_succ. lia. Qed.
Lemma log_ok_app l1 : forall l2 nf nx lx, log_ok l1 nf nx lx -> log_ok l2 (nf + lenZ l1) (last_pt l1 nx) (last_x l1 lx) -> log_ok (l1 ++ l2) nf nx lx.
Proof.
  induction l1 as [|[[x e] p] l1 IH]; intros l2 nf nx lx H1 H2; cbn [app log_ok last_pt last_x] in *.
  - change (lenZ (@nil (vec * Z * Z))) with 0 in H2. rewrite Z.add_0_r in H2. exact H2.
  - destruct H1 as (He & Hp & Hx & H1). repeat split; auto. apply IH; auto.
    rewrite lenZ_cons in H2. replace (nf + 1 + lenZ l1) with (nf + (1 + lenZ l1)) by lia. exact H2.
Qed.
Lemma entries_ok xu nf nx lx : forall n k, 0 <= k ->
  log_ok (map (fun j => (xu, nf + j, nx + 1)) (rangeN (k + 1) n)) (nf + k) (if 0 <? k then nx + 1 else nx) (if 0 <? k then Some xu else lx).
Proof.
  induction n as [|n IH]; intros k Hk; cbn [rangeN map log_ok]; auto.
  split; [lia|]. split; [destruct (Z.ltb_spec 0 k); lia|]. split.
  - destruct (Z.ltb_spec 0 k); auto. lia.
  - specialize (IH (k + 1) ltac:(lia)). replace (nf + k + 1) with (nf + (k + 1)) by lia.
    destruct (Z.ltb_spec 0 (k + 1)); [|lia]. exact IH.
Qed.
Lemma entries_len xu nf nx run : 0 <= run -> lenZ (entries xu nf nx run) = run.
Proof. intros. unfold entries, lenZ, rangeZ. rewrite map_length, rangeN_length. lia. Qed.
Lemma last_pt_map_rangeN xu nf nx : forall n s q, last_pt (map (fun j => (xu, nf + j, nx + 1)) (rangeN s (S n))) q = nx + 1.
Proof. induction n as [|n IH]; intros s q; [reflexivity|]. change (rangeN s (S (S n))) with (s :: rangeN (s + 1) (S n)). cbn [map last_pt]. apply IH. Qed.
Lemma entries_last_pt xu nf nx run p0 : last_pt (entries xu nf nx run) p0 = if 0 <? run then nx + 1 else p0.
Proof.
  unfold entries, rangeZ. destruct (Z.ltb_spec 0 run) as [H|H].
  - replace (Z.to_nat (run + 1 - 1)) with (S (Z.to_nat (run - 1))) by lia. apply last_pt_map_rangeN.
  - replace (Z.to_nat (run + 1 - 1)) with O by lia. reflexivity.
Qed.

Lemma last_pt_app l1 : forall l2 p, last_pt (l1 ++ l2) p = last_pt l2 (last_pt l1 p).
Proof. induction l1 as [|[[x e] q] l1 IH]; intros l2 p; cbn [app last_pt]; auto. Qed.

(* the accounting state that solve() threads through all runs and restarts *)
Record acct := { a_nf : Z; a_nx : Z; a_maxfun : Z; a_log : list (vec * Z * Z) }.
Definition acct_ok (a : acct) : Prop :=
  0 <= a_nf a <= a_maxfun a /\ lenZ (a_log a) = a_nf a /\ log_ok (a_log a) 0 0 None /\ last_pt (a_log a) 0 = a_nx a /\ 0 <= a_nx a <= a_nf a.

(* one evaluate_objective call seen from outside *)
Definition acct_eval (a : acct) (xu : vec) (ns : Z) : acct :=
  let run := Z.min ns (a_maxfun a - a_nf a) in
  {| a_nf := a_nf a + run; a_nx := a_nx a + (if 0 <? run then 1 else 0); a_maxfun := a_maxfun a;
     a_log := a_log a ++ entries xu (a_nf a) (a_nx a) run |}.

Lemma log_ok_snoc_entries l : forall nf0 nx0 lx xu run, 0 <= run -> log_ok l nf0 nx0 lx ->
  log_ok (l ++ entries xu (nf0 + lenZ l) (last_pt l nx0) run) nf0 nx0 lx.
Proof.
  intros nf0 nx0 lx xu run Hr Hl. apply log_ok_app; auto. unfold entries, rangeZ.
  pose proof (entries_ok xu (nf0 + lenZ l) (last_pt l nx0) (last_x l lx) (Z.to_nat (run + 1 - 1)) 0 ltac:(lia)) as H.
  cbn [Z.ltb] in H. replace (nf0 + lenZ l + 0) with (nf0 + lenZ l) in H by lia. exact H.
Qed.

Theorem acct_eval_ok a xu ns : acct_ok a -> 0 <= ns -> acct_ok (acct_eval a xu ns).
Proof.
  intros (Hnf & Hlen & Hlog & Hpt & Hnx) Hns. unfold acct_ok, acct_eval. cbn [a_nf a_nx a_maxfun a_log].
  set (run := Z.min ns (a_maxfun a - a_nf a)). assert (Hr: 0 <= run) by (unfold run; lia).
  split; [unfold run; lia|]. split; [rewrite lenZ_app, entries_len; lia|]. split.
  - pose proof (log_ok_snoc_entries (a_log a) 0 0 None xu run Hr Hlog) as H. rewrite Hlen, Hpt in H. exact H.
  - split.
    + rewrite last_pt_app, Hpt, entries_last_pt. destruct (0 <? run); lia.
    + destruct (Z.ltb_spec 0 run); lia.
Qed.

(* every reachable accounting state: any list of (point, requested samples) *)
Theorem acct_run_ok (calls : list (vec * Z)) : forall a, acct_ok a -> Forall (fun c => 0 <= snd c) calls ->
  acct_ok (fold_left (fun a c => acct_eval a (fst c) (snd c)) calls a).
Proof.
  induction calls as [|[xu ns] calls IH]; intros a Ha Hc; cbn [fold_left]; auto.
  apply Forall_cons_iff in Hc as [H1 H2]. apply IH; auto. apply acct_eval_ok; auto.
Qed.
(* ... in particular the budget holds, the log length is nf, and each point got min(requested, remaining) samples *)
Corollary acct_budget calls a : acct_ok a -> Forall (fun c => 0 <= snd c) calls ->
  let a' := fold_left (fun a c => acct_eval a (fst c) (snd c)) calls a in
  a_nf a' <= a_maxfun a' /\ lenZ (a_log a') = a_nf a' /\ last_pt (a_log a') 0 = a_nx a'.
Proof. intros Ha Hc. destruct (acct_run_ok calls a Ha Hc) as (H1 & H2 & _ & H4 & _). cbv zeta. repeat split; auto; lia. Qed.

(* the generated function refines acct_eval *)
Definition acct_of (st : controller_state) (log : list (vec * Z * Z)) : acct :=
  {| a_nf := c_nf st; a_nx := c_nx st; a_maxfun := c_maxfun st; a_log := log |}.
Theorem evaluate_objective_refines st l_x ns orc log st' orc' log' rvecs objs run ex :
  0 <= ns -> c_nf st <= c_maxfun st ->
  sc_evaluate_objective st l_x ns orc log = Ok (st', orc', log', (rvecs, objs, run, ex)) ->
  acct_of st' log' = acct_eval (acct_of st log) (s_remove_scaling l_x (c_scaling_changes st)) ns /\
  run = Z.min ns (c_maxfun st - c_nf st) /\ frame st st'.
Proof.
  intros Hns Hle Hr. destruct (evaluate_objective_spec _ _ _ _ _ _ _ _ _ _ _ _ Hns Hle Hr) as [H1 H2 H3 H4 H5 H6 H7 H8].
  split; [|split; auto]. unfold acct_of, acct_eval. cbn [a_nf a_nx a_maxfun a_log]. rewrite <- H2.
  destruct H7 as (_ & Hm & _). rewrite H3, H5, H6, Hm. reflexivity.
Qed.
End Eval.
