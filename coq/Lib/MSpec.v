(* DV.Lib.MSpec -- the reference model of util.py / model.py that the theorems of MBook are proved about.
   It is a frozen, renamed copy (prefix s_) of the translator's output for the repaired source tree; on every run
   PerRun/Char_model.v proves  py_model_f = s_f  for the functions regenerated from /repo's current text, so the
   theorems transfer to what the code says now (and stop transferring when the code changes meaning). *)
From Coq Require Import ZArith List Bool String.
Require Import DV.Base.Prelude DV.Spec.Schema.
Import ListNotations.
Open Scope Z_scope.
Section Spec.
Context `{Arith}.


Definition s_sumsq (l_x : vec) : T :=
(dot l_x l_x).

Definition s_apply_scaling (l_x_raw : vec) (l_scaling_changes : (option (vec * vec))) : vec :=
(match l_scaling_changes with Some v1_ => let '(l_shift, l_scale) := v1_ in
(vmap2 div (vmap2 sub l_x_raw l_shift) l_scale) | None => l_x_raw end).

Definition s_remove_scaling (l_x_scaled : vec) (l_scaling_changes : (option (vec * vec))) : vec :=
(match l_scaling_changes with Some v1_ => let '(l_shift, l_scale) := v1_ in
(vmap2 add l_shift (vmap2 mul l_x_scaled l_scale)) | None => l_x_scaled end).

Definition s_pbox (l_x : vec) (l_l : vec) (l_u : vec) : vec :=
(vmap2 npmin (vmap2 npmax l_x l_l) l_u).

Definition s_pball (l_x : vec) (l_c : vec) (l_r : T) : vec :=
(vmap2 add l_c (vmap (mul (div l_r (npmax (vnorm (vmap2 sub l_x l_c)) l_r))) (vmap2 sub l_x l_c))).

Definition s_dykstra_run (l_P : (list (vec -> vec))) (l_x0 : vec) (l_max_iter : Z) (l_tol : T) : res ((vec * mat * T * Z)) :=
let l_x := l_x0 in
let l_p := (lenZ l_P) in
let l_y := (repeatZ (vzeros (lenZ l_x0)) l_p) in
let l_n := 0 in
let l_cI := finf in
bind (while_loop (Z.to_nat l_max_iter) (fun '(l_cI, l_n, l_x, l_y) => ((Z.ltb l_n l_max_iter) && (le l_tol l_cI))) (fun '(l_cI, l_n, l_x, l_y) =>
let l_cI := (ofZ 0) in
bind (for_loop (rangeZ 0 l_p) (fun l_i '(l_cI, l_x, l_y) =>
let l_prev_x := l_x in
let l_x := ((getD (fun v_ => v_) l_P l_i) (vmap2 sub l_prev_x (getrow l_y l_i))) in
let l_prev_y := (getrow l_y l_i) in
let l_y := (updZ l_y l_i (vmap2 sub l_x (vmap2 sub l_prev_x l_prev_y))) in
let l_cI := (add l_cI (mul (vnorm (vmap2 sub l_prev_y (getrow l_y l_i))) (vnorm (vmap2 sub l_prev_y (getrow l_y l_i))))) in
Ok ((l_cI, l_x, l_y), false)) (l_cI, l_x, l_y)) (fun '(l_cI, l_x, l_y) =>
let l_n := (Z.add l_n 1) in
Ok ((l_cI, l_n, l_x, l_y), false))) (l_cI, l_n, l_x, l_y)) (fun '(c_, oof_) =>
if (oof_ : bool) then Err OtherError else let '(l_cI, l_n, l_x, l_y) := c_ in
Ok ((l_x, l_y, l_cI, l_n))).
Definition s_dykstra (l_P : (list (vec -> vec))) (l_x0 : vec) (l_max_iter : Z) (l_tol : T) : vec :=
match s_dykstra_run l_P l_x0 l_max_iter l_tol with Ok (r_, _, _, _) => r_ | Err _ => l_x0 end.



Definition s_n (st : model_state) : Z :=
(dim st).

Definition s_m (st : model_state) : Z :=
(resid_dim st).

Definition s_npt (st : model_state) : Z :=
(Z.min (num_pts st) (npt_so_far st)).

Definition s_xpt (st : model_state) (l_k : Z) (l_abs_coordinates : bool) : vec :=
(if (negb l_abs_coordinates) then (vmap2 npmin (vmap2 npmax (sl st) (getrow (points st) l_k)) (su st)) else (if (negb (is_nil (projections st))) then (s_dykstra (projections st) (vmap2 add (xbase st) (getrow (points st) l_k)) 100 (ofdy 7737125245533627 (-86))) else (vmap2 add (xbase st) (vmap2 npmin (vmap2 npmax (sl st) (getrow (points st) l_k)) (su st))))).

Definition s_xopt (st : model_state) (l_abs_coordinates : bool) : vec :=
(s_xpt st (kopt st) l_abs_coordinates).

Definition s_ropt (st : model_state) : vec :=
(getrow (fval_v st) (kopt st)).

Definition s_objopt (st : model_state) : T :=
(getT (objval st) (kopt st)).

Definition s_as_absolute_coordinates (st : model_state) (l_x : vec) : vec :=
(if (negb (is_nil (projections st))) then (s_dykstra (projections st) (vmap2 add (xbase st) l_x) 100 (ofdy 7737125245533627 (-86))) else (vmap2 add (xbase st) (vmap2 npmin (vmap2 npmax (sl st) l_x) (su st)))).

Definition s_min_objective_value (st : model_state) : T :=
let l_rel_thresh := (mul (rel_tol st) (objbeg st)) in
(if (negb (isfin l_rel_thresh)) then (abs_tol st) else (pymax (abs_tol st) l_rel_thresh)).

Definition s_change_point (st : model_state) (l_k : Z) (l_x : vec) (l_rvec : vec) (l_eval_num : Z) (l_allow_kopt_update : bool) : res (model_state * unit) :=
bind (if ((Z.leb (npt_so_far st) l_k) && (Z.ltb (npt_so_far st) (num_pts st))) then (
if negb (Z.eqb l_k (npt_so_far st)) then Err AssertionError else
let st := set_npt_so_far st (Z.add (npt_so_far st) 1) in
Ok (st)
) else (
if negb ((Z.leb 0 l_k) && (Z.ltb l_k (s_npt st))) then Err AssertionError else
Ok (st)
)) (fun st =>
let st := set_points st (updZ (points st) l_k l_x) in
let st := set_fval_v st (updZ (fval_v st) l_k l_rvec) in
let st := set_objval st (updZ (objval st) l_k (s_sumsq l_rvec)) in
bind (match (h st) with Some hf_ => (
let st := set_objval st (updZ (objval st) l_k (add (getT (objval st) l_k) (hf_ (s_remove_scaling (vmap2 add (xbase st) l_x) (scaling_changes st))))) in
Ok (st)
) | None => (
Ok (st)
) end) (fun st =>
let st := set_nsamples st (updZ (nsamples st) l_k 1) in
let st := set_eval_num st (updZ (eval_num st) l_k l_eval_num) in
let st := set_factorisation_current st false in
bind (if (l_allow_kopt_update && (lt (getT (objval st) l_k) (s_objopt st))) then (
let st := set_kopt st l_k in
Ok (st)
) else (
Ok (st)
)) (fun st =>
Ok (st, tt)))).

Definition s_swap_points (st : model_state) (l_k1 : Z) (l_k2 : Z) : res (model_state * unit) :=
let st := set_points st (swapZ [] (points st) l_k1 l_k2) in
let st := set_fval_v st (swapZ [] (fval_v st) l_k1 l_k2) in
let st := set_objval st (swapZ dflt (objval st) l_k1 l_k2) in
let st := set_eval_num st (swapZ 0 (eval_num st) l_k1 l_k2) in
let st := set_nsamples st (swapZ 0 (nsamples st) l_k1 l_k2) in
bind (if (Z.eqb (kopt st) l_k1) then (
let st := set_kopt st l_k2 in
Ok (st)
) else (
bind (if (Z.eqb (kopt st) l_k2) then (
let st := set_kopt st l_k1 in
Ok (st)
) else (
Ok (st)
)) (fun st =>
Ok (st))
)) (fun st =>
let st := set_factorisation_current st false in
Ok (st, tt)).

Definition s_add_new_sample (st : model_state) (l_k : Z) (l_rvec_extra : vec) : res (model_state * unit) :=
if negb ((Z.leb 0 l_k) && (Z.ltb l_k (s_npt st))) then Err AssertionError else
let l_t := (div (ofZ (getZ (nsamples st) l_k)) (ofZ (Z.add (getZ (nsamples st) l_k) 1))) in
let st := set_fval_v st (updZ (fval_v st) l_k (vmap2 add (vmap (mul l_t) (getrow (fval_v st) l_k)) (vmap (mul (sub (ofZ 1) l_t)) l_rvec_extra))) in
let st := set_objval st (updZ (objval st) l_k (s_sumsq (getrow (fval_v st) l_k))) in
bind (match (h st) with Some hf_ => (
let st := set_objval st (updZ (objval st) l_k (add (getT (objval st) l_k) (hf_ (s_remove_scaling (vmap2 add (xbase st) (getrow (points st) l_k)) (scaling_changes st))))) in
Ok (st)
) | None => (
Ok (st)
) end) (fun st =>
let st := set_nsamples st (updZ (nsamples st) l_k (Z.add (getZ (nsamples st) l_k) 1)) in
let l_objvals := (firstnZ (s_npt st) (objval st)) in
let st := set_kopt st (np_argmin (vmap (fun y_ => if isnan y_ then finf else y_) l_objvals)) in
Ok (st, tt)).

Definition s_add_new_point (st : model_state) (l_x : vec) (l_rvec : vec) (l_eval_num : Z) : res (model_state * unit) :=
let st := set_points st ((points st) ++ [l_x]) in
let st := set_fval_v st ((fval_v st) ++ [l_rvec]) in
let l_obj := (s_sumsq l_rvec) in
bind (match (h st) with Some hf_ => (
let l_obj := (add l_obj (hf_ (s_remove_scaling (vmap2 add (xbase st) l_x) (scaling_changes st)))) in
Ok (l_obj)
) | None => (
Ok (l_obj)
) end) (fun l_obj =>
let st := set_objval st ((objval st) ++ [l_obj]) in
let st := set_nsamples st ((nsamples st) ++ [1]) in
let st := set_eval_num st ((eval_num st) ++ [l_eval_num]) in
let st := set_num_pts st (Z.add (num_pts st) 1) in
let st := set_npt_so_far st (Z.add (npt_so_far st) 1) in
bind (if (lt l_obj (s_objopt st)) then (
let st := set_kopt st (Z.sub (s_npt st) 1) in
Ok (st)
) else (
Ok (st)
)) (fun st =>
let st := set_factorisation_current st false in
Ok (st, tt))).

Definition s_shift_base (st : model_state) (l_xbase_shift : vec) : res (model_state * unit) :=
bind (for_loop (rangeZ 0 (s_npt st)) (fun l_k st =>
let st := set_points st (updZ (points st) l_k (vmap2 sub (getrow (points st) l_k) l_xbase_shift)) in
Ok ((st), false)) (st)) (fun st =>
let st := set_xbase st (vmap2 add (xbase st) l_xbase_shift) in
let st := set_sl st (vmap2 sub (sl st) l_xbase_shift) in
let st := set_su st (vmap2 sub (su st) l_xbase_shift) in
let st := set_factorisation_current st false in
let st := set_model_const st (vmap2 add (model_const st) (matvec (model_jac st) l_xbase_shift)) in
Ok (st, tt)).

Definition s_save_point (st : model_state) (l_x : vec) (l_rvec : vec) (l_nsamples : Z) (l_eval_num : Z) (l_x_in_abs_coords : bool) : res (model_state * bool) :=
let l_xabs := (if l_x_in_abs_coords then l_x else (s_as_absolute_coordinates st l_x)) in
let l_obj := (s_sumsq l_rvec) in
bind (match (h st) with Some hf_ => (
let l_obj := (add l_obj (hf_ (s_remove_scaling l_xabs (scaling_changes st)))) in
Ok (l_obj)
) | None => (
Ok (l_obj)
) end) (fun l_obj =>
if (match (objsave st) with None => true | Some v1_ => ((le l_obj v1_) || ((isnan v1_) && (negb (isnan l_obj)))) end) then (
let st := set_xsave st (Some l_xabs) in
let st := set_rsave st (Some l_rvec) in
let st := set_objsave st (Some l_obj) in
let st := set_jacsave st (Some (model_jac st)) in
let st := set_nsamples_save st (Some l_nsamples) in
let st := set_eval_num_save st (Some l_eval_num) in
let st := set_jacsave_eval_nums st (match (model_jac_eval_nums st) with Some v2_ => Some v2_ | None => None end) in
Ok (st, true)
) else (
Ok (st, false)
)).

Definition s_get_final_results (st : model_state) : res (model_state * ((option vec) * (option vec) * (option T) * (option mat) * (option Z) * (option Z) * (option (list Z)))) :=
if (match (objsave st) with None => true | Some v1_ => ((le (s_objopt st) v1_) || (isnan v1_)) end) then (
Ok (st, ((Some (s_xopt st true)), (Some (s_ropt st)), (Some (s_objopt st)), (Some (model_jac st)), (Some (getZ (nsamples st) (kopt st))), (Some (getZ (eval_num st) (kopt st))), (model_jac_eval_nums st)))
) else (
Ok (st, ((xsave st), (rsave st), (objsave st), (jacsave st), (nsamples_save st), (eval_num_save st), (jacsave_eval_nums st)))
).


End Spec.
