(* DV.Lib.MX0 -- the sampling of x0 at the start of solve_main (the only evaluations not made through
   Controller.evaluate_objective): reference model sx0_block (frozen, renamed copy of the translator's output for the
   counter slice of that block; PerRun/C02.v proves the regenerated py_solver_x0_block equal to it on every run) and its
   accounting theorem: the block behaves exactly like one evaluate_objective call on a fresh point, i.e. it refines
   MEval.acct_eval.  The slice keeps every statement that reads or writes nf, nx, num_samples_run, exit_info or calls the
   objective; the statements that only store residuals (rvec_list, obj_list, m) are dropped by the translator. *)
From Coq Require Import ZArith List Bool String Lia.
Require Import DV.Base.Prelude DV.Spec.Schema DV.Lib.MSpec DV.Lib.CSpec DV.Lib.MEval.
Import ListNotations.
Open Scope Z_scope.

Section X0.
Context `{A : Arith}.

Definition xcarry := (list (vec * T) * list (vec * Z * Z) * option (Z * string) * Z * Z)%type.

Definition sx0_block (l_nf_so_far : Z) (l_nx_so_far : Z) (l_maxfun : Z) (l_number_of_samples : Z) (l_x0 : vec) (l_scaling_changes : (option (vec * vec))) (orc_ : list (vec * T)) (log_ : list (vec * Z * Z)) : res (list (vec * T) * list (vec * Z * Z) * (Z * Z * Z * (option (Z * string)))) :=
let l_nf := (Z.add l_nf_so_far 1) in
let l_nx := (Z.add l_nx_so_far 1) in
match orc_ with [] => Err OtherError | ans_ :: orc_ =>
let log_ := log_ ++ [((s_remove_scaling l_x0 l_scaling_changes), l_nf, l_nx)] in
let l_r_1 := (fst ans_) in
let l_o_1 := (snd ans_) in
let l_num_samples_run := 1 in
let l_exit_info := (None : (option (Z * string))) in
bind (for_loop (rangeZ 1 l_number_of_samples) (fun l_i '(orc_, log_, l_exit_info, l_nf, l_num_samples_run) =>
if (Z.leb l_maxfun l_nf) then (
let l_exit_info := (Some (1, "Objective has been called MAXFUN times"%string)) in
Ok ((orc_, log_, l_exit_info, l_nf, l_num_samples_run), true)
) else (
let l_nf := (Z.add l_nf 1) in
match orc_ with [] => Err OtherError | ans_ :: orc_ =>
let log_ := log_ ++ [((s_remove_scaling l_x0 l_scaling_changes), l_nf, l_nx)] in
let l_r_2 := (fst ans_) in
let l_o_2 := (snd ans_) in
let l_num_samples_run := (Z.add l_num_samples_run 1) in
Ok ((orc_, log_, l_exit_info, l_nf, l_num_samples_run), false)
end
)) (orc_, log_, l_exit_info, l_nf, l_num_samples_run)) (fun '(orc_, log_, l_exit_info, l_nf, l_num_samples_run) =>
Ok (orc_, log_, (l_nf, l_nx, l_num_samples_run, l_exit_info)))
end.

(* the loop body, named *)
Definition x0_body (maxfun nx : Z) (xu : vec) (l_i : Z) (c : xcarry) : res (xcarry * bool) :=
  let '(orc_, log_, l_exit_info, l_nf, l_num_samples_run) := c in
  if (Z.leb maxfun l_nf) then Ok ((orc_, log_, maxfun_exit, l_nf, l_num_samples_run), true)
  else match orc_ with [] => Err OtherError | ans_ :: orc_ =>
       Ok ((orc_, log_ ++ [(xu, Z.add l_nf 1, nx)], l_exit_info, Z.add l_nf 1, Z.add l_num_samples_run 1), false) end.

Definition XInv (nf0 nx0 : Z) (log0 : list (vec * Z * Z)) (xu : vec) (c : xcarry) : Prop :=
  let '(orc, log, ex, nf, run) := c in 1 <= run /\ nf = nf0 + run /\ log = log0 ++ entries xu nf0 nx0 run.
Definition xrun (c : xcarry) : Z := let '(_, _, _, _, run) := c in run.
Definition xnf (c : xcarry) : Z := let '(_, _, _, nf, _) := c in nf.
Definition xex (c : xcarry) : option (Z * string) := let '(_, _, ex, _, _) := c in ex.

Lemma x0_body_step nf0 nx0 log0 xu maxfun i c c' b :
  XInv nf0 nx0 log0 xu c -> x0_body maxfun (nx0 + 1) xu i c = Ok (c', b) ->
  XInv nf0 nx0 log0 xu c' /\
  (if b then xrun c' = xrun c /\ maxfun <= xnf c' /\ xex c' = maxfun_exit /\ xnf c' = xnf c
   else xrun c' = xrun c + 1 /\ xnf c < maxfun /\ xex c' = xex c /\ xnf c' = xnf c + 1).
Proof.
  destruct c as [[[[orc log] ex] nf] run]. unfold XInv, x0_body. intros (Hr & Hnf & Hlog) Hb.
  destruct (Z.leb_spec maxfun nf) as [Hm|Hm].
  - injection Hb as <- <-. cbn [xrun xnf xex]. repeat split; auto.
  - destruct orc as [|ans orc']; [discriminate|]. injection Hb as <- <-. cbn [xrun xnf xex]. repeat split; auto; try lia.
    rewrite entries_snoc by lia. rewrite app_assoc. subst nf log. repeat f_equal; lia.
Qed.

Lemma x0_loop nf0 nx0 log0 xu maxfun : forall n i c c',
  XInv nf0 nx0 log0 xu c -> xnf c <= maxfun ->
  for_loop (rangeN i n) (x0_body maxfun (nx0 + 1) xu) c = Ok c' ->
  XInv nf0 nx0 log0 xu c' /\ xnf c' <= maxfun /\
  ((xrun c' = xrun c + Z.of_nat n /\ xex c' = xex c) \/
   (xrun c <= xrun c' < xrun c + Z.of_nat n /\ xnf c' = maxfun /\ xex c' = maxfun_exit)).
Proof.
  induction n as [|n IH]; intros i c c' HI Hle Hl; cbn [for_loop rangeN] in Hl.
  - injection Hl as <-. split; auto. split; auto. left. split; [lia|reflexivity].
  - destruct (x0_body maxfun (nx0 + 1) xu i c) as [[c1 b]|] eqn:E; [|discriminate].
    pose proof (x0_body_step _ _ _ _ _ _ _ _ _ HI E) as [HI1 Hs]. destruct b.
    + injection Hl as <-. destruct Hs as (Hr & Hm & He & Hn). split; auto. split; [lia|]. right. repeat split; auto; lia.
    + destruct Hs as (Hr & Hm & He & Hn).
      destruct (IH (i + 1) c1 c' HI1 ltac:(lia) Hl) as (HI' & Hle' & Hc). split; auto. split; auto.
      destruct Hc as [[Hr' He']|(Hr' & Hm' & He')]; [left; split; [lia|congruence]|right; repeat split; auto; lia].
Qed.

(* the block seen from outside: one fresh point, min(requested, remaining budget) samples *)
Theorem x0_block_spec nf0 nx0 maxfun ns x0 sc orc log orc' log' nf nx run ex :
  1 <= ns -> nf0 < maxfun ->
  sx0_block nf0 nx0 maxfun ns x0 sc orc log = Ok (orc', log', (nf, nx, run, ex)) ->
  run = Z.min ns (maxfun - nf0) /\ nf = nf0 + run /\ nx = nx0 + 1 /\ nf <= maxfun /\
  log' = log ++ entries (s_remove_scaling x0 sc) nf0 nx0 run /\
  (run < ns -> ex <> None) /\ (run = ns -> ex = None).
Proof.
  intros Hns Hlt Hr. unfold sx0_block in Hr. cbv zeta in Hr. destruct orc as [|ans orc1]; [discriminate|].
  set (xu := s_remove_scaling x0 sc) in *.
  change (fun l_i '(orc_, log_, l_exit_info, l_nf, l_num_samples_run) => _) with (x0_body maxfun (nx0 + 1) xu) in Hr.
  unfold bind in Hr. unfold rangeZ in Hr.
  match type of Hr with context[@for_loop ?C ?l ?b ?c0] => remember (@for_loop C l b c0) as fl eqn:El end; symmetry in El; destruct fl as [c1|]; [|discriminate Hr].
  match type of El with for_loop _ _ ?c0 = _ => assert (HI0: XInv nf0 nx0 log xu c0) end.
  { unfold XInv. split; [lia|]. split; [lia|]. unfold entries, rangeZ. cbn. reflexivity. }
  match type of El with for_loop _ _ ?c0 = _ => assert (Hle0: xnf c0 <= maxfun) by (cbn [xnf]; lia) end.
  destruct (x0_loop _ _ _ _ _ _ _ _ _ HI0 Hle0 El) as (HI1 & Hle1 & Hc).
  destruct c1 as [[[[orc2 log2] ex2] nf2] run2]. cbn [xrun xnf xex] in *. injection Hr as <- <- <- <- <- <-.
  unfold XInv in HI1. destruct HI1 as (Hr1 & Hnf & Hlog).
  replace (Z.of_nat (Z.to_nat (ns - 1))) with (ns - 1) in Hc by lia.
  destruct Hc as [[Hrun Hex]|(Hrun & Hm & Hex)].
  - repeat split; auto; try lia; try (intros _; exact Hex).
  - repeat split; auto; try lia; try (intros _; rewrite Hex; discriminate).
Qed.

(* ... i.e. it refines the accounting step of one evaluate_objective call *)
Corollary x0_block_refines nf0 nx0 maxfun ns x0 sc orc log orc' log' nf nx run ex :
  1 <= ns -> nf0 < maxfun ->
  sx0_block nf0 nx0 maxfun ns x0 sc orc log = Ok (orc', log', (nf, nx, run, ex)) ->
  {| a_nf := nf; a_nx := nx; a_maxfun := maxfun; a_log := log' |} =
  acct_eval {| a_nf := nf0; a_nx := nx0; a_maxfun := maxfun; a_log := log |} (s_remove_scaling x0 sc) ns.
Proof.
  intros Hns Hlt Hr. destruct (x0_block_spec _ _ _ _ _ _ _ _ _ _ _ _ _ _ Hns Hlt Hr) as (H1 & H2 & H3 & H4 & H5 & _).
  unfold acct_eval. cbn [a_nf a_nx a_maxfun a_log]. rewrite <- H1.
  assert (Hp: (0 <? run) = true) by (apply Z.ltb_lt; lia). rewrite Hp. subst nf nx log'. reflexivity.
Qed.
End X0.
