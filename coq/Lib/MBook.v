(* DV.Lib.MBook -- bookkeeping theorems about the reference model of dfols/model.py (MSpec).
   Everything here is proved for an arbitrary arithmetic (so for binary64 with NaN/inf and for R);
   order facts use the OrdLaws class.  Used by C03, C04, C08, C17. *)
From Coq Require Import ZArith List Bool Lia Reals Lra.
Require Import DV.Base.Prelude DV.Base.F64 DV.Base.OrdLaws DV.Spec.Schema DV.Lib.MSpec.
Import ListNotations.
Open Scope Z_scope.

(* call-by-value on a whitelist: setters applied to setters reduce to one flat constructor (cbn/simpl duplicate the
   30 fields at every level and blow up); the records have primitive projections, so [points st] stays folded *)
Ltac fields := cbv beta iota zeta delta [bind dim resid_dim num_pts npt_so_far xbase sl su projections points fval_v objval kopt nsamples eval_num objbeg abs_tol rel_tol model_const model_jac model_jac_eval_nums xsave rsave objsave jacsave nsamples_save eval_num_save jacsave_eval_nums factorisation_current h scaling_changes
  set_dim set_resid_dim set_num_pts set_npt_so_far set_xbase set_sl set_su set_projections set_points set_fval_v set_objval set_kopt set_nsamples set_eval_num set_objbeg set_abs_tol set_rel_tol set_model_const set_model_jac set_model_jac_eval_nums set_xsave set_rsave set_objsave set_jacsave set_nsamples_save set_eval_num_save set_jacsave_eval_nums set_factorisation_current set_h set_scaling_changes] in *.

Ltac zl := unfold vec, mat in *; lia.
Ltac dst st := destruct st as [d_ rd_ np_ sf_ xb_ sl_ su_ pr_ pts_ fv_ ov_ ko_ ns_ en_ ob_ at_ rt_ mc_ mj_ mje_ xs_ rs_ os_ js_ nss_ ens_ jse_ fc_ h_ sc_].
Ltac break_in H :=
  repeat (match type of H with
  | context[match (if ?c then _ else _) with _ => _ end] => let E := fresh "E" in destruct c eqn:E
  | context[if ?c then _ else _] => let E := fresh "E" in destruct c eqn:E
  | context[match h ?s with Some _ => _ | None => _ end] => let E := fresh "Eh" in destruct (h s) eqn:E
  | context[match objsave ?s with Some _ => _ | None => _ end] => let E := fresh "Es" in destruct (objsave s) eqn:E
  end; try discriminate H).
Ltac run_op H := cbv beta delta [bind] in H; cbv zeta in H; break_in H;
  try (injection H as H; subst).


Section Book.
Context `{A : Arith}.

(* ---------------------------------------------------------------- well-formedness *)
Record wf (st : model_state) : Prop := {
  wf_pts : lenZ (points st) = num_pts st;
  wf_fval : lenZ (fval_v st) = num_pts st;
  wf_obj : lenZ (objval st) = num_pts st;
  wf_ns : lenZ (nsamples st) = num_pts st;
  wf_en : lenZ (eval_num st) = num_pts st;
  wf_sofar : 1 <= npt_so_far st <= num_pts st;
  wf_kopt : 0 <= kopt st < npt_so_far st }.

Lemma npt_sofar st : wf st -> s_npt st = npt_so_far st.
Proof. intros W. unfold s_npt. destruct W. lia. Qed.

(* the objective value the code stores for residual r at absolute point x *)
Definition obj_of (st : model_state) (r x : vec) : T :=
  match h st with Some hf => add (sumsq r) (hf (s_remove_scaling x (scaling_changes st))) | None => sumsq r end.

(* ---------------------------------------------------------------- numpy argmin *)
Lemma argmin_from_range l : forall i best bi, 0 <= bi < i -> 0 <= argmin_from l i best bi < i + lenZ l.
Proof.
  induction l as [|a l IH]; intros i best bi Hb; cbn [argmin_from].
  - unfold lenZ; cbn [length]; lia.
  - assert (HL: lenZ (a :: l) = 1 + lenZ l) by (unfold lenZ; simpl length; lia). rewrite HL.
    pose proof (lenZ_nonneg l) as Hl0. destruct (isnan best); [lia|]. destruct (isnan a || lt a best).
    + specialize (IH (i + 1) a i). lia.
    + specialize (IH (i + 1) best bi). lia.
Qed.
Lemma np_argmin_range l : l <> [] -> 0 <= np_argmin l < lenZ l.
Proof.
  destruct l as [|a l]; [congruence|]. intros _. unfold np_argmin.
  pose proof (argmin_from_range l 1 a 0). unfold lenZ in *. simpl length. lia.
Qed.


(* ---------------------------------------------------------------- symbolic execution of the reference model *)
Lemma getT_upd_same (o : vec) k v : 0 <= k < lenZ o -> getT (updZ o k v) k = v.
Proof. apply getD_updZ_same. Qed.
Lemma getT_upd_other (o : vec) k j v : 0 <= j -> k <> j -> getT (updZ o k v) j = getT o j.
Proof. apply getD_updZ_other. Qed.

(* ---------------------------------------------------------------- change_point *)
Lemma cp_fields st k x r en allow st' : wf st -> s_change_point st k x r en allow = Ok (st', tt) ->
  let v := obj_of st r (vmap2 add (xbase st) x) in
  0 <= k < npt_so_far st' /\ npt_so_far st <= npt_so_far st' <= num_pts st /\ num_pts st' = num_pts st /\
  ((k < npt_so_far st /\ npt_so_far st' = npt_so_far st) \/ (k = npt_so_far st /\ npt_so_far st' = k + 1)) /\
  points st' = updZ (points st) k x /\ fval_v st' = updZ (fval_v st) k r /\ objval st' = updZ (objval st) k v /\
  nsamples st' = updZ (nsamples st) k 1 /\ eval_num st' = updZ (eval_num st) k en /\
  h st' = h st /\ scaling_changes st' = scaling_changes st /\ xbase st' = xbase st /\
  objsave st' = objsave st /\ xsave st' = xsave st /\ rsave st' = rsave st /\ nsamples_save st' = nsamples_save st /\ eval_num_save st' = eval_num_save st /\
  (kopt st' = (if allow && lt v (getT (objval st') (kopt st)) then k else kopt st)).
Proof.
  dst st. intros W Hr. cbv zeta. unfold s_change_point, s_npt, s_objopt, s_sumsq, obj_of, sumsq in *. destruct W as [W1 W2 W3 W4 W5 W6 W7].
  fields. destruct h_ as [hf|]; break_in Hr; injection Hr as <-; fields;
   rewrite ?updZ_updZ in *;
   repeat match goal with H : (Z.leb _ _ && _) = true |- _ => apply andb_true_iff in H; destruct H
                        | H : negb _ = false |- _ => apply negb_false_iff in H end;
   rewrite ?getT_upd_same in * by zl;
   repeat match goal with H : ?c = true |- context[if ?c then _ else _] => progress rewrite H
                        | H : ?c = false |- context[if ?c then _ else _] => progress rewrite H end;
   repeat split; auto; try lia.
Qed.

(* ---------------------------------------------------------------- the five parallel arrays as one array of slots *)
Record slot := mk_slot { sl_x : vec; sl_r : vec; sl_obj : T; sl_ns : Z; sl_en : Z }.
Definition slot_of (st : model_state) (k : Z) : slot :=
  mk_slot (getrow (points st) k) (getrow (fval_v st) k) (getT (objval st) k) (getZ (nsamples st) k) (getZ (eval_num st) k).
(* the slot written by change_point / add_new_point for a point evaluated once *)
Definition fresh_slot (st : model_state) (x r : vec) (en : Z) : slot :=
  mk_slot x r (obj_of st r (vmap2 add (xbase st) x)) 1 en.

Theorem change_point_slots st k x r en allow st' : wf st -> s_change_point st k x r en allow = Ok (st', tt) ->
  wf st' /\ slot_of st' k = fresh_slot st x r en /\
  (forall j, 0 <= j -> j <> k -> slot_of st' j = slot_of st j) /\
  (kopt st' = k \/ kopt st' = kopt st).
Proof.
  intros W Hr. pose proof (cp_fields _ _ _ _ _ _ _ W Hr) as F. cbv zeta in F.
  destruct F as (Hk & Hsf & Hnp & Hgrow & Hp & Hf & Ho & Hn & He & Hh & Hsc & Hxb & _ & _ & _ & _ & _ & Hko).
  destruct W. split; [|split; [|split]].
  - constructor; rewrite ?Hp, ?Hf, ?Ho, ?Hn, ?He, ?Hnp, ?lenZ_updZ; auto; try lia.
    rewrite Hko. destruct (allow && _); [clear -Hk; lia | clear - Hsf wf_kopt0; lia].
  - unfold slot_of, fresh_slot, getrow, getT, getZ. rewrite Hp, Hf, Ho, Hn, He.
    rewrite !getD_updZ_same by zl. reflexivity.
  - intros j Hj Hjk. unfold slot_of, getrow, getT, getZ. rewrite Hp, Hf, Ho, Hn, He.
    rewrite !getD_updZ_other by zl. reflexivity.
  - rewrite Hko. destruct (allow && _); auto.
Qed.

(* ---------------------------------------------------------------- add_new_sample *)
Lemma lenZ_firstnZ {X} (l : list X) k : 0 <= k <= lenZ l -> lenZ (firstnZ k l) = k.
Proof. unfold lenZ, firstnZ. intros. rewrite firstn_length. lia. Qed.
Lemma lenZ_map {X Y} (f : X -> Y) l : lenZ (map f l) = lenZ l.
Proof. unfold lenZ. now rewrite map_length. Qed.
Lemma lenZ_single {X} (x : X) : lenZ [x] = 1.
Proof. reflexivity. Qed.
Lemma getD_app_last {X} (d : X) l v k : lenZ l = k -> getD d (l ++ [v]) k = v.
Proof. intros <-. apply getD_app_r. Qed.
Lemma lenZ_nil_iff {X} (l : list X) : lenZ l = 0 <-> l = [].
Proof. unfold lenZ. destruct l; simpl; split; intros; try congruence; lia. Qed.
Definition nan2inf (v : vec) : vec := vmap (fun y_ => if isnan y_ then finf else y_) v.
(* the slot after one more sample r: weights t = c/(c+1), 1-t *)
Definition resampled (st : model_state) (s : slot) (r : vec) : slot :=
  let t := div (ofZ (sl_ns s)) (ofZ (sl_ns s + 1)) in
  let r' := vmap2 add (vmap (mul t) (sl_r s)) (vmap (mul (sub (ofZ 1) t)) r) in
  mk_slot (sl_x s) r' (obj_of st r' (vmap2 add (xbase st) (sl_x s))) (sl_ns s + 1) (sl_en s).

Theorem add_new_sample_slots st k r st' : wf st -> s_add_new_sample st k r = Ok (st', tt) ->
  wf st' /\ 0 <= k < npt_so_far st /\ npt_so_far st' = npt_so_far st /\ num_pts st' = num_pts st /\
  slot_of st' k = resampled st (slot_of st k) r /\
  (forall j, 0 <= j -> j <> k -> slot_of st' j = slot_of st j) /\
  kopt st' = np_argmin (nan2inf (firstnZ (npt_so_far st) (objval st'))) /\
  h st' = h st /\ scaling_changes st' = scaling_changes st /\ xbase st' = xbase st /\ objsave st' = objsave st.
Proof.
  dst st. intros W Hr. unfold s_add_new_sample, s_sumsq, s_npt, slot_of, resampled, obj_of, getrow, getT, getZ, sumsq in *. destruct W as [W1 W2 W3 W4 W5 W6 W7].
  fields. assert (Hmin: Z.min np_ sf_ = sf_) by lia. rewrite Hmin in *.
  destruct h_ as [hf|]; break_in Hr; injection Hr as <-; fields; rewrite ?Hmin; unfold nan2inf;
    apply negb_false_iff in E; apply andb_true_iff in E; destruct E as [E1 E2]; rewrite ?updZ_updZ in *;
    rewrite ?getD_updZ_same in * by zl.
  all: split; [constructor; fields; rewrite ?lenZ_updZ; auto; try lia;
    match goal with |- 0 <= np_argmin ?l < _ => assert (Hl: lenZ l = sf_);
      [unfold vmap; rewrite lenZ_map, lenZ_firstnZ; rewrite ?lenZ_updZ; zl|];
      assert (Hne: l <> []) by (intro Hn; apply lenZ_nil_iff in Hn; lia); pose proof (np_argmin_range l Hne); lia end|].
  all: repeat split; auto; try lia.
  all: try (rewrite ?getD_updZ_same by zl; reflexivity).
  all: intros j Hj Hjk; rewrite ?getD_updZ_other by zl; reflexivity.
Qed.

(* ---------------------------------------------------------------- add_new_point (model full: not in the growing phase) *)
Theorem add_new_point_slots st x r en st' : wf st -> npt_so_far st = num_pts st -> s_add_new_point st x r en = Ok (st', tt) ->
  wf st' /\ npt_so_far st' = npt_so_far st + 1 /\ num_pts st' = num_pts st + 1 /\
  slot_of st' (npt_so_far st) = fresh_slot st x r en /\
  (forall j, 0 <= j < npt_so_far st -> slot_of st' j = slot_of st j) /\
  kopt st' = (if lt (obj_of st r (vmap2 add (xbase st) x)) (getT (objval st) (kopt st)) then npt_so_far st else kopt st) /\
  h st' = h st /\ scaling_changes st' = scaling_changes st /\ xbase st' = xbase st /\ objsave st' = objsave st.
Proof.
  dst st. intros W Hfull Hr. unfold s_add_new_point, s_sumsq, s_objopt, s_npt, slot_of, fresh_slot, obj_of, getrow, getT, getZ, sumsq in *. destruct W as [W1 W2 W3 W4 W5 W6 W7].
  fields. assert (Hg: forall v, getD dflt (ov_ ++ [v]) ko_ = getD dflt ov_ ko_) by (intros; apply getD_app_l; zl).
  destruct h_ as [hf|]; rewrite !Hg in Hr; clear Hg; break_in Hr; injection Hr as <-; fields;
   repeat match goal with H : ?c = true |- context[if ?c then _ else _] => progress rewrite H
                        | H : ?c = false |- context[if ?c then _ else _] => progress rewrite H end.
  all: split; [constructor; fields; rewrite ?lenZ_app, ?lenZ_single; try zl|].
  all: repeat split; auto; try lia.
  all: try (rewrite !getD_app_last by zl; reflexivity).
  all: try (intros j Hj; rewrite ?getD_app_l by zl; reflexivity).
Qed.

(* ---------------------------------------------------------------- swap_points *)
Definition swap_idx (k1 k2 j : Z) : Z := if j =? k1 then k2 else if j =? k2 then k1 else j.
Lemma getD_swapZ {X} (d : X) l a b j : 0 <= a < lenZ l -> 0 <= b < lenZ l -> 0 <= j ->
  getD d (swapZ d l a b) j = getD d l (swap_idx a b j).
Proof.
  intros Ha Hb Hj. unfold swapZ, swap_idx.
  destruct (Z.eqb_spec j b) as [->|Hjb].
  - rewrite getD_updZ_same by (rewrite lenZ_updZ; lia). destruct (Z.eqb_spec b a); subst; auto.
  - rewrite getD_updZ_other by lia. destruct (Z.eqb_spec j a) as [->|Hja].
    + rewrite getD_updZ_same by lia. reflexivity.
    + rewrite getD_updZ_other by lia. reflexivity.
Qed.
Theorem swap_points_slots st k1 k2 st' : wf st -> 0 <= k1 < npt_so_far st -> 0 <= k2 < npt_so_far st ->
  s_swap_points st k1 k2 = Ok (st', tt) ->
  wf st' /\ npt_so_far st' = npt_so_far st /\ num_pts st' = num_pts st /\
  (forall j, 0 <= j -> slot_of st' j = slot_of st (swap_idx k1 k2 j)) /\
  kopt st = swap_idx k1 k2 (kopt st') /\
  h st' = h st /\ scaling_changes st' = scaling_changes st /\ xbase st' = xbase st /\ objsave st' = objsave st.
Proof.
  dst st. intros W H1 H2 Hr. unfold s_swap_points, slot_of, getrow, getT, getZ in *. destruct W as [W1 W2 W3 W4 W5 W6 W7].
  fields. break_in Hr; injection Hr as <-; fields.
  all: split; [constructor; fields; unfold swapZ; rewrite ?lenZ_updZ; auto; try lia|].
  all: repeat split; auto.
  all: try (intros j Hj; rewrite !getD_swapZ by zl; reflexivity).
  all: unfold swap_idx; repeat match goal with H : (_ =? _) = true |- _ => apply Z.eqb_eq in H | H : (_ =? _) = false |- _ => apply Z.eqb_neq in H end.
  all: repeat match goal with |- context[?a =? ?b] => destruct (Z.eqb_spec a b) end; try lia.
Qed.

(* ---------------------------------------------------------------- shift_base *)
Lemma for_loop_inv {C} (P : C -> Prop) l body (c c' : C) :
  (forall i c0 c1 b, In i l -> P c0 -> body i c0 = Ok (c1, b) -> P c1) -> P c -> for_loop l body c = Ok c' -> P c'.
Proof.
  revert c. induction l as [|i l IH]; intros c Hb Hc Hr; cbn [for_loop] in Hr.
  - injection Hr as <-. exact Hc.
  - destruct (body i c) as [[c1 [|]]|] eqn:E; try discriminate.
    + injection Hr as <-. eapply Hb; eauto. now left.
    + eapply IH; [| |exact Hr]. { intros; eapply Hb; eauto. now right. } eapply Hb; eauto. now left.
Qed.
(* everything except the coordinates (points, xbase, sl, su, model_const, cache flag) is untouched by a base shift *)
Definition same_book (st st' : model_state) : Prop :=
  fval_v st' = fval_v st /\ objval st' = objval st /\ nsamples st' = nsamples st /\ eval_num st' = eval_num st /\
  kopt st' = kopt st /\ npt_so_far st' = npt_so_far st /\ num_pts st' = num_pts st /\ h st' = h st /\
  scaling_changes st' = scaling_changes st /\ objsave st' = objsave st /\ xsave st' = xsave st /\ rsave st' = rsave st /\
  nsamples_save st' = nsamples_save st /\ eval_num_save st' = eval_num_save st /\ lenZ (points st') = lenZ (points st) /\
  model_jac st' = model_jac st /\ model_jac_eval_nums st' = model_jac_eval_nums st /\ jacsave st' = jacsave st /\ jacsave_eval_nums st' = jacsave_eval_nums st.
Theorem shift_base_book st s st' : s_shift_base st s = Ok (st', tt) -> same_book st st'.
Proof.
  unfold s_shift_base. cbv beta delta [bind].
  destruct (for_loop _ _ st) as [st1|] eqn:E; [|discriminate]. intros Hr. cbv zeta in Hr. injection Hr as <-.
  assert (H1: same_book st st1).
  { eapply (for_loop_inv (same_book st)); [| |exact E].
    - intros i c0 c1 b _ Hc Hb. cbv zeta in Hb. injection Hb as <- <-. unfold same_book in *. fields. rewrite lenZ_updZ. exact Hc.
    - unfold same_book. repeat split; reflexivity. }
  unfold same_book in *. fields. exact H1.
Qed.

(* the coordinate part of a base shift: base point and relative bounds move by s, the constant terms absorb J*s *)
Theorem shift_base_coords st s st' : s_shift_base st s = Ok (st', tt) ->
  xbase st' = vmap2 add (xbase st) s /\ sl st' = vmap2 sub (sl st) s /\ su st' = vmap2 sub (su st) s /\
  model_const st' = vmap2 add (model_const st) (matvec (model_jac st) s) /\ model_jac st' = model_jac st.
Proof.
  unfold s_shift_base. cbv beta delta [bind].
  destruct (for_loop _ _ st) as [st1|] eqn:E; [|discriminate]. intros Hr. cbv zeta in Hr. injection Hr as <-.
  pose (Q := fun st1 : model_state => xbase st1 = xbase st /\ sl st1 = sl st /\ su st1 = su st /\ model_const st1 = model_const st /\ model_jac st1 = model_jac st).
  assert (H1: Q st1).
  { eapply (for_loop_inv Q); [| |exact E].
    - intros i c0 c1 b _ Hc Hb. cbv zeta in Hb. injection Hb as <- <-. unfold Q in *. fields. exact Hc.
    - unfold Q. repeat split; reflexivity. }
  unfold Q in H1. destruct H1 as (H1 & H2 & H3 & H4 & H5). fields. rewrite H1, H2, H3, H4, H5. repeat split; reflexivity.
Qed.
Lemma same_book_wf st st' : same_book st st' -> wf st -> wf st'.
Proof.
  unfold same_book. intros (Hf & Ho & Hn & He & Hk & Hs & Hp & _ & _ & _ & _ & _ & _ & _ & Hl & _) W. destruct W.
  constructor; rewrite ?Hf, ?Ho, ?Hn, ?He, ?Hk, ?Hs, ?Hp, ?Hl; auto.
Qed.

(* ---------------------------------------------------------------- save_point / get_final_results *)
Definition better_or_first (cur : option T) (v : T) : bool :=
  match cur with None => true | Some s => le v s || (isnan s && negb (isnan v)) end.
Theorem save_point_fields st x r ns en abs st' b : s_save_point st x r ns en abs = Ok (st', b) ->
  let xa := if abs then x else s_as_absolute_coordinates st x in
  let v := obj_of st r xa in
  b = better_or_first (objsave st) v /\
  (b = true -> xsave st' = Some xa /\ rsave st' = Some r /\ objsave st' = Some v /\ nsamples_save st' = Some ns /\ eval_num_save st' = Some en /\
               jacsave st' = Some (model_jac st) /\ jacsave_eval_nums st' = model_jac_eval_nums st) /\
  (b = false -> st' = st) /\
  fval_v st' = fval_v st /\ objval st' = objval st /\ nsamples st' = nsamples st /\ eval_num st' = eval_num st /\ points st' = points st /\
  kopt st' = kopt st /\ npt_so_far st' = npt_so_far st /\ num_pts st' = num_pts st /\ h st' = h st /\ scaling_changes st' = scaling_changes st /\
  xbase st' = xbase st.
Proof.
  dst st. intros Hr. cbv zeta. unfold s_save_point, s_sumsq, obj_of, sumsq, better_or_first in *. fields.
  destruct h_ as [hf|]; destruct os_ as [s0|]; break_in Hr; injection Hr as <- <-; fields;
    repeat split; auto; try discriminate; try (destruct mje_; reflexivity).
Qed.

Theorem final_results_fields st st' x r o j ns en je : s_get_final_results st = Ok (st', (x, r, o, j, ns, en, je)) ->
  st' = st /\
  let use_inc := match objsave st with None => true | Some s => le (getT (objval st) (kopt st)) s || isnan s end in
  if use_inc then x = Some (s_xpt st (kopt st) true) /\ r = Some (getrow (fval_v st) (kopt st)) /\ o = Some (getT (objval st) (kopt st)) /\
                  ns = Some (getZ (nsamples st) (kopt st)) /\ en = Some (getZ (eval_num st) (kopt st)) /\ j = Some (model_jac st) /\ je = model_jac_eval_nums st
  else x = xsave st /\ r = rsave st /\ o = objsave st /\ ns = nsamples_save st /\ en = eval_num_save st /\ j = jacsave st /\ je = jacsave_eval_nums st.
Proof.
  dst st. intros Hr. unfold s_get_final_results, s_objopt, s_xopt, s_ropt in *. fields.
  destruct os_ as [s0|]; break_in Hr; injection Hr as <- <- <- <- <- <- <- <-; fields; repeat split; auto.
Qed.

(* ---------------------------------------------------------------- clause (a): every stored objective is sumsq(stored residual) + h(some point) *)
Definition obj_ok (st : model_state) (s : slot) : Prop := exists xa, sl_obj s = obj_of st (sl_r s) xa.
Definition ObjOk (st : model_state) : Prop := forall k, 0 <= k < npt_so_far st -> obj_ok st (slot_of st k).
Lemma obj_ok_ext st st' s : h st' = h st -> scaling_changes st' = scaling_changes st -> obj_ok st s -> obj_ok st' s.
Proof. intros Hh Hs [xa E]. exists xa. unfold obj_of in *. rewrite Hh, Hs. exact E. Qed.

(* ---------------------------------------------------------------- the machine: any sequence of updates *)
Inductive op :=
| OChange (k : Z) (x r : vec) (en : Z)          (* replace point k (or append while growing) *)
| OSwap (k1 k2 : Z)
| OSample (k : Z) (r : vec)                      (* one more sample at point k *)
| OAdd (x r : vec) (en : Z)                      (* append a point to a full model *)
| OShift (s : vec)                               (* base shift *)
| OSave (x r : vec) (ns en : Z) (abs : bool).    (* offer a point to the saved slot *)
Definition in_range (st : model_state) (k : Z) : bool := (0 <=? k) && (k <? npt_so_far st).
Definition step (st : model_state) (o : op) : res model_state :=
  match o with
  | OChange k x r en => bind (s_change_point st k x r en true) (fun p => Ok (fst p))
  | OSwap k1 k2 => if in_range st k1 && in_range st k2 then bind (s_swap_points st k1 k2) (fun p => Ok (fst p)) else Err IndexError
  | OSample k r => bind (s_add_new_sample st k r) (fun p => Ok (fst p))
  | OAdd x r en => if npt_so_far st =? num_pts st then bind (s_add_new_point st x r en) (fun p => Ok (fst p)) else Err OtherError
  | OShift sh => bind (s_shift_base st sh) (fun p => Ok (fst p))
  | OSave x r ns en abs => bind (s_save_point st x r ns en abs) (fun p => Ok (fst p))
  end.
Fixpoint run (ops : list op) (st : model_state) : res model_state :=
  match ops with [] => Ok st | o :: ops' => bind (step st o) (run ops') end.

Ltac step_cases Hs :=
  match type of Hs with step _ ?o = Ok _ => destruct o as [k x r en|k1 k2|k r|x r en|sh|x r ns en ab] end;
  cbn [step] in Hs; unfold bind in Hs;
  repeat match type of Hs with
   | context[if ?c then _ else _] => let E := fresh "Eg" in destruct c eqn:E; [|discriminate Hs]
   | context[match ?c with Ok _ => _ | Err _ => _ end] => let E := fresh "Eo" in destruct c as [[? []]|] eqn:E; [|discriminate Hs]
   | context[match ?c with Ok _ => _ | Err _ => _ end] => let E := fresh "Eo" in destruct c as [[? ?]|] eqn:E; [|discriminate Hs]
   end; cbn [fst] in Hs; injection Hs as <-.

Lemma in_range_spec st k : in_range st k = true <-> 0 <= k < npt_so_far st.
Proof. unfold in_range. rewrite andb_true_iff, Z.leb_le, Z.ltb_lt. tauto. Qed.

Theorem step_wf st o st' : wf st -> step st o = Ok st' -> wf st'.
Proof.
  intros W Hs. step_cases Hs.
  - exact (proj1 (change_point_slots _ _ _ _ _ _ _ W Eo)).
  - apply andb_true_iff in Eg as [G1 G2]. apply in_range_spec in G1, G2. exact (proj1 (swap_points_slots _ _ _ _ W G1 G2 Eo)).
  - exact (proj1 (add_new_sample_slots _ _ _ _ W Eo)).
  - apply Z.eqb_eq in Eg. exact (proj1 (add_new_point_slots _ _ _ _ _ W Eg Eo)).
  - eapply same_book_wf; eauto. eapply shift_base_book; eauto.
  - pose proof (save_point_fields _ _ _ _ _ _ _ _ Eo) as F. cbv zeta in F.
    destruct F as (_ & _ & _ & Hf & Ho & Hn & He & Hp & Hk & Hs & Hnp & _). destruct W.
    constructor; rewrite ?Hf, ?Ho, ?Hn, ?He, ?Hp, ?Hk, ?Hs, ?Hnp; auto.
Qed.
Theorem run_wf ops : forall st st', wf st -> run ops st = Ok st' -> wf st'.
Proof.
  induction ops as [|o ops IH]; intros st st' W Hr; cbn [run] in Hr.
  - injection Hr as <-. exact W.
  - unfold bind in Hr. destruct (step st o) as [st1|] eqn:E; [|discriminate]. eapply IH; [|exact Hr]. eapply step_wf; eauto.
Qed.

(* clause (a) for every reachable state *)
Theorem step_ObjOk st o st' : wf st -> ObjOk st -> step st o = Ok st' -> ObjOk st'.
Proof.
  intros W HO Hs. pose proof (step_wf _ _ _ W Hs) as W'. step_cases Hs.
  - destruct (change_point_slots _ _ _ _ _ _ _ W Eo) as (_ & Hk & Hoth & _).
    pose proof (cp_fields _ _ _ _ _ _ _ W Eo) as F. cbv zeta in F. destruct F as (Hkr & Hsf & _ & Hgrow & _ & _ & _ & _ & _ & Hh & Hsc & _).
    intros j Hj. destruct (Z.eq_dec j k) as [->|Hjk].
    + rewrite Hk. eapply obj_ok_ext; [exact Hh|exact Hsc|]. eexists. reflexivity.
    + rewrite Hoth by lia. eapply obj_ok_ext; [exact Hh|exact Hsc|]. apply HO. lia.
  - apply andb_true_iff in Eg as [G1 G2]. apply in_range_spec in G1, G2.
    destruct (swap_points_slots _ _ _ _ W G1 G2 Eo) as (_ & Hsf & _ & Hsl & _ & Hh & Hsc & _).
    intros j Hj. rewrite Hsl by lia. eapply obj_ok_ext; [exact Hh|exact Hsc|]. apply HO.
    unfold swap_idx. destruct (j =? k1); [lia|]. destruct (j =? k2); lia.
  - destruct (add_new_sample_slots _ _ _ _ W Eo) as (_ & Hk & Hsf & _ & Hkk & Hoth & _ & Hh & Hsc & _).
    intros j Hj. destruct (Z.eq_dec j k) as [->|Hjk].
    + rewrite Hkk. eapply obj_ok_ext; [exact Hh|exact Hsc|]. eexists. reflexivity.
    + rewrite Hoth by lia. eapply obj_ok_ext; [exact Hh|exact Hsc|]. apply HO. lia.
  - apply Z.eqb_eq in Eg.
    destruct (add_new_point_slots _ _ _ _ _ W Eg Eo) as (_ & Hsf & _ & Hnew & Hold & _ & Hh & Hsc & _).
    intros j Hj. destruct (Z.eq_dec j (npt_so_far st)) as [->|Hjk].
    + rewrite Hnew. eapply obj_ok_ext; [exact Hh|exact Hsc|]. eexists. reflexivity.
    + rewrite Hold by lia. eapply obj_ok_ext; [exact Hh|exact Hsc|]. apply HO. lia.
  - pose proof (shift_base_book _ _ _ Eo) as B. unfold same_book in B.
    destruct B as (Hf & Hov & Hn & He & Hk & Hs & Hp & Hh & Hsc & _).
    intros j Hj. rewrite Hs in Hj. destruct (HO j Hj) as [xa E]. exists xa.
    unfold slot_of, obj_of in *. cbn [sl_obj sl_r] in *. rewrite Hf, Hov, Hh, Hsc. exact E.
  - pose proof (save_point_fields _ _ _ _ _ _ _ _ Eo) as F. cbv zeta in F.
    destruct F as (_ & _ & _ & Hf & Hov & Hn & He & Hp & Hk & Hs & Hnp & Hh & Hsc & _).
    intros j Hj. rewrite Hs in Hj. destruct (HO j Hj) as [xa E]. exists xa.
    unfold slot_of, obj_of in *. cbn [sl_obj sl_r] in *. rewrite Hf, Hov, Hh, Hsc. exact E.
Qed.
Theorem run_ObjOk ops : forall st st', wf st -> ObjOk st -> run ops st = Ok st' -> ObjOk st'.
Proof.
  induction ops as [|o ops IH]; intros st st' W HO Hr; cbn [run] in Hr.
  - injection Hr as <-. exact HO.
  - unfold bind in Hr. destruct (step st o) as [st1|] eqn:E; [|discriminate].
    eapply IH; [| |exact Hr]. eapply step_wf; eauto. eapply step_ObjOk; eauto.
Qed.

Section Ord.
  Context `{L : !OrdLaws A}.
  (* on a list without NaN, argmin returns an index whose value is <= every entry *)
  Lemma argmin_from_min l : forall i best bi pre,
      Forall (fun y => isnan y = false) l -> isnan best = false ->
      lenZ pre = i -> 0 <= bi < i -> getD dflt pre bi = best ->
      Forall (fun y => le best y = true) pre ->
      let r := argmin_from l i best bi in
      Forall (fun y => le (getD dflt (pre ++ l) r) y = true) (pre ++ l).
  Proof.
    induction l as [|a l IH]; intros i best bi pre Hn Hb Hlen Hbi Hget Hall; cbn [argmin_from].
    - rewrite app_nil_r. rewrite Hget. exact Hall.
    - apply Forall_cons_iff in Hn as [Ha Hn']. rewrite Hb. cbn [orb]. rewrite Ha. cbn [orb].
      replace (pre ++ a :: l) with ((pre ++ [a]) ++ l) by (rewrite <- app_assoc; reflexivity).
      destruct (lt a best) eqn:E.
      + apply IH; auto.
        * rewrite lenZ_app. unfold lenZ at 2. simpl. lia.
        * pose proof (lenZ_nonneg pre). lia.
        * rewrite <- Hlen. apply getD_app_r.
        * apply Forall_app; split.
          -- eapply Forall_impl; [|exact Hall]. cbn. intros y Hy. eapply le_trans_nn; [|exact Hy]. now apply lt_le_nn.
          -- constructor; [|constructor]. now apply le_refl_nn.
      + apply IH; auto.
        * rewrite lenZ_app. unfold lenZ at 2. simpl. lia.
        * lia.
        * rewrite getD_app_l by lia. exact Hget.
        * apply Forall_app; split; auto. constructor; [|constructor]. now apply nlt_le_nn.
  Qed.
  Lemma np_argmin_min l : l <> [] -> Forall (fun y => isnan y = false) l ->
    Forall (fun y => le (getD dflt l (np_argmin l)) y = true) l.
  Proof.
    destruct l as [|a l]; [congruence|]. intros _ Hn. apply Forall_cons_iff in Hn as [Ha Hn']. unfold np_argmin.
    apply (argmin_from_min l 1 a 0 [a]); auto; try (unfold lenZ; simpl; lia).
    constructor; [|constructor]. now apply le_refl_nn.
  Qed.

  (* ---------------------------------------------------------------- clause (d): the incumbent designates the smallest stored objective *)
  Definition objv (st : model_state) (k : Z) : T := getT (objval st) k.
  Definition KoptMin (st : model_state) : Prop :=
    isnan (objv st (kopt st)) = false ->
    forall j, 0 <= j < npt_so_far st -> isnan (objv st j) = false -> le (objv st (kopt st)) (objv st j) = true.
  (* the one way to break it: overwriting the incumbent itself with a worse (or NaN) value *)
  Definition taints (st : model_state) (o : op) : bool :=
    match o with
    | OChange k x r en => (k =? kopt st) && negb (le (obj_of st r (vmap2 add (xbase st) x)) (objv st (kopt st)))
    | _ => false
    end.

  Lemma sl_obj_objv st k : sl_obj (slot_of st k) = objv st k. Proof. reflexivity. Qed.
  Lemma slot_objv st st' j j' : slot_of st' j = slot_of st j' -> objv st' j = objv st j'.
  Proof. intros E. rewrite <- !sl_obj_objv, E. reflexivity. Qed.

  Lemma nan2inf_nonnan l : Forall (fun y => isnan y = false) (nan2inf l).
  Proof.
    unfold nan2inf, vmap. apply Forall_forall. intros y Hy. apply in_map_iff in Hy as (z & <- & _).
    destruct (isnan z) eqn:E; auto. apply finf_nn.
  Qed.
  Lemma lenZ_nan2inf l : lenZ (nan2inf l) = lenZ l.
  Proof. unfold nan2inf, vmap. apply lenZ_map. Qed.
  Lemma getD_nan2inf l j : 0 <= j < lenZ l -> isnan (getD dflt l j) = false -> getD dflt (nan2inf l) j = getD dflt l j.
  Proof.
    intros Hj Hn. unfold nan2inf, vmap, getD in *. set (F := fun y_ : T => if isnan y_ then finf else y_).
    rewrite (nth_indep (map F l) dflt (F dflt)) by (rewrite map_length; unfold lenZ in Hj; lia).
    rewrite map_nth. unfold F. rewrite Hn. reflexivity.
  Qed.
  Lemma getD_firstnZ {X} (d : X) l n j : 0 <= j < n -> getD d (firstnZ n l) j = getD d l j.
  Proof.
    intros Hj. unfold getD, firstnZ. revert l. generalize (Z.to_nat j) (Z.to_nat n) (Z2Nat.inj_lt j n ltac:(lia) ltac:(lia)).
    intros a b Hab. assert (Hlt: (a < b)%nat) by (apply Hab; lia). clear Hab Hj. revert a Hlt.
    induction b; intros a Hlt l; [lia|]. destruct l; cbn [firstn]; [destruct a; reflexivity|]. destruct a; [reflexivity|]. cbn [nth]. apply IHb. lia.
  Qed.

  (* add_new_sample re-establishes the clause outright *)
  Theorem sample_KoptMin st k r st' : wf st -> s_add_new_sample st k r = Ok (st', tt) -> KoptMin st'.
  Proof.
    intros W Hr. destruct (add_new_sample_slots _ _ _ _ W Hr) as (W' & Hk & Hsf & Hnp & _ & _ & Hko & _).
    set (l := firstnZ (npt_so_far st) (objval st')) in *.
    assert (Hlen: lenZ l = npt_so_far st) by (unfold l; apply lenZ_firstnZ; destruct W'; zl).
    assert (Hne: nan2inf l <> []) by (intro Hn; apply lenZ_nil_iff in Hn; rewrite lenZ_nan2inf in Hn; lia).
    pose proof (np_argmin_min _ Hne (nan2inf_nonnan l)) as Hmin.
    pose proof (np_argmin_range _ Hne) as Hrg. rewrite lenZ_nan2inf in Hrg. rewrite <- Hko in *.
    intros Hnn j Hj Hjn. rewrite Hsf in Hj. unfold objv in *.
    assert (E1: getD dflt (nan2inf l) (kopt st') = getT (objval st') (kopt st')).
    { rewrite getD_nan2inf; unfold l; rewrite ?getD_firstnZ by lia; auto; fold l; lia. }
    assert (E2: getD dflt (nan2inf l) j = getT (objval st') j).
    { rewrite getD_nan2inf; unfold l; rewrite ?getD_firstnZ by lia; auto; fold l; lia. }
    rewrite Forall_forall in Hmin. rewrite <- E1, <- E2. apply Hmin.
    unfold getD. apply nth_In. pose proof (lenZ_nan2inf l) as Hl2. unfold lenZ in Hl2, Hlen. lia.
  Qed.

  Theorem step_KoptMin st o st' : wf st -> KoptMin st -> taints st o = false -> step st o = Ok st' -> KoptMin st'.
  Proof.
    intros W HK Ht Hs. step_cases Hs.
    - (* change_point *)
      destruct (change_point_slots _ _ _ _ _ _ _ W Eo) as (W' & Hkk & Hoth & _).
      pose proof (cp_fields _ _ _ _ _ _ _ W Eo) as F. cbv zeta in F.
      destruct F as (Hkr & Hsf & _ & Hgrow & _ & _ & Hov & _ & _ & _ & _ & _ & _ & _ & _ & _ & _ & Hko).
      set (v := obj_of st r (vmap2 add (xbase st) x)) in *.
      assert (Hvk: objv m k = v) by (rewrite <- sl_obj_objv, Hkk; reflexivity).
      assert (Hother: forall j, 0 <= j -> j <> k -> objv m j = objv st j) by (intros; apply slot_objv; auto).
      cbn [taints] in Ht. fold v in Ht. cbn [andb] in Hko. fold (objv m (kopt st)) in Hko.
      destruct (Z.eq_dec k (kopt st)) as [Hkeq|Hkne].
      + (* overwriting the incumbent: allowed only with a value that is not worse *)
        subst k. rewrite Z.eqb_refl in Ht. cbn [andb] in Ht. apply negb_false_iff in Ht.
        assert (Hko': kopt m = kopt st) by (rewrite Hko; destruct (lt _ _); reflexivity).
        intros Hnn j Hj Hjn. rewrite Hko' in Hnn |- *. rewrite Hvk in Hnn |- *.
        destruct (Z.eq_dec j (kopt st)) as [->|Hjk]; [rewrite Hvk; now apply le_refl_nn|].
        rewrite Hother in Hjn |- * by lia. eapply le_trans_nn; [exact Ht|].
        destruct (le_true_nonnan _ _ Ht) as [_ Hon]. apply HK; auto. destruct W; lia.
      + rewrite (Hother (kopt st)) in Hko by (destruct W; lia).
        destruct (lt v (objv st (kopt st))) eqn:Elt.
        * (* the new point becomes the incumbent *)
          intros Hnn j Hj Hjn. rewrite Hko in Hnn |- *. rewrite Hvk in Hnn |- *.
          destruct (Z.eq_dec j k) as [->|Hjk]; [rewrite Hvk; now apply le_refl_nn|].
          rewrite Hother in Hjn |- * by lia. destruct (lt_true_nonnan _ _ Elt) as [_ Hon].
          eapply le_trans_nn; [apply lt_le_nn; exact Elt|]. apply HK; auto. destruct Hgrow as [[? ?]|[? ?]]; lia.
        * intros Hnn j Hj Hjn. rewrite Hko in Hnn |- *. rewrite Hother in Hnn |- * by (destruct W; lia).
          destruct (Z.eq_dec j k) as [->|Hjk].
          -- rewrite Hvk in Hjn |- *. apply nlt_le_nn; auto.
          -- rewrite Hother in Hjn |- * by lia. apply HK; auto. destruct Hgrow as [[? ?]|[? ?]]; lia.
    - (* swap *)
      apply andb_true_iff in Eg as [G1 G2]. apply in_range_spec in G1, G2.
      destruct (swap_points_slots _ _ _ _ W G1 G2 Eo) as (W' & Hsf & _ & Hsl & Hko & _).
      assert (Hrange: forall j, 0 <= j < npt_so_far st -> 0 <= swap_idx k1 k2 j < npt_so_far st)
        by (intros j Hj; unfold swap_idx; destruct (j =? k1); [lia|]; destruct (j =? k2); lia).
      intros Hnn j Hj Hjn. rewrite Hsf in Hj.
      rewrite (slot_objv _ _ _ _ (Hsl j ltac:(lia))) in *.
      rewrite (slot_objv _ _ _ _ (Hsl (kopt m) ltac:(destruct W'; lia))) in *. rewrite <- Hko in *.
      apply HK; auto.
    - eapply sample_KoptMin; eauto.
    - (* add_new_point *)
      apply Z.eqb_eq in Eg.
      destruct (add_new_point_slots _ _ _ _ _ W Eg Eo) as (W' & Hsf & _ & Hnew & Hold & Hko & _).
      set (v := obj_of st r (vmap2 add (xbase st) x)) in *. fold (objv st (kopt st)) in Hko.
      assert (Hvk: objv m (npt_so_far st) = v) by (rewrite <- sl_obj_objv, Hnew; reflexivity).
      assert (Hother: forall j, 0 <= j < npt_so_far st -> objv m j = objv st j) by (intros; apply slot_objv; auto).
      destruct (lt v (objv st (kopt st))) eqn:Elt; intros Hnn j Hj Hjn; rewrite Hko in Hnn |- *.
      + rewrite Hvk in Hnn |- *. destruct (Z.eq_dec j (npt_so_far st)) as [->|Hjk]; [rewrite Hvk; now apply le_refl_nn|].
        rewrite Hother in Hjn |- * by lia. destruct (lt_true_nonnan _ _ Elt) as [_ Hon].
        eapply le_trans_nn; [apply lt_le_nn; exact Elt|]. apply HK; auto. lia.
      + rewrite Hother in Hnn |- * by (destruct W; lia).
        destruct (Z.eq_dec j (npt_so_far st)) as [->|Hjk].
        * rewrite Hvk in Hjn |- *. apply nlt_le_nn; auto.
        * rewrite Hother in Hjn |- * by lia. apply HK; auto. lia.
    - pose proof (shift_base_book _ _ _ Eo) as B. unfold same_book in B.
      destruct B as (_ & Hov & _ & _ & Hk & Hs & _). unfold KoptMin, objv in *. rewrite Hov, Hk, Hs. exact HK.
    - pose proof (save_point_fields _ _ _ _ _ _ _ _ Eo) as F. cbv zeta in F.
      destruct F as (_ & _ & _ & _ & Hov & _ & _ & _ & Hk & Hs & _). unfold KoptMin, objv in *. rewrite Hov, Hk, Hs. exact HK.
  Qed.

  (* every reachable state: along any sequence of updates none of which overwrites the incumbent with a worse value *)
  Fixpoint run_untainted (ops : list op) (st : model_state) : Prop :=
    match ops with [] => True | o :: ops' => taints st o = false /\ match step st o with Ok st1 => run_untainted ops' st1 | Err _ => True end end.
  Theorem run_KoptMin ops : forall st st', wf st -> KoptMin st -> run_untainted ops st -> run ops st = Ok st' -> KoptMin st'.
  Proof.
    induction ops as [|o ops IH]; intros st st' W HK HU Hr; cbn [run] in Hr.
    - injection Hr as <-. exact HK.
    - unfold bind in Hr. cbn [run_untainted] in HU. destruct HU as [Ht HU].
      destruct (step st o) as [st1|] eqn:E; [|discriminate].
      eapply IH; [| | exact HU | exact Hr]. eapply step_wf; eauto. eapply step_KoptMin; eauto.
  Qed.

  (* ---------------------------------------------------------------- clause (e): saved slot and final selection *)
  (* "b is at least as good as a": not NaN unless a is NaN, and <= a *)
  Definition noworse (b a : T) : Prop := isnan a = false -> isnan b = false /\ le b a = true.
  Lemma noworse_refl a : noworse a a.
  Proof. intros H. split; auto. now apply le_refl_nn. Qed.
  Lemma noworse_trans c b a : noworse c b -> noworse b a -> noworse c a.
  Proof. intros H1 H2 Ha. destruct (H2 Ha) as [Hb Hba]. destruct (H1 Hb) as [Hc Hcb]. split; auto. eapply le_trans_nn; eauto. Qed.

  Theorem save_point_best st x r ns en ab st' b : s_save_point st x r ns en ab = Ok (st', b) ->
    let v := obj_of st r (if ab then x else s_as_absolute_coordinates st x) in
    exists s', objsave st' = Some s' /\ noworse s' v /\ (forall s, objsave st = Some s -> noworse s' s).
  Proof.
    intros Hr. pose proof (save_point_fields _ _ _ _ _ _ _ _ Hr) as F. cbv zeta in *.
    destruct F as (Hb & Htrue & Hfalse & _).
    set (v := obj_of st r (if ab then x else s_as_absolute_coordinates st x)) in *.
    destruct b.
    - destruct (Htrue eq_refl) as (_ & _ & Hs & _). exists v. split; [exact Hs|]. split; [apply noworse_refl|].
      intros s Es. rewrite Es in Hb. cbn [better_or_first] in Hb. symmetry in Hb. apply orb_true_iff in Hb as [Hle|Hn].
      + intros Hsn. split; auto. apply (le_true_nonnan _ _ Hle).
      + apply andb_true_iff in Hn as [Hn _]. intros Hsn. congruence.
    - rewrite (Hfalse eq_refl). destruct (objsave st) as [s|] eqn:Es; [|discriminate Hb].
      exists s. split; auto. cbn [better_or_first] in Hb. symmetry in Hb. apply orb_false_iff in Hb as [Hle Hn].
      split; [|intros s0 E0; injection E0 as <-; apply noworse_refl].
      intros Hv. destruct (isnan s) eqn:Esn.
      + cbn [andb] in Hn. rewrite Hv in Hn. discriminate.
      + split; auto. apply nle_lt_nn in Hle; auto. now apply lt_le_nn.
  Qed.

  Theorem final_results_best st st' x r o j ns en je : s_get_final_results st = Ok (st', (x, r, o, j, ns, en, je)) ->
    exists v, o = Some v /\ noworse v (objv st (kopt st)) /\ (forall s, objsave st = Some s -> noworse v s).
  Proof.
    intros Hr. destruct (final_results_fields _ _ _ _ _ _ _ _ _ Hr) as [_ F]. cbv zeta in F. fold (objv st (kopt st)) in F.
    destruct (objsave st) as [s|] eqn:Es.
    - destruct (le (objv st (kopt st)) s || isnan s) eqn:E.
      + destruct F as (_ & _ & -> & _). eexists; split; [reflexivity|]. split; [apply noworse_refl|].
        intros s0 E0; injection E0 as <-. apply orb_true_iff in E as [Hle|Hn].
        * intros Hsn. split; auto. apply (le_true_nonnan _ _ Hle).
        * intros Hsn; congruence.
      + destruct F as (_ & _ & -> & _). apply orb_false_iff in E as [Hle Hn]. exists s. split; auto.
        split; [|intros s0 E0; injection E0 as <-; apply noworse_refl].
        intros Hon. split; auto. apply nle_lt_nn in Hle; auto. now apply lt_le_nn.
    - destruct F as (_ & _ & -> & _). eexists; split; [reflexivity|]. split; [apply noworse_refl|]. intros s0 E0; discriminate.
  Qed.

  (* ---------------------------------------------------------------- C04: no offered value is ever lost *)
  (* v is covered: the final answer can only be at least as good as v *)
  Definition covers (st : model_state) (v : T) : Prop :=
    noworse (objv st (kopt st)) v \/ exists s, objsave st = Some s /\ noworse s v.
  Definition inc_saved (st : model_state) : Prop := exists s, objsave st = Some s /\ noworse s (objv st (kopt st)).
  (* admissible updates for a deterministic run without averaging: no re-sampling; the incumbent's own slot is
     overwritten only after the incumbent was saved, and then with a non-NaN value *)
  Definition admissible (st : model_state) (o : op) : Prop :=
    match o with
    | OSample _ _ => False
    | OChange k x r en => k <> kopt st \/ (inc_saved st /\ isnan (obj_of st r (vmap2 add (xbase st) x)) = false)
                          \/ (isnan (obj_of st r (vmap2 add (xbase st) x)) = false /\
                              le (obj_of st r (vmap2 add (xbase st) x)) (objv st (kopt st)) = true)   (* improving overwrite *)
    | _ => True
    end.
  (* the value an update offers *)
  Definition offered (st : model_state) (o : op) : option T :=
    match o with
    | OChange k x r en => Some (obj_of st r (vmap2 add (xbase st) x))
    | OAdd x r en => Some (obj_of st r (vmap2 add (xbase st) x))
    | OSave x r ns en ab => Some (obj_of st r (if ab then x else s_as_absolute_coordinates st x))
    | _ => None
    end.
  Definition IncOK (st : model_state) : Prop := isnan (objv st (kopt st)) = false.

  Lemma covers_final st v st' x r o j ns en je : covers st v -> s_get_final_results st = Ok (st', (x, r, o, j, ns, en, je)) ->
    exists res, o = Some res /\ noworse res v.
  Proof.
    intros Hc Hr. destruct (final_results_best _ _ _ _ _ _ _ _ _ Hr) as (res & -> & Hinc & Hsav).
    exists res. split; auto. destruct Hc as [Hc|(s & Es & Hc)].
    - eapply noworse_trans; eauto.
    - eapply noworse_trans; [apply Hsav; exact Es|exact Hc].
  Qed.

  Theorem step_covers st o st' v : wf st -> IncOK st -> admissible st o -> step st o = Ok st' ->
    IncOK st' /\ (covers st v -> covers st' v) /\ (forall w, offered st o = Some w -> covers st' w).
  Proof.
    intros W HI Ha Hs. unfold IncOK, covers in *. step_cases Hs.
    - (* change_point *)
      destruct (change_point_slots _ _ _ _ _ _ _ W Eo) as (W' & Hkk & Hoth & _).
      pose proof (cp_fields _ _ _ _ _ _ _ W Eo) as F. cbv zeta in F.
      destruct F as (Hkr & Hsf & _ & Hgrow & _ & _ & Hov & _ & _ & _ & _ & _ & Hos & _ & _ & _ & _ & Hko).
      set (w := obj_of st r (vmap2 add (xbase st) x)) in *.
      assert (Hvk: objv m k = w) by (rewrite <- sl_obj_objv, Hkk; reflexivity).
      assert (Hother: forall j, 0 <= j -> j <> k -> objv m j = objv st j) by (intros; apply slot_objv; auto).
      cbn [andb] in Hko. fold (objv m (kopt st)) in Hko. cbn [admissible] in Ha. fold w in Ha.
      destruct (Z.eq_dec k (kopt st)) as [Hkeq|Hkne].
      + destruct Ha as [Ha|[[(s & Es & Hs) Hwn]|[Hwn Hle]]]; [congruence| |].
        * subst k. assert (Hko': kopt m = kopt st) by (rewrite Hko; destruct (lt _ _); reflexivity).
          rewrite Hko', Hvk. split; [exact Hwn|]. split.
          -- intros [Hc|(s0 & Es0 & Hc)]; right; exists s; rewrite Hos; split; auto.
             ++ eapply noworse_trans; eauto.
             ++ rewrite Es in Es0. injection Es0 as <-. exact Hc.
          -- intros w0 Hw0. cbn [offered] in Hw0. injection Hw0 as <-. left. apply noworse_refl.
        * subst k. assert (Hko': kopt m = kopt st) by (rewrite Hko; destruct (lt _ _); reflexivity).
          rewrite Hko', Hvk. split; [exact Hwn|]. split.
          -- intros [Hc|(s0 & Es0 & Hc)]; [left|right; exists s0; rewrite Hos; auto].
             eapply noworse_trans; [|exact Hc]. intros _. split; auto.
          -- intros w0 Hw0. cbn [offered] in Hw0. injection Hw0 as <-. left. apply noworse_refl.
      + rewrite (Hother (kopt st)) in Hko by (destruct W; lia).
        destruct (lt w (objv st (kopt st))) eqn:Elt; rewrite Hko.
        * destruct (lt_true_nonnan _ _ Elt) as [Hwn _]. rewrite Hvk. split; [exact Hwn|]. split.
          -- intros [Hc|(s0 & Es0 & Hc)]; [left|right; exists s0; rewrite Hos; auto].
             eapply noworse_trans; [|exact Hc]. intros _. split; auto. now apply lt_le_nn.
          -- intros w0 Hw0. cbn [offered] in Hw0. injection Hw0 as <-. left. apply noworse_refl.
        * rewrite Hother by (destruct W; lia). split; [exact HI|]. split.
          -- intros [Hc|(s0 & Es0 & Hc)]; [left; exact Hc|right; exists s0; rewrite Hos; auto].
          -- intros w0 Hw0. cbn [offered] in Hw0. injection Hw0 as <-. left.
             intros Hwn. split; auto. apply nlt_le_nn; auto.
    - (* swap *)
      apply andb_true_iff in Eg as [G1 G2]. apply in_range_spec in G1, G2.
      destruct (swap_points_slots _ _ _ _ W G1 G2 Eo) as (W' & Hsf & _ & Hsl & Hko & _ & _ & _ & Hos).
      assert (E: objv m (kopt m) = objv st (kopt st)) by (rewrite (slot_objv _ _ _ _ (Hsl (kopt m) ltac:(destruct W'; lia))), <- Hko; reflexivity).
      rewrite E. split; [exact HI|]. split; [|intros w0 Hw0; discriminate].
      intros [Hc|(s0 & Es0 & Hc)]; [left; exact Hc|right; exists s0; rewrite Hos; auto].
    - destruct Ha.
    - (* add_new_point *)
      apply Z.eqb_eq in Eg.
      destruct (add_new_point_slots _ _ _ _ _ W Eg Eo) as (W' & Hsf & _ & Hnew & Hold & Hko & _ & _ & _ & Hos).
      set (w := obj_of st r (vmap2 add (xbase st) x)) in *. fold (objv st (kopt st)) in Hko.
      assert (Hvk: objv m (npt_so_far st) = w) by (rewrite <- sl_obj_objv, Hnew; reflexivity).
      assert (Hother: forall j, 0 <= j < npt_so_far st -> objv m j = objv st j) by (intros; apply slot_objv; auto).
      destruct (lt w (objv st (kopt st))) eqn:Elt; rewrite Hko.
      + destruct (lt_true_nonnan _ _ Elt) as [Hwn _]. rewrite Hvk. split; [exact Hwn|]. split.
        * intros [Hc|(s0 & Es0 & Hc)]; [left|right; exists s0; rewrite Hos; auto].
          eapply noworse_trans; [|exact Hc]. intros _. split; auto. now apply lt_le_nn.
        * intros w0 Hw0. cbn [offered] in Hw0. injection Hw0 as <-. left. apply noworse_refl.
      + rewrite Hother by (destruct W; lia). split; [exact HI|]. split.
        * intros [Hc|(s0 & Es0 & Hc)]; [left; exact Hc|right; exists s0; rewrite Hos; auto].
        * intros w0 Hw0. cbn [offered] in Hw0. injection Hw0 as <-. left.
          intros Hwn. split; auto. apply nlt_le_nn; auto.
    - (* shift *)
      pose proof (shift_base_book _ _ _ Eo) as B. unfold same_book in B.
      destruct B as (_ & Hov & _ & _ & Hk & _ & _ & _ & _ & Hos & _). unfold covers, objv in *. rewrite Hov, Hk, Hos.
      split; [exact HI|]. split; auto. intros w0 Hw0; discriminate.
    - (* save *)
      pose proof (save_point_best _ _ _ _ _ _ _ _ Eo) as (s' & Es' & Hnew & Hold).
      pose proof (save_point_fields _ _ _ _ _ _ _ _ Eo) as F. cbv zeta in F.
      destruct F as (_ & _ & _ & _ & Hov & _ & _ & _ & Hk & _). unfold covers, objv in *. rewrite Hov, Hk.
      split; [exact HI|]. split.
      + intros [Hc|(s0 & Es0 & Hc)]; [left; exact Hc|right; exists s'; split; auto]. eapply noworse_trans; [apply Hold; exact Es0|exact Hc].
      + intros w0 Hw0. cbn [offered] in Hw0. injection Hw0 as <-. right. exists s'. split; auto.
  Qed.

  (* every value offered along any admissible history stays covered until the end *)
  Fixpoint run_admissible (ops : list op) (st : model_state) : Prop :=
    match ops with [] => True | o :: ops' => admissible st o /\ match step st o with Ok st1 => run_admissible ops' st1 | Err _ => True end end.
  Fixpoint offered_along (ops : list op) (st : model_state) : list T :=
    match ops with [] => [] | o :: ops' =>
      (match offered st o with Some w => [w] | None => [] end) ++ match step st o with Ok st1 => offered_along ops' st1 | Err _ => [] end end.
  Theorem run_covers ops : forall st st', wf st -> IncOK st -> run_admissible ops st -> run ops st = Ok st' ->
    IncOK st' /\ (forall v, covers st v -> covers st' v) /\ (forall w, In w (offered_along ops st) -> covers st' w).
  Proof.
    induction ops as [|o ops IH]; intros st st' W HI HA Hr; cbn [run] in Hr.
    - injection Hr as <-. cbn. repeat split; auto. intros w [].
    - unfold bind in Hr. cbn [run_admissible] in HA. destruct HA as [Ha HA]. cbn [offered_along].
      destruct (step st o) as [st1|] eqn:E; [|discriminate].
      pose proof (step_wf _ _ _ W E) as W1.
      destruct (step_covers st o st1 (objv st (kopt st)) W HI Ha E) as (HI1 & _ & Hoff).
      destruct (IH st1 st' W1 HI1 HA Hr) as (HI' & Hkeep & Hnew). split; [exact HI'|]. split.
      + intros v Hv. apply Hkeep. destruct (step_covers st o st1 v W HI Ha E) as (_ & Hk & _). auto.
      + intros w Hw. apply in_app_or in Hw as [Hw|Hw]; [|apply Hnew; exact Hw].
        destruct (offered st o) as [w0|] eqn:Eof; [|destruct Hw]. destruct Hw as [<-|[]]. apply Hkeep. apply Hoff. reflexivity.
  Qed.
End Ord.
End Book.
