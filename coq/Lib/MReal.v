(* DV.Lib.MReal -- the two facts about model.py that are statements of exact real arithmetic:
   (1) the running average kept by add_new_sample is the arithmetic mean of the samples;
   (2) a base shift does not move any interpolation point in absolute coordinates. *)
From Coq Require Import ZArith List Bool Lia Reals Lra.
Require Import DV.Base.Prelude DV.Base.F64 DV.Base.OrdLaws DV.Spec.Schema DV.Lib.MSpec DV.Lib.MBook.
Import ListNotations.
Local Open Scope R_scope.

(* vectors over R *)
Notation rvec := (list R) (only parsing).
Fixpoint vsumR (x y : list R) : list R := match x, y with a :: x', b :: y' => (a + b) :: vsumR x' y' | _, _ => [] end.

(* (1) one more sample: with t = c/(c+1) the new stored value m' = t*m + (1-t)*r satisfies (c+1)*m' = c*m + r *)
Lemma resample_scalar (c : Z) (m r : R) : (0 <= c)%Z ->
  IZR (c + 1) * (IZR c / IZR (c + 1) * m + (1 - IZR c / IZR (c + 1)) * r) = IZR c * m + r.
Proof.
  intros Hc. rewrite plus_IZR. assert (0 <= IZR c) by (apply IZR_le in Hc; exact Hc). field. lra.
Qed.

(* the residual stored by [resampled] (MBook) on the real instance *)
Definition resampled_resid (c : Z) (m r : rvec) : rvec :=
  let t := @div ArithR (@ofZ ArithR c) (@ofZ ArithR (c + 1)) in
  @vmap2 ArithR (@add ArithR) (@vmap ArithR (@mul ArithR t) m) (@vmap ArithR (@mul ArithR (@sub ArithR (@ofZ ArithR 1) t)) r).

(* count * mean = sum is preserved: if c*m = S componentwise then (c+1)*m' = S + r *)
Theorem running_mean_step (c : Z) (m r S : list R) : (0 <= c)%Z -> length m = length r -> length S = length m ->
  map (Rmult (IZR c)) m = S ->
  map (Rmult (IZR (c + 1))) (resampled_resid c m r) = vsumR S r.
Proof.
  intros Hc. revert r S. induction m as [|a m IH]; intros r S Hl Hs HS.
  - destruct r; [|discriminate]. destruct S; [|discriminate]. reflexivity.
  - destruct r as [|b r]; [discriminate|]. destruct S as [|s S]; [discriminate|].
    cbn in HS. injection HS as Hs0 HS'. unfold resampled_resid. cbn [vmap2 vmap map vsumR]. f_equal.
    + rewrite <- Hs0. apply resample_scalar; auto.
    + apply IH; auto; cbn in *; lia.
Qed.

(* ... hence after k samples r_1..r_k (the first stored by change_point with count 1) the stored residual times k is their sum *)
Fixpoint fold_samples (m : rvec) (c : Z) (rs : list rvec) : rvec * Z :=
  match rs with [] => (m, c) | r :: rs' => fold_samples (resampled_resid c m r) (c + 1) rs' end.
Fixpoint sum_samples (S : list R) (rs : list (list R)) : list R :=
  match rs with [] => S | r :: rs' => sum_samples (vsumR S r) rs' end.
Lemma vsumR_length S r : length S = length r -> length (vsumR S r) = length S.
Proof. revert r; induction S as [|a S IH]; destruct r; simpl; intros H; try discriminate; auto. Qed.
Lemma resampled_length c m r : length m = length r -> length (resampled_resid c m r) = length m.
Proof.
  unfold resampled_resid. cbv zeta. generalize (@div ArithR (@ofZ ArithR c) (@ofZ ArithR (c + 1))). intros t.
  revert r. induction m as [|a m IH]; destruct r as [|b r]; intros H; try discriminate; cbn; auto. f_equal. apply IH. cbn in H. lia.
Qed.
Theorem running_mean_is_mean (rs : list rvec) : forall (m : rvec) (c : Z) (S : list R), (0 <= c)%Z ->
  Forall (fun r => length r = length m) rs -> length S = length m ->
  map (Rmult (IZR c)) m = S ->
  let '(m', c') := fold_samples m c rs in
  c' = (c + Z.of_nat (length rs))%Z /\ map (Rmult (IZR c')) m' = sum_samples S rs.
Proof.
  induction rs as [|r rs IH]; intros m c S Hc Hl HS Hm; cbn [fold_samples sum_samples length].
  - split; [lia|exact Hm].
  - apply Forall_cons_iff in Hl as [Hr Hl].
    specialize (IH (resampled_resid c m r) (c + 1)%Z (vsumR S r)).
    destruct (fold_samples (resampled_resid c m r) (c + 1) rs) as [m' c'].
    destruct IH as [Hc' Hm']; try lia.
    + cbv beta in Hr. rewrite resampled_length by auto. exact Hl.
    + cbv beta in Hr. rewrite vsumR_length by lia. rewrite resampled_length by auto. exact HS.
    + apply running_mean_step; auto.
    + split; [lia|exact Hm'].
Qed.

(* (2) base shift: (xbase + s) + (p - s) = xbase + p, componentwise *)
Theorem shift_keeps_absolute (xb p s : list R) : length xb = length p -> length s = length p ->
  @vmap2 ArithR Rplus (@vmap2 ArithR Rplus xb s) (@vmap2 ArithR Rminus p s) = @vmap2 ArithR Rplus xb p.
Proof.
  revert p s. induction xb as [|a xb IH]; intros p s H1 H2; destruct p as [|b p], s as [|c s]; try discriminate; cbn; auto.
  f_equal; [ring|]. apply IH; cbn in *; lia.
Qed.
