(* DV.Lib.MRad -- real-arithmetic facts used by the radius-site lemmas (C18/C10): values of the float literals that
   occur in the radius updates, builtin max/min on the real instance, the snap, and the reference model of reduce_rho. *)
From Coq Require Import ZArith List Bool Lia Reals Lra.
From Flocq Require Import Core Raux.
Require Import DV.Base.Prelude DV.Base.F64 DV.Base.OrdLaws DV.Spec.Schema DV.Lib.MSpec DV.Lib.CSpec DV.Lib.MEval.
Import ListNotations.
Local Open Scope R_scope.

Lemma pymax_R (a b : R) : @pymax ArithR a b = Rmax a b.
Proof.
  unfold pymax. cbn [lt ArithR]. case Rlt_bool_spec; intros H; unfold Rmax; destruct (Rle_dec a b); first [lra | reflexivity].
Qed.
Lemma pymin_R (a b : R) : @pymin ArithR a b = Rmin a b.
Proof.
  unfold pymin. cbn [lt ArithR]. case Rlt_bool_spec; intros H; unfold Rmin; destruct (Rle_dec a b); first [lra | reflexivity].
Qed.
Lemma ofdyR (m e : Z) : @ofdy ArithR m e = IZR m * bpow radix2 e. Proof. reflexivity. Qed.
Lemma c_half : @ofdy ArithR 1 (-1) = / 2. Proof. rewrite ofdyR. cbn [bpow]. change (Z.pow_pos radix2 1) with 2%Z. lra. Qed.
Lemma c_three_halves : @ofdy ArithR 3 (-1) = 3 / 2. Proof. rewrite ofdyR. cbn [bpow]. change (Z.pow_pos radix2 1) with 2%Z. lra. Qed.
Lemma c_1e10 : @ofdy ArithR 9765625 10 = 10000000000.
Proof. rewrite ofdyR. cbn [bpow]. change (Z.pow_pos radix2 10) with 1024%Z. lra. Qed.
Lemma c_tenth : 0 < @ofdy ArithR 3602879701896397 (-55) < 1.
Proof.
  rewrite ofdyR. cbn [bpow]. change (Z.pow_pos radix2 55) with 36028797018963968%Z.
  assert (0 < IZR 36028797018963968) by (apply IZR_lt; lia).
  split.
  - apply Rmult_lt_0_compat; [apply IZR_lt; lia|]. now apply Rinv_0_lt_compat.
  - apply (Rmult_lt_reg_r (IZR 36028797018963968)); auto. rewrite Rmult_assoc, Rinv_l, Rmult_1_r, Rmult_1_l by lra. apply IZR_lt. lia.
Qed.
Lemma c_16 : @ofdy ArithR 1 4 = 16. Proof. rewrite ofdyR. cbn [bpow]. change (Z.pow_pos radix2 4) with 16%Z. lra. Qed.
Lemma c_250 : @ofdy ArithR 125 1 = 250. Proof. rewrite ofdyR. cbn [bpow]. change (Z.pow_pos radix2 1) with 2%Z. lra. Qed.

(* the radius invariant of C18 *)
Definition cap : R := 10000000000.
Definition Rad_inv (rhoend rho delta rhobeg : R) : Prop := 0 < rhoend <= rho /\ rho <= delta /\ delta <= cap /\ rho <= rhobeg.

(* `if delta <= 1.5*rho: delta = rho` *)
Definition snap (delta rho : R) : R := if Rle_bool delta (3 / 2 * rho) then rho else delta.
Lemma snap_ge rho d : 0 < rho -> rho <= snap d rho.
Proof. intros H. unfold snap. case Rle_bool_spec; intros; lra. Qed.
Lemma snap_le rho d : snap d rho <= Rmax d rho.
Proof. unfold snap. case Rle_bool_spec; intros; [apply Rmax_r|apply Rmax_l]. Qed.

(* reference model of reduce_rho on the reals *)
Lemma sqrt_ge_1 x : 1 <= x -> 1 <= sqrt x.
Proof. intros H. rewrite <- sqrt_1. apply sqrt_le_1; lra. Qed.
Lemma sqrt_le_self x : 1 <= x -> sqrt x <= x.
Proof.
  intros H. pose proof (sqrt_ge_1 x H) as H1. rewrite <- (sqrt_sqrt x) at 2 by lra.
  replace (sqrt x) with (sqrt x * 1) at 1 by ring. apply Rmult_le_compat_l; lra.
Qed.
Theorem reduce_rho_inv (st st' : @controller_state ArithR) it (a1 a2 : R) rhobeg :
  Rad_inv (c_rhoend st) (c_rho st) (c_delta st) rhobeg -> 0 < a1 < 1 -> 0 < a2 < 1 ->
  @sc_reduce_rho ArithR st it a1 a2 = Ok (st', tt) ->
  Rad_inv (c_rhoend st') (c_rho st') (c_delta st') rhobeg /\ c_rho st' <= c_rho st /\ c_rhoend st' = c_rhoend st /\
  c_nf st' = c_nf st /\ c_nx st' = c_nx st /\ c_maxfun st' = c_maxfun st.
Proof.
  intros (Hre & Hrd & Hcap & Hrb) Ha1 Ha2 Hr. destruct st as [cm cnf cnx cmax crb cd cr cre ch csc cl]. unfold sc_reduce_rho in Hr. cfields.
  assert (Hratio: 1 <= cr / cre). { apply (Rmult_le_reg_r cre); [lra|]. unfold Rdiv. rewrite Rmult_assoc, Rinv_l by lra. lra. }
  cbn [le div mul fsqrt ArithR] in Hr. rewrite c_16, c_250 in Hr. rewrite !pymax_R in Hr.
  revert Hr. case Rle_bool_spec; intros H16.
  - intros Hr. injection Hr as <-. cfields. unfold Rad_inv. rewrite ?pymax_R. repeat split; try lra.
    + apply Rmax_r.
    + apply Rmax_lub; [nra|lra].
  - case Rle_bool_spec; intros H250 Hr; injection Hr as <-; cfields; unfold Rad_inv; rewrite ?pymax_R.
    + pose proof (sqrt_ge_1 _ Hratio) as Hs1. pose proof (sqrt_le_self _ Hratio) as Hs2.
      assert (Hn: sqrt (cr / cre) * cre <= cr).
      { apply Rle_trans with (cr / cre * cre); [apply Rmult_le_compat_r; lra|]. unfold Rdiv. rewrite Rmult_assoc, Rinv_l by lra. lra. }
      assert (Hm: cre <= sqrt (cr / cre) * cre) by nra.
      repeat split; try lra.
      * apply Rmax_r.
      * apply Rmax_lub; [nra|lra].
    + assert (Hn: Rmax (a1 * cr) cre <= cr) by (apply Rmax_lub; [nra|lra]).
      assert (Hm: cre <= Rmax (a1 * cr) cre) by apply Rmax_r.
      repeat split; try lra.
      * apply Rmax_r.
      * apply Rmax_lub; [nra|lra].
Qed.
