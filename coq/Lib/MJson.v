(* DV.Lib.MJson -- JSON values and the converter pairs used by OptimResults.to_dict / from_dict (C20).
   Floats are binary64 (Flocq BinarySingleNaN: one NaN), so "reproduces every field exactly, NaN mapped back to NaN" is an equation. *)
From Coq Require Import ZArith List Bool String Lia.
Require Import DV.Base.Prelude DV.Base.F64.
Import ListNotations.
Open Scope Z_scope.

Inductive json := JNull | JNum (x : F) | JInt (z : Z) | JStr (s : string) | JList (l : list json) | JObj (l : list (string * json)).
Definition fnan : F := @dflt ArithF64.
Definition is_nanF (x : F) : bool := @isnan ArithF64 x.

(* util.replace_nan_with_none *)
Fixpoint replace_nan (j : json) : json :=
  match j with
  | JNum x => if is_nanF x then JNull else JNum x
  | JList l => JList (map replace_nan l)
  | JObj l => JObj (map (fun kv => (fst kv, replace_nan (snd kv))) l)
  | _ => j
  end.
Fixpoint no_nan (j : json) : bool :=
  match j with
  | JNum x => negb (is_nanF x)
  | JList l => forallb no_nan l
  | JObj l => forallb (fun kv => no_nan (snd kv)) l
  | _ => true
  end.
Lemma replace_nan_total : forall j, no_nan (replace_nan j) = true.
Proof.
  fix IH 1. intros [|x|z|s|l|l]; cbn [replace_nan no_nan]; auto.
  - destruct (is_nanF x) eqn:E; cbn [no_nan]; auto. now rewrite E.
  - induction l as [|a l IHl]; cbn; auto. now rewrite IH, IHl.
  - induction l as [|[k v] l IHl]; cbn; auto. now rewrite IH, IHl.
Qed.

(* encoders (to_dict side) *)
Definition enc_vec (v : list F) : json := JList (map JNum v).                 (* ndarray.tolist() of a float vector *)
Definition enc_mat (m : list (list F)) : json := JList (map enc_vec m).
Definition enc_ivec (v : list Z) : json := JList (map JInt v).
Definition enc_opt {X} (f : X -> json) (o : option X) : json := match o with Some x => f x | None => JNull end.   (* `... if x is not None else None` *)
(* decoders (from_dict side): np.array(list, dtype=float) maps None to NaN *)
Definition dec_num (j : json) : F := match j with JNum x => x | JInt z => @ofZ ArithF64 z | _ => fnan end.
Definition dec_vec (j : json) : list F := match j with JList l => map dec_num l | _ => [] end.
Definition dec_mat (j : json) : list (list F) := match j with JList l => map dec_vec l | _ => [] end.
Definition dec_int (j : json) : Z := match j with JInt z => z | _ => 0 end.
Definition dec_ivec (j : json) : list Z := match j with JList l => map dec_int l | _ => [] end.
Definition dec_opt {X} (f : json -> X) (j : json) : option X := match j with JNull => None | _ => Some (f j) end.   (* `f(..) if .. is not None else None` *)
Definition dec_num_or_nan (j : json) : F := match j with JNull => fnan | _ => dec_num j end.                       (* `v if v is not None else np.nan` *)

Lemma nan_unique x : is_nanF x = true -> x = fnan.
Proof. destruct x; cbn; intros; try discriminate; reflexivity. Qed.
Lemma num_roundtrip x : dec_num_or_nan (replace_nan (JNum x)) = x.
Proof. cbn [replace_nan]. destruct (is_nanF x) eqn:E; cbn; auto. symmetry. now apply nan_unique. Qed.
Lemma elem_roundtrip x : dec_num (replace_nan (JNum x)) = x.
Proof. cbn [replace_nan]. destruct (is_nanF x) eqn:E; cbn; auto. symmetry. now apply nan_unique. Qed.
Theorem vec_roundtrip v : dec_vec (replace_nan (enc_vec v)) = v.
Proof.
  unfold enc_vec. cbn [replace_nan dec_vec]. rewrite !map_map. induction v as [|a v IH]; cbn [map]; auto.
  rewrite IH. f_equal. apply elem_roundtrip.
Qed.
Theorem mat_roundtrip m : dec_mat (replace_nan (enc_mat m)) = m.
Proof.
  unfold enc_mat. cbn [replace_nan dec_mat]. rewrite !map_map. induction m as [|r m IH]; cbn [map]; auto.
  rewrite IH. f_equal. apply vec_roundtrip.
Qed.
Theorem ivec_roundtrip v : dec_ivec (replace_nan (enc_ivec v)) = v.
Proof. unfold enc_ivec. cbn [replace_nan dec_ivec]. rewrite !map_map. induction v as [|a v IH]; cbn [map]; auto. now rewrite IH. Qed.
Lemma enc_vec_not_null v : replace_nan (enc_vec v) <> JNull. Proof. discriminate. Qed.
Theorem opt_vec_roundtrip o : dec_opt dec_vec (replace_nan (enc_opt enc_vec o)) = o.
Proof. destruct o as [v|]; cbn [enc_opt]; [|reflexivity]. unfold dec_opt. cbn [enc_vec replace_nan]. f_equal. apply (vec_roundtrip v). Qed.
Theorem opt_mat_roundtrip o : dec_opt dec_mat (replace_nan (enc_opt enc_mat o)) = o.
Proof. destruct o as [v|]; cbn [enc_opt]; [|reflexivity]. unfold dec_opt. cbn [enc_mat replace_nan]. f_equal. apply (mat_roundtrip v). Qed.
Theorem opt_ivec_roundtrip o : dec_opt dec_ivec (replace_nan (enc_opt enc_ivec o)) = o.
Proof. destruct o as [v|]; cbn [enc_opt]; [|reflexivity]. unfold dec_opt. cbn [enc_ivec replace_nan]. f_equal. apply (ivec_roundtrip v). Qed.
Theorem int_roundtrip z : dec_int (replace_nan (JInt z)) = z. Proof. reflexivity. Qed.
Theorem str_roundtrip s : replace_nan (JStr s) = JStr s. Proof. reflexivity. Qed.
(* the defect repaired in /repo: decoding obj with the identity leaves None where NaN was *)
Example obj_identity_decoder_loses_nan : replace_nan (JNum fnan) = JNull /\ dec_num_or_nan JNull = fnan.
Proof. split; reflexivity. Qed.

(* a result record and its dictionary *)
Record result := { r_x : option (list F); r_resid : option (list F); r_obj : F; r_jac : option (list (list F)); r_nf : Z; r_nx : Z; r_nruns : Z;
                   r_flag : Z; r_msg : string; r_xnum : Z; r_jnums : option (list Z) }.
Definition to_dict (r : result) : json :=
  replace_nan (JObj [("x"%string, enc_opt enc_vec (r_x r)); ("resid"%string, enc_opt enc_vec (r_resid r)); ("obj"%string, JNum (r_obj r));
                     ("jacobian"%string, enc_opt enc_mat (r_jac r)); ("nf"%string, JInt (r_nf r)); ("nx"%string, JInt (r_nx r)); ("nruns"%string, JInt (r_nruns r));
                     ("flag"%string, JInt (r_flag r)); ("msg"%string, JStr (r_msg r)); ("xmin_eval_num"%string, JInt (r_xnum r));
                     ("jacmin_eval_nums"%string, enc_opt enc_ivec (r_jnums r))]).
Fixpoint lookup (k : string) (l : list (string * json)) : json := match l with [] => JNull | (k', v) :: l' => if String.eqb k k' then v else lookup k l' end.
Definition field (k : string) (j : json) : json := match j with JObj l => lookup k l | _ => JNull end.
Definition dec_str (j : json) : string := match j with JStr s => s | _ => EmptyString end.
Definition from_dict (j : json) : result :=
  {| r_x := dec_opt dec_vec (field "x" j); r_resid := dec_opt dec_vec (field "resid" j); r_obj := dec_num_or_nan (field "obj" j);
     r_jac := dec_opt dec_mat (field "jacobian" j); r_nf := dec_int (field "nf" j); r_nx := dec_int (field "nx" j); r_nruns := dec_int (field "nruns" j);
     r_flag := dec_int (field "flag" j); r_msg := dec_str (field "msg" j); r_xnum := dec_int (field "xmin_eval_num" j);
     r_jnums := dec_opt dec_ivec (field "jacmin_eval_nums" j) |}.
Theorem result_roundtrip r : from_dict (to_dict r) = r.
Proof.
  destruct r as [x rs o jc nf nx nr fl ms xn jn]. unfold to_dict, from_dict. cbn [replace_nan map fst snd field lookup].
  cbn [String.eqb Ascii.eqb Bool.eqb].
  cbn [r_x r_resid r_obj r_jac r_nf r_nx r_nruns r_flag r_msg r_xnum r_jnums].
  rewrite (opt_vec_roundtrip x), (opt_vec_roundtrip rs), (opt_mat_roundtrip jc), (opt_ivec_roundtrip jn).
  destruct (is_nanF o) eqn:E; cbn [dec_num_or_nan dec_num]; [rewrite (nan_unique o E)|]; reflexivity.
Qed.
Theorem to_dict_is_strict_json r : no_nan (to_dict r) = true.
Proof. apply replace_nan_total. Qed.
