(* DV.Lib.MValid -- the parameter validation decision procedure of params.py (C07): Python values, check_integer /
   check_float / check_bool / check_str, and check_param over a (regenerated) table; soundness and totality. *)
From Coq Require Import ZArith List Bool String Lia QArith.
Require Import DV.Lib.Tables.
Import ListNotations.
Open Scope Z_scope.

(* Python values a user can put into user_params; floats as exact rationals (every finite binary64 is one), plus the specials *)
Inductive pyval := VNone | VBool (b : bool) | VInt (z : Z) | VFloat (q : Q) | VFloatInf (neg : bool) | VFloatNaN | VStr | VOther.
Definition Q_of_bnd (b : bnd) : option Q :=
  match b with BZ z => Some (inject_Z z) | BF m e => Some (if (0 <=? e)%Z then inject_Z (m * 2 ^ e) else (inject_Z m / inject_Z (2 ^ (- e)))%Q) | _ => None end.
Definition bnd_known (b : bnd) : bool := match b with BOther _ => false | _ => true end.
(* lower is None or val >= lower ; IEEE: every comparison with NaN is False *)
Definition ge_bnd (v : pyval) (b : bnd) : bool :=
  match b with
  | BNone => true
  | _ => match Q_of_bnd b, v with
         | Some l, VInt z => Qle_bool l (inject_Z z)
         | Some l, VBool t => Qle_bool l (inject_Z (if t then 1 else 0))
         | Some l, VFloat q => Qle_bool l q
         | Some _, VFloatInf neg => negb neg
         | _, _ => false
         end
  end.
Definition le_bnd (v : pyval) (b : bnd) : bool :=
  match b with
  | BNone => true
  | _ => match Q_of_bnd b, v with
         | Some u, VInt z => Qle_bool (inject_Z z) u
         | Some u, VBool t => Qle_bool (inject_Z (if t then 1 else 0)) u
         | Some u, VFloat q => Qle_bool q u
         | Some _, VFloatInf neg => neg
         | _, _ => false
         end
  end.
(* isinstance(val, int) is True for bool (bool is a subclass of int) -- the model follows Python *)
Definition check_integer (v : pyval) (lo hi : bnd) (none_ok : bool) : bool :=
  match v with VNone => none_ok | VInt _ | VBool _ => ge_bnd v lo && le_bnd v hi | _ => false end.
Definition check_float (v : pyval) (lo hi : bnd) (none_ok : bool) : bool :=
  match v with VNone => none_ok | VFloat _ | VFloatInf _ | VFloatNaN => ge_bnd v lo && le_bnd v hi | _ => false end.
Definition check_bool (v : pyval) (none_ok : bool) : bool := match v with VNone => none_ok | VBool _ => true | _ => false end.
Definition check_str (v : pyval) (none_ok : bool) : bool := match v with VNone => none_ok | VStr => true | _ => false end.

Definition row := (string * string * bool * bnd * bnd)%type.
Fixpoint find_row (t : list row) (key : string) : option row :=
  match t with [] => None | r :: t' => match r with (k, _, _, _, _) => if streq k key then Some r else find_row t' key end end.
Inductive outcome := Accept | Reject | UnknownKey | BadTable.
Definition check_param (t : list row) (key : string) (v : pyval) : outcome :=
  match find_row t key with
  | None => UnknownKey
  | Some (_, ty, none_ok, lo, hi) =>
      if negb (bnd_known lo && bnd_known hi) then BadTable
      else if streq ty "int" then (if check_integer v lo hi none_ok then Accept else Reject)
      else if streq ty "float" then (if check_float v lo hi none_ok then Accept else Reject)
      else if streq ty "bool" then (if check_bool v none_ok then Accept else Reject)
      else if streq ty "str" then (if check_str v none_ok then Accept else Reject)
      else BadTable
  end.

(* what acceptance means *)
Definition has_type (ty : string) (v : pyval) : Prop :=
  match v with
  | VInt _ | VBool _ => ty = "int"%string \/ (ty = "bool"%string /\ exists b, v = VBool b)
  | VFloat _ | VFloatInf _ | VFloatNaN => ty = "float"%string
  | VStr => ty = "str"%string
  | _ => False
  end.
Theorem check_param_sound t key v : check_param t key v = Accept ->
  exists ty none_ok lo hi, find_row t key = Some (key, ty, none_ok, lo, hi) /\
    ((v = VNone /\ none_ok = true) \/ (has_type ty v /\ (ty = "int"%string \/ ty = "float"%string -> ge_bnd v lo = true /\ le_bnd v hi = true))).
Proof.
  unfold check_param. destruct (find_row t key) as [[[[[k ty] nn] lo] hi]|] eqn:E; [|discriminate].
  assert (Hk: k = key).
  { clear -E. induction t as [|[[[[k0 ty0] nn0] lo0] hi0] t IH]; cbn in E; [discriminate|]. destruct (streq k0 key) eqn:Es; [|auto].
    injection E as <- _ _ _ _. now apply streq_true. }
  subst k. destruct (negb _); [discriminate|]. intros H. exists ty, nn, lo, hi. split; auto.
  destruct (streq ty "int") eqn:T1; [apply streq_true in T1; subst ty|
  destruct (streq ty "float") eqn:T2; [apply streq_true in T2; subst ty|
  destruct (streq ty "bool") eqn:T3; [apply streq_true in T3; subst ty|
  destruct (streq ty "str") eqn:T4; [apply streq_true in T4; subst ty|discriminate]]]].
  - destruct (check_integer v lo hi nn) eqn:C; [|discriminate]. destruct v; cbn in C; try discriminate; [left; auto|right|right];
      apply andb_true_iff in C; (split; [cbn; auto|intros _; exact C]).
  - destruct (check_float v lo hi nn) eqn:C; [|discriminate]. destruct v; cbn in C; try discriminate; [left; auto|right|right|right];
      apply andb_true_iff in C; (split; [cbn; auto|intros _; exact C]).
  - destruct (check_bool v nn) eqn:C; [|discriminate]. destruct v; cbn in C; try discriminate; [left; auto|right].
    split; [cbn; right; split; auto; eexists; reflexivity|intros [H1|H1]; discriminate].
  - destruct (check_str v nn) eqn:C; [|discriminate]. destruct v; cbn in C; try discriminate; [left; auto|right].
    split; [cbn; auto|intros [H1|H1]; discriminate].
Qed.
(* validation is a total decision: with a well-formed table every (key, value) is accepted, rejected, or the key is unknown *)
Definition table_wellformed (t : list row) : bool :=
  forallb (fun r => match r with (_, ty, _, lo, hi) => bnd_known lo && bnd_known hi && mem ty ["int"; "float"; "bool"; "str"]%string end) t.
Theorem check_param_total t key v : table_wellformed t = true -> check_param t key v <> BadTable.
Proof.
  intros W. unfold check_param. destruct (find_row t key) as [[[[[k ty] nn] lo] hi]|] eqn:E; [|discriminate].
  assert (Hr: bnd_known lo && bnd_known hi && mem ty ["int"; "float"; "bool"; "str"]%string = true).
  { clear -E W. induction t as [|[[[[k0 ty0] nn0] lo0] hi0] t IH]; cbn in E; [discriminate|]. cbn [table_wellformed forallb] in W.
    apply andb_true_iff in W as [W1 W2]. destruct (streq k0 key); [injection E as _ <- _ <- <-; exact W1|auto]. }
  apply andb_true_iff in Hr as [Hb Hm]. rewrite Hb. cbn [negb]. cbn [mem] in Hm.
  destruct (streq ty "int"); [destruct (check_integer _ _ _ _); discriminate|].
  destruct (streq ty "float"); [destruct (check_float _ _ _ _); discriminate|].
  destruct (streq ty "bool"); [destruct (check_bool _ _); discriminate|].
  destruct (streq ty "str"); [destruct (check_str _ _); discriminate|]. cbn in Hm. discriminate.
Qed.
