(* DV.Lib.CSpec -- reference model of the translated parts of dfols/controller.py (evaluate_objective, reduce_rho):
   a frozen, renamed copy (prefix sc_) of the translator's output for the repaired tree.  PerRun/Char_controller.v proves
   py_controller_f = sc_f for the regenerated functions on every run. *)
From Coq Require Import ZArith List Bool String.
Require Import DV.Base.Prelude DV.Spec.Schema DV.Lib.MSpec.
Import ListNotations.
Open Scope Z_scope.
Section Spec.
Context `{Arith}.


Definition c_EXIT_TR_INCREASE_WARNING : Z := 5.
Definition c_EXIT_AUTO_DETECT_RESTART_WARNING : Z := 4.
Definition c_EXIT_FALSE_SUCCESS_WARNING : Z := 3.
Definition c_EXIT_SLOW_WARNING : Z := 2.
Definition c_EXIT_MAXFUN_WARNING : Z := 1.
Definition c_EXIT_SUCCESS : Z := 0.
Definition c_EXIT_INPUT_ERROR : Z := (-1).
Definition c_EXIT_TR_INCREASE_ERROR : Z := (-2).
Definition c_EXIT_LINALG_ERROR : Z := (-3).
Definition c_EXIT_EVAL_ERROR : Z := (-4).
Definition sc_n (st : controller_state) : Z :=
(s_n (c_model st)).

Definition sc_m (st : controller_state) : Z :=
(s_m (c_model st)).

Definition sc_evaluate_objective (st : controller_state) (l_x : vec) (l_number_of_samples : Z) (orc_ : list (vec * T)) (log_ : list (vec * Z * Z)) : res (controller_state * list (vec * T) * list (vec * Z * Z) * (mat * vec * Z * (option (Z * string)))) :=
let l_rvec_list := (repeatZ (vzeros (sc_m st)) l_number_of_samples) in
let l_obj_list := (vzeros l_number_of_samples) in
let l_num_samples_run := 0 in
let l_incremented_nx := false in
let l_exit_info := (None : (option (Z * string))) in
bind (for_loop (rangeZ 0 l_number_of_samples) (fun l_i '(st, orc_, log_, l_exit_info, l_incremented_nx, l_num_samples_run, l_obj_list, l_rvec_list) =>
if (Z.leb (c_maxfun st) (c_nf st)) then (
let l_exit_info := (Some (1, "Objective has been called MAXFUN times"%string)) in
Ok ((st, orc_, log_, l_exit_info, l_incremented_nx, l_num_samples_run, l_obj_list, l_rvec_list), true)
) else (
let st := set_c_nf st (Z.add (c_nf st) 1) in
bind (if (negb l_incremented_nx) then (
let st := set_c_nx st (Z.add (c_nx st) 1) in
let l_incremented_nx := true in
Ok (st, l_incremented_nx)
) else (
Ok (st, l_incremented_nx)
)) (fun '(st, l_incremented_nx) =>
match orc_ with [] => Err OtherError | ans_ :: orc_ =>
let log_ := log_ ++ [((s_remove_scaling l_x (c_scaling_changes st)), (c_nf st), (c_nx st))] in
let l_rvec_list := (updZ l_rvec_list l_i (fst ans_)) in
let l_obj_list := (updZ l_obj_list l_i (snd ans_)) in
let l_num_samples_run := (Z.add l_num_samples_run 1) in
Ok ((st, orc_, log_, l_exit_info, l_incremented_nx, l_num_samples_run, l_obj_list, l_rvec_list), false)
end)
)) (st, orc_, log_, l_exit_info, l_incremented_nx, l_num_samples_run, l_obj_list, l_rvec_list)) (fun '(st, orc_, log_, l_exit_info, l_incremented_nx, l_num_samples_run, l_obj_list, l_rvec_list) =>
bind (match (c_h st) with Some hf_ => (
bind (if ((Z.ltb 0 l_num_samples_run) && (le (add (s_sumsq (vmean_rows (firstnZ l_num_samples_run l_rvec_list))) (hf_ (s_remove_scaling l_x (c_scaling_changes st)))) (s_min_objective_value (c_model st)))) then (
let l_exit_info := (Some (0, "Objective is sufficiently small"%string)) in
Ok (l_exit_info)
) else (
Ok (l_exit_info)
)) (fun l_exit_info =>
Ok (l_exit_info))
) | None => (
bind (if ((Z.ltb 0 l_num_samples_run) && (le (s_sumsq (vmean_rows (firstnZ l_num_samples_run l_rvec_list))) (s_min_objective_value (c_model st)))) then (
let l_exit_info := (Some (0, "Objective is sufficiently small"%string)) in
Ok (l_exit_info)
) else (
Ok (l_exit_info)
)) (fun l_exit_info =>
Ok (l_exit_info))
) end) (fun l_exit_info =>
Ok (st, orc_, log_, (l_rvec_list, l_obj_list, l_num_samples_run, l_exit_info)))).

Definition sc_reduce_rho (st : controller_state) (l_current_iter : Z) (p_tr_radius_alpha1 : T) (p_tr_radius_alpha2 : T) : res (controller_state * unit) :=
let l_alpha1 := p_tr_radius_alpha1 in
let l_alpha2 := p_tr_radius_alpha2 in
let l_ratio := (div (c_rho st) (c_rhoend st)) in
bind (if (le l_ratio (ofdy 1 4)) then (
let l_new_rho := (c_rhoend st) in
Ok (l_new_rho)
) else (
bind (if (le l_ratio (ofdy 125 1)) then (
let l_new_rho := (mul (fsqrt l_ratio) (c_rhoend st)) in
Ok (l_new_rho)
) else (
let l_new_rho := (pymax (mul l_alpha1 (c_rho st)) (c_rhoend st)) in
Ok (l_new_rho)
)) (fun l_new_rho =>
Ok (l_new_rho))
)) (fun l_new_rho =>
let st := set_c_delta st (pymax (mul l_alpha2 (c_rho st)) l_new_rho) in
let st := set_c_rho st l_new_rho in
let st := set_c_last_successful_iter st l_current_iter in
Ok (st, tt)).


End Spec.
