(* DV.Lib.Corr -- executable glue for the correspondence check: flatten a binary64 model state to integers
   (IEEE bit patterns, NaN canonicalised) and hash it, so that one integer per step is compared with the
   implementation.  Nothing here is used by a theorem. *)
From Coq Require Import ZArith List Bool.
Require Import DV.Base.Prelude DV.Base.F64 DV.Spec.Schema.
Import ListNotations.
Open Scope Z_scope.

Definition hashZ (l : list Z) : Z := fold_left (fun acc z => (acc * 1000003 + z + 1) mod 2305843009213693951) l 7.
Definition fl_vec (v : list F) : list Z := (-1) :: lenZ v :: vbits v.
Definition fl_mat (m : list (list F)) : list Z := (-4) :: lenZ m :: concat (map fl_vec m).
Definition fl_zvec (v : list Z) : list Z := (-5) :: lenZ v :: v.
Definition fl_opt {X} (f : X -> list Z) (o : option X) : list Z := match o with None => [-2] | Some x => (-3) :: f x end.
Definition fl_bool (b : bool) : list Z := [if b then 1 else 0].
Definition st_flat (st : @model_state ArithF64) : list Z :=
  [dim st; resid_dim st; num_pts st; npt_so_far st; kopt st] ++ fl_vec (xbase st) ++ fl_vec (sl st) ++ fl_vec (su st) ++
  fl_mat (points st) ++ fl_mat (fval_v st) ++ fl_vec (objval st) ++ fl_zvec (nsamples st) ++ fl_zvec (eval_num st) ++
  fl_vec (model_const st) ++ fl_mat (model_jac st) ++ fl_opt fl_zvec (model_jac_eval_nums st) ++
  fl_opt fl_vec (xsave st) ++ fl_opt fl_vec (rsave st) ++ fl_opt (fun x => [to_bits x]) (objsave st) ++ fl_opt fl_mat (jacsave st) ++
  fl_opt (fun z => [z]) (nsamples_save st) ++ fl_opt (fun z => [z]) (eval_num_save st) ++ fl_opt fl_zvec (jacsave_eval_nums st) ++
  fl_bool (factorisation_current st).
Definition st_hash (st : @model_state ArithF64) : Z := hashZ (st_flat st).
Definition err_code (e : exn) : Z := match e with AssertionError => -101 | IndexError => -102 | OtherError => -103 end.

(* L1 regulariser used by the harness on both sides: lam * (|x_0| + |x_1| + ...), summed left to right *)
Definition h_l1 (lam : F) (x : list F) : F := @mul ArithF64 lam (fold_left (fun a b => @add ArithF64 a (@fabs ArithF64 b)) x (@ofZ ArithF64 0)).
(* projections used by the harness: box and ball *)
