(* DV.Lib.MTrs -- TRSBOX, the bound-constrained trust-region subproblem solver of trust_region.py: reference models
   s_d_within_bounds / s_alt_trust_step / s_trsbox (frozen, renamed copies of the translator's output for trsbox, its alternative
   iteration and the final clip; PerRun/C12.v proves the regenerated functions equal to them on every run, and the C12 check runs
   the regenerated functions on Flocq binary64 against the implementation, bit for bit in d, gnew and crvmin).
   Modelling notes: locals that Python binds on some paths only (gredsq, itermax, gredsq0, ggsav; rdprev, rdnext, xsav, angt) are
   options that are None until assigned, and reading None is Err (UnboundLocalError); int(17*angbd + 3.1) is py_int (Err for NaN);
   boolean-mask indexing is bfilt / bset / bscatter; shape asserts are dropped (listed in translator/spec.py). *)
From Coq Require Import ZArith List Bool Lia.
Require Import DV.Base.Prelude DV.Spec.Schema DV.Lib.MSpec.
Import ListNotations.
Open Scope Z_scope.

Section Spec.
Context `{A : Arith}.

Definition s_d_within_bounds (l_d : vec) (l_xopt : vec) (l_sl : vec) (l_su : vec) (l_xbdi : (list Z)) : vec :=
let l_xnew := (vmap2 npmax (vmap2 npmin (vmap2 add l_xopt l_d) l_su) l_sl) in
let l_xnew := (bscatter l_xnew (zmask (fun z_ => (Z.eqb z_ (-1))) l_xbdi) (bfilt l_sl (zmask (fun z_ => (Z.eqb z_ (-1))) l_xbdi))) in
let l_xnew := (bscatter l_xnew (zmask (fun z_ => (Z.eqb z_ 1)) l_xbdi) (bfilt l_su (zmask (fun z_ => (Z.eqb z_ 1)) l_xbdi))) in
let l_d := (vmap2 sub l_xnew l_xopt) in
l_d.

Definition s_alt_trust_step (l_n : Z) (l_xopt : vec) (l_H : mat) (l_sl : vec) (l_su : vec) (l_d : vec) (l_xbdi : (list Z)) (l_nact : Z) (l_gnew : vec) (l_qred : T) : res ((vec * vec)) :=
let l_rdprev := (None : option T) in
let l_rdnext := (None : option T) in
let l_xsav := (None : option Z) in
let l_angt := (None : option T) in
let l_MAX_LOOP_ITERS := (Z.mul 100 (Z.mul l_n l_n)) in
let ret_ := (None : option (vec * vec)) in
bind (for_loop (rangeZ 0 l_MAX_LOOP_ITERS) (fun l_ii '(l_angt, l_d, l_gnew, l_nact, l_qred, l_rdnext, l_rdprev, l_xbdi, l_xsav, ret_) =>
if (Z.leb (Z.sub l_n 1) l_nact) then (
let ret_ := Some ((s_d_within_bounds l_d l_xopt l_sl l_su l_xbdi), l_gnew) in
Ok ((l_angt, l_d, l_gnew, l_nact, l_qred, l_rdnext, l_rdprev, l_xbdi, l_xsav, ret_), true)
) else (
let l_s := (vzeros l_n) in
let l_s := (bscatter l_s (zmask (fun z_ => (Z.eqb z_ 0)) l_xbdi) (bfilt l_d (zmask (fun z_ => (Z.eqb z_ 0)) l_xbdi))) in
let l_dredsq := (s_sumsq (bfilt l_d (zmask (fun z_ => (Z.eqb z_ 0)) l_xbdi))) in
let l_dredg := (dot (bfilt l_d (zmask (fun z_ => (Z.eqb z_ 0)) l_xbdi)) (bfilt l_gnew (zmask (fun z_ => (Z.eqb z_ 0)) l_xbdi))) in
let l_gredsq := (s_sumsq (bfilt l_gnew (zmask (fun z_ => (Z.eqb z_ 0)) l_xbdi))) in
let l_hs := (matvec l_H l_s) in
let l_hred := l_hs in
let l_restart_alt_loop := false in
bind (for_loop (rangeZ 0 l_MAX_LOOP_ITERS) (fun l_jj '(l_angt, l_d, l_dredg, l_gnew, l_gredsq, l_hred, l_hs, l_nact, l_qred, l_rdnext, l_rdprev, l_restart_alt_loop, l_s, l_xbdi, l_xsav) =>
let l_temp := (sub (mul l_gredsq l_dredsq) (mul l_dredg l_dredg)) in
if (le l_temp (mul (ofdy 7378697629483821 (-66)) (mul l_qred l_qred))) then (
let l_restart_alt_loop := false in
Ok ((l_angt, l_d, l_dredg, l_gnew, l_gredsq, l_hred, l_hs, l_nact, l_qred, l_rdnext, l_rdprev, l_restart_alt_loop, l_s, l_xbdi, l_xsav), true)
) else (
let l_temp := (fsqrt l_temp) in
let l_s := (vzeros l_n) in
let l_s := (bscatter l_s (zmask (fun z_ => (Z.eqb z_ 0)) l_xbdi) (vmap (fun y_ => div y_ l_temp) (vmap2 sub (vmap (mul l_dredg) (bfilt l_d (zmask (fun z_ => (Z.eqb z_ 0)) l_xbdi))) (vmap (mul l_dredsq) (bfilt l_gnew (zmask (fun z_ => (Z.eqb z_ 0)) l_xbdi)))))) in
let l_sredg := (fneg l_temp) in
let l_free_variable_reached_bound := false in
let l_angbd := (ofdy 1 0) in
let l_iact := (None : (option Z)) in
bind (for_loop (rangeZ 0 l_n) (fun l_i '(l_angbd, l_free_variable_reached_bound, l_iact, l_nact, l_temp, l_xbdi, l_xsav) =>
if (Z.eqb (getZ l_xbdi l_i) 0) then (
let l_tempa := (sub (add (getT l_xopt l_i) (getT l_d l_i)) (getT l_sl l_i)) in
let l_tempb := (sub (sub (getT l_su l_i) (getT l_xopt l_i)) (getT l_d l_i)) in
if (le l_tempa (ofdy 0 0)) then (
let l_nact := (Z.add l_nact 1) in
let l_xbdi := (updZ l_xbdi l_i (-1)) in
let l_free_variable_reached_bound := true in
Ok ((l_angbd, l_free_variable_reached_bound, l_iact, l_nact, l_temp, l_xbdi, l_xsav), true)
) else (
if (le l_tempb (ofdy 0 0)) then (
let l_nact := (Z.add l_nact 1) in
let l_xbdi := (updZ l_xbdi l_i 1) in
let l_free_variable_reached_bound := true in
Ok ((l_angbd, l_free_variable_reached_bound, l_iact, l_nact, l_temp, l_xbdi, l_xsav), true)
) else (
let l_ssq := (add (mul (getT l_d l_i) (getT l_d l_i)) (mul (getT l_s l_i) (getT l_s l_i))) in
let l_temp := (sub l_ssq (mul (sub (getT l_xopt l_i) (getT l_sl l_i)) (sub (getT l_xopt l_i) (getT l_sl l_i)))) in
bind (if (lt (ofdy 0 0) l_temp) then (
let l_temp := (sub (fsqrt l_temp) (getT l_s l_i)) in
bind (if (lt l_tempa (mul l_angbd l_temp)) then (
let l_angbd := (div l_tempa l_temp) in
let l_iact := (Some l_i) in
let l_xsav := (Some (-1)) in
Ok (l_angbd, l_iact, l_xsav)
) else (
Ok (l_angbd, l_iact, l_xsav)
)) (fun '(l_angbd, l_iact, l_xsav) =>
Ok (l_angbd, l_iact, l_temp, l_xsav))
) else (
Ok (l_angbd, l_iact, l_temp, l_xsav)
)) (fun '(l_angbd, l_iact, l_temp, l_xsav) =>
let l_temp := (sub l_ssq (mul (sub (getT l_su l_i) (getT l_xopt l_i)) (sub (getT l_su l_i) (getT l_xopt l_i)))) in
bind (if (lt (ofdy 0 0) l_temp) then (
let l_temp := (add (fsqrt l_temp) (getT l_s l_i)) in
bind (if (lt l_tempb (mul l_angbd l_temp)) then (
let l_angbd := (div l_tempb l_temp) in
let l_iact := (Some l_i) in
let l_xsav := (Some 1) in
Ok (l_angbd, l_iact, l_xsav)
) else (
Ok (l_angbd, l_iact, l_xsav)
)) (fun '(l_angbd, l_iact, l_xsav) =>
Ok (l_angbd, l_iact, l_temp, l_xsav))
) else (
Ok (l_angbd, l_iact, l_temp, l_xsav)
)) (fun '(l_angbd, l_iact, l_temp, l_xsav) =>
Ok ((l_angbd, l_free_variable_reached_bound, l_iact, l_nact, l_temp, l_xbdi, l_xsav), false)))
)
)
) else (
Ok ((l_angbd, l_free_variable_reached_bound, l_iact, l_nact, l_temp, l_xbdi, l_xsav), false)
)) (l_angbd, l_free_variable_reached_bound, l_iact, l_nact, l_temp, l_xbdi, l_xsav)) (fun '(l_angbd, l_free_variable_reached_bound, l_iact, l_nact, l_temp, l_xbdi, l_xsav) =>
if l_free_variable_reached_bound then (
let l_restart_alt_loop := true in
Ok ((l_angt, l_d, l_dredg, l_gnew, l_gredsq, l_hred, l_hs, l_nact, l_qred, l_rdnext, l_rdprev, l_restart_alt_loop, l_s, l_xbdi, l_xsav), true)
) else (
let l_hs := (matvec l_H l_s) in
let l_shs := (vsum (vmap2 mul (bfilt l_s (zmask (fun z_ => (Z.eqb z_ 0)) l_xbdi)) (bfilt l_hs (zmask (fun z_ => (Z.eqb z_ 0)) l_xbdi)))) in
let l_dhs := (vsum (vmap2 mul (bfilt l_d (zmask (fun z_ => (Z.eqb z_ 0)) l_xbdi)) (bfilt l_hs (zmask (fun z_ => (Z.eqb z_ 0)) l_xbdi)))) in
let l_dhd := (vsum (vmap2 mul (bfilt l_d (zmask (fun z_ => (Z.eqb z_ 0)) l_xbdi)) (bfilt l_hred (zmask (fun z_ => (Z.eqb z_ 0)) l_xbdi)))) in
let l_redmax := (ofdy 0 0) in
let l_isav := (-1) in
let l_redsav := (ofdy 0 0) in
let l_temp := (ofdy 0 0) in
match py_int (add (mul (ofZ 17) l_angbd) (ofdy 6980579422424269 (-51))) with None => Err OtherError | Some l_iu =>
bind (for_loop (rangeZ 0 l_iu) (fun l_i '(l_angt, l_isav, l_rdnext, l_rdprev, l_redmax, l_redsav, l_temp) =>
let l_angt := (Some (div (mul l_angbd (ofZ (Z.add l_i 1))) (ofZ l_iu))) in
match l_angt with None => Err OtherError | Some u_angt =>
let l_sth := (div (mul (ofdy 1 1) u_angt) (add (ofdy 1 0) (mul u_angt u_angt))) in
let l_temp := (add l_shs (mul u_angt (sub (mul u_angt l_dhd) (mul (ofdy 1 1) l_dhs)))) in
let l_rednew := (mul l_sth (sub (sub (mul u_angt l_dredg) l_sredg) (mul (mul (ofdy 1 (-1)) l_sth) l_temp))) in
bind (if (lt l_redmax l_rednew) then (
let l_redmax := l_rednew in
let l_isav := l_i in
let l_rdprev := (Some l_redsav) in
Ok (l_isav, l_rdnext, l_rdprev, l_redmax)
) else (
bind (if (Z.eqb l_i (Z.add l_isav 1)) then (
let l_rdnext := (Some l_rednew) in
Ok (l_rdnext)
) else (
Ok (l_rdnext)
)) (fun l_rdnext =>
Ok (l_isav, l_rdnext, l_rdprev, l_redmax))
)) (fun '(l_isav, l_rdnext, l_rdprev, l_redmax) =>
let l_redsav := l_rednew in
Ok ((l_angt, l_isav, l_rdnext, l_rdprev, l_redmax, l_redsav, l_temp), false))
end) (l_angt, l_isav, l_rdnext, l_rdprev, l_redmax, l_redsav, l_temp)) (fun '(l_angt, l_isav, l_rdnext, l_rdprev, l_redmax, l_redsav, l_temp) =>
if (Z.eqb l_isav (-1)) then (
let l_restart_alt_loop := false in
Ok ((l_angt, l_d, l_dredg, l_gnew, l_gredsq, l_hred, l_hs, l_nact, l_qred, l_rdnext, l_rdprev, l_restart_alt_loop, l_s, l_xbdi, l_xsav), true)
) else (
bind (if (Z.ltb l_isav (Z.sub l_iu 1)) then (
match l_rdprev with None => Err OtherError | Some u_rdprev =>
match l_rdnext with None => Err OtherError | Some u_rdnext =>
let l_temp := (div (sub u_rdnext u_rdprev) (sub (sub (mul (ofdy 1 1) l_redmax) u_rdprev) u_rdnext)) in
let l_angt := (Some (div (mul l_angbd (add (ofZ (Z.add l_isav 1)) (mul (ofdy 1 (-1)) l_temp))) (ofZ l_iu))) in
Ok (l_angt, l_temp)
end
end
) else (
Ok (l_angt, l_temp)
)) (fun '(l_angt, l_temp) =>
match l_angt with None => Err OtherError | Some u_angt =>
let l_cth := (div (sub (ofdy 1 0) (mul u_angt u_angt)) (add (ofdy 1 0) (mul u_angt u_angt))) in
let l_sth := (div (mul (ofdy 1 1) u_angt) (add (ofdy 1 0) (mul u_angt u_angt))) in
let l_temp := (add l_shs (mul u_angt (sub (mul u_angt l_dhd) (mul (ofdy 1 1) l_dhs)))) in
let l_sdec := (mul l_sth (sub (sub (mul u_angt l_dredg) l_sredg) (mul (mul (ofdy 1 (-1)) l_sth) l_temp))) in
if (le l_sdec (ofdy 0 0)) then (
let l_restart_alt_loop := false in
Ok ((l_angt, l_d, l_dredg, l_gnew, l_gredsq, l_hred, l_hs, l_nact, l_qred, l_rdnext, l_rdprev, l_restart_alt_loop, l_s, l_xbdi, l_xsav), true)
) else (
let l_gnew := (vmap2 add l_gnew (vmap2 add (vmap (mul (sub l_cth (ofdy 1 0))) l_hred) (vmap (mul l_sth) l_hs))) in
let l_d := (bscatter l_d (zmask (fun z_ => (Z.eqb z_ 0)) l_xbdi) (vmap2 add (vmap (mul l_cth) (bfilt l_d (zmask (fun z_ => (Z.eqb z_ 0)) l_xbdi))) (vmap (mul l_sth) (bfilt l_s (zmask (fun z_ => (Z.eqb z_ 0)) l_xbdi))))) in
let l_dredg := (dot (bfilt l_d (zmask (fun z_ => (Z.eqb z_ 0)) l_xbdi)) (bfilt l_gnew (zmask (fun z_ => (Z.eqb z_ 0)) l_xbdi))) in
let l_gredsq := (s_sumsq (bfilt l_gnew (zmask (fun z_ => (Z.eqb z_ 0)) l_xbdi))) in
let l_hred := (vmap2 add (vmap (mul l_cth) l_hred) (vmap (mul l_sth) l_hs)) in
let l_qred := (add l_qred l_sdec) in
if (match l_iact with None => false | Some v1_ => (Z.eqb l_isav (Z.sub l_iu 1)) end) then (
let l_nact := (Z.add l_nact 1) in
match l_xsav with None => Err OtherError | Some u_xsav =>
match l_iact with None => Err OtherError | Some u_iact =>
let l_xbdi := (updZ l_xbdi u_iact u_xsav) in
let l_restart_alt_loop := true in
Ok ((l_angt, l_d, l_dredg, l_gnew, l_gredsq, l_hred, l_hs, l_nact, l_qred, l_rdnext, l_rdprev, l_restart_alt_loop, l_s, l_xbdi, l_xsav), true)
end
end
) else (
if (le l_sdec (mul (ofdy 5764607523034235 (-59)) l_qred)) then (
let l_restart_alt_loop := false in
Ok ((l_angt, l_d, l_dredg, l_gnew, l_gredsq, l_hred, l_hs, l_nact, l_qred, l_rdnext, l_rdprev, l_restart_alt_loop, l_s, l_xbdi, l_xsav), true)
) else (
Ok ((l_angt, l_d, l_dredg, l_gnew, l_gredsq, l_hred, l_hs, l_nact, l_qred, l_rdnext, l_rdprev, l_restart_alt_loop, l_s, l_xbdi, l_xsav), false)
)
)
)
end)
))
end
))
)) (l_angt, l_d, l_dredg, l_gnew, l_gredsq, l_hred, l_hs, l_nact, l_qred, l_rdnext, l_rdprev, l_restart_alt_loop, l_s, l_xbdi, l_xsav)) (fun '(l_angt, l_d, l_dredg, l_gnew, l_gredsq, l_hred, l_hs, l_nact, l_qred, l_rdnext, l_rdprev, l_restart_alt_loop, l_s, l_xbdi, l_xsav) =>
if l_restart_alt_loop then (
Ok ((l_angt, l_d, l_gnew, l_nact, l_qred, l_rdnext, l_rdprev, l_xbdi, l_xsav, ret_), false)
) else (
Ok ((l_angt, l_d, l_gnew, l_nact, l_qred, l_rdnext, l_rdprev, l_xbdi, l_xsav, ret_), true)
))
)) (l_angt, l_d, l_gnew, l_nact, l_qred, l_rdnext, l_rdprev, l_xbdi, l_xsav, ret_)) (fun '(l_angt, l_d, l_gnew, l_nact, l_qred, l_rdnext, l_rdprev, l_xbdi, l_xsav, ret_) =>
match ret_ with Some r_ => Ok (r_) | None =>
Ok (((s_d_within_bounds l_d l_xopt l_sl l_su l_xbdi), l_gnew))
end).

Definition s_trsbox (l_xopt : vec) (l_g : vec) (l_H : mat) (l_sl : vec) (l_su : vec) (l_delta : T) : res ((vec * vec * T)) :=
let l_gredsq := (None : option T) in
let l_itermax := (None : option Z) in
let l_gredsq0 := (None : option T) in
let l_ggsav := (None : option T) in
let l_n := (lenZ l_xopt) in
if negb (vall2 le l_sl l_xopt) then Err AssertionError else
if negb (vall2 le l_xopt l_su) then Err AssertionError else
if negb (lt (ofdy 0 0) l_delta) then Err AssertionError else
let l_iterc := 0 in
let l_nact := 0 in
let l_xbdi := (repeatZ 0 l_n) in
let l_xbdi := (bset l_xbdi (band2 (vcmp2 le l_xopt l_sl) (map (fun y_ => le (ofdy 0 0) y_) l_g)) (-1)) in
let l_xbdi := (bset l_xbdi (band2 (vcmp2 le l_su l_xopt) (map (fun y_ => le y_ (ofdy 0 0)) l_g)) 1) in
let l_d := (vzeros l_n) in
let l_s := (vzeros l_n) in
let l_gnew := l_g in
let l_qred := (ofdy 0 0) in
let l_delsq := (mul l_delta l_delta) in
let l_crvmin := (ofdy (-1) 0) in
let l_beta := (ofdy 0 0) in
let l_need_alt_trust_step := false in
let l_MAX_LOOP_ITERS := (Z.mul 100 (Z.mul l_n l_n)) in
bind (for_loop (rangeZ 0 l_MAX_LOOP_ITERS) (fun l_ii '(l_beta, l_crvmin, l_d, l_delsq, l_ggsav, l_gnew, l_gredsq, l_gredsq0, l_iterc, l_itermax, l_nact, l_need_alt_trust_step, l_qred, l_s, l_xbdi) =>
let l_s := (bset l_s (zmask (fun z_ => negb (Z.eqb z_ 0)) l_xbdi) (ofdy 0 0)) in
bind (if (feq l_beta (ofdy 0 0)) then (
let l_s := (bscatter l_s (zmask (fun z_ => (Z.eqb z_ 0)) l_xbdi) (vmap fneg (bfilt l_gnew (zmask (fun z_ => (Z.eqb z_ 0)) l_xbdi)))) in
Ok (l_s)
) else (
let l_s := (bscatter l_s (zmask (fun z_ => (Z.eqb z_ 0)) l_xbdi) (vmap2 sub (vmap (mul l_beta) (bfilt l_s (zmask (fun z_ => (Z.eqb z_ 0)) l_xbdi))) (bfilt l_gnew (zmask (fun z_ => (Z.eqb z_ 0)) l_xbdi)))) in
Ok (l_s)
)) (fun l_s =>
let l_stepsq := (s_sumsq l_s) in
if (feq l_stepsq (ofdy 0 0)) then (
let l_need_alt_trust_step := false in
Ok ((l_beta, l_crvmin, l_d, l_delsq, l_ggsav, l_gnew, l_gredsq, l_gredsq0, l_iterc, l_itermax, l_nact, l_need_alt_trust_step, l_qred, l_s, l_xbdi), true)
) else (
bind (if (feq l_beta (ofdy 0 0)) then (
let l_gredsq := (Some l_stepsq) in
let l_itermax := (Some (Z.sub (Z.add l_iterc l_n) l_nact)) in
Ok (l_gredsq, l_itermax)
) else (
Ok (l_gredsq, l_itermax)
)) (fun '(l_gredsq, l_itermax) =>
bind (if (Z.eqb l_iterc 0) then (
match l_gredsq with None => Err OtherError | Some u_gredsq =>
let l_gredsq0 := (Some u_gredsq) in
Ok (l_gredsq0)
end
) else (
Ok (l_gredsq0)
)) (fun l_gredsq0 =>
match l_gredsq0 with None => Err OtherError | Some u_gredsq0 =>
match l_gredsq with None => Err OtherError | Some u_gredsq =>
if ((le u_gredsq (pymin (mul (ofdy 4722366482869645 (-72)) u_gredsq0) (ofdy 1298074214633707 (-110)))) || (le (mul u_gredsq l_delsq) (pymin (mul (ofdy 4722366482869645 (-72)) (mul l_qred l_qred)) (ofdy 1298074214633707 (-110))))) then (
let l_need_alt_trust_step := false in
Ok ((l_beta, l_crvmin, l_d, l_delsq, l_ggsav, l_gnew, l_gredsq, l_gredsq0, l_iterc, l_itermax, l_nact, l_need_alt_trust_step, l_qred, l_s, l_xbdi), true)
) else (
let l_hs := (matvec l_H l_s) in
let l_ds := (dot (bfilt l_s (zmask (fun z_ => (Z.eqb z_ 0)) l_xbdi)) (bfilt l_d (zmask (fun z_ => (Z.eqb z_ 0)) l_xbdi))) in
let l_shs := (dot (bfilt l_s (zmask (fun z_ => (Z.eqb z_ 0)) l_xbdi)) (bfilt l_hs (zmask (fun z_ => (Z.eqb z_ 0)) l_xbdi))) in
let l_resid := (sub l_delsq (s_sumsq (bfilt l_d (zmask (fun z_ => (Z.eqb z_ 0)) l_xbdi)))) in
if (le l_resid (ofdy 0 0)) then (
let l_need_alt_trust_step := true in
Ok ((l_beta, l_crvmin, l_d, l_delsq, l_ggsav, l_gnew, l_gredsq, l_gredsq0, l_iterc, l_itermax, l_nact, l_need_alt_trust_step, l_qred, l_s, l_xbdi), true)
) else (
let l_temp := (fsqrt (add (mul l_stepsq l_resid) (mul l_ds l_ds))) in
let l_blen := (if (le (ofdy 0 0) l_ds) then (div l_resid (add l_temp l_ds)) else (div (sub l_temp l_ds) l_stepsq)) in
let l_stplen := (if (le l_shs (ofdy 0 0)) then l_blen else (pymin l_blen (div u_gredsq l_shs))) in
if (le l_stplen (ofdy 178405961588245 (-147))) then (
let l_need_alt_trust_step := false in
Ok ((l_beta, l_crvmin, l_d, l_delsq, l_ggsav, l_gnew, l_gredsq, l_gredsq0, l_iterc, l_itermax, l_nact, l_need_alt_trust_step, l_qred, l_s, l_xbdi), true)
) else (
let l_iact := (None : (option Z)) in
bind (for_loop (rangeZ 0 l_n) (fun l_i '(l_iact, l_stplen, l_temp) =>
bind (if (negb (feq (getT l_s l_i) (ofdy 0 0))) then (
let l_temp := (div (if (lt (ofdy 0 0) (getT l_s l_i)) then (sub (sub (getT l_su l_i) (getT l_xopt l_i)) (getT l_d l_i)) else (sub (sub (getT l_sl l_i) (getT l_xopt l_i)) (getT l_d l_i))) (getT l_s l_i)) in
bind (if (lt l_temp l_stplen) then (
let l_stplen := l_temp in
let l_iact := (Some l_i) in
Ok (l_iact, l_stplen)
) else (
Ok (l_iact, l_stplen)
)) (fun '(l_iact, l_stplen) =>
Ok (l_iact, l_stplen, l_temp))
) else (
Ok (l_iact, l_stplen, l_temp)
)) (fun '(l_iact, l_stplen, l_temp) =>
Ok ((l_iact, l_stplen, l_temp), false))) (l_iact, l_stplen, l_temp)) (fun '(l_iact, l_stplen, l_temp) =>
let l_sdec := (ofdy 0 0) in
bind (if (lt (ofdy 0 0) l_stplen) then (
let l_iterc := (Z.add l_iterc 1) in
let l_temp := (div l_shs l_stepsq) in
bind (if ((is_none l_iact) && (lt (ofdy 0 0) l_temp)) then (
let l_crvmin := (if (negb (feq l_crvmin (ofdy (-1) 0))) then (pymin l_crvmin l_temp) else l_temp) in
Ok (l_crvmin)
) else (
Ok (l_crvmin)
)) (fun l_crvmin =>
match l_gredsq with None => Err OtherError | Some u_gredsq =>
let l_ggsav := (Some u_gredsq) in
let l_gnew := (vmap2 add l_gnew (vmap (mul l_stplen) l_hs)) in
let l_d := (vmap2 add l_d (vmap (mul l_stplen) l_s)) in
let l_gredsq := (Some (s_sumsq (bfilt l_gnew (zmask (fun z_ => (Z.eqb z_ 0)) l_xbdi)))) in
match l_ggsav with None => Err OtherError | Some u_ggsav =>
let l_sdec := (pymax (mul l_stplen (sub u_ggsav (mul (mul (ofdy 1 (-1)) l_stplen) l_shs))) (ofdy 0 0)) in
let l_qred := (add l_qred l_sdec) in
Ok (l_crvmin, l_d, l_ggsav, l_gnew, l_gredsq, l_iterc, l_qred, l_sdec, l_temp)
end
end)
) else (
Ok (l_crvmin, l_d, l_ggsav, l_gnew, l_gredsq, l_iterc, l_qred, l_sdec, l_temp)
)) (fun '(l_crvmin, l_d, l_ggsav, l_gnew, l_gredsq, l_iterc, l_qred, l_sdec, l_temp) =>
match l_iact with Some v1_ => (
let l_nact := (Z.add l_nact 1) in
let l_xbdi := (updZ l_xbdi v1_ (if (le (ofdy 0 0) (getT l_s v1_)) then 1 else (-1))) in
let l_delsq := (sub l_delsq (mul (getT l_d v1_) (getT l_d v1_))) in
if (le l_delsq (ofdy 0 0)) then (
let l_need_alt_trust_step := true in
Ok ((l_beta, l_crvmin, l_d, l_delsq, l_ggsav, l_gnew, l_gredsq, l_gredsq0, l_iterc, l_itermax, l_nact, l_need_alt_trust_step, l_qred, l_s, l_xbdi), true)
) else (
let l_beta := (ofdy 0 0) in
Ok ((l_beta, l_crvmin, l_d, l_delsq, l_ggsav, l_gnew, l_gredsq, l_gredsq0, l_iterc, l_itermax, l_nact, l_need_alt_trust_step, l_qred, l_s, l_xbdi), false)
)
) | None => (
if (le l_blen l_stplen) then (
let l_need_alt_trust_step := true in
Ok ((l_beta, l_crvmin, l_d, l_delsq, l_ggsav, l_gnew, l_gredsq, l_gredsq0, l_iterc, l_itermax, l_nact, l_need_alt_trust_step, l_qred, l_s, l_xbdi), true)
) else (
match l_itermax with None => Err OtherError | Some u_itermax =>
if ((Z.eqb l_iterc u_itermax) || (le l_sdec (mul (ofdy 4722366482869645 (-72)) l_qred))) then (
let l_need_alt_trust_step := false in
Ok ((l_beta, l_crvmin, l_d, l_delsq, l_ggsav, l_gnew, l_gredsq, l_gredsq0, l_iterc, l_itermax, l_nact, l_need_alt_trust_step, l_qred, l_s, l_xbdi), true)
) else (
match l_gredsq with None => Err OtherError | Some u_gredsq =>
match l_ggsav with None => Err OtherError | Some u_ggsav =>
let l_beta := (div u_gredsq u_ggsav) in
Ok ((l_beta, l_crvmin, l_d, l_delsq, l_ggsav, l_gnew, l_gredsq, l_gredsq0, l_iterc, l_itermax, l_nact, l_need_alt_trust_step, l_qred, l_s, l_xbdi), false)
end
end
)
end
)
) end))
)
)
)
end
end))
))) (l_beta, l_crvmin, l_d, l_delsq, l_ggsav, l_gnew, l_gredsq, l_gredsq0, l_iterc, l_itermax, l_nact, l_need_alt_trust_step, l_qred, l_s, l_xbdi)) (fun '(l_beta, l_crvmin, l_d, l_delsq, l_ggsav, l_gnew, l_gredsq, l_gredsq0, l_iterc, l_itermax, l_nact, l_need_alt_trust_step, l_qred, l_s, l_xbdi) =>
if l_need_alt_trust_step then (
let l_crvmin := (ofdy 0 0) in
bind (s_alt_trust_step l_n l_xopt l_H l_sl l_su l_d l_xbdi l_nact l_gnew l_qred) (fun '(l_d, l_gnew) =>
Ok ((l_d, l_gnew, l_crvmin)))
) else (
Ok (((s_d_within_bounds l_d l_xopt l_sl l_su l_xbdi), l_gnew, l_crvmin))
)).
End Spec.

(* ---- boolean-mask indexing: scattering the masked entries of y into x is a pointwise selection ---- *)
Fixpoint bsel {X} (m : list bool) (y x : list X) : list X :=
  match m, y, x with b :: m', u :: y', v :: x' => (if b then u else v) :: bsel m' y' x' | _, _, _ => x end.
Lemma bscatter_bfilt {X} : forall (x y : list X) (m : list bool), length y = length x -> length m = length x ->
  bscatter x m (bfilt y m) = bsel m y x.
Proof.
  induction x as [|v x IH]; intros [|u y] [|b m] Hy Hm; try discriminate; try reflexivity.
  cbn [bfilt]. destruct b; cbn [bscatter bsel]; f_equal; apply IH; cbn in *; lia.
Qed.
Lemma bsel_length {X} : forall (m : list bool) (y x : list X), length (bsel m y x) = length x.
Proof. induction m as [|b m IH]; intros [|u y] [|v x]; cbn; auto. Qed.
