(* DV.Lib.MGeom -- the linear solver over box and ball of trust_region.py (trsbox_linear, with ball_step) and the geometry
   solver built on it (trsbox_geometry): reference models s_ball_step / s_trsbox_linear / s_trsbox_geometry (frozen, renamed
   copies of the translator's output; PerRun/C13.v proves the regenerated functions equal to them on every run) and, over the
   reals, the box clause of C13 for every input:  every value trsbox_linear returns lies in the (widened) box
   [min(a, -ZT), max(b, ZT)], and every point trsbox_geometry returns lies in [lower - 2 ZT, upper + 2 ZT]  (ZT = 1e-14,
   the solver's ZERO_THRESH; the asserts at the top of trsbox_geometry allow xbase itself to be outside by ZT).
   The proof is an invariant over the active-set loop: coordinates in cons_dirns are inside the box and have a zero search
   direction; coordinates outside it have |dirn| >= ZT; cons_dirns has no repetitions and grows by one per iteration, so
   after n iterations it holds every coordinate.  The specialisation use_fortran=False is recorded in the translator schema
   (the optional `trustregion` Fortran package is outside the model). *)
From Coq Require Import ZArith List Bool Lia Reals Lra.
From Flocq Require Import Raux.
Require Import DV.Base.Prelude DV.Base.F64 DV.Base.OrdLaws DV.Spec.Schema DV.Lib.MDyk.
Import ListNotations.
Open Scope Z_scope.

Section Spec.
Context `{A : Arith}.

Definition s_ball_step (l_x0 : vec) (l_g : vec) (l_Delta : T) : T :=
let l_gdotx0 := (dot l_g l_x0) in
let l_gsqnorm := (dot l_g l_g) in
let l_x0sqnorm := (dot l_x0 l_x0) in
(if (lt (fsqrt l_gsqnorm) (ofdy 6338253001141147 (-99))) then (ofdy 0 0) else (div (sub (fsqrt (npmax (ofZ 0) (add (mul l_gdotx0 l_gdotx0) (mul l_gsqnorm (sub (mul l_Delta l_Delta) l_x0sqnorm))))) l_gdotx0) l_gsqnorm)).

Definition s_trsbox_linear (l_g : vec) (l_a_in : vec) (l_b_in : vec) (l_Delta : T) : res (vec) :=
let l_a := (vmap (fun y_ => npmin y_ (fneg (ofdy 6338253001141147 (-99)))) l_a_in) in
let l_b := (vmap (fun y_ => npmax y_ (ofdy 6338253001141147 (-99))) l_b_in) in
let l_n := (lenZ l_g) in
let l_x := (vzeros l_n) in
let l_dirn := (vmap fneg l_g) in
let l_cons_dirns := ([] : list Z) in
let l_constant_directions := (where_idx (fun y_ => lt (fabs y_) (ofdy 6338253001141147 (-99))) l_dirn) in
let l_dirn := (set_many l_dirn l_constant_directions (ofdy 0 0)) in
let l_cons_dirns := (l_cons_dirns ++ l_constant_directions) in
let ret_ := (None : option vec) in
bind (for_loop (rangeZ 0 l_n) (fun l_i '(l_cons_dirns, l_dirn, l_x, ret_) =>
if (lt (vnorm l_dirn) (ofdy 6338253001141147 (-99))) then (
let ret_ := Some l_x in
Ok ((l_cons_dirns, l_dirn, l_x, ret_), true)
) else (
let l_alpha_unc := (s_ball_step l_x l_dirn l_Delta) in
let l_xnew := (vmap2 add l_x (vmap (mul l_alpha_unc) l_dirn)) in
let l_on_box_bdry := false in
let l_hit_upper := (None : (option bool)) in
let l_idx_hit := (None : (option Z)) in
bind (for_loop (rangeZ 0 l_n) (fun l_j '(l_hit_upper, l_idx_hit, l_on_box_bdry) =>
if (memZ l_j l_cons_dirns) then (
Ok ((l_hit_upper, l_idx_hit, l_on_box_bdry), false)
) else (
if (le (getT l_xnew l_j) (getT l_a l_j)) then (
let l_on_box_bdry := true in
let l_hit_upper := (Some false) in
let l_idx_hit := (Some l_j) in
Ok ((l_hit_upper, l_idx_hit, l_on_box_bdry), true)
) else (
if (le (getT l_b l_j) (getT l_xnew l_j)) then (
let l_on_box_bdry := true in
let l_hit_upper := (Some true) in
let l_idx_hit := (Some l_j) in
Ok ((l_hit_upper, l_idx_hit, l_on_box_bdry), true)
) else (
Ok ((l_hit_upper, l_idx_hit, l_on_box_bdry), false)
)
)
)) (l_hit_upper, l_idx_hit, l_on_box_bdry)) (fun '(l_hit_upper, l_idx_hit, l_on_box_bdry) =>
if (negb l_on_box_bdry) then (
let ret_ := Some l_xnew in
Ok ((l_cons_dirns, l_dirn, l_x, ret_), true)
) else (
match l_idx_hit with None => Err OtherError | Some u_idx_hit =>
let l_cons_dirns := (l_cons_dirns ++ [u_idx_hit]) in
let l_alpha_con := (div (sub (if (match l_hit_upper with Some true => true | _ => false end) then (getT l_b u_idx_hit) else (getT l_a u_idx_hit)) (getT l_x u_idx_hit)) (getT l_dirn u_idx_hit)) in
let l_x := (vmap2 add l_x (vmap (mul l_alpha_con) l_dirn)) in
let l_x := (updZ l_x u_idx_hit (if (match l_hit_upper with Some true => true | _ => false end) then (getT l_b u_idx_hit) else (getT l_a u_idx_hit))) in
let l_dirn := (updZ l_dirn u_idx_hit (ofdy 0 0)) in
Ok ((l_cons_dirns, l_dirn, l_x, ret_), false)
end
))
)) (l_cons_dirns, l_dirn, l_x, ret_)) (fun '(l_cons_dirns, l_dirn, l_x, ret_) =>
match ret_ with Some r_ => Ok (r_) | None =>
Ok (l_x)
end).

Definition s_trsbox_geometry (l_xbase : vec) (l_c : T) (l_g : vec) (l_lower : vec) (l_upper : vec) (l_Delta : T) : res (vec) :=
if negb (vall2 le l_lower (vmap (fun y_ => add y_ (ofdy 6338253001141147 (-99))) l_xbase)) then Err AssertionError else
if negb (vall2 le (vmap (fun y_ => sub y_ (ofdy 6338253001141147 (-99))) l_xbase) l_upper) then Err AssertionError else
bind (s_trsbox_linear l_g (vmap2 sub l_lower l_xbase) (vmap2 sub l_upper l_xbase) l_Delta) (fun l_smin =>
bind (s_trsbox_linear (vmap fneg l_g) (vmap2 sub l_lower l_xbase) (vmap2 sub l_upper l_xbase) l_Delta) (fun l_smax =>
if (le (fabs (add l_c (dot l_g l_smax))) (fabs (add l_c (dot l_g l_smin)))) then (
Ok ((vmap2 add l_xbase l_smin))
) else (
Ok ((vmap2 add l_xbase l_smax))
))).
End Spec.

(* ---- generic facts ---------------------------------------------------------------------------------------------- *)
Lemma for_rangeN_inv {C} (P : Z -> C -> Prop) (Q : C -> Prop) (body : Z -> C -> res (C * bool)) (lo : Z) :
  forall m s c c', lo <= s ->
  (forall i c c1, lo <= i < s + Z.of_nat m -> P i c -> body i c = Ok (c1, false) -> P (i + 1) c1) ->
  (forall i c c1, lo <= i < s + Z.of_nat m -> P i c -> body i c = Ok (c1, true) -> Q c1) ->
  P s c -> for_loop (rangeN s m) body c = Ok c' -> Q c' \/ P (s + Z.of_nat m) c'.
Proof.
  induction m as [|m IH]; intros s c c' Hlo Hstep Hbrk HP Hl; cbn [for_loop rangeN] in Hl.
  - injection Hl as <-. right. now rewrite Z.add_0_r.
  - destruct (body s c) as [[c1 b]|] eqn:E; [|discriminate]. destruct b.
    + injection Hl as <-. left. eapply Hbrk; [|exact HP|exact E]. lia.
    + assert (HP1: P (s + 1) c1) by (eapply Hstep; [|exact HP|exact E]; lia).
      destruct (IH (s + 1) c1 c' ltac:(lia)) as [HQ|HP']; auto.
      * intros i c0 c2 Hi. apply Hstep. lia.
      * intros i c0 c2 Hi. apply Hbrk. lia.
      * right. replace (s + Z.of_nat (S m)) with (s + 1 + Z.of_nat m) by lia. exact HP'.
Qed.

Lemma memZ_In k l : memZ k l = true <-> In k l.
Proof. unfold memZ. rewrite existsb_exists. split; [intros (x & Hx & E); apply Z.eqb_eq in E; now subst|intros H; exists k; split; auto; apply Z.eqb_refl]. Qed.
Lemma memZ_app k l l' : memZ k (l ++ l') = memZ k l || memZ k l'.
Proof. unfold memZ. apply existsb_app. Qed.

Lemma NoDup_snoc {X} (l : list X) u : NoDup l -> ~ In u l -> NoDup (l ++ [u]).
Proof.
  induction l as [|a l IH]; intros Hnd Hu; cbn [app]; [constructor; [intros []|constructor]|].
  inversion Hnd as [|? ? Ha Hl]; subst. constructor.
  - intros Hin. apply in_app_or in Hin. destruct Hin as [Hin|[<-|[]]]; [auto|]. apply Hu. now left.
  - apply IH; auto. intros Hin. apply Hu. now right.
Qed.
(* a repetition-free list of n' >= n indices below n holds every index below n *)
Lemma all_indices_listed (n : nat) (l : list Z) : NoDup l -> (forall k, In k l -> 0 <= k < Z.of_nat n) -> (n <= length l)%nat ->
  forall j, 0 <= j < Z.of_nat n -> In j l.
Proof.
  intros Hnd Hr Hlen j Hj.
  assert (Hincl: incl l (rangeN 0 n)) by (intros k Hk; apply rangeN_In; specialize (Hr k Hk); lia).
  assert (Hincl': incl (rangeN 0 n) l) by (apply NoDup_length_incl; auto; rewrite rangeN_length; lia).
  apply Hincl'. apply rangeN_In. lia.
Qed.

Section Vec.
Context `{A : Arith}.
Lemma nth_vmap2 (f : T -> T -> T) (d : T) : forall (x y : vec) k, (k < length x)%nat -> length x = length y ->
  nth k (vmap2 f x y) d = f (nth k x d) (nth k y d).
Proof. induction x as [|a x IH]; intros [|b y] k Hk Hl; cbn in *; try lia. destruct k; [reflexivity|]. apply IH; lia. Qed.
Lemma getT_vmap2 (f : T -> T -> T) (x y : vec) j : 0 <= j < lenZ x -> lenZ x = lenZ y ->
  getT (vmap2 f x y) j = f (getT x j) (getT y j).
Proof. unfold getT, getD, lenZ. intros Hj Hl. apply nth_vmap2; lia. Qed.
Lemma getT_vmap (f : T -> T) (x : vec) j : 0 <= j < lenZ x -> getT (vmap f x) j = f (getT x j).
Proof.
  unfold getT, getD, lenZ, vmap. intros Hj. rewrite (nth_indep _ dflt (f dflt)) by (rewrite map_length; lia). apply map_nth.
Qed.
Lemma lenZ_vmap2 (f : T -> T -> T) (x y : vec) : lenZ x = lenZ y -> lenZ (vmap2 f x y) = lenZ x.
Proof. unfold lenZ. intros Hl. rewrite vmap2_length. lia. Qed.
Lemma lenZ_vmap (f : T -> T) (x : vec) : lenZ (vmap f x) = lenZ x.
Proof. unfold lenZ. now rewrite vmap_length. Qed.
Lemma getT_updZ_same (x : vec) k v : 0 <= k < lenZ x -> getT (updZ x k v) k = v.
Proof. apply getD_updZ_same. Qed.
Lemma getT_updZ_other (x : vec) k j v : 0 <= j -> k <> j -> getT (updZ x k v) j = getT x j.
Proof. apply getD_updZ_other. Qed.
Lemma lenZ_vzeros n : 0 <= n -> lenZ (vzeros n) = n.
Proof. intros Hn. unfold lenZ, vzeros, repeatZ. rewrite repeat_length. lia. Qed.
Lemma getT_vzeros n j : 0 <= j < n -> getT (vzeros n) j = zero.
Proof.
  intros Hj. unfold getT, getD, vzeros, repeatZ. assert (Hk: (Z.to_nat j < Z.to_nat n)%nat) by lia. revert Hk.
  generalize (Z.to_nat j) (Z.to_nat n). intros k m. revert k.
  induction m as [|m IH]; intros [|k] Hk; cbn; try lia; auto. apply IH. lia.
Qed.

(* set_many / where_idx *)
Lemma lenZ_set_many (x : vec) idxs c : lenZ (set_many x idxs c) = lenZ x.
Proof. unfold set_many. revert x. induction idxs as [|k idxs IH]; intros x; cbn [fold_left]; auto. rewrite IH. apply lenZ_updZ. Qed.
Lemma getT_set_many (x : vec) idxs c j : 0 <= j < lenZ x -> (forall k, In k idxs -> 0 <= k < lenZ x) ->
  getT (set_many x idxs c) j = if memZ j idxs then c else getT x j.
Proof.
  unfold set_many. revert x. induction idxs as [|k idxs IH]; intros x Hj Hr; cbn [fold_left]; [reflexivity|].
  rewrite IH by (rewrite ?lenZ_updZ; auto; intros k' Hk'; apply Hr; now right).
  unfold memZ. cbn [existsb]. fold (memZ j idxs). destruct (memZ j idxs); [now rewrite orb_true_r|]. rewrite orb_false_r.
  destruct (Z.eqb_spec j k) as [->|Hne]; [apply getT_updZ_same; apply Hr; now left|apply getT_updZ_other; [lia|congruence]].
Qed.
Lemma where_from_spec (f : T -> bool) : forall (x : vec) i k, In k (where_from f x i) <-> i <= k < i + lenZ x /\ f (getT x (k - i)) = true.
Proof.
  induction x as [|a x IH]; intros i k; cbn [where_from].
  - unfold lenZ; cbn. split; [intros []|lia].
  - assert (Hl: lenZ (a :: x) = 1 + lenZ x) by (unfold lenZ; cbn [length]; lia). pose proof (lenZ_nonneg x) as Hx0.
    assert (Hg: forall q, i + 1 <= q -> getT (a :: x) (q - i) = getT x (q - (i + 1))).
    { intros q Hq. unfold getT, getD. replace (Z.to_nat (q - i)) with (S (Z.to_nat (q - (i + 1)))) by lia. reflexivity. }
    destruct (f a) eqn:Fa; cbn [In]; rewrite IH, Hl.
    + split.
      * intros [<-|(Hr & Hf)]; [split; [lia|]; now rewrite Z.sub_diag|split; [lia|now rewrite Hg by lia]].
      * intros (Hr & Hf). destruct (Z.eq_dec i k) as [|Hne]; [now left|right]. split; [lia|]. now rewrite <- Hg by lia.
    + split.
      * intros (Hr & Hf). split; [lia|now rewrite Hg by lia].
      * intros (Hr & Hf). destruct (Z.eq_dec i k) as [<-|Hne]; [rewrite Z.sub_diag in Hf; unfold getT, getD in Hf; cbn in Hf; congruence|].
        split; [lia|now rewrite <- Hg by lia].
Qed.
Lemma where_from_NoDup (f : T -> bool) : forall (x : vec) i, NoDup (where_from f x i).
Proof.
  induction x as [|a x IH]; intros i; cbn [where_from]; [constructor|]. destruct (f a); auto. constructor; auto.
  intros Hin. apply where_from_spec in Hin. lia.
Qed.
Lemma where_idx_spec (f : T -> bool) (x : vec) k : In k (where_idx f x) <-> 0 <= k < lenZ x /\ f (getT x k) = true.
Proof. unfold where_idx. rewrite where_from_spec. now rewrite Z.sub_0_r, Z.add_0_l. Qed.
End Vec.

(* ---- the two loop bodies of s_trsbox_linear, named ------------------------------------------------------------------- *)
Section Bodies.
Context `{A : Arith}.
Definition ZTc : T := ofdy 6338253001141147 (-99).
Definition icarry := (option bool * option Z * bool)%type.
Definition ocarry := (list Z * vec * vec * option vec)%type.
Definition lin_inner (a b xnew : vec) (cs : list Z) (j : Z) (c : icarry) : res (icarry * bool) :=
  let '(hu, idx, bd) := c in
  if memZ j cs then Ok ((hu, idx, bd), false)
  else if le (getT xnew j) (getT a j) then Ok ((Some false, Some j, true), true)
  else if le (getT b j) (getT xnew j) then Ok ((Some true, Some j, true), true)
  else Ok ((hu, idx, bd), false).
Definition hit_bound (a b : vec) (hu : option bool) (u : Z) : T :=
  if (match hu with Some true => true | _ => false end) then getT b u else getT a u.
Definition lin_body (a b : vec) (Delta : T) (n : Z) (i : Z) (c : ocarry) : res (ocarry * bool) :=
  let '(cs, dirn, x, ret_) := c in
  if lt (vnorm dirn) ZTc then Ok ((cs, dirn, x, Some x), true)
  else
    let xnew := vmap2 add x (vmap (mul (s_ball_step x dirn Delta)) dirn) in
    bind (for_loop (rangeZ 0 n) (lin_inner a b xnew cs) (None, None, false)) (fun '(hu, idx, bd) =>
      if negb bd then Ok ((cs, dirn, x, Some xnew), true)
      else match idx with
           | None => Err OtherError
           | Some u => Ok ((cs ++ [u], updZ dirn u (ofdy 0 0),
                            updZ (vmap2 add x (vmap (mul (div (sub (hit_bound a b hu u) (getT x u)) (getT dirn u))) dirn)) u (hit_bound a b hu u), ret_), false)
           end).
Definition widen_lo (a_in : vec) : vec := vmap (fun y_ => npmin y_ (fneg ZTc)) a_in.
Definition widen_hi (b_in : vec) : vec := vmap (fun y_ => npmax y_ ZTc) b_in.
Definition lin_start (g : vec) : ocarry :=
  let dirn := vmap fneg g in
  let cd := where_idx (fun y_ => lt (fabs y_) ZTc) dirn in
  (([] : list Z) ++ cd, set_many dirn cd (ofdy 0 0), vzeros (lenZ g), None).
Lemma s_trsbox_linear_unfold g a_in b_in Delta :
  s_trsbox_linear g a_in b_in Delta =
  bind (for_loop (rangeZ 0 (lenZ g)) (lin_body (widen_lo a_in) (widen_hi b_in) Delta (lenZ g)) (lin_start g))
       (fun '(cs, dirn, x, ret_) => match ret_ with Some r_ => Ok r_ | None => Ok x end).
Proof. reflexivity. Qed.
End Bodies.

(* ---- [R] every value returned by s_trsbox_linear lies in the widened box --------------------------------------------- *)
Section BoxR.
Local Open Scope R_scope.
Notation gT := (@getT ArithR).
Notation rvec := (list R).
Definition ZT : R := @ZTc ArithR.
Lemma ZT_pos : 0 < ZT.
Proof. unfold ZT, ZTc. cbn [ofdy ArithR]. apply Rmult_lt_0_compat; [apply IZR_lt; lia|apply bpow_gt_0]. Qed.
Lemma ofdy00 : @ofdy ArithR 0 0 = 0.
Proof. cbn [ofdy ArithR]. apply Rmult_0_l. Qed.
Lemma zero_R : @zero ArithR = 0. Proof. reflexivity. Qed.

Lemma ssq_ge_component : forall (v : rvec) k, (k < length v)%nat -> nth k v 0 * nth k v 0 <= ssq v.
Proof.
  induction v as [|a v IH]; intros k Hk; cbn [length] in Hk; [lia|]. change (ssq (a :: v)) with (a * a + ssq v).
  destruct k as [|k]; cbn [nth].
  - pose proof (ssq_nonneg v). lra.
  - specialize (IH k ltac:(lia)). pose proof (Rle_0_sqr a) as Ha. unfold Rsqr in Ha. lra.
Qed.
Lemma component_le_norm (v : rvec) j : (0 <= j < lenZ v)%Z -> Rabs (gT v j) <= @vnorm ArithR v.
Proof.
  intros Hj. unfold vnorm. cbn [fsqrt ArithR]. rewrite sumsq_ssq. rewrite <- sqrt_Rsqr_abs. apply sqrt_le_1_alt.
  unfold Rsqr, getT, getD. cbn [dflt ArithR]. apply ssq_ge_component. unfold lenZ in Hj. lia.
Qed.
Lemma npmin_le_r (x y : R) : @npmin ArithR x y <= y.
Proof. unfold npmin. cbn [lt isnan ArithR]. rewrite orb_false_r. case Rlt_bool_spec; intros; lra. Qed.
Lemma npmax_ge_r (x y : R) : y <= @npmax ArithR x y.
Proof. unfold npmax. cbn [lt isnan ArithR]. rewrite orb_false_r. case Rlt_bool_spec; intros; lra. Qed.
Lemma npmin_le_l (x y : R) : @npmin ArithR x y <= x.
Proof. unfold npmin. cbn [lt isnan ArithR]. rewrite orb_false_r. case Rlt_bool_spec; intros; lra. Qed.
Lemma npmax_ge_l (x y : R) : x <= @npmax ArithR x y.
Proof. unfold npmax. cbn [lt isnan ArithR]. rewrite orb_false_r. case Rlt_bool_spec; intros; lra. Qed.

Ltac zl := change (@T ArithR) with R in *; lia.
Lemma gT_upd_same (x : rvec) k v : (0 <= k < lenZ x)%Z -> gT (updZ x k v) k = v.
Proof. apply (@getT_updZ_same ArithR). Qed.
Lemma gT_upd_other (x : rvec) k j v : (0 <= j)%Z -> k <> j -> gT (updZ x k v) j = gT x j.
Proof. apply (@getT_updZ_other ArithR). Qed.
Section Loop.
Variables (a b : rvec) (Delta : R) (N : nat).
Let nZ := Z.of_nat N.
Hypothesis Ha : lenZ a = nZ.
Hypothesis Hb : lenZ b = nZ.
Hypothesis Hab : forall j, (0 <= j < nZ)%Z -> gT a j < 0 < gT b j.

Definition InBox (r : rvec) : Prop := lenZ r = nZ /\ forall j, (0 <= j < nZ)%Z -> gT a j <= gT r j <= gT b j.

Lemma inner_spec (xnew : rvec) (cs : list Z) c' :
  for_loop (rangeN 0 N) (@lin_inner ArithR a b xnew cs) (None, None, false) = Ok c' ->
  (c' = (None, None, false) /\ forall j, (0 <= j < nZ)%Z -> memZ j cs = false -> gT a j < gT xnew j < gT b j) \/
  (exists hu u, c' = (hu, Some u, true) /\ (0 <= u < nZ)%Z /\ memZ u cs = false /\
                ((hu = Some false /\ gT xnew u <= gT a u) \/ (hu = Some true /\ gT b u <= gT xnew u))).
Proof.
  intros Hl.
  pose (P := fun (i : Z) (c : @icarry) => c = (None, None, false) /\ forall j, (0 <= j < i)%Z -> memZ j cs = false -> gT a j < gT xnew j < gT b j).
  pose (Q := fun (c : @icarry) => exists hu u, c = (hu, Some u, true) /\ (0 <= u < nZ)%Z /\ memZ u cs = false /\
                ((hu = Some false /\ gT xnew u <= gT a u) \/ (hu = Some true /\ gT b u <= gT xnew u))).
  destruct (for_rangeN_inv P Q (@lin_inner ArithR a b xnew cs) 0%Z N 0%Z (None, None, false) c' ltac:(lia)) as [HQ|HP]; auto.
  - intros i c c1 Hi (-> & HP) Hb1. unfold lin_inner in Hb1. cbn [le ArithR] in Hb1.
    destruct (memZ i cs) eqn:Em.
    + injection Hb1 as <-. split; auto. intros j Hj Hm. destruct (Z.eq_dec j i) as [->|]; [congruence|apply HP; auto; lia].
    + revert Hb1. case Rle_bool_spec; intros H1; [discriminate|]. case Rle_bool_spec; intros H2; [discriminate|].
      intros Hb1. injection Hb1 as <-. split; auto. intros j Hj Hm. destruct (Z.eq_dec j i) as [->|]; [lra|apply HP; auto; lia].
  - intros i c c1 Hi (-> & HP) Hb1. unfold lin_inner in Hb1. cbn [le ArithR] in Hb1.
    destruct (memZ i cs) eqn:Em; [discriminate|].
    revert Hb1. case Rle_bool_spec; intros H1.
    + intros Hb1. injection Hb1 as <-. exists (Some false), i. repeat split; auto; try (fold nZ; lia).
    + case Rle_bool_spec; intros H2; [|discriminate]. intros Hb1. injection Hb1 as <-. exists (Some true), i. repeat split; auto; try (fold nZ; lia).
  - split; auto. intros j Hj. lia.
Qed.

Definition Inv (i : Z) (c : @ocarry ArithR) : Prop :=
  let '(cs, dirn, x, ret) := c in
  ret = None /\ lenZ x = nZ /\ lenZ dirn = nZ /\ NoDup cs /\ (forall k, In k cs -> (0 <= k < nZ)%Z) /\ (i <= lenZ cs)%Z /\
  (forall j, (0 <= j < nZ)%Z -> memZ j cs = true -> (gT a j <= gT x j <= gT b j) /\ gT dirn j = 0) /\
  (forall j, (0 <= j < nZ)%Z -> memZ j cs = false -> ZT <= Rabs (gT dirn j)).
Definition Post (c : @ocarry ArithR) : Prop := let '(cs, dirn, x, ret) := c in exists r, ret = Some r /\ InBox r.

Lemma lenZ_step (x dirn : rvec) (al : R) : lenZ x = nZ -> lenZ dirn = nZ -> lenZ (@vmap2 ArithR Rplus x (@vmap ArithR (Rmult al) dirn)) = nZ.
Proof. intros Hx Hd. rewrite (@lenZ_vmap2 ArithR); [exact Hx|]. rewrite (@lenZ_vmap ArithR). change (@T ArithR) with R. lia. Qed.
Lemma step_along (x dirn : rvec) (al : R) j : lenZ x = nZ -> lenZ dirn = nZ -> (0 <= j < nZ)%Z ->
  gT (@vmap2 ArithR Rplus x (@vmap ArithR (Rmult al) dirn)) j = gT x j + al * gT dirn j.
Proof.
  intros Hx Hd Hj. rewrite getT_vmap2; [|change (@T ArithR) with R; lia|rewrite lenZ_vmap; change (@T ArithR) with R; lia].
  rewrite getT_vmap by (change (@T ArithR) with R; lia). reflexivity.
Qed.

Lemma body_step i c c1 brk : Inv i c -> @lin_body ArithR a b Delta nZ i c = Ok (c1, brk) ->
  if brk then Post c1 else Inv (i + 1) c1.
Proof.
  destruct c as [[[cs dirn] x] ret]. intros (Hret & Hx & Hd & Hnd & Hrg & Hcnt & Hin & Hout) Hb1.
  unfold lin_body in Hb1. cbn [lt add mul ArithR] in Hb1. fold ZT in Hb1.
  revert Hb1. case Rlt_bool_spec; intros Hnorm Hb1.
  - (* the search direction has vanished: every coordinate is constrained *)
    injection Hb1 as <- <-. exists x. split; auto. split; auto. intros j Hj. destruct (memZ j cs) eqn:Em; [apply Hin; auto|].
    exfalso. pose proof (Hout j Hj Em) as H1. pose proof (component_le_norm dirn j ltac:(zl)) as H2. lra.
  - set (al := @s_ball_step ArithR x dirn Delta) in Hb1.
    set (xnew := @vmap2 ArithR Rplus x (@vmap ArithR (Rmult al) dirn)) in Hb1.
    unfold rangeZ in Hb1. replace (Z.to_nat (nZ - 0)) with N in Hb1 by (unfold nZ; lia).
    destruct (for_loop (rangeN 0 N) (@lin_inner ArithR a b xnew cs) (None, None, false)) as [c'|] eqn:El; [|discriminate].
    cbn [bind] in Hb1. destruct (inner_spec xnew cs c' El) as [(-> & Hfree)|(hu & u & -> & Hu & Hum & Hhit)].
    + (* no free coordinate reaches its bound: the step to the sphere is returned *)
      cbn [negb] in Hb1. injection Hb1 as <- <-. exists xnew. split; auto. split.
      * unfold xnew. apply lenZ_step; auto.
      * intros j Hj. destruct (memZ j cs) eqn:Em.
        -- destruct (Hin j Hj Em) as (Hbx & Hz). unfold xnew. rewrite step_along by auto. rewrite Hz. lra.
        -- specialize (Hfree j Hj Em). lra.
    + cbn [negb] in Hb1. injection Hb1 as <- <-.
      set (bd := @hit_bound ArithR a b hu u). set (ac := @div ArithR (@sub ArithR bd (gT x u)) (gT dirn u)).
      assert (Hbd: gT a u <= bd <= gT b u).
      { pose proof (Hab u Hu). unfold bd, hit_bound. destruct Hhit as [(-> & _)|(-> & _)]; lra. }
      assert (Hnotin: ~ In u cs) by (rewrite <- memZ_In; congruence).
      assert (Hmem: forall j, memZ j (cs ++ [u]) = memZ j cs || (j =? u)%Z).
      { intros j. rewrite memZ_app. unfold memZ at 2. cbn [existsb]. now rewrite orb_false_r. }
      split; [exact Hret|]. split; [rewrite lenZ_updZ; apply lenZ_step; auto|]. split; [rewrite lenZ_updZ; zl|].
      split; [apply NoDup_snoc; auto|]. split; [intros k Hk; apply in_app_or in Hk; destruct Hk as [Hk|[<-|[]]]; auto|].
      split; [rewrite lenZ_app; unfold lenZ at 2; cbn [length]; lia|]. split.
      * intros j Hj Hm. rewrite Hmem in Hm. destruct (Z.eqb_spec j u) as [->|Hne].
        -- split; [rewrite gT_upd_same by (rewrite lenZ_step; auto); exact Hbd|rewrite gT_upd_same by zl; apply ofdy00].
        -- rewrite orb_false_r in Hm. destruct (Hin j Hj Hm) as (Hbx & Hz). rewrite !gT_upd_other by lia.
           split; [|exact Hz]. rewrite step_along by auto. rewrite Hz. lra.
      * intros j Hj Hm. rewrite Hmem in Hm. apply orb_false_elim in Hm. destruct Hm as (Hm1 & Hm2). apply Z.eqb_neq in Hm2.
        rewrite gT_upd_other by lia. apply Hout; auto.
Qed.
End Loop.

Lemma npmin_R (x y : R) : @npmin ArithR x y = Rmin x y.
Proof. unfold npmin. cbn [lt isnan ArithR]. rewrite orb_false_r. case Rlt_bool_spec; intros H; unfold Rmin; destruct (Rle_dec x y); first [lra | reflexivity]. Qed.
Lemma npmax_R' (x y : R) : @npmax ArithR x y = Rmax x y.
Proof. unfold npmax. cbn [lt isnan ArithR]. rewrite orb_false_r. case Rlt_bool_spec; intros H; unfold Rmax; destruct (Rle_dec x y); first [lra | reflexivity]. Qed.

Lemma start_inv (g a b : rvec) : lenZ a = lenZ g -> lenZ b = lenZ g -> (forall j, (0 <= j < lenZ g)%Z -> gT a j < 0 < gT b j) ->
  Inv a b (length g) 0%Z (@lin_start ArithR g).
Proof.
  intros Ha Hb Hab. unfold lin_start, Inv. cbn [app]. fold (lenZ g).
  set (dirn := @vmap ArithR (@fneg ArithR) g). set (cd := @where_idx ArithR (fun y_ => @lt ArithR (@fabs ArithR y_) (@ZTc ArithR)) dirn).
  assert (Hd: lenZ dirn = lenZ g) by apply (@lenZ_vmap ArithR).
  assert (Hcd: forall k, In k cd <-> (0 <= k < lenZ g)%Z /\ Rlt_bool (Rabs (gT dirn k)) ZT = true).
  { intros k. unfold cd. rewrite (@where_idx_spec ArithR). rewrite Hd. reflexivity. }
  split; [reflexivity|]. split; [apply (@lenZ_vzeros ArithR); apply lenZ_nonneg|]. split; [rewrite (@lenZ_set_many ArithR); exact Hd|].
  split; [apply (@where_from_NoDup ArithR)|]. split; [intros k Hk; apply Hcd in Hk; tauto|]. split; [apply lenZ_nonneg|]. split.
  - intros j Hj Hm. split.
    + rewrite (@getT_vzeros ArithR) by exact Hj. rewrite zero_R. specialize (Hab j Hj). lra.
    + rewrite (@getT_set_many ArithR); [|zl|intros k Hk; apply Hcd in Hk; zl].
      fold cd. rewrite Hm. apply ofdy00.
  - intros j Hj Hm. rewrite (@getT_set_many ArithR); [|zl|intros k Hk; apply Hcd in Hk; zl].
    fold cd. rewrite Hm. destruct (Rlt_bool_spec (Rabs (gT dirn j)) ZT) as [Hlt|Hge]; [|exact Hge].
    exfalso. assert (Hin: In j cd) by (apply Hcd; split; auto; now apply Rlt_bool_true). apply memZ_In in Hin. congruence.
Qed.

Theorem trsbox_linear_in_box (g a_in b_in : rvec) (Delta : R) (r : rvec) :
  length a_in = length g -> length b_in = length g ->
  @s_trsbox_linear ArithR g a_in b_in Delta = Ok r ->
  length r = length g /\
  forall j, (0 <= j < lenZ g)%Z -> Rmin (gT a_in j) (- ZT) <= gT r j <= Rmax (gT b_in j) ZT.
Proof.
  intros Hla Hlb Hr. rewrite s_trsbox_linear_unfold in Hr.
  set (a := @widen_lo ArithR a_in) in *. set (b := @widen_hi ArithR b_in) in *.
  assert (Ha: lenZ a = lenZ g) by (unfold a, widen_lo; rewrite (@lenZ_vmap ArithR); unfold lenZ; zl).
  assert (Hb: lenZ b = lenZ g) by (unfold b, widen_hi; rewrite (@lenZ_vmap ArithR); unfold lenZ; zl).
  assert (Hga: forall j, (0 <= j < lenZ g)%Z -> gT a j = Rmin (gT a_in j) (- ZT)).
  { intros j Hj. unfold a, widen_lo. rewrite (@getT_vmap ArithR) by (unfold lenZ in *; zl). apply npmin_R. }
  assert (Hgb: forall j, (0 <= j < lenZ g)%Z -> gT b j = Rmax (gT b_in j) ZT).
  { intros j Hj. unfold b, widen_hi. rewrite (@getT_vmap ArithR) by (unfold lenZ in *; zl). apply npmax_R'. }
  assert (Hab: forall j, (0 <= j < lenZ g)%Z -> gT a j < 0 < gT b j).
  { intros j Hj. rewrite Hga, Hgb by auto. pose proof ZT_pos. pose proof (Rmin_r (gT a_in j) (- ZT)). pose proof (Rmax_r (gT b_in j) ZT). lra. }
  unfold rangeZ in Hr. replace (Z.to_nat (lenZ g - 0)) with (length g) in Hr by (unfold lenZ; lia).
  match type of Hr with context[@for_loop ?C ?l ?bd ?c0] => destruct (@for_loop C l bd c0) as [c'|] eqn:El end; [|discriminate].
  cbn [bind] in Hr.
  destruct (for_rangeN_inv (Inv a b (length g)) (Post a b (length g)) (@lin_body ArithR a b Delta (lenZ g)) 0%Z (length g) 0%Z
              (@lin_start ArithR g) c' ltac:(lia)) as [HQ|HP]; auto.
  - intros i c c1 Hi HI Hb1. exact (body_step a b Delta (length g) Hab i c c1 false HI Hb1).
  - intros i c c1 Hi HI Hb1. exact (body_step a b Delta (length g) Hab i c c1 true HI Hb1).
  - apply start_inv; auto.
  - rewrite <- El. unfold rangeZ. do 2 f_equal. unfold lenZ. change (@T ArithR) with R. lia.
  - destruct c' as [[[cs dirn] x] ret]. destruct HQ as (r0 & -> & Hlen & Hbox). injection Hr as <-.
    split; [unfold lenZ in Hlen; change (@T ArithR) with R in *; lia|]. intros j Hj. rewrite <- Hga, <- Hgb by auto. apply Hbox. exact Hj.
  - destruct c' as [[[cs dirn] x] ret]. destruct HP as (-> & Hx & Hd & Hnd & Hrg & Hcnt & Hin & Hout). injection Hr as <-.
    split; [unfold lenZ in Hx; change (@T ArithR) with R in *; lia|]. intros j Hj. rewrite <- Hga, <- Hgb by auto.
    assert (Hall: In j cs) by (apply (all_indices_listed (length g)); auto; unfold lenZ in Hcnt; lia).
    apply memZ_In in Hall. apply (Hin j Hj Hall).
Qed.

Lemma vall2_spec (f : R -> R -> bool) : forall (x y : rvec), length x = length y -> @vall2 ArithR f x y = true ->
  forall j, (0 <= j < lenZ x)%Z -> f (gT x j) (gT y j) = true.
Proof.
  unfold vall2. induction x as [|u x IH]; intros [|v y] Hl H j Hj; try discriminate; unfold lenZ in Hj; cbn [length] in *; [lia|].
  cbn [combine forallb fst snd] in H. apply andb_prop in H. destruct H as (H1 & H2).
  destruct (Z.eq_dec j 0) as [->|Hne]; [exact H1|].
  unfold getT, getD. replace (Z.to_nat j) with (S (Z.to_nat (j - 1))) by lia. cbn [nth].
  apply (IH y ltac:(lia) H2 (j - 1)%Z). unfold lenZ. lia.
Qed.

Theorem trsbox_geometry_in_box (xbase g lower upper : rvec) (c Delta : R) (r : rvec) :
  length g = length xbase -> length lower = length xbase -> length upper = length xbase ->
  @s_trsbox_geometry ArithR xbase c g lower upper Delta = Ok r ->
  length r = length xbase /\
  forall j, (0 <= j < lenZ xbase)%Z ->
    gT lower j <= gT xbase j + ZT /\ gT xbase j - ZT <= gT upper j /\
    Rmin (gT lower j) (gT xbase j - ZT) <= gT r j <= Rmax (gT upper j) (gT xbase j + ZT).
Proof.
  intros Hg Hlo Hup Hr. unfold s_trsbox_geometry in Hr. cbn [le add sub ArithR] in Hr. change (@ofdy ArithR 6338253001141147 (-99)) with ZT in Hr.
  destruct (@vall2 ArithR Rle_bool lower (@vmap ArithR (fun y_ => y_ + ZT) xbase)) eqn:E1; [|discriminate]. cbn [negb] in Hr.
  destruct (@vall2 ArithR Rle_bool (@vmap ArithR (fun y_ => y_ - ZT) xbase) upper) eqn:E2; [|discriminate]. cbn [negb] in Hr.
  set (al := @vmap2 ArithR Rminus lower xbase) in *. set (bu := @vmap2 ArithR Rminus upper xbase) in *.
  assert (Hal: length al = length g) by (unfold al; rewrite (@vmap2_length ArithR); change (@T ArithR) with R; lia).
  assert (Hbu: length bu = length g) by (unfold bu; rewrite (@vmap2_length ArithR); change (@T ArithR) with R; lia).
  destruct (@s_trsbox_linear ArithR g al bu Delta) as [smin|] eqn:Emin; [|discriminate]. cbn [bind] in Hr.
  assert (Hng: length (@vmap ArithR (@fneg ArithR) g) = length g) by apply map_length.
  destruct (@s_trsbox_linear ArithR (@vmap ArithR (@fneg ArithR) g) al bu Delta) as [smax|] eqn:Emax; [|discriminate]. cbn [bind] in Hr.
  destruct (trsbox_linear_in_box g al bu Delta smin Hal Hbu Emin) as (Hlmin & Hbmin).
  destruct (trsbox_linear_in_box _ al bu Delta smax ltac:(etransitivity; [exact Hal|symmetry; exact Hng]) ltac:(etransitivity; [exact Hbu|symmetry; exact Hng]) Emax) as (Hlmax & Hbmax).
  assert (Hlz: lenZ (@vmap ArithR (@fneg ArithR) g) = lenZ g) by (unfold lenZ; now rewrite Hng).
  assert (Hgen: forall s : rvec, length s = length g ->
            (forall j, (0 <= j < lenZ g)%Z -> Rmin (gT al j) (- ZT) <= gT s j <= Rmax (gT bu j) ZT) ->
            length (@vmap2 ArithR Rplus xbase s) = length xbase /\
            forall j, (0 <= j < lenZ xbase)%Z ->
              gT lower j <= gT xbase j + ZT /\ gT xbase j - ZT <= gT upper j /\
              Rmin (gT lower j) (gT xbase j - ZT) <= gT (@vmap2 ArithR Rplus xbase s) j <= Rmax (gT upper j) (gT xbase j + ZT)).
  { intros s Hs Hbox. split; [rewrite (@vmap2_length ArithR); change (@T ArithR) with R; lia|]. intros j Hj.
    assert (Hj': (0 <= j < lenZ g)%Z) by (unfold lenZ in *; lia).
    assert (L1: length lower = length (@vmap ArithR (fun y_ => y_ + ZT) xbase)) by (unfold vmap; change (@T ArithR) with R; rewrite map_length; lia).
    assert (L2: length (@vmap ArithR (fun y_ => y_ - ZT) xbase) = length upper) by (unfold vmap; change (@T ArithR) with R; rewrite map_length; lia).
    assert (J1: (0 <= j < lenZ lower)%Z) by (unfold lenZ in *; change (@T ArithR) with R in *; lia).
    assert (J2: (0 <= j < lenZ (@vmap ArithR (fun y_ => (y_ - ZT)%R) xbase))%Z) by (rewrite (@lenZ_vmap ArithR); exact Hj).
    pose proof (vall2_spec Rle_bool lower _ L1 E1 j J1) as A1.
    pose proof (vall2_spec Rle_bool _ upper L2 E2 j J2) as A2.
    rewrite (@getT_vmap ArithR) in A1 by (change (@T ArithR) with R; lia). rewrite (@getT_vmap ArithR) in A2 by (change (@T ArithR) with R; lia).
    revert A1 A2. case Rle_bool_spec; [|discriminate]. intros A1 _. case Rle_bool_spec; [|discriminate]. intros A2 _.
    specialize (Hbox j Hj'). unfold al, bu in Hbox.
    rewrite !(@getT_vmap2 ArithR) in Hbox by (unfold lenZ in *; change (@T ArithR) with R; lia).
    rewrite (@getT_vmap2 ArithR) by (unfold lenZ in *; change (@T ArithR) with R; lia).
    split; [exact A1|]. split; [exact A2|]. revert Hbox. unfold Rmin, Rmax.
    repeat match goal with |- context[Rle_dec ?u ?v] => destruct (Rle_dec u v) end; intros; lra. }
  destruct (Rle_bool _ _) in Hr; injection Hr as <-; apply Hgen; auto.
  - etransitivity; [exact Hlmax|exact Hng].
  - intros j Hj. apply Hbmax. unfold lenZ in *. change (@T ArithR) with R in *. lia.
Qed.
End BoxR.
