"""Shared helpers of the history-level oracles (C01-C04 ...): random small problems + option sets described by a
JSON-able dict, a recording wrapper around the user's objective, and run_solve(problem) -> record.

A *problem* is a plain dict (ints, bools, strings, lists; every float is stored as float.hex() text):

    gen, pseed, n, m          residual family and the seed its data (matrices, shifts) are drawn from
    zero_at                   None | list(hex): residuals are shifted so that r(zero_at) == 0 (exit at x0 cases)
    x0, lower, upper          lists of hex (lower/upper may be None = argument absent; +-inf never used, dfols uses +-1e20)
    noise                     None | dict(kind='add'|'mult', sigma=hex, seed=int)
    nsamples                  None | dict(kind='const',k) | dict(kind='iter',k) | dict(kind='rho',k,thr=hex) | dict(kind='runs',k)
    reg                       None | hex lambda    (h = lam*||x||_1, prox = soft threshold, lh = lam*sqrt(n))
    proj                      list of dict(kind='ball',c=[hex],r=hex) | dict(kind='box',l=[hex],u=[hex])
    kwargs                    npt, rhobeg (hex|None), rhoend (hex), maxfun, scaling_within_bounds, objfun_has_noise
    user_params               dict name -> bool | int | hex-string(float)
    np_seed                   numpy global seed set immediately before dfols.solve (dfols draws from np.random)

run_solve never raises for something the solver does; it records the exception instead.
"""
import os
for _v in ('OMP_NUM_THREADS', 'OPENBLAS_NUM_THREADS', 'MKL_NUM_THREADS'):
    os.environ.setdefault(_v, '1')
import sys
if '/repo' not in sys.path and not any(p.rstrip('/') == os.environ.get('DFOLS_REPO', '/repo') for p in sys.path):
    sys.path.insert(0, os.environ.get('DFOLS_REPO', '/repo'))
import logging, math, re, time, warnings, traceback
import numpy as np


# ------------------------------------------------------------------------------------------------ float <-> text
def fh(x):
    return float(x).hex()


def hf(s):
    return float.fromhex(s)


def vh(v):
    return None if v is None else [float(x).hex() for x in np.asarray(v, dtype=float).ravel()]


def hv(l):
    return None if l is None else np.array([float.fromhex(s) for s in l], dtype=float)


# ------------------------------------------------------------------------------------------------ residual families
GENS = ('rosen', 'affine', 'quad', 'expsin', 'nonsmooth', 'flat')


def make_residual(gen, pseed, n, m, zero_at=None):
    """deterministic residual function R^n -> R^m built from (gen, pseed, n, m); smooth except 'nonsmooth'.
    All families stay finite for |x| <= 1e10 (delta is capped at 1e10 by the solver)."""
    r = np.random.default_rng([int(pseed), 7919])
    A = r.standard_normal((m, n))
    b = r.standard_normal(m)
    A2 = r.standard_normal((m, n))
    w = r.uniform(0.2, 1.5, size=m)
    c = r.uniform(0.2, 1.0, size=m)
    Q = r.standard_normal((m, n, n)) * 0.3
    Q = 0.5 * (Q + np.transpose(Q, (0, 2, 1)))

    if gen == 'rosen':
        def base(x):
            out = np.empty(m)
            for i in range(m):
                j = (i // 2) % n
                k = (j + 1) % n
                if i % 2 == 0:
                    out[i] = 10.0 * (x[k] - x[j] * x[j]) if n > 1 else 10.0 * (x[0] * x[0] - 1.0)
                else:
                    out[i] = 1.0 - x[j]
            return out
    elif gen == 'affine':
        def base(x):
            return A.dot(x) - b
    elif gen == 'quad':
        def base(x):
            return 0.5 * np.einsum('i,mij,j->m', x, Q, x) + A.dot(x) - b
    elif gen == 'expsin':
        def base(x):
            z = np.clip(0.3 * A.dot(x), -40.0, 40.0)
            return c * np.exp(z) + np.sin(w * A2.dot(x)) - b
    elif gen == 'nonsmooth':
        def base(x):
            return np.abs(A.dot(x) - b) + 0.1 * np.maximum(0.0, A2.dot(x))
    elif gen == 'flat':
        def base(x):
            t = A.dot(x) - b
            return t * t * t / (1.0 + t * t) + 0.01 * t
    else:
        raise ValueError('unknown residual family %r' % (gen,))

    if zero_at is not None:
        z0 = base(np.asarray(zero_at, dtype=float))

        def resid(x):
            return base(x) - z0
        return resid
    return base


class SolveTimeUp(Exception):
    """raised from inside the objective when one run takes too long (slow sub-solvers, not a property matter)"""


def _dfols_caller():
    """name of the innermost dfols function, other than the evaluation plumbing, on the current stack"""
    f = sys._getframe(2)
    while f is not None:
        fn = f.f_code.co_filename.replace('\\', '/')
        if '/dfols/' in fn and f.f_code.co_name not in ('evaluate_objective', 'eval_least_squares_with_regularisation', '<lambda>'):
            return f.f_code.co_name
        f = f.f_back
    return 'unknown'


class Recorder(object):
    """the user's objective: records every call (x copy, returned residual copy, call index 1,2,...) and the
    interleaving with nsamples-callback calls (events)."""

    def __init__(self, base, m, noise=None, time_limit=None):
        self.base = base
        self.m = m
        self.t0 = time.process_time()      # CPU time: the guard must not depend on how busy the machine is
        self.time_limit = time_limit
        self.calls = []          # list of (x, r)
        self.nan_sites = {}      # 0-based call index -> solver function that asked for an evaluation at a NaN point
        self.events = []         # ('f', call_index) | ('ns', returned value, (delta, rho, iter, nruns))
        self.noise = noise
        self.nrng = np.random.default_rng([int(noise['seed']), 104729]) if noise else None
        self.sigma = hf(noise['sigma']) if noise else 0.0

    def __call__(self, x, *args):
        if self.time_limit is not None and time.process_time() - self.t0 > self.time_limit:
            raise SolveTimeUp('run exceeded %.1f s of CPU time after %d evaluations' % (self.time_limit, len(self.calls)))
        xc = np.array(x, dtype=float, copy=True)
        if np.any(np.isnan(xc)):
            self.nan_sites[len(self.calls)] = _dfols_caller()
        r = np.asarray(self.base(xc), dtype=float)
        if self.noise is not None:
            e = self.nrng.standard_normal(self.m)
            if self.noise['kind'] == 'add':
                r = r + self.sigma * e
            else:
                r = r * (1.0 + self.sigma * e)
        rc = np.array(r, dtype=float, copy=True)
        self.calls.append((xc, rc))
        self.events.append(('f', len(self.calls)))
        return np.array(rc, copy=True)      # the solver gets its own copy


def make_nsamples(spec, rec):
    if spec is None:
        return None
    kind, k = spec['kind'], int(spec['k'])
    thr = hf(spec['thr']) if 'thr' in spec else None

    def nsamples(delta, rho, it, nruns):
        if kind == 'const':
            v = k
        elif kind == 'iter':
            v = 1 + (int(it) % k)
        elif kind == 'runs':
            v = min(1 + int(nruns), k)
        elif kind == 'rho':
            v = k if rho < thr else 1
        else:
            raise ValueError(kind)
        rec.events.append(('ns', int(v), (float(delta), float(rho), int(it), int(nruns))))
        return v
    return nsamples


def make_projections(plist):
    from dfols.util import pball, pbox
    out = []
    for p in plist or []:
        if p['kind'] == 'ball':
            c, r = hv(p['c']), hf(p['r'])
            out.append(lambda x, c=c, r=r: pball(x, c, r))
        elif p['kind'] == 'box':
            l, u = hv(p['l']), hv(p['u'])
            out.append(lambda x, l=l, u=u: pbox(x, l, u))
        else:
            raise ValueError(p['kind'])
    return out


def make_reg(reg, n):
    if reg is None:
        return None, None, None
    lam = hf(reg)
    h = lambda x, *a: lam * float(np.sum(np.abs(x)))
    prox = lambda x, u, *a: np.sign(x) * np.maximum(np.abs(x) - lam * u, 0.0)
    return h, lam * math.sqrt(n), prox


def decode_user_params(up):
    out = {}
    for k, v in (up or {}).items():
        out[k] = float.fromhex(v) if isinstance(v, str) else v
    return out


# ------------------------------------------------------------------------------------------------ running
_EVAL_RE = re.compile(r'Function eval (\d+) at point (\d+) has obj = (\S+) at x =')


class _Capture(logging.Handler):
    def __init__(self):
        logging.Handler.__init__(self, level=logging.INFO)
        self.evals = []

    def emit(self, record):
        try:
            msg = record.getMessage()
        except Exception:
            return
        mt = _EVAL_RE.match(msg)
        if mt:
            self.evals.append((int(mt.group(1)), int(mt.group(2))))


TIME_LIMIT = 1.5      # CPU seconds per solve; checked at every objective call


def run_solve(problem, capture_log=True, time_limit=TIME_LIMIT):
    """run dfols.solve on `problem`; returns a record dict:
       soln (OptimResults or None), exc (None | 'Type: text'), calls [(x, r)], events, log [(eval_num, pt_num)] or None,
       lower/upper (arrays as the user passed them, +-inf where absent), x0, problem, h (callable or None)"""
    import dfols
    n, m = int(problem['n']), int(problem['m'])
    base = make_residual(problem['gen'], problem['pseed'], n, m, hv(problem.get('zero_at')))
    rec = Recorder(base, m, problem.get('noise'), time_limit=time_limit)
    x0 = hv(problem['x0'])
    lo, up = hv(problem.get('lower')), hv(problem.get('upper'))
    kw = dict(problem['kwargs'])
    args = dict(npt=kw.get('npt'), rhoend=hf(kw['rhoend']), maxfun=kw.get('maxfun'),
                scaling_within_bounds=bool(kw.get('scaling_within_bounds', False)),
                objfun_has_noise=bool(kw.get('objfun_has_noise', False)),
                rhobeg=None if kw.get('rhobeg') is None else hf(kw['rhobeg']))
    if lo is not None or up is not None:
        args['bounds'] = (lo, up)
    ns = make_nsamples(problem.get('nsamples'), rec)
    if ns is not None:
        args['nsamples'] = ns
    h, lh, prox = make_reg(problem.get('reg'), n)
    if h is not None:
        args.update(h=h, lh=lh, prox_uh=prox)
    projs = make_projections(problem.get('proj'))
    if projs:
        args['projections'] = projs
    upar = decode_user_params(problem.get('user_params'))
    if upar:
        args['user_params'] = upar

    top = logging.getLogger('dfols')
    utl = logging.getLogger('dfols.util')
    saved = (top.propagate, top.level, list(top.handlers), utl.propagate, utl.level, list(utl.handlers))
    cap = _Capture()
    null = logging.NullHandler()
    top.handlers = [null]
    top.propagate = False
    top.setLevel(logging.CRITICAL + 1)
    utl.handlers = [cap] if capture_log else [null]
    utl.propagate = False
    utl.setLevel(logging.INFO if capture_log else logging.CRITICAL + 1)
    soln, exc = None, None
    np.random.seed(int(problem['np_seed']))
    old_err = np.seterr(all='ignore')
    try:
        with warnings.catch_warnings():
            warnings.simplefilter('ignore')
            soln = dfols.solve(rec, x0.copy(), do_logging=bool(capture_log), print_progress=False, **args)
    except SolveTimeUp as ex:
        exc = 'SolveTimeUp: %s' % ex
    except Exception as ex:  # the solver's own failure: recorded, judged by the caller
        tb = traceback.extract_tb(sys.exc_info()[2])
        where = ''
        for fr in reversed(tb):
            if '/dfols/' in fr.filename:
                where = ' @%s:%d' % (os.path.basename(fr.filename), fr.lineno)
                break
        exc = '%s: %s%s' % (type(ex).__name__, str(ex)[:200], where)
    finally:
        np.seterr(**old_err)
        (top.propagate, lv, hs, utl.propagate, lv2, hs2) = saved
        top.setLevel(lv); top.handlers = hs
        utl.setLevel(lv2); utl.handlers = hs2
    lo_full = np.full(n, -np.inf) if lo is None else lo
    up_full = np.full(n, np.inf) if up is None else up
    return dict(soln=soln, exc=exc, timeup=bool(exc and exc.startswith('SolveTimeUp')), calls=rec.calls, nan_sites=rec.nan_sites, events=rec.events, log=(cap.evals if capture_log else None),
                lower=lo_full, upper=up_full, x0=x0, problem=problem, h=h, n=n, m=m)


def points_from_log(record):
    """group the recorded calls by the point number dfols logged for them.
    returns (points, problems): points = ordered list of dict(pt=point number, idx=[call indices 0-based]);
    problems = list of strings (log/call count mismatch ...).  The k-th log line belongs to the k-th call because
    the line is written right after objfun returns."""
    calls, log = record['calls'], record['log']
    probs = []
    if log is None:
        return None, ['no log captured']
    if len(log) != len(calls):
        probs.append('log has %d evaluation lines, objective was called %d times' % (len(log), len(calls)))
    pts = []
    for i, (ev, pt) in enumerate(log[:len(calls)]):
        if pts and pts[-1]['pt'] == pt:
            pts[-1]['idx'].append(i)
        else:
            pts.append(dict(pt=pt, idx=[i]))
    return pts, probs


def flag_name(soln):
    if soln is None:
        return 'exception'
    names = {0: 'success', 1: 'maxfun', 2: 'slow', 3: 'false_success', 4: 'tr_increase_warning', -1: 'input_error',
             -2: 'tr_increase_error', -3: 'linalg_error', -4: 'eval_error'}
    try:
        for nm in ('EXIT_SUCCESS', 'EXIT_MAXFUN_WARNING', 'EXIT_SLOW_WARNING', 'EXIT_FALSE_SUCCESS_WARNING',
                   'EXIT_TR_INCREASE_WARNING', 'EXIT_INPUT_ERROR', 'EXIT_TR_INCREASE_ERROR', 'EXIT_LINALG_ERROR', 'EXIT_EVAL_ERROR'):
            if getattr(soln, nm, None) == soln.flag:
                return nm[5:].lower()
    except Exception:
        pass
    return names.get(soln.flag, 'flag_%s' % soln.flag)


def exit_route(soln):
    """finer than the flag: which message"""
    if soln is None:
        return 'exception'
    msg = str(soln.msg)
    for key, nm in (('sufficiently small', 'obj_small'), ('rho has reached rhoend', 'rhoend'), ('MAXFUN', 'maxfun'),
                    ('unsuccessful restarts', 'max_unsuccessful_restarts'), ('noise level', 'noise_level'),
                    ('slow iterations', 'slow'), ('false successful', 'false_success'), ('model increase', 'tr_increase'),
                    ('constraints are active', 'tr_increase_warning'), ('Singular', 'linalg'), ('NaN', 'nan'),
                    ('Auto-detected', 'auto_detect'), ('bad input', 'input_error')):
        if key in msg:
            return nm
    return 'other'


# ------------------------------------------------------------------------------------------------ problem generator
def _choice(rng, items, p=None):
    return items[int(rng.choice(len(items), p=p))]


FORCES = (None, 'restarts', None, 'tiny', None, 'noise', None, 'zero_at', None, 'restarts', None, 'slow')
FORCES_DETERM = (None, 'restarts', 'trinc', 'tiny', None, 'trinc', None, 'zero_at', None, 'restarts', None, 'slow')


def gen_problem(rng, profile='general', force=None):
    """draw one problem + option set; every random choice from `rng` (a numpy Generator).
    profile: 'bounds' (C01: always bounds, never projections), 'budget' (C02: more averaging / small budgets / restarts),
             'general' (C03: everything), 'determ' (C04: deterministic objective, one sample per point).
    force: None | 'restarts' | 'tiny' (budget below/around the initialisation cost) | 'noise' | 'zero_at' (residuals vanish at the
           projected x0) | 'proj' | 'slow' | 'trinc' (profile 'determ': small ball constraints, no regulariser, mostly no restarts:
           the route to trust-region-increase exits): makes the named feature certain instead of random."""
    P = profile
    F = force
    n = int(rng.integers(1, 6))
    m = int(rng.integers(1, 7))
    gen = _choice(rng, GENS, p=[0.2, 0.2, 0.15, 0.15, 0.15 if P == 'determ' else 0.1, 0.15 if P == 'determ' else 0.2])
    if gen == 'rosen' and m < 2:
        m = 2
    pseed = int(rng.integers(0, 2 ** 31 - 1))
    xscale = float(_choice(rng, [0.1, 1.0, 1.0, 10.0, 100.0]))
    x0 = xscale * rng.standard_normal(n)
    if rng.random() < 0.1:
        x0[int(rng.integers(0, n))] = 0.0

    # ---- constraint kind
    use_proj = (P in ('general', 'determ', 'budget')) and (rng.random() < {'determ': 0.12, 'general': 0.07, 'budget': 0.04}[P] or F in ('proj', 'trinc'))
    if F == 'trinc' and P == 'determ':
        n = int(rng.integers(2, 4))
        x0 = x0[:n].copy() if len(x0) >= n else xscale * rng.standard_normal(n)
        gen = _choice(rng, ['expsin', 'expsin', 'flat', 'flat', 'quad', 'nonsmooth', 'affine', 'rosen'])
    if use_proj and n > 3:
        n = int(rng.integers(1, 4))
        x0 = x0[:n].copy()
    if P == 'bounds':
        bkind = _choice(rng, ['finite', 'finite', 'finite', 'lower', 'upper', 'mixed'])
    elif use_proj:
        bkind = _choice(rng, ['none', 'none', 'finite', 'lower'])
    else:
        bkind = _choice(rng, ['none', 'none', 'finite', 'finite', 'lower', 'upper', 'mixed'])
    scaling = (bkind == 'finite') and (not use_proj) and rng.random() < 0.4

    # ---- radii
    default_rhobeg = 0.1 if scaling else 0.1 * max(float(np.max(np.abs(x0))), 1.0)
    if rng.random() < 0.35:
        rhobeg_arg, rhobeg = None, default_rhobeg
    else:
        rhobeg = default_rhobeg * float(_choice(rng, [0.1, 0.3, 1.0, 1.0, 3.0]))
        if scaling:
            rhobeg = min(rhobeg, 0.45)
        rhobeg_arg = rhobeg
    rhoend = float(_choice(rng, [1e-8, 1e-8, 1e-6, 1e-4, 1e-3, 1e-2, 1e-1])) * (rhobeg if rng.random() < 0.8 else 1.0)
    if F == 'restarts':
        rhoend = float(_choice(rng, [1e-3, 1e-2, 1e-1])) * rhobeg
    if not (rhoend < 0.5 * rhobeg):
        rhoend = 1e-3 * rhobeg

    # ---- bounds and the place of x0 relative to them (gap >= 2*rhobeg in the space the solver works in)
    # zint: a point that has a rhobeg-neighbourhood (or, for the bound box, a half neighbourhood) inside every set, so the
    # feasible set has non-empty interior; it is x0 itself or (projections only) a point a few rhobeg away from x0
    zint = x0.copy()
    if use_proj and rng.random() < 0.4:
        zint = x0 + rhobeg * float(_choice(rng, [0.5, 2.0, 5.0])) * rng.standard_normal(n)
    lower = upper = None
    place = 'free'
    if bkind != 'none':
        g = rhobeg if not scaling else 0.5 * xscale          # user-space half gap unit
        mode = _choice(rng, ['wide', 'wide', 'tight', 'exact'])
        if mode == 'wide':
            a = g * (1.0 + 10.0 * rng.random(n))
            b = g * (1.0 + 10.0 * rng.random(n))
        elif mode == 'tight':
            a = g * (1.0 + 0.2 * rng.random(n)) * 1.01
            b = g * (1.0 + 0.2 * rng.random(n)) * 1.01
        else:
            a = np.full(n, 2.0 * g) * rng.integers(0, 2, size=n)
            b = 2.0 * g - a
            a = a + 0.0
        centre = zint.copy()
        lower = centre - a
        upper = centre + b
        # make sure the solver's own input check (min(xu - xl) >= 2*rhobeg) passes, in float arithmetic
        if not scaling:
            for i in range(n):
                k = 0
                while not (upper[i] - lower[i] >= 2.0 * rhobeg) and k < 200:
                    upper[i] = np.nextafter(upper[i], np.inf)
                    k += 1
        place = _choice(rng, ['inside', 'face', 'ulp_in', 'ulp_out', 'outside', 'corner', 'inside'])
        idx = np.where(rng.random(n) < 0.6)[0]
        if len(idx) == 0:
            idx = np.array([int(rng.integers(0, n))])
        for i in idx:
            side_low = rng.random() < 0.5
            bd = lower[i] if side_low else upper[i]
            if place == 'face' or place == 'corner':
                x0[i] = bd
            elif place == 'ulp_in':
                x0[i] = np.nextafter(bd, np.inf if side_low else -np.inf)
            elif place == 'ulp_out':
                x0[i] = np.nextafter(bd, -np.inf if side_low else np.inf)
            elif place == 'outside':
                x0[i] = bd + (-1.0 if side_low else 1.0) * float(_choice(rng, [1e-12, 1e-7, 1e-3, 1.0, 30.0])) * max(1.0, abs(bd))
            elif place == 'inside':
                x0[i] = lower[i] + (upper[i] - lower[i]) * rng.random()
        if place == 'corner':
            for i in range(n):
                x0[i] = lower[i] if rng.random() < 0.5 else upper[i]
        if bkind == 'lower':
            upper = None
        elif bkind == 'upper':
            lower = None
        elif bkind == 'mixed':
            # per-coordinate one-sided / free: dfols' own convention for "no bound" is +-1e20
            for i in range(n):
                u = rng.random()
                if u < 0.35:
                    upper[i] = 1e20
                elif u < 0.6:
                    lower[i] = -1e20
        if rhobeg_arg is None and not scaling:
            # the default rhobeg depends on the (possibly moved) x0: recheck the gap, else pass rhobeg explicitly
            d2 = 0.1 * max(float(np.max(np.abs(x0))), 1.0)
            lo_ = lower if lower is not None else np.full(n, -1e20)
            up_ = upper if upper is not None else np.full(n, 1e20)
            if not (np.min(up_ - lo_) >= 2.0 * d2):
                rhobeg_arg = rhobeg
            else:
                rhobeg = d2

    # ---- projections (C09 owns feasibility; here they only provide other iteration histories / exit routes)
    proj = []
    if use_proj:
        k = int(rng.integers(1, 3))
        for _ in range(k):
            if rng.random() < 0.65 or (F == 'trinc' and not proj):
                off = rng.standard_normal(n)
                off = off / max(np.linalg.norm(off), 1e-300)
                rad = rhobeg * float(_choice(rng, [2.0, 3.0, 10.0, 30.0] if F != 'trinc' else [2.0, 3.0, 5.0]))
                dist = (rad - 1.2 * rhobeg) * float(_choice(rng, [0.0, 0.5, 0.9, 1.0]))     # ball contains B(zint, rhobeg)
                proj.append(dict(kind='ball', c=vh(zint + dist * off), r=fh(rad)))
            else:
                a = rhobeg * (1.2 + 10.0 * rng.random(n))
                b = rhobeg * (1.2 + 10.0 * rng.random(n))
                proj.append(dict(kind='box', l=vh(zint - a), u=vh(zint + b)))

    # ---- npt / growing / initialisation
    up_ = {}
    npt = n + 1
    growing = False
    if not use_proj:
        u = rng.random()
        if u < 0.3:
            npt = int(rng.integers(n + 1, 2 * n + 2))
        elif u < 0.45 and n >= 2:
            growing = True
            up_['growing.ndirs_initial'] = int(rng.integers(1, n))
            if rng.random() < 0.3:
                up_['growing.do_geom_steps'] = True
            v = rng.random()
            if v < 0.2:
                up_['growing.safety.reduce_delta'] = True
            elif v < 0.4:
                up_['growing.safety.full_geom_step'] = True
            elif v < 0.5:
                up_['growing.safety.do_safety_step'] = False
            if rng.random() < 0.2:
                up_['growing.num_new_dirns_each_iter'] = 1
            if rng.random() < 0.25:
                up_['growing.reset_delta'] = True
                if rng.random() < 0.5:
                    up_['growing.reset_rho'] = True
        if rng.random() < 0.25:
            up_['init.random_initial_directions'] = True
            if rng.random() < 0.4:
                up_['init.random_directions_make_orthogonal'] = False
    if npt > n + 1 and rng.random() < 0.6:
        up_['regression.num_extra_steps'] = int(rng.integers(1, 3))
        if rng.random() < 0.5:
            up_['regression.momentum_extra_steps'] = True

    # ---- noise and averaging
    noise = None
    nsamples = None
    has_noise_flag = False
    if P != 'determ':
        pn = {'bounds': 0.25, 'budget': 0.45, 'general': 0.4}[P]
        if rng.random() < pn or F == 'noise':
            noise = dict(kind=_choice(rng, ['add', 'add', 'mult']), sigma=fh(_choice(rng, [1e-6, 1e-3, 1e-2, 1e-1])),
                         seed=int(rng.integers(0, 2 ** 31 - 1)))
            has_noise_flag = rng.random() < 0.8
        pa = {'bounds': 0.25, 'budget': 0.6, 'general': 0.45}[P]
        if rng.random() < (pa if noise is not None else 0.5 * pa) or F == 'noise':
            kind = _choice(rng, ['const', 'const', 'iter', 'rho', 'runs'])
            nsamples = dict(kind=kind, k=int(rng.integers(2, 5)))
            if kind == 'rho':
                nsamples['thr'] = fh(rhobeg * float(_choice(rng, [0.05, 0.3, 0.9])))
        if has_noise_flag and rng.random() < 0.4:
            if rng.random() < 0.7:
                up_['noise.additive_noise_level'] = fh(float(_choice(rng, [1e-6, 1e-3, 1e-1, 10.0])))
            else:
                up_['noise.multiplicative_noise_level'] = fh(float(_choice(rng, [1e-3, 1e-1])))
    else:
        has_noise_flag = rng.random() < 0.15     # noise defaults (restarts on, gamma_dec 0.98) on a deterministic objective

    # ---- restarts
    pr = {'bounds': 0.35, 'budget': 0.45, 'general': 0.5, 'determ': 0.45}[P]
    restarts = None
    if (rng.random() < pr or F == 'restarts') and not (F == 'trinc' and rng.random() < 0.7):
        up_['restarts.use_restarts'] = True
        soft = rng.random() < 0.5
        up_['restarts.use_soft_restarts'] = bool(soft)
        restarts = 'soft' if soft else 'hard'
        if rng.random() < 0.5:
            up_['restarts.rhoend_scale'] = fh(float(_choice(rng, [0.1, 0.5, 1.0])))
        if rng.random() < 0.5:
            up_['restarts.max_unsuccessful_restarts'] = int(_choice(rng, [1, 2, 3]))
        if soft:
            if rng.random() < 0.5:
                up_['restarts.soft.num_geom_steps'] = int(rng.integers(1, 4))
            if rng.random() < 0.4:
                up_['restarts.soft.move_xk'] = False
            if rng.random() < 0.2:
                up_['restarts.soft.max_fake_successful_steps'] = int(rng.integers(1, 6))
        else:
            if rng.random() < 0.5:
                up_['restarts.hard.use_old_rk'] = False
        if (not use_proj) and (not growing) and rng.random() < 0.4:
            random_init = up_.get('init.random_initial_directions', False)
            cap = npt + 3 if random_init else min(npt + 3, (n + 1) * (n + 2) // 2)
            if cap > npt:
                up_['restarts.increase_npt'] = True
                up_['restarts.increase_npt_amt'] = int(rng.integers(1, 3))
                up_['restarts.max_npt'] = int(rng.integers(npt + 1, cap + 1))
                if not soft:
                    # documented advice: same amount, otherwise the new run starts in a growing phase with npt > n+1
                    up_['restarts.hard.increase_ndirs_initial_amt'] = up_['restarts.increase_npt_amt']
                if rng.random() < 0.3:
                    up_['regression.increase_num_extra_steps_with_restart'] = 1
        if rng.random() < 0.4:
            up_['restarts.auto_detect'] = bool(rng.random() < 0.5)
            if up_['restarts.auto_detect']:
                up_['restarts.auto_detect.history'] = int(rng.integers(3, 9))
                if rng.random() < 0.5:
                    up_['restarts.auto_detect.min_chgJ_slope'] = fh(0.0)
                    up_['restarts.auto_detect.min_correl'] = fh(0.0)
    elif has_noise_flag and rng.random() < 0.3:
        up_['restarts.use_restarts'] = False
    if has_noise_flag and restarts is None and up_.get('restarts.use_restarts', True):
        restarts = 'soft'

    # ---- termination / radius parameters
    if rng.random() < 0.2 or F == 'slow':
        up_['slow.max_slow_iters'] = int(rng.integers(1, 5))
        up_['slow.thresh_for_slow'] = fh(float(_choice(rng, [1e-2, 0.1, 0.5, 2.0])))
        up_['slow.history_for_slow'] = int(rng.integers(1, 6))
    if rng.random() < 0.15:
        up_['model.abs_tol'] = fh(float(_choice(rng, [1e-8, 1e-4, 1e-2, 1.0])))
    if rng.random() < 0.1:
        up_['model.rel_tol'] = fh(float(_choice(rng, [1e-6, 1e-2, 0.5])))
    if rng.random() < 0.2:
        up_['general.rounding_error_constant'] = fh(float(_choice(rng, [0.01, 0.5, 1.0])))
    if rng.random() < 0.15:
        up_['tr_radius.gamma_dec'] = fh(float(_choice(rng, [0.25, 0.8, 0.98])))
    if rng.random() < 0.1:
        up_['tr_radius.alpha1'] = fh(float(_choice(rng, [0.05, 0.5, 0.9])))
        up_['tr_radius.alpha2'] = fh(float(_choice(rng, [0.3, 0.95])))
    if rng.random() < 0.1:
        up_['general.safety_step_thresh'] = fh(float(_choice(rng, [0.1, 0.9])))
    if rng.random() < 0.1:
        up_['interpolation.precondition'] = False
    if rng.random() < 0.15:
        # the logger abbreviates x when n >= this threshold (default 6 > every n drawn here): exercise that branch too
        up_['logging.n_to_print_whole_x_vector'] = int(rng.integers(1, 4))

    # ---- regulariser
    reg = None
    preg = {'bounds': 0.07, 'budget': 0.04, 'general': 0.07, 'determ': 0.07}[P]
    if rng.random() < preg and not growing and F != 'trinc':
        reg = fh(float(_choice(rng, [1e-3, 0.1, 1.0])))
        up_['func_tol.max_iters'] = int(_choice(rng, [5, 20, 60]))
        if rng.random() < 0.5:
            up_['dykstra.max_iters'] = 10

    # ---- exit at x0: residuals vanish at the (projected) starting point
    zero_at = None
    if (rng.random() < 0.05 or F == 'zero_at') and not use_proj:
        z = x0.copy()
        if lower is not None:
            z = np.maximum(z, lower)
        if upper is not None:
            z = np.minimum(z, upper)
        zero_at = vh(z)
        if reg is not None:
            reg = fh(1e-14)

    # ---- budget
    init_cost = npt
    u = rng.random()
    psmall = {'bounds': 0.15, 'budget': 0.35, 'general': 0.25, 'determ': 0.3}[P]
    if u < psmall or F == 'tiny':
        maxfun = int(rng.integers(1, init_cost * (4 if nsamples else 1) + 3))
    elif u < 0.6:
        maxfun = int(rng.integers(init_cost + 2, 50))
    else:
        maxfun = int(rng.integers(30, 121))
    if F == 'restarts' and maxfun < 60 and u >= psmall:
        maxfun = int(rng.integers(60, 121))
    if reg is not None:
        maxfun = min(maxfun, 30)
    if use_proj:
        maxfun = min(maxfun, 40 if reg is None else 20)
    if F == 'trinc' and use_proj:
        maxfun = int(rng.integers(25, 61))

    kwargs = dict(npt=int(npt), rhobeg=None if rhobeg_arg is None else fh(rhobeg_arg), rhoend=fh(rhoend), maxfun=int(maxfun),
                  scaling_within_bounds=bool(scaling), objfun_has_noise=bool(has_noise_flag))
    prob = dict(gen=gen, pseed=pseed, n=n, m=m, zero_at=zero_at, x0=vh(x0), lower=vh(lower), upper=vh(upper), noise=noise,
                nsamples=nsamples, reg=reg, proj=proj, kwargs=kwargs, user_params=up_, np_seed=int(rng.integers(0, 2 ** 31 - 1)),
                tags=dict(bounds=bkind, place=place, growing=bool(growing), restarts=restarts or 'none', profile=P, force=F or 'none'))
    return prob


def option_tags(problem):
    """coarse description of the option set, for the stats"""
    t = problem.get('tags', {})
    kw = problem['kwargs']
    n = problem['n']
    out = ['bounds=' + t.get('bounds', '?'), 'restarts=' + t.get('restarts', '?')]
    if t.get('bounds', 'none') != 'none':
        out.append('x0=' + t.get('place', '?'))
    if kw.get('scaling_within_bounds'):
        out.append('scaling')
    if kw['npt'] > n + 1:
        out.append('regression')
    if t.get('growing'):
        out.append('growing')
    if problem.get('noise'):
        out.append('noise')
    if problem.get('nsamples'):
        out.append('averaging')
    if problem.get('reg') is not None:
        out.append('regulariser')
    if problem.get('proj'):
        out.append('projections')
    if problem.get('zero_at') is not None:
        out.append('zero_at_x0')
    if problem.get('user_params', {}).get('restarts.increase_npt'):
        out.append('increase_npt')
    if problem.get('user_params', {}).get('init.random_initial_directions'):
        out.append('random_init')
    return out


def bump(d, key, n=1):
    d[key] = d.get(key, 0) + n


def count_restarts(record):
    """number of runs reported by the solver minus one (0 when unknown)"""
    s = record['soln']
    try:
        return max(int(s.nruns) - 1, 0)
    except Exception:
        return 0


def objective_of(record, r, x):
    """sum(r^2) + h(x) with plain float arithmetic (sequential sum)"""
    f = float(np.sum(np.asarray(r, dtype=float) ** 2))
    if record['h'] is not None:
        f += float(record['h'](np.asarray(x, dtype=float)))
    return f


def problem_summary(problem):
    return dict(gen=problem['gen'], n=problem['n'], m=problem['m'], kwargs=problem['kwargs'], user_params=problem['user_params'],
                tags=problem.get('tags'), noise=problem.get('noise'), nsamples=problem.get('nsamples'), reg=problem.get('reg'),
                nproj=len(problem.get('proj') or []))


# ------------------------------------------------------------------------------------------------ generic sweep task
QUICK_TASKS, RUNS_PER_TASK, THOROUGH_FACTOR = 64, 25, 20


def make_tasks(prop, seed, tier, profile, quick_tasks=QUICK_TASKS, runs=RUNS_PER_TASK):
    nt = quick_tasks if tier == 'quick' else quick_tasks * THOROUGH_FACTOR
    return [dict(prop=prop, seed=int(seed), i=int(i), k=int(runs), profile=profile) for i in range(nt)]


def run_generic(task, judge, capture_log=True, max_viol_per_sig=3):
    """judge(record) -> dict(violations=[dict(signature, what, detail=dict)], nontrivial=bool, marks=[str])"""
    rng = np.random.default_rng((int(task['seed']), int(task['i'])))
    stats = dict(exit_route={}, exit_flag={}, options={}, n={}, m={}, marks={}, exceptions={}, runs=0, objective_calls=0,
                 runs_with_restarts=0, timeups=0)
    out = dict(evaluations=0, nontrivial=0, violations=[], stats=stats, sample=None)
    per_sig = {}
    cpu0 = time.process_time()
    for j in range(int(task['k'])):
        fl = FORCES_DETERM if task['profile'] == 'determ' else FORCES
        force = fl[(int(task['i']) * 5 + j) % len(fl)]
        prob = gen_problem(rng, task['profile'], force)
        rec = run_solve(prob, capture_log=capture_log)
        res = judge(rec)
        out['evaluations'] += 1
        stats['runs'] += 1
        stats['objective_calls'] += len(rec['calls'])
        bump(stats['exit_route'], exit_route(rec['soln']))
        bump(stats['exit_flag'], flag_name(rec['soln']))
        for t in option_tags(prob):
            bump(stats['options'], t)
        bump(stats['n'], str(prob['n']))
        bump(stats['m'], str(prob['m']))
        for mk in res.get('marks', []):
            bump(stats['marks'], mk)
        if rec['exc']:
            if rec['timeup']:
                stats['timeups'] += 1
            else:
                bump(stats['exceptions'], rec['exc'].split(':')[0] + (rec['exc'][rec['exc'].rfind(' @'):] if ' @' in rec['exc'] else ''))
        if count_restarts(rec) > 0:
            stats['runs_with_restarts'] += 1
        if res.get('nontrivial'):
            out['nontrivial'] += 1
        for v in res.get('violations', []):
            c = per_sig.get(v['signature'], 0)
            per_sig[v['signature']] = c + 1
            if c < max_viol_per_sig:
                data = dict(problem=prob, signature=v['signature'], task=dict(task), run=j)
                data.update(v.get('detail', {}))
                out['violations'].append(dict(signature=v['signature'], what=v['what'], data=data))
        if out['sample'] is None and res.get('nontrivial') and j >= (int(task['i']) % 5):
            s_ = rec['soln']
            out['sample'] = dict(problem=problem_summary(prob), calls=len(rec['calls']), exit=exit_route(s_),
                                 nf=getattr(s_, 'nf', None), nx=getattr(s_, 'nx', None), nruns=getattr(s_, 'nruns', None),
                                 obj=(fh(s_.obj) if s_ is not None and s_.obj is not None else None),
                                 xmin_eval_num=(int(s_.xmin_eval_num) if s_ is not None and s_.xmin_eval_num is not None else None),
                                 marks=res.get('marks', []))
    stats['violation_counts'] = per_sig
    stats['cpu_seconds'] = round(time.process_time() - cpu0, 2)
    return out


def replay_generic(data, judge, capture_log=True):
    rec = run_solve(data['problem'], capture_log=capture_log)
    res = judge(rec)
    vs = res.get('violations', [])
    want = data.get('signature')
    pick = None
    for v in vs:
        if v['signature'] == want:
            pick = v
            break
    if pick is None and vs:
        pick = vs[0]
    if pick is None:
        return None
    d = dict(problem=data['problem'], signature=pick['signature'])
    d.update(pick.get('detail', {}))
    return dict(signature=pick['signature'], what=pick['what'], data=d)
