"""A numerically pinned variant of a dfols module, derived from the current source at run time, for bit-exact comparison with
the regenerated model.  Three substitutions, each one AST node kind, everything else is the source as it stands:
  X ** 2          ->  _sq(X)        x*x, correctly rounded (Python / NumPy *scalars* use libm's pow for x ** 2, which differs from
                                    x*x in the last bit for about 0.1% of arguments; NumPy arrays already square by multiplication)
  A.dot(b)        ->  _dot(A, b)    sequential sum instead of BLAS
  np.<f>          ->  the module's `np` is modelio.NpProxy (dot, sum, linalg.norm summed left to right)
and `sumsq` is the sequential one.  The variant is what the correspondence runs; mutations of the source carry over."""
import ast, os, sys, types
import numpy as np
from . import modelio as IO


def _sq(x):
    if isinstance(x, (np.ndarray, int, np.integer)):
        return x * x
    return np.float64(x) * np.float64(x)


def _seq_sum(x, *a, **k):
    x = np.asarray(x)
    if a or k or x.ndim != 1 or x.dtype != float:
        return np.sum(x, *a, **k)
    acc = 0.0
    for v in x.tolist():
        acc = acc + v
    return np.float64(acc)


class _Proxy(IO.NpProxy):
    def __getattr__(self, name):
        if name == 'sum':
            return _seq_sum
        return IO.NpProxy.__getattr__(self, name)


class _Rewrite(ast.NodeTransformer):
    def visit_BinOp(self, n):
        self.generic_visit(n)
        if isinstance(n.op, ast.Pow) and isinstance(n.right, ast.Constant) and n.right.value == 2:
            return ast.copy_location(ast.Call(func=ast.Name(id='_sq', ctx=ast.Load()), args=[n.left], keywords=[]), n)
        return n

    def visit_Call(self, n):
        self.generic_visit(n)
        if isinstance(n.func, ast.Attribute) and n.func.attr == 'dot' and len(n.args) == 1 and not n.keywords and \
                not (isinstance(n.func.value, ast.Name) and n.func.value.id == 'np'):
            return ast.copy_location(ast.Call(func=ast.Name(id='_dot', ctx=ast.Load()), args=[n.func.value, n.args[0]], keywords=[]), n)
        return n


def load(modname='trust_region'):
    import dfols
    repo = os.environ.get('DFOLS_REPO') or os.path.dirname(os.path.dirname(os.path.abspath(dfols.__file__)))
    path = os.path.join(repo, 'dfols', modname + '.py')
    tree = ast.fix_missing_locations(_Rewrite().visit(ast.parse(open(path).read())))
    mod = types.ModuleType('dfols._seq_' + modname)
    mod.__package__ = 'dfols'
    mod.__file__ = path
    exec(compile(tree, path + ' [seq variant]', 'exec'), mod.__dict__)
    mod.np = _Proxy()
    mod._sq = _sq
    mod._dot = IO.seq_dot
    if hasattr(mod, 'sumsq'):
        mod.sumsq = IO.seq_sumsq
    return mod
