"""Generic check body shared by the per-property modules: obligations (translate, compile, per-run proofs,
optional correspondence) followed by the oracle sweep of harness/oracles/<id>.py; search = the same oracle with a
larger budget and different seeds."""
import importlib, time
from . import common as C


def run_corpus(ctx, pid, mod):
    """inputs on which the implementation failed in the past (kept minimal, committed under corpus/<id>/) run first"""
    import glob, json, os
    n = 0
    for path in sorted(glob.glob(os.path.join(C.VERIF, 'corpus', pid, '*.json'))):
        try:
            data = json.load(open(path))
            v = mod.replay(data['data'])
        except Exception as ex:
            ctx.violate('%s:corpus_crash' % pid, 'corpus input %s crashed the oracle: %s: %s' % (os.path.basename(path), type(ex).__name__, ex), dict(corpus=os.path.basename(path)))
            continue
        n += 1
        if v:
            ctx.violate(v['signature'], 'corpus input %s: %s' % (os.path.basename(path), v['what']), v.get('data', data['data']))
    ctx.cov['corpus_inputs_replayed'] = n


def oracle_sweep(ctx, pid, tier, seed_offset=0, max_seconds=None):
    mod = importlib.import_module('harness.oracles.%s' % pid)
    if seed_offset == 0 and 'corpus_inputs_replayed' not in ctx.cov:
        run_corpus(ctx, pid, mod)
    tasks = mod.tasks(ctx.seed + seed_offset, tier)
    t0 = time.time()
    res = C.parallel(mod.run_task, tasks, timeout_each=getattr(mod, 'TASK_TIMEOUT', 120))
    stats = ctx.cov.setdefault('sweep_stats', {})
    for task, st, r in res:
        if st == 'timeout':
            ctx.violate('%s:hang' % pid, 'oracle task did not finish within its time limit (possible non-termination in the implementation)', dict(task=repr(task)))
            continue
        if st != 'ok':
            ctx.violate('%s:oracle_crash' % pid, 'oracle task crashed: %s' % r, dict(task=repr(task)))
            continue
        ctx.count('evaluations', int(r.get('evaluations', 0)))
        ctx.count('distinct_nontrivial', int(r.get('nontrivial', 0)))
        for k, v in (r.get('stats') or {}).items():
            if isinstance(v, (int, float)):
                stats[k] = stats.get(k, 0) + v
            elif isinstance(v, dict):
                d = stats.setdefault(k, {})
                for kk, vv in v.items():
                    if isinstance(vv, (int, float)):
                        d[str(kk)] = d.get(str(kk), 0) + vv
        if r.get('sample') is not None:
            ctx.sample(r['sample'])
        for v in r.get('violations', []):
            ctx.violate(v['signature'], v['what'], v.get('data', {}))
    ctx.cov['sweep_seconds'] = round(ctx.cov.get('sweep_seconds', 0) + time.time() - t0, 1)
    return mod


def manifest_level(pid, default):
    import json, os
    try:
        m = json.load(open(os.path.join(C.VERIF, 'MANIFEST.json')))
        for c in m.get('checks', []):
            if c['property_id'] == pid:
                return c['level_claimed']['category']
    except Exception:
        pass
    return default


def run(ctx, pid, level, gen_needed, perrun, trusted, correspondence=None, tables=None, explanation=None, extra_rule='',
        corr_needs=None, search_extra=None):
    """corr_needs: per-run modules the correspondence imports (it still runs when other per-run files fail);
    search_extra: further search for a failing input, run before the thorough oracle sweeps"""
    level = manifest_level(pid, level)
    if level == 'other' and not explanation:
        explanation = 'mechanism theorems (see coverage.theorems) are checked on regenerated definitions; the remaining clauses are validated by the oracle sweep only'
    ok = C.translate(ctx, needed=gen_needed)
    ok = ok and C.compile_gen(ctx, needed=gen_needed)
    gen_ok = ok
    ok = ok and C.compile_perrun(ctx, perrun)
    C.check_axioms(ctx)
    if correspondence is not None:
        if ok or (gen_ok and corr_needs is not None and not (set(corr_needs) & getattr(ctx, 'failed_perrun', set()))):
            try:
                correspondence(ctx)
            except Exception as ex:
                ctx.oblige('correspondence:driver', False, '%s: %s' % (type(ex).__name__, ex))
        else:
            ctx.oblige('correspondence', False, 'not run: generated model or its proofs did not build')
    mod = oracle_sweep(ctx, pid, ctx.tier)

    def search(c):
        if search_extra is not None and gen_ok:
            before = len(c.violations)
            try:
                search_extra(c)
            except Exception as ex:
                print('search_extra failed: %s: %s' % (type(ex).__name__, ex))
            if len(c.violations) > before:
                return
        for off in (101, 202, 303):
            before = len(c.violations)
            oracle_sweep(c, pid, 'thorough' if c.quick else 'thorough', seed_offset=off)
            if len(c.violations) > before:
                break
    rule = getattr(mod, 'RULE', '') + (' ; ' + extra_rule if extra_rule else '')
    return C.finish(ctx, level, rule=rule, trusted=trusted, search=search, explanation=explanation)


def replay(pid, payload):
    mod = importlib.import_module('harness.oracles.%s' % pid)
    d = payload.get('data')
    if not d:
        print('replay file names broken obligations only:', [o.get('name') for o in payload.get('obligations', [])])
        return 1
    v = mod.replay(d)
    print('replay:', v)
    return 1 if v else 0
