"""bin/check <id> --tier quick|thorough : translate -> Coq obligations -> correspondence -> sweep -> evidence"""
import argparse, importlib, os, sys, json


def main():
    ap = argparse.ArgumentParser()
    ap.add_argument('pid')
    ap.add_argument('--tier', default=os.environ.get('VERIF_TIER', 'quick'))
    ap.add_argument('--replay', default=None)
    a = ap.parse_args()
    seed = int(os.environ.get('VERIF_SEED', '0') or 0)
    mod = importlib.import_module('harness.props.%s' % a.pid)
    if a.replay:
        sys.exit(mod.replay(json.load(open(a.replay))))
    from harness.common import Ctx
    ctx = Ctx(a.pid, a.tier, seed)
    sys.exit(mod.run(ctx))


if __name__ == '__main__':
    main()
