"""Shared machinery of every check (DESIGN.md 5): build directories, translation, Coq compilation and evaluation,
parallel sweeps of the real implementation with time limits, replays, known findings, evidence."""
import hashlib, json, os, re, shutil, signal, subprocess, sys, time, traceback
from concurrent.futures import ProcessPoolExecutor, as_completed

VERIF = os.path.dirname(os.path.dirname(os.path.abspath(__file__)))
REPO = os.environ.get('DFOLS_REPO', '/repo')
COQ = os.path.join(VERIF, 'coq')
PY = '/venv/bin/python'
NPROC = int(os.environ.get('VERIF_NPROC', '16'))

STD_AXIOMS = ('ClassicalDedekindReals.sig_forall_dec', 'ClassicalDedekindReals.sig_not_dec',
              'FunctionalExtensionality.functional_extensionality_dep', 'Classical_Prop.classic',
              'functional_extensionality_dep', 'sig_forall_dec', 'sig_not_dec', 'classic',
              'Eqdep.Eq_rect_eq.eq_rect_eq', 'ProofIrrelevance.proof_irrelevance', 'JMeq.JMeq_eq',
              'PropExtensionality.propositional_extensionality', 'ClassicalEpsilon.constructive_indefinite_description')


class Ctx:
    def __init__(self, pid, tier, seed):
        self.pid, self.tier, self.seed = pid, tier, seed
        self.t0 = time.time()
        self.build = os.path.join(VERIF, 'build', '%s-%s' % (pid, tier))
        os.makedirs(self.build, exist_ok=True)
        self.obligations = []      # (name, ok, detail)
        self.violations = []       # dict(kind, what, data, signature)
        self.notes = []
        self.cov = {'samples': []}
        self.assumptions = []
        self.axioms = set()
        self.theorems = []
        self.quick = (tier == 'quick')

    def scale(self, q, t):
        return q if self.quick else t

    def oblige(self, name, ok, detail=''):
        self.obligations.append((name, bool(ok), detail))
        if not ok:
            print('OBLIGATION-BROKEN %s :: %s' % (name, detail.strip().splitlines()[0][:300] if detail.strip() else ''))
        return ok

    def broken(self):
        return [(n, d) for (n, ok, d) in self.obligations if not ok]

    def violate(self, signature, what, data):
        self.violations.append(dict(signature=signature, what=what, data=data))

    def sample(self, s):
        if len(self.cov['samples']) < 6:
            self.cov['samples'].append(s)

    def count(self, key, n=1):
        self.cov[key] = self.cov.get(key, 0) + n


# ------------------------------------------------------------------------------------------------ translation
def translate(ctx, needed=None):
    """regenerate Gen_*.v from /repo into <build>/G ; one obligation per translated function.  needed: the generated
    modules this check compiles -- a function of another module that cannot be translated is no obligation of this check"""
    sys.path.insert(0, VERIF)
    from translator import gen
    import importlib
    importlib.reload(gen)
    gdir = os.path.join(ctx.build, 'G')
    try:
        fails = gen.generate(gdir)
    except SyntaxError as ex:
        ctx.oblige('translate:parse', False, 'source does not parse: %s' % ex)
        return False
    except Exception as ex:
        ctx.oblige('translate:driver', False, '%s: %s' % (type(ex).__name__, ex))
        return False
    nfun = gen.count_functions()
    failed = set()
    elsewhere = [x for x in fails if needed is not None and 'Gen_' + x[0] not in needed]
    fails = [x for x in fails if x not in elsewhere]
    if elsewhere:
        ctx.cov['untranslatable_in_modules_not_used_by_this_check'] = ['%s.%s' % (m, f) for (m, f, _) in elsewhere]
    for (m, f, why) in fails:
        ctx.oblige('translate:%s.%s' % (m, f), False, why)
        failed.add((m, f))
    ctx.cov['translated_functions'] = nfun - len(failed) - len(elsewhere)
    if not fails:
        ctx.oblige('translate:all(%d functions, %d tables)' % (nfun, gen.count_tables()), True)
    return not fails


def gen_files(ctx):
    gdir = os.path.join(ctx.build, 'G')
    order = ['Gen_util.v', 'Gen_model.v', 'Gen_controller.v', 'Gen_trust_region.v', 'Gen_solver.v', 'Gen_params.v', 'Gen_tables.v']
    return [os.path.join(gdir, f) for f in order if os.path.exists(os.path.join(gdir, f))]


def coqc(ctx, path, timeout=300):
    """compile one file in the build dir; returns (ok, output)"""
    cmd = ['timeout', str(timeout), 'coqc', '-Q', COQ, 'DV', '-Q', os.path.join(ctx.build, 'G'), 'G',
           '-Q', os.path.join(ctx.build, 'P'), 'P', path]
    p = subprocess.run(cmd, capture_output=True, text=True, cwd=ctx.build)
    out = p.stdout + p.stderr
    if p.returncode == 124:
        out += '\nTIMEOUT after %ds' % timeout
    return p.returncode == 0, out


def uptodate(src, extra_deps=()):
    vo = src[:-2] + '.vo'
    if not os.path.exists(vo):
        return False
    t = os.path.getmtime(vo)
    return all(os.path.getmtime(d) <= t for d in (src,) + tuple(extra_deps) if os.path.exists(d))


def compile_gen(ctx, needed=None):
    """compile generated files (in dependency order); obligation per file"""
    ok_all = True
    for f in gen_files(ctx):
        base = os.path.basename(f)
        if needed is not None and base[:-2] not in needed:
            continue
        ok, out = coqc(ctx, f)
        if not ok:
            ctx.oblige('coq:%s' % base, False, first_error(out))
            ok_all = False
            break
    return ok_all


def first_error(out):
    m = re.search(r'File "([^"]+)", line (\d+), characters [\d-]+:\s*\n(Error:.*?)(?:\n\n|\Z)', out, re.S)
    if m:
        return '%s:%s %s' % (os.path.basename(m.group(1)), m.group(2), ' '.join(m.group(3).split())[:600])
    return ' '.join(out.split())[-600:]


def error_line(out):
    m = re.search(r'File "([^"]+)", line (\d+), characters', out)
    return (m.group(1), int(m.group(2))) if m else (None, None)


def enclosing_statement(path, line):
    """name of the Lemma/Theorem/Definition that contains `line`"""
    name = None
    try:
        for i, l in enumerate(open(path), 1):
            m = re.match(r'\s*(?:Local |Global |#\[[^\]]*\] )?(Theorem|Lemma|Corollary|Example|Definition|Fixpoint|Instance|Fact)\s+([A-Za-z0-9_\']+)', l)
            if m:
                name = m.group(2)
            if i >= line:
                break
    except OSError:
        pass
    return name


def compile_perrun(ctx, files, timeout=300):
    """copy per-run proof files (coq/PerRun/*.v) into <build>/P and compile them in the given order.
    Each Theorem/Lemma in them is an obligation; a failing file breaks the obligation named after the statement
    that contains the error."""
    pdir = os.path.join(ctx.build, 'P')
    os.makedirs(pdir, exist_ok=True)
    ok_all = True
    failed = ctx.failed_perrun = set()          # module names of per-run files that did not compile
    for f in files:
        src = os.path.join(COQ, 'PerRun', f)
        dst = os.path.join(pdir, f)
        txt = open(src).read()
        if not (os.path.exists(dst) and open(dst).read() == txt):
            open(dst, 'w').write(txt)
        names = re.findall(r'^\s*(?:Theorem|Lemma|Corollary|Example|Fact)\s+([A-Za-z0-9_\']+)', txt, re.M)
        deps = set()
        for m in re.finditer(r'^\s*From\s+P\s+Require\s+(?:Import|Export)?\s*([^.]*)\.', txt, re.M):
            deps.update(m.group(1).split())
        if deps & failed:
            for nm in names:
                ctx.oblige('coq:%s:%s' % (f, nm), False, 'not checked: %s, which it imports, failed' % sorted(deps & failed)[0])
            failed.add(f[:-2])
            continue
        t0 = time.time()
        ok, out = coqc(ctx, dst, timeout)
        if ok:
            for nm in names:
                ctx.oblige('coq:%s:%s' % (f, nm), True)
                ctx.theorems.append(nm)
            collect_axioms(ctx, out)
        else:
            _, line = error_line(out)
            bad = enclosing_statement(dst, line) if line else None
            hit = False
            for nm in names:
                if nm == bad:
                    ctx.oblige('coq:%s:%s' % (f, nm), False, first_error(out))
                    hit = True
                elif not hit:
                    ctx.oblige('coq:%s:%s' % (f, nm), True)
                else:
                    ctx.oblige('coq:%s:%s' % (f, nm), False, 'not checked: an earlier statement in the file failed')
            if not hit:
                ctx.oblige('coq:%s' % f, False, first_error(out))
            ok_all = False
            failed.add(f[:-2])
        ctx.cov.setdefault('coq_seconds', {})[f] = round(time.time() - t0, 1)
    return ok_all


def collect_axioms(ctx, out):
    """parse the output of Print Assumptions"""
    for m in re.finditer(r'^([A-Za-z_][A-Za-z0-9_.\']*)\s*\n?\s+:', out, re.M):
        if m.group(1) != 'Axioms':
            ctx.axioms.add(m.group(1))
    if 'Closed under the global context' in out:
        ctx.cov['closed_theorems'] = ctx.cov.get('closed_theorems', 0) + out.count('Closed under the global context')


def check_axioms(ctx):
    mine = [a for a in ctx.axioms if not any(a.endswith(s) or a == s for s in STD_AXIOMS)]
    ctx.oblige('axioms:only-stdlib', not mine, 'non-stdlib assumptions: %s' % mine)


def coq_eval(ctx, name, body, imports, timeout=600):
    """write <build>/P/<name>.v with `body`, compile, return (ok, stdout)"""
    pdir = os.path.join(ctx.build, 'P')
    os.makedirs(pdir, exist_ok=True)
    path = os.path.join(pdir, name + '.v')
    open(path, 'w').write(imports + '\n' + body)
    return coqc(ctx, path, timeout)


def parse_eval_lists(out):
    """results of `Eval vm_compute in (l : list Z)` printed by Coq: returns list of lists of ints"""
    res = []
    for m in re.finditer(r'=\s*\[(.*?)\]\s*:\s*list', out, re.S):
        body = m.group(1)
        res.append([int(x.replace('%Z', '').strip().strip('()')) for x in body.split(';') if x.strip()])
    return res


# ------------------------------------------------------------------------------------------------ literals
import struct


def bits(x):
    x = float(x)
    if x != x:
        return 0x7ff8000000000000
    return struct.unpack('<Q', struct.pack('<d', x))[0]


def unbits(z):
    return struct.unpack('<d', struct.pack('<Q', z))[0]


def zlit(z):
    z = int(z)
    return str(z) if z >= 0 else '(%d)' % z


def vlit(v):
    return '(vof [' + '; '.join(str(bits(x)) for x in v) + '])'


def mlit(m):
    return '[' + '; '.join(vlit(r) for r in m) + ']'


def zvlit(v):
    return '[' + '; '.join(zlit(x) for x in v) + ']'


def flit(x):
    return '(of_bits %d)' % bits(x)


def optlit(x, f):
    return 'None' if x is None else '(Some %s)' % f(x)


# ------------------------------------------------------------------------------------------------ sweeps
class TaskTimeout(Exception):
    pass


def _alarm(signum, frame):
    raise TaskTimeout()


def _worker(args):
    func, task, tmo = args
    signal.signal(signal.SIGALRM, _alarm)
    signal.alarm(int(tmo))
    try:
        return ('ok', func(task))
    except TaskTimeout:
        return ('timeout', None)
    except BaseException as ex:  # noqa
        return ('crash', '%s: %s\n%s' % (type(ex).__name__, ex, traceback.format_exc()[-1500:]))
    finally:
        signal.alarm(0)


def parallel(func, tasks, timeout_each=60, nproc=NPROC):
    """run func(task) for every task in worker processes; returns list of (task, status, result) in task order"""
    tasks = list(tasks)
    out = [None] * len(tasks)
    if not tasks:
        return []
    import math
    from concurrent.futures import TimeoutError as FTimeout
    nw = min(nproc, len(tasks))
    deadline = timeout_each * math.ceil(len(tasks) / nw) + 60
    ex = ProcessPoolExecutor(max_workers=nw)
    futs = {ex.submit(_worker, (func, t, timeout_each)): i for i, t in enumerate(tasks)}
    try:
        for fu in as_completed(futs, timeout=deadline):
            i = futs[fu]
            try:
                st, r = fu.result()
            except BaseException as e:  # worker died
                st, r = 'crash', 'worker died: %r' % (e,)
            out[i] = (tasks[i], st, r)
    except FTimeout:
        pass
    for i, o in enumerate(out):
        if o is None:
            out[i] = (tasks[i], 'timeout', None)
    if all(o[1] != 'timeout' for o in out):
        ex.shutdown(wait=True)
        return out
    # never wait for stuck workers (a task that ignores SIGALRM, e.g. inside native code)
    for p in list(getattr(ex, '_processes', {}).values()):
        try:
            p.kill()
        except Exception:
            pass
    ex.shutdown(wait=False, cancel_futures=True)
    return out


# ------------------------------------------------------------------------------------------------ findings / replay / evidence
def load_known():
    p = os.path.join(VERIF, 'known_findings.json')
    if not os.path.exists(p):
        return []
    return json.load(open(p)).get('findings', [])


def write_replay(ctx, payload):
    os.makedirs(os.path.join(VERIF, 'replays'), exist_ok=True)
    s = json.dumps(payload, sort_keys=True, default=str)
    hh = hashlib.sha1(s.encode()).hexdigest()[:10]
    path = os.path.join(VERIF, 'replays', '%s-%s.json' % (ctx.pid, hh))
    json.dump(payload, open(path, 'w'), indent=1, default=str)
    return path


def finish(ctx, level, rule, trusted, search=None, explanation=None):
    """decide the outcome, print KNOWN-FINDING / VIOLATION lines, write evidence, return exit code"""
    known = [k for k in load_known() if k.get('property') == ctx.pid and k.get('status', 'open') == 'open']
    new, seen_known = [], {}
    for v in ctx.violations:
        k = next((k for k in known if k['signature'] == v['signature']), None)
        if k is not None:
            seen_known.setdefault(k['id'], (k, v))
        else:
            new.append(v)
    broken = ctx.broken()
    rc = 0
    lines = []
    if broken and not new and search is not None:
        # an obligation no longer checks: look for a concrete failing input with a larger budget
        print('SEARCH: %d obligation(s) broken, searching the implementation for a failing input' % len(broken))
        before = len(ctx.violations)
        try:
            search(ctx)
        except Exception as ex:  # the search itself must never hide the broken obligation
            ctx.notes.append('search crashed: %r' % (ex,))
        for v in ctx.violations[before:]:
            k = next((k for k in known if k['signature'] == v['signature']), None)
            if k is None:
                new.append(v)
            else:
                seen_known.setdefault(k['id'], (k, v))
    for kid, (k, v) in seen_known.items():
        print('KNOWN-FINDING: property=%s %s [%s] %s' % (ctx.pid, kid, k['signature'], k['what']))
    if new:
        # one replay per distinct signature
        done = set()
        for v in new:
            if v['signature'] in done:
                continue
            done.add(v['signature'])
            path = write_replay(ctx, dict(property=ctx.pid, kind='failing-input', signature=v['signature'], what=v['what'],
                                          data=v['data'], broken_obligations=[n for n, _ in broken], seed=ctx.seed, tier=ctx.tier))
            lines.append('VIOLATION property=%s replay=%s' % (ctx.pid, path))
            print('  violation: %s :: %s' % (v['signature'], v['what']))
        rc = 1
    elif broken:
        path = write_replay(ctx, dict(property=ctx.pid, kind='broken-obligation', obligations=[dict(name=n, detail=d) for n, d in broken],
                                      note='no concrete failing input was found by the search; the property is no longer shown to hold',
                                      seed=ctx.seed, tier=ctx.tier))
        lines.append('VIOLATION property=%s replay=%s no-failing-input-found' % (ctx.pid, path))
        rc = 1
    nob = len(ctx.obligations)
    ndis = sum(1 for o in ctx.obligations if o[1])
    cov = dict(ctx.cov)
    cov.update(obligations=max(nob, 1), discharged=max(ndis, 0) if nob else 0,
               checker_cmd='bin/check %s --tier %s  (translator -> coqc on Gen_*/PerRun files -> vm_compute correspondence -> sweep)' % (ctx.pid, ctx.tier),
               trusted_base=trusted + ['axioms reported by Print Assumptions in this run: ' + (', '.join(sorted(ctx.axioms)) or 'none (closed under the global context)')],
               rule=rule, theorems=ctx.theorems[:80], broken=[n for n, _ in broken],
               known_findings_seen=sorted(seen_known))
    cov.setdefault('evaluations', 0)
    cov.setdefault('distinct_nontrivial', 0)
    if explanation:
        cov['explanation'] = explanation
    if not cov['samples']:
        cov['samples'] = ['(no sample recorded)']
    ev = dict(property_id=ctx.pid, tier=ctx.tier, seed=ctx.seed, level=level, coverage=cov,
              assumptions=ctx.assumptions + ctx.notes, wall_s=round(time.time() - ctx.t0, 1), violations=len(new) + (1 if (broken and not new) else 0))
    # development runs against another checkout (tools/devcheck.sh, seeded mutants) must never overwrite the evidence of /repo
    evdir = os.path.join(VERIF, 'evidence') if os.path.realpath(REPO) == '/repo' else os.path.join(VERIF, 'build', 'dev-evidence')
    os.makedirs(evdir, exist_ok=True)
    json.dump(ev, open(os.path.join(evdir, ctx.pid + '.json'), 'w'), indent=1, default=str)
    for l in lines:
        print(l)
    print('%s %s: %d/%d obligations, %d evaluations, %d violations, %.0fs' % (ctx.pid, ctx.tier, ndis, nob, cov['evaluations'], len(new), time.time() - ctx.t0))
    return rc
