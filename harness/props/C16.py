"""C16 -- see DESIGN.md; obligations + oracle sweep."""
from .. import common as C, generic as G

TRUSTED = ['Coq 8.16.1 kernel + vm_compute', 'translator/py2coq.py + translator/tables.py', 'Coq Reals: all algebraic statements are exact-real; LAPACK least-squares/QR/SVD are oracles (not modelled); rounding and conditioning are only validated', 'oracle harness harness/oracles/C16.py']
PERRUN = ['Char_model.v', 'C16.v']
GEN = ('Gen_util', 'Gen_model', 'Gen_tables')
LEVEL = 'other'
EXPLANATION = 'obligations: translation of the anchored functions + theorems listed in coverage.theorems; the remaining clauses are validated by the oracle sweep only'


def run(ctx):
    return G.run(ctx, 'C16', LEVEL, GEN, PERRUN, TRUSTED, explanation=EXPLANATION)


def replay(payload):
    return G.replay('C16', payload)
