"""C16 -- see DESIGN.md; obligations + oracle sweep."""
from .. import common as C, generic as G

TRUSTED = ['Coq 8.16.1 kernel + vm_compute', 'translator/py2coq.py + translator/tables.py', 'Coq Reals: all algebraic statements are exact-real; LAPACK least-squares/QR/SVD are oracles (not modelled); rounding and conditioning are only validated', 'oracle harness harness/oracles/C16.py', 'numpy J.T / np.dot(A, B) / scalar*matrix as Prelude.matT / matmat / map (vmap (mul c)): compared bit for bit (sequential dot substituted for BLAS) on the build_full_model calls of real solve() runs']
PERRUN = ['Char_model.v', 'C16.v']
GEN = ('Gen_util', 'Gen_model', 'Gen_tables')
LEVEL = 'other'
EXPLANATION = 'obligations: translation of the anchored functions + theorems listed in coverage.theorems; the remaining clauses are validated by the oracle sweep only'


BFM_V = r"""
From Coq Require Import ZArith List Bool String.
Require Import DV.Base.Prelude DV.Base.F64 DV.Spec.Schema DV.Lib.Corr.
From G Require Import Gen_util Gen_model.
Import ListNotations.
Open Scope Z_scope.
(* a model state in which only the fields read by build_full_model are set: one stored point (the incumbent) *)
Definition bfm_state (n m : Z) (xopt c : list F) (J : list (list F)) : @model_state ArithF64 :=
  @mk_model ArithF64 n m 2 1 (vzeros n) (repeatZ (of_bits 18442240474082181120) n) (repeatZ (of_bits 9218868437227405312) n) [] [xopt] [vzeros m] [of_bits 0] 0 [1] [1]
            (of_bits 0) (of_bits 0) (of_bits 0) c J None None None None None None None None false None None.
Definition bfm_case (n m : Z) (xopt c : list F) (J : list (list F)) : Z :=
  let '(g, H) := @py_model_build_full_model ArithF64 (bfm_state n m xopt c J) in hashZ (fl_vec g ++ fl_mat H).
"""


def bfm_task(args):
    """calls of Model.build_full_model made by real dfols.solve() runs (sequential dot substituted for BLAS): inputs and the hash of (g, H)"""
    seed, count = args
    import warnings
    import numpy as np
    import dfols.model as dm
    from .. import histcorr, modelio as IO
    rng = np.random.default_rng(seed)
    out = []
    orig = dm.Model.build_full_model
    old = (dm.sumsq, dm.np)

    def bfm(self):
        g, H = orig(self)
        if len(out) < 400 and np.all(np.isfinite(self.model_jac)) and np.all(np.isfinite(self.model_const)):
            out.append((int(self.n()), int(self.m()), np.array(self.xopt(), dtype=float), np.array(self.model_const, dtype=float), np.array(self.model_jac, dtype=float),
                        IO.hashZ(IO.fl_vec(g) + IO.fl_mat(H))))
        return g, H
    dm.Model.build_full_model = bfm
    dm.sumsq, dm.np = IO.seq_sumsq, IO.NpProxy()
    try:
        for _ in range(count):
            spec = histcorr.gen_run(rng)
            spec['lam'] = 0.0
            with warnings.catch_warnings(), np.errstate(all='ignore'):
                warnings.simplefilter('ignore')
                histcorr.run_plain(spec)
    finally:
        dm.Model.build_full_model = orig
        dm.sumsq, dm.np = old
    return out


def correspondence(ctx):
    from .. import modelio as IO
    res = C.parallel(bfm_task, [(ctx.seed * 43 + i + 11, ctx.scale(2, 20)) for i in range(16)], timeout_each=600)
    cases = []
    for t, st, r in res:
        if st != 'ok':
            ctx.oblige('correspondence:build_full_model', False, 'implementation side failed: %s %s' % (st, r))
            return
        cases += r[:ctx.scale(40, 400)]
    body = BFM_V + 'Definition exp_ : list Z := [' + '; '.join(C.zlit(c[5]) for c in cases) + '].\n'
    body += 'Definition got_ : list Z := [' + ';\n'.join('bfm_case %d %d %s %s %s' % (c[0], c[1], IO.vlit(c[2]), IO.vlit(c[3]), IO.mlit(c[4])) for c in cases) + '].\n'
    body += 'Eval vm_compute in map (fun p => if Z.eqb (fst p) (snd p) then 1 else 0) (combine got_ exp_).\n'
    ok, out = C.coq_eval(ctx, 'cases_bfm', body, '')
    if not ok:
        ctx.oblige('correspondence:build_full_model', False, C.first_error(out))
        return
    ls = C.parse_eval_lists(out)
    flags = ls[0] if ls else []
    bad = [i for i, f in enumerate(flags) if f != 1]
    ctx.cov['build_full_model_calls_from_real_solve_runs'] = len(flags)
    if len(flags) != len(cases) or not cases:
        ctx.oblige('correspondence:build_full_model', False, 'evaluated %d of %d recorded calls' % (len(flags), len(cases)))
    elif bad:
        c = cases[bad[0]]
        ctx.oblige('correspondence:build_full_model[%d]' % bad[0], False, 'regenerated build_full_model and the implementation differ on %d of %d recorded calls, first: n=%d m=%d J=%s' % (len(bad), len(cases), c[0], c[1], c[4].tolist()))
    else:
        ctx.oblige('correspondence:build_full_model(%d calls recorded in real solve() runs, g and H bit-exact on binary64)' % len(cases), True)


def run(ctx):
    return G.run(ctx, 'C16', LEVEL, GEN, PERRUN, TRUSTED, explanation=EXPLANATION, correspondence=correspondence, corr_needs=[])


def replay(payload):
    return G.replay('C16', payload)
