"""C16 -- see DESIGN.md; obligations + oracle sweep."""
from .. import common as C, generic as G

TRUSTED = ['Coq 8.16.1 kernel + vm_compute', 'translator/*.py', 'oracle harness harness/oracles/C16.py']
PERRUN = []
GEN = ('Gen_util',)
LEVEL = 'other'
EXPLANATION = 'obligations: translation of the anchored functions + theorems listed in coverage.theorems; the remaining clauses are validated by the oracle sweep only'


def run(ctx):
    return G.run(ctx, 'C16', LEVEL, GEN, PERRUN, TRUSTED, explanation=EXPLANATION)


def replay(payload):
    return G.replay('C16', payload)
