"""C19 -- see DESIGN.md; obligations + oracle sweep."""
from .. import common as C, generic as G
from . import C17

TRUSTED = ['Coq 8.16.1 kernel + vm_compute', 'translator/tables.py (call sites, guards and assignments of solve()/solve_main()/controller as source text)', 'NumPy: astype/copy/list allocate fresh objects; np.random.* is the only access to the global generator', 'which options the user guide documents as random']
PERRUN = ['C19.v']
GEN = ('Gen_tables',)


def run(ctx):
    return G.run(ctx, 'C19', 'proof', GEN, PERRUN, TRUSTED)


def replay(payload):
    return G.replay('C19', payload)
