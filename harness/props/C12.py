"""C12 -- see DESIGN.md; obligations + oracle sweep."""
from .. import common as C, generic as G

TRUSTED = ['Coq 8.16.1 kernel + vm_compute', 'translator/fragments.py + translator/tables.py (the clip idioms and return sites regenerated from trust_region.py / util.py)', 'Coq Reals for the exact-arithmetic statements (rounding not modelled); OrdLaws/Flocq for the exact box statements', 'oracle harness harness/oracles/C12.py']
PERRUN = ['C12.v']
GEN = ('Gen_util', 'Gen_solver', 'Gen_tables')
LEVEL = 'proof'
EXPLANATION = 'obligations: translation of the anchored functions + theorems listed in coverage.theorems; the remaining clauses are validated by the oracle sweep only'


DWB_V = r"""
From Coq Require Import ZArith List Bool String.
Require Import DV.Base.Prelude DV.Base.F64 DV.Spec.Schema DV.Lib.Corr.
From G Require Import Gen_util Gen_solver.
Import ListNotations.
Open Scope Z_scope.
Definition dwb_case (d xopt sl su : list F) (xbdi : list Z) : Z := hashZ (fl_vec (@py_tr_d_within_bounds ArithF64 d xopt sl su xbdi)).
"""


def dwb_task(args):
    """calls of trust_region.d_within_bounds made by trsbox on the oracle's own cases: arguments and the returned step"""
    seed, count = args
    import numpy as np
    import dfols.trust_region as tr
    from ..oracles import C12 as O
    from .. import modelio as IO
    rng = np.random.default_rng(seed)
    out = []
    orig = tr.d_within_bounds

    def dwb(d, xopt, sl, su, xbdi):
        r = orig(d, xopt, sl, su, xbdi)
        if len(out) < 120:
            out.append((np.array(d, dtype=float).copy(), np.array(xopt, dtype=float).copy(), np.array(sl, dtype=float).copy(), np.array(su, dtype=float).copy(),
                        [int(v) for v in xbdi], IO.hashZ(IO.fl_vec(r))))
        return r
    tr.d_within_bounds = dwb
    try:
        for _ in range(count):
            cs = O.gen_case(rng)
            with np.errstate(all='ignore'):
                try:
                    tr.trsbox(cs['xopt'].copy(), cs['g'].copy(), cs['H'].copy(), cs['sl'].copy(), cs['su'].copy(), cs['delta'], use_fortran=False)
                except Exception:
                    pass
    finally:
        tr.d_within_bounds = orig
    return out


def correspondence(ctx):
    from .. import modelio as IO
    res = C.parallel(dwb_task, [(ctx.seed * 61 + i + 13, ctx.scale(100, 1200)) for i in range(16)], timeout_each=600)
    cases = []
    for t, st, r in res:
        if st != 'ok':
            ctx.oblige('correspondence:d_within_bounds', False, 'implementation side failed: %s %s' % (st, r))
            return
        cases += r
    cases = cases[:ctx.scale(1500, 15000)]
    body = DWB_V + 'Definition exp_ : list Z := [' + '; '.join(C.zlit(c[5]) for c in cases) + '].\n'
    body += 'Definition got_ : list Z := [' + ';\n'.join('dwb_case %s %s %s %s %s' % (IO.vlit(c[0]), IO.vlit(c[1]), IO.vlit(c[2]), IO.vlit(c[3]), IO.zvlit(c[4])) for c in cases) + '].\n'
    body += 'Eval vm_compute in map (fun p => if Z.eqb (fst p) (snd p) then 1 else 0) (combine got_ exp_).\n'
    ok, out = C.coq_eval(ctx, 'cases_dwb', body, '')
    if not ok:
        ctx.oblige('correspondence:d_within_bounds', False, C.first_error(out))
        return
    ls = C.parse_eval_lists(out)
    flags = ls[0] if ls else []
    bad = [i for i, f in enumerate(flags) if f != 1]
    ctx.cov['d_within_bounds_calls_compared'] = len(flags)
    ctx.cov['d_within_bounds_calls_with_active_bounds'] = sum(1 for c in cases if any(v != 0 for v in c[4]))
    if len(flags) != len(cases) or not cases:
        ctx.oblige('correspondence:d_within_bounds', False, 'evaluated %d of %d recorded calls' % (len(flags), len(cases)))
    elif bad:
        c = cases[bad[0]]
        ctx.oblige('correspondence:d_within_bounds[%d]' % bad[0], False, 'regenerated d_within_bounds and the implementation differ on %d of %d calls, first: d=%s xbdi=%s' % (len(bad), len(cases), c[0].tolist(), c[4]))
    else:
        ctx.oblige('correspondence:d_within_bounds(%d calls made by trsbox, returned step bit-exact on binary64)' % len(cases), True)


def run(ctx):
    return G.run(ctx, 'C12', LEVEL, GEN, PERRUN, TRUSTED, explanation=EXPLANATION, correspondence=correspondence, corr_needs=[])


def replay(payload):
    return G.replay('C12', payload)
