"""C12 -- see DESIGN.md; obligations + oracle sweep."""
from .. import common as C, generic as G

TRUSTED = ['Coq 8.16.1 kernel + vm_compute', 'translator/fragments.py + translator/tables.py (the clip idioms and return sites regenerated from trust_region.py / util.py)', 'Coq Reals for the exact-arithmetic statements (rounding not modelled); OrdLaws/Flocq for the exact box statements', 'oracle harness harness/oracles/C12.py']
PERRUN = ['C12.v']
GEN = ('Gen_util', 'Gen_trust_region', 'Gen_solver', 'Gen_tables')
LEVEL = 'proof'
EXPLANATION = 'obligations: translation of the anchored functions + theorems listed in coverage.theorems; the remaining clauses are validated by the oracle sweep only'


DWB_V = r"""
From Coq Require Import ZArith List Bool String.
Require Import DV.Base.Prelude DV.Base.F64 DV.Spec.Schema DV.Lib.Corr.
From G Require Import Gen_util Gen_solver.
Import ListNotations.
Open Scope Z_scope.
Definition dwb_case (d xopt sl su : list F) (xbdi : list Z) : Z := hashZ (fl_vec (@py_tr_d_within_bounds ArithF64 d xopt sl su xbdi)).
"""


def dwb_task(args):
    """calls of trust_region.d_within_bounds made by trsbox on the oracle's own cases: arguments and the returned step"""
    seed, count = args
    import numpy as np
    import dfols.trust_region as tr
    from ..oracles import C12 as O
    from .. import modelio as IO
    rng = np.random.default_rng(seed)
    out = []
    orig = tr.d_within_bounds

    def dwb(d, xopt, sl, su, xbdi):
        r = orig(d, xopt, sl, su, xbdi)
        if len(out) < 120:
            out.append((np.array(d, dtype=float).copy(), np.array(xopt, dtype=float).copy(), np.array(sl, dtype=float).copy(), np.array(su, dtype=float).copy(),
                        [int(v) for v in xbdi], IO.hashZ(IO.fl_vec(r))))
        return r
    tr.d_within_bounds = dwb
    try:
        for _ in range(count):
            cs = O.gen_case(rng)
            with np.errstate(all='ignore'):
                try:
                    tr.trsbox(cs['xopt'].copy(), cs['g'].copy(), cs['H'].copy(), cs['sl'].copy(), cs['su'].copy(), cs['delta'], use_fortran=False)
                except Exception:
                    pass
    finally:
        tr.d_within_bounds = orig
    return out


TRS_V = r"""
From Coq Require Import ZArith List Bool String.
Require Import DV.Base.Prelude DV.Base.F64 DV.Spec.Schema DV.Lib.Corr.
From G Require Import Gen_util Gen_trust_region.
Import ListNotations.
Open Scope Z_scope.
Definition trs_case (xopt g : list F) (H : list (list F)) (sl su : list F) (delta : F) : Z :=
  match @py_trust_region_trsbox ArithF64 xopt g H sl su delta with
  | Ok (d, gn, cm) => hashZ (fl_vec d ++ fl_vec gn ++ [to_bits cm]) | Err _ => -1 end.
"""


def trs_task(args):
    """trsbox of the implementation (numerically pinned variant of the current source, see harness/seqvariant.py) on the oracle's
    cases: (d, gnew, crvmin) as one hash, -1 for an exception"""
    seed, count = args
    import numpy as np
    from ..oracles import C12 as O
    from .. import modelio as IO, seqvariant
    tr = seqvariant.load('trust_region')
    assert tr.USE_FORTRAN is False, 'the model covers the pure-Python path only (trustregion package absent)'
    rng = np.random.default_rng(seed)
    out = []
    for _ in range(count):
        cs = O.gen_case(rng)
        with np.errstate(all='ignore'):
            try:
                d, gn, cm = tr.trsbox(cs['xopt'].copy(), cs['g'].copy(), cs['H'].copy(), cs['sl'].copy(), cs['su'].copy(), cs['delta'], use_fortran=False)
                r = IO.hashZ(IO.fl_vec(d) + IO.fl_vec(gn) + [C.bits(cm)])
            except Exception:
                r = -1
        out.append(('trs_case %s %s %s %s %s %s' % (IO.vlit(cs['xopt']), IO.vlit(cs['g']), IO.mlit(cs['H']), IO.vlit(cs['sl']), IO.vlit(cs['su']), IO.flit(cs['delta'])), r,
                    int(cs['g'].size), bool(np.any(cs['xopt'] <= cs['sl']) or np.any(cs['xopt'] >= cs['su']))))
    return out


def trs_eval(args):
    """one file of cases evaluated by Coq"""
    build, name, cases = args

    class K:
        pass
    k = K()
    k.build = build
    body = TRS_V + 'Definition exp_ : list Z := [' + '; '.join(C.zlit(c[1]) for c in cases) + '].\n'
    body += 'Definition got_ : list Z := [' + ';\n'.join(c[0] for c in cases) + '].\n'
    body += 'Eval vm_compute in map (fun p => if Z.eqb (fst p) (snd p) then 1 else 0) (combine got_ exp_).\n'
    ok, out = C.coq_eval(k, name, body, '', timeout=1500)
    if not ok:
        return None, C.first_error(out)
    ls = C.parse_eval_lists(out)
    return (ls[0] if ls else []), ''


def trsbox_correspondence(ctx):
    res = C.parallel(trs_task, [(ctx.seed * 73 + i + 11, ctx.scale(40, 400)) for i in range(16)], timeout_each=900)
    cases = []
    for t, st, r in res:
        if st != 'ok':
            ctx.oblige('correspondence:trsbox', False, 'implementation side failed: %s %s' % (st, r))
            return
        cases += r
    nfile = 16
    chunks = [cases[i::nfile] for i in range(nfile)]
    res = C.parallel(trs_eval, [(ctx.build, 'cases_trs_%d' % i, ch) for i, ch in enumerate(chunks) if ch], timeout_each=1800)
    nbad, ncmp, first = 0, 0, None
    for (b, name, ch), st, r in res:
        if st != 'ok' or r[0] is None:
            ctx.oblige('correspondence:trsbox', False, 'Coq side failed on %s: %s' % (name, r if st != 'ok' else r[1]))
            return
        flags = r[0]
        if len(flags) != len(ch):
            ctx.oblige('correspondence:trsbox', False, 'evaluated %d of %d cases in %s' % (len(flags), len(ch), name))
            return
        ncmp += len(flags)
        for c, f in zip(ch, flags):
            if f != 1:
                nbad += 1
                first = first or c
    ctx.cov['trsbox_calls_compared'] = ncmp
    ctx.cov['trsbox_calls_raising'] = sum(1 for c in cases if c[1] == -1)
    ctx.cov['trsbox_calls_starting_on_a_bound'] = sum(1 for c in cases if c[3])
    if nbad:
        ctx.oblige('correspondence:trsbox', False, 'regenerated trsbox and the implementation differ on %d of %d cases, first (n = %d): %s' % (nbad, ncmp, first[2], first[0][:300]))
    else:
        ctx.oblige('correspondence:trsbox+alt_trust_step+d_within_bounds(%d cases; d, gnew, crvmin bit-exact on binary64)' % ncmp, True)


def correspondence(ctx):
    trsbox_correspondence(ctx)
    from .. import modelio as IO
    res = C.parallel(dwb_task, [(ctx.seed * 61 + i + 13, ctx.scale(100, 1200)) for i in range(16)], timeout_each=600)
    cases = []
    for t, st, r in res:
        if st != 'ok':
            ctx.oblige('correspondence:d_within_bounds', False, 'implementation side failed: %s %s' % (st, r))
            return
        cases += r
    cases = cases[:ctx.scale(1500, 15000)]
    body = DWB_V + 'Definition exp_ : list Z := [' + '; '.join(C.zlit(c[5]) for c in cases) + '].\n'
    body += 'Definition got_ : list Z := [' + ';\n'.join('dwb_case %s %s %s %s %s' % (IO.vlit(c[0]), IO.vlit(c[1]), IO.vlit(c[2]), IO.vlit(c[3]), IO.zvlit(c[4])) for c in cases) + '].\n'
    body += 'Eval vm_compute in map (fun p => if Z.eqb (fst p) (snd p) then 1 else 0) (combine got_ exp_).\n'
    ok, out = C.coq_eval(ctx, 'cases_dwb', body, '')
    if not ok:
        ctx.oblige('correspondence:d_within_bounds', False, C.first_error(out))
        return
    ls = C.parse_eval_lists(out)
    flags = ls[0] if ls else []
    bad = [i for i, f in enumerate(flags) if f != 1]
    ctx.cov['d_within_bounds_calls_compared'] = len(flags)
    ctx.cov['d_within_bounds_calls_with_active_bounds'] = sum(1 for c in cases if any(v != 0 for v in c[4]))
    if len(flags) != len(cases) or not cases:
        ctx.oblige('correspondence:d_within_bounds', False, 'evaluated %d of %d recorded calls' % (len(flags), len(cases)))
    elif bad:
        c = cases[bad[0]]
        ctx.oblige('correspondence:d_within_bounds[%d]' % bad[0], False, 'regenerated d_within_bounds and the implementation differ on %d of %d calls, first: d=%s xbdi=%s' % (len(bad), len(cases), c[0].tolist(), c[4]))
    else:
        ctx.oblige('correspondence:d_within_bounds(%d calls made by trsbox, returned step bit-exact on binary64)' % len(cases), True)


def run(ctx):
    return G.run(ctx, 'C12', LEVEL, GEN, PERRUN, TRUSTED, explanation=EXPLANATION, correspondence=correspondence, corr_needs=[])


def replay(payload):
    return G.replay('C12', payload)
