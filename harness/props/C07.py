"""C07 -- see DESIGN.md; obligations + oracle sweep."""
from .. import common as C, generic as G

TRUSTED = ['Coq 8.16.1 kernel + vm_compute', 'translator/tables.py: rows of ParameterList.param_type, default keys, exit sites, constructor arity, EXIT_ names found in docs/userguide.rst', 'the hand-written model of check_integer/check_float/check_bool/check_str in DV.Lib.MValid (compared with the implementation by the sweep over every key x {in range, boundaries, out of range, wrong type, None})', 'Python: isinstance(True, int) holds; comparisons with NaN are False; dynamic typing of non-parameter arguments is only validated']
PERRUN = ['C07.v']
GEN = ('Gen_tables',)
LEVEL = 'proof'
EXPLANATION = 'obligations: translation of the anchored functions + theorems listed in coverage.theorems; the remaining clauses are validated by the oracle sweep only'


def correspondence(ctx):
    """MValid.check_param on the regenerated table == ParameterList.check_param, for every key x value kind"""
    import math
    from fractions import Fraction
    from dfols.params import ParameterList
    npt = 5
    P = ParameterList(3, npt, 100)
    vals = [None, True, False, -1, 0, 1, 2, npt - 1, npt, npt + 1, 10 ** 6, -1.0, 0.0, 1e-300, 0.5, 1.0, 1.0 + 2 ** -52, 2.0, 1e10, float('nan'), float('inf'), float('-inf'), 'txt', [1]]
    def lit(v):
        if v is None: return 'VNone'
        if isinstance(v, bool): return '(VBool %s)' % ('true' if v else 'false')
        if isinstance(v, int): return '(VInt %s)' % C.zlit(v)
        if isinstance(v, float):
            if math.isnan(v): return 'VFloatNaN'
            if math.isinf(v): return '(VFloatInf %s)' % ('true' if v < 0 else 'false')
            f = Fraction(v)
            return '(VFloat (QArith_base.Qmake %s %d))' % (C.zlit(f.numerator), f.denominator)
        if isinstance(v, str): return 'VStr'
        return 'VOther'
    cases = []
    for key in sorted(P.params):
        for v in vals:
            try:
                ok = bool(P.check_param(key, v, npt))
            except Exception as ex:
                ok = 'raise:' + type(ex).__name__
            cases.append((key, v, ok))
    items = ['(match check_param (table %d) "%s" %s with Accept => 1 | Reject => 0 | UnknownKey => 2 | BadTable => 3 end)' % (npt, k, lit(v)) for (k, v, _) in cases]
    body = ['From Coq Require Import ZArith List Bool String QArith.', 'Require Import DV.Lib.Tables DV.Lib.MValid.', 'From G Require Import Gen_tables.', 'From P Require Import C07.',
            'Import ListNotations.', 'Open Scope Z_scope.', 'Open Scope string_scope.', 'Eval vm_compute in [' + ';\n'.join(items) + '].']
    ok, out = C.coq_eval(ctx, 'cases_params', '\n'.join(body), '')
    if not ok:
        ctx.oblige('correspondence:check_param', False, C.first_error(out))
        return
    got = (C.parse_eval_lists(out) or [[]])[0]
    bad = [(cases[i][0], repr(cases[i][1]), cases[i][2], g) for i, g in enumerate(got) if (cases[i][2] is True and g != 1) or (cases[i][2] is False and g != 0) or (isinstance(cases[i][2], str))]
    ctx.cov['traces_validated_against_impl'] = len(got)
    if len(got) != len(cases) or bad:
        ctx.oblige('correspondence:check_param', False, '%d of %d (key, value) decisions differ, first: %s' % (len(bad), len(cases), bad[:1]))
    else:
        ctx.oblige('correspondence:check_param(%d keys x %d values: model decision == ParameterList.check_param)' % (len(P.params), len(vals)), True)
    ctx.sample(dict(kind='check_param-case', key=cases[7][0], value=repr(cases[7][1]), accepted=cases[7][2]))


def run(ctx):
    return G.run(ctx, 'C07', LEVEL, GEN, PERRUN, TRUSTED, correspondence=correspondence, explanation=EXPLANATION)


def replay(payload):
    return G.replay('C07', payload)
