"""C10 -- see DESIGN.md; obligations + oracle sweep."""
from .. import common as C, generic as G
from . import C17

TRUSTED = ['Coq 8.16.1 kernel + vm_compute', 'translator/tables.py: exit construction sites with their enclosing guards, break/continue sites and counter writes as source text', 'the invariants of C02, C04, C18 (proved in their own files) that turn a guard into the stated fact', 'Python control flow: statements after `if c: ...; break` run only when c is false']
PERRUN = ['Char_model.v', 'Char_controller.v', 'C18.v', 'C02.v', 'C10.v']   # the budget clauses rest on C02's accounting and restart-admission obligations
GEN = ('Gen_util', 'Gen_model', 'Gen_controller', 'Gen_solver', 'Gen_tables')


def run(ctx):
    return G.run(ctx, 'C10', 'proof', GEN, PERRUN, TRUSTED)


def replay(payload):
    return G.replay('C10', payload)
