"""C10 -- see DESIGN.md; obligations + oracle sweep."""
from .. import common as C, generic as G
from . import C17

TRUSTED = C17.TRUSTED
PERRUN = ['Char_model.v', 'C17.v']
GEN = ('Gen_util', 'Gen_model', 'Gen_tables')


def run(ctx):
    return G.run(ctx, 'C10', 'proof', GEN, PERRUN, TRUSTED)


def replay(payload):
    return G.replay('C10', payload)
