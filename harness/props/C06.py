"""C06 -- see DESIGN.md; obligations + oracle sweep."""
from .. import common as C, generic as G

TRUSTED = ['Coq 8.16.1 kernel + vm_compute', 'translator/py2coq.py + translator/tables.py', 'Coq Reals: all algebraic statements are exact-real; LAPACK least-squares/QR/SVD are oracles (not modelled); rounding and conditioning are only validated', 'oracle harness harness/oracles/C06.py']
# the regularised objective is stored by the Model methods (C17: each stored objective is sum(r^2) + h at the stored point) and
# committed at the sites C03 checks: both files are compiled here as well
PERRUN = ['Char_model.v', 'C17.v', 'C03.v', 'C06.v']
GEN = ('Gen_util', 'Gen_model', 'Gen_tables')
LEVEL = 'other'
EXPLANATION = ('proved on regenerated code: the Model stores sum(r^2) + h at the stored point and keeps it consistent under every operation (C17), every commit site passes the evaluated point (C03), '
               'callbacks receive exactly their arguments on a fresh temporary, the regularised subproblem gets the true box, a model increase gives the zero step. '
               'validated by the oracle sweep only: convergence to within 1e-3 (1+F*) and the success flag')


def run(ctx):
    return G.run(ctx, 'C06', LEVEL, GEN, PERRUN, TRUSTED, explanation=EXPLANATION)


def replay(payload):
    return G.replay('C06', payload)
