"""C13 -- see DESIGN.md; obligations + oracle sweep."""
from .. import common as C, generic as G

TRUSTED = ['Coq 8.16.1 kernel + vm_compute', 'translator/fragments.py + translator/tables.py (the clip idioms and return sites regenerated from trust_region.py / util.py)', 'Coq Reals for the exact-arithmetic statements (rounding not modelled); OrdLaws/Flocq for the exact box statements', 'oracle harness harness/oracles/C13.py']
PERRUN = ['Char_model.v', 'C15.v', 'C13.v']
GEN = ('Gen_util', 'Gen_model', 'Gen_trust_region', 'Gen_tables')
LEVEL = 'other'
EXPLANATION = 'obligations: translation of the anchored functions + theorems listed in coverage.theorems; the remaining clauses are validated by the oracle sweep only'


GEOM_V = r"""
From Coq Require Import ZArith List Bool String.
Require Import DV.Base.Prelude DV.Base.F64 DV.Spec.Schema DV.Lib.Corr.
From G Require Import Gen_util Gen_trust_region.
Import ListNotations.
Open Scope Z_scope.
Definition geom_case (xbase : list F) (c : F) (g lower upper : list F) (Delta : F) : Z :=
  match @py_trust_region_trsbox_geometry ArithF64 xbase c g lower upper Delta with Ok r => hashZ (fl_vec r) | Err _ => -1 end.
Definition lin_case (g a b : list F) (Delta : F) : Z :=
  match @py_trust_region_trsbox_linear ArithF64 g a b Delta with Ok r => hashZ (fl_vec r) | Err _ => -1 end.
"""


def geom_task(args):
    """trsbox_geometry / trsbox_linear of the implementation (sequential dot and norm in place of BLAS, x*x in place of libm's
    pow(x, 2) for the two scalar squares in ball_step) on the oracle's own cases"""
    seed, count = args
    import numpy as np
    import dfols.trust_region as tr
    from ..oracles import C13 as O
    from .. import modelio as IO
    assert tr.USE_FORTRAN is False, 'the model covers the pure-Python path only (trustregion package absent)'
    rng = np.random.default_rng(seed)
    out = []
    saved = tr.np
    tr.np = IO.NpProxy()
    try:
        for k in range(count):
            cs = O.gen_geom(rng)
            with np.errstate(all='ignore'):
                if k % 3 == 2:
                    # the linear solver alone, on bounds that need not contain zero
                    a = cs['lower'] - cs['xbase'] + (rng.standard_normal(cs['g'].size) * cs['Delta'] if rng.random() < 0.3 else 0.0)
                    b = cs['upper'] - cs['xbase']
                    try:
                        r = IO.hashZ(IO.fl_vec(tr.trsbox_linear(cs['g'].copy(), a.copy(), b.copy(), IO.SqF(cs['Delta']), use_fortran=False)))
                    except Exception:
                        r = -1
                    out.append(('lin', cs['g'], a, b, cs['Delta'], r))
                else:
                    xb = cs['xbase'] + (rng.standard_normal(cs['g'].size) * 1e-14 if rng.random() < 0.1 else 0.0)     # around the assert's slack
                    try:
                        r = IO.hashZ(IO.fl_vec(tr.trsbox_geometry(xb.copy(), cs['c'], cs['g'].copy(), cs['lower'].copy(), cs['upper'].copy(), IO.SqF(cs['Delta']), use_fortran=False)))
                    except Exception:
                        r = -1
                    out.append(('geom', xb, cs['c'], cs['g'], cs['lower'], cs['upper'], cs['Delta'], r))
    finally:
        tr.np = saved
    return out


def correspondence(ctx):
    from .. import modelio as IO
    res = C.parallel(geom_task, [(ctx.seed * 67 + i + 5, ctx.scale(90, 900)) for i in range(16)], timeout_each=600)
    cases = []
    for t, st, r in res:
        if st != 'ok':
            ctx.oblige('correspondence:trsbox_geometry', False, 'implementation side failed: %s %s' % (st, r))
            return
        cases += r
    body = GEOM_V + 'Definition exp_ : list Z := [' + '; '.join(C.zlit(c[-1]) for c in cases) + '].\n'
    terms = []
    for c in cases:
        if c[0] == 'lin':
            terms.append('lin_case %s %s %s %s' % (IO.vlit(c[1]), IO.vlit(c[2]), IO.vlit(c[3]), IO.flit(c[4])))
        else:
            terms.append('geom_case %s %s %s %s %s %s' % (IO.vlit(c[1]), IO.flit(c[2]), IO.vlit(c[3]), IO.vlit(c[4]), IO.vlit(c[5]), IO.flit(c[6])))
    body += 'Definition got_ : list Z := [' + ';\n'.join(terms) + '].\n'
    body += 'Eval vm_compute in map (fun p => if Z.eqb (fst p) (snd p) then 1 else 0) (combine got_ exp_).\n'
    ok, out = C.coq_eval(ctx, 'cases_geom', body, '')
    if not ok:
        ctx.oblige('correspondence:trsbox_geometry', False, C.first_error(out))
        return
    ls = C.parse_eval_lists(out)
    flags = ls[0] if ls else []
    bad = [i for i, f in enumerate(flags) if f != 1]
    ctx.cov['geometry_calls_compared'] = len(flags)
    ctx.cov['geometry_calls_rejected_by_assert'] = sum(1 for c in cases if c[-1] == -1)
    if len(flags) != len(cases) or not cases:
        ctx.oblige('correspondence:trsbox_geometry', False, 'evaluated %d of %d cases' % (len(flags), len(cases)))
    elif bad:
        c = cases[bad[0]]
        ctx.oblige('correspondence:trsbox_geometry[%d]' % bad[0], False, 'regenerated %s and the implementation differ on %d of %d cases, first: %s' % (
            'trsbox_linear' if c[0] == 'lin' else 'trsbox_geometry', len(bad), len(cases), [getattr(v, 'tolist', lambda: v)() for v in c[1:-1]]))
    else:
        ctx.oblige('correspondence:trsbox_geometry/trsbox_linear/ball_step(%d cases, returned point bit-exact on binary64)' % len(cases), True)


def run(ctx):
    return G.run(ctx, 'C13', LEVEL, GEN, PERRUN, TRUSTED, explanation=EXPLANATION, correspondence=correspondence, corr_needs=[])


def replay(payload):
    return G.replay('C13', payload)
