"""C20 -- see DESIGN.md; obligations + oracle sweep."""
from .. import common as C, generic as G

TRUSTED = ['Coq 8.16.1 kernel + vm_compute', 'Flocq binary64 with a single NaN (payloads not modelled)', 'translator/tables.py: field assignments of to_dict/from_dict/__init__ and the branches of replace_nan_with_none as source text', 'ndarray.tolist / np.array(dtype=float) (None -> NaN) / float() / int() / json.dumps+loads / pandas DataFrame.to_dict+from_dict conversions (exercised by the sweep, not modelled beyond the JSON value type)', 'str(): __str__ reads only the stored fields (validated)']
PERRUN = ['C20.v']
GEN = ('Gen_tables',)
LEVEL = 'proof'
EXPLANATION = 'obligations: translation of the anchored functions + theorems listed in coverage.theorems; the remaining clauses are validated by the oracle sweep only'


def run(ctx):
    return G.run(ctx, 'C20', LEVEL, GEN, PERRUN, TRUSTED, explanation=EXPLANATION)


def replay(payload):
    return G.replay('C20', payload)
