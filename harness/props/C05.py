"""C05 -- see DESIGN.md; obligations + oracle sweep."""
from .. import common as C, generic as G

TRUSTED = ['Coq 8.16.1 kernel + vm_compute', 'translator/py2coq.py + translator/tables.py', 'Coq Reals: all algebraic statements are exact-real; LAPACK least-squares/QR/SVD are oracles (not modelled); rounding and conditioning are only validated', 'oracle harness harness/oracles/C05.py']
PERRUN = ['Char_model.v', 'Char_controller.v', 'C16.v', 'C05.v']      # Char_controller: the small-objective exit averages the samples per residual (evaluate_objective_eq)
GEN = ('Gen_util', 'Gen_model', 'Gen_controller', 'Gen_tables')
LEVEL = 'other'
EXPLANATION = 'obligations: translation of the anchored functions + theorems listed in coverage.theorems; the remaining clauses are validated by the oracle sweep only'


def run(ctx):
    return G.run(ctx, 'C05', LEVEL, GEN, PERRUN, TRUSTED, explanation=EXPLANATION)


def replay(payload):
    return G.replay('C05', payload)
