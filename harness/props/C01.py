"""C01 -- bound constraints are never violated at any evaluation point."""
import numpy as np
from .. import common as C, generic as G, modelio as IO

TRUSTED = ['Coq 8.16.1 kernel + vm_compute', 'Flocq 4.1 binary64; OrdLaws instance LawsF64 (comparison = comparison of real keys, infinities included)',
           'translator/fragments.py (the three expressions of solve() the theorems are about) and translator/tables.py (name-binding tables)',
           'numpy.minimum/maximum semantics (ties return the second argument, NaN propagates) as encoded by npmin/npmax -- compared bit for bit on every run',
           'Python closure semantics: the lambda bound to objfun is what solve_main, Controller and eval_least_squares_with_regularisation call']


def correspondence(ctx):
    """vocabulary check: the generated clip expressions on binary64 == numpy, bit for bit, incl. NaN, +-0, +-inf, ties"""
    rng = np.random.default_rng(ctx.seed + 5)
    specials = [0.0, -0.0, np.inf, -np.inf, np.nan, 5e-324, -5e-324, 1.0, -1.0, 1e20, -1e20, 1.7976931348623157e308]
    cases = []
    for _ in range(ctx.scale(300, 3000)):
        n = int(rng.integers(1, 6))
        def vec():
            v = rng.standard_normal(n)
            for i in range(n):
                if rng.random() < 0.3:
                    v[i] = specials[int(rng.integers(0, len(specials)))]
            return v
        xl = vec(); xu = vec(); x = vec()
        if rng.random() < 0.5:
            lo, hi = np.fmin(xl, xu), np.fmax(xl, xu)
            xl, xu = lo, hi
        if rng.random() < 0.3:
            k = int(rng.integers(0, n)); x[k] = xl[k]
        with np.errstate(all='ignore'):
            e1 = np.minimum(np.maximum(x, xl), xu)
            x0 = x.copy(); idx = (x0 < xl); x0[idx] = xl[idx]; idx = (x0 > xu); x0[idx] = xu[idx]
            sc = (xl.copy(), (xu - xl).copy())
            e3 = np.minimum(np.maximum(sc[0] + x * sc[1], xl), xu)
        cases.append((x, xl, xu, sc, e1, x0, e3))
    body = ['From Coq Require Import ZArith List Bool.', 'Require Import DV.Base.Prelude DV.Base.F64 DV.Spec.Schema DV.Lib.Corr.',
            'From G Require Import Gen_util Gen_solver.', 'Import ListNotations.', 'Open Scope Z_scope.',
            'Fixpoint leq (a b : list Z) : bool := match a, b with [], [] => true | x :: a, y :: b => (x =? y) && leq a b | _, _ => false end.',
            'Definition chk (x xl xu s0 s1 : list F) (e1 e2 e3 : list Z) : Z :=',
            '  (if leq (vbits (@py_solver_eval_point ArithF64 x xl xu)) e1 then 0 else 1) + (if leq (vbits (@py_solver_push_x0 ArithF64 x xl xu)) e2 then 0 else 2) +',
            '  (if leq (vbits (@py_solver_result_x ArithF64 x (Some (s0, s1)) xl xu)) e3 then 0 else 4).']
    items = []
    for (x, xl, xu, sc, e1, e2, e3) in cases:
        zb = lambda v: '[' + '; '.join(str(C.bits(t)) for t in v) + ']'
        items.append('chk %s %s %s %s %s %s %s %s' % (IO.vlit(x), IO.vlit(xl), IO.vlit(xu), IO.vlit(sc[0]), IO.vlit(sc[1]), zb(e1), zb(e2), zb(e3)))
    body.append('Eval vm_compute in [' + ';\n'.join(items) + '].')
    ok, out = C.coq_eval(ctx, 'cases_clip', '\n'.join(body), '')
    if not ok:
        ctx.oblige('correspondence:clip-expressions', False, C.first_error(out))
        return
    ls = C.parse_eval_lists(out)
    flags = ls[0] if ls else []
    bad = [i for i, f in enumerate(flags) if f != 0]
    ctx.cov['traces_validated_against_impl'] = len(flags)
    if len(flags) != len(cases) or bad:
        i = bad[0] if bad else 0
        ctx.oblige('correspondence:clip-expressions', False, '%d of %d cases differ (first: x=%s xl=%s xu=%s code=%s)' % (
            len(bad), len(cases), [float(v).hex() for v in cases[i][0]], [float(v).hex() for v in cases[i][1]], [float(v).hex() for v in cases[i][2]], flags[i] if flags else '?'))
    else:
        ctx.oblige('correspondence:clip-expressions(%d vectors incl. NaN/inf/+-0/ties, bit-exact)' % len(cases), True)


def run(ctx):
    # with `projections` the user's box is one more convex set: that it is projected last (so that Dykstra's output is
    # exactly inside it) and that evaluation points are Dykstra outputs are C09's obligations, compiled here as well
    def c09_sweep(c):
        G.oracle_sweep(c, 'C09', 'thorough', seed_offset=7)
    return G.run(ctx, 'C01', 'proof', ('Gen_util', 'Gen_model', 'Gen_solver', 'Gen_tables'), ['Char_model.v', 'C15.v', 'C09.v', 'C01.v'], TRUSTED,
                 correspondence=correspondence, corr_needs=[], search_extra=c09_sweep)


def replay(payload):
    if str(payload.get('signature', '')).startswith('C09:'):
        return G.replay('C09', payload)
    return G.replay('C01', payload)
