"""C17 -- Model bookkeeping stays consistent under any sequence of updates.
obligations: translation of model.py/util.py, Char_model (generated = reference model), C17.v theorems, sequence-level
correspondence (generated functions evaluated on Flocq binary64 inside Coq == real dfols.model.Model, bit for bit).
search/validation: random operation sequences on the real Model against a shadow model kept by the harness."""
import math, os, sys
import numpy as np
from .. import common as C
from .. import modelio as IO

TRUSTED = ['Coq 8.16.1 kernel + vm_compute', 'Flocq 4.1 binary64 (BinarySingleNaN) as the meaning of Python floats',
           'translator/py2coq.py (Python ast -> Gallina), schema translator/spec.py',
           'harness: sequential dot/sumsq substituted for BLAS in dfols.model during the bit-exact comparison',
           'numpy fancy-index swap, np.append, np.argmin, np.where semantics as encoded in the translator vocabulary']

CORR_V = r'''
From Coq Require Import ZArith List Bool String.
Require Import DV.Base.Prelude DV.Base.F64 DV.Spec.Schema DV.Lib.MSpec DV.Lib.MBook DV.Lib.Corr.
From G Require Import Gen_util Gen_model.
From P Require Import Char_model C17.
Import ListNotations.
Open Scope Z_scope.
Definition final_hash (st : @model_state ArithF64) : Z :=
  match py_model_get_final_results st with
  | Ok (_, (x, r, o, j, ns, en, je)) => hashZ (fl_opt fl_vec x ++ fl_opt fl_vec r ++ fl_opt (fun v => [to_bits v]) o ++ fl_opt (fun z => [z]) ns ++ fl_opt (fun z => [z]) en)
  | Err e => err_code e end.
Fixpoint trace (ops : list (@op ArithF64)) (st : @model_state ArithF64) : list Z :=
  match ops with
  | [] => [final_hash st]
  | o :: r => match gstep st o with Ok st' => st_hash st' :: trace r st' | Err e => [err_code e] end
  end.
Fixpoint first_diff (a b : list Z) (i : Z) : Z :=
  match a, b with [], [] => -1 | x :: a', y :: b' => if x =? y then first_diff a' b' (i + 1) else i | _, _ => i end.
Definition OC := @OChange ArithF64. Definition OW := @OSwap ArithF64. Definition OS := @OSample ArithF64.
Definition OA := @OAdd ArithF64. Definition OH := @OShift ArithF64. Definition OV := @OSave ArithF64.
'''


# ------------------------------------------------------------------------------------------------ generators
def rnd_vec(rng, n, scale=1.0, special=0.0):
    v = rng.standard_normal(n) * scale
    for i in range(n):
        u = rng.random()
        if u < special * 0.4:
            v[i] = np.nan
        elif u < special * 0.6:
            v[i] = np.inf
        elif u < special * 0.7:
            v[i] = -np.inf
        elif u < special:
            v[i] = 0.0
    return v


def gen_case(rng, maxlen, exact):
    """returns dict(n,m,npt,x0,r0,xl,xu,r0ns,lam,ops) ; ops as tuples"""
    n = int(rng.integers(1, 4)); m = int(rng.integers(1, 4)); npt = int(rng.integers(n + 1, 2 * n + 2))
    scale = 10.0 ** rng.integers(-2, 3)
    x0 = rnd_vec(rng, n, scale)
    gap = np.abs(rnd_vec(rng, n, scale)) + 0.1 * scale
    xl, xu = x0 - gap * rng.random(n), x0 + gap * rng.random(n)
    r0 = rnd_vec(rng, m, scale)
    lam = float(rng.choice([0.0, 0.0, 0.5, 2.0]))
    special = float(rng.choice([0.0, 0.0, 0.0, 0.05, 0.2]))
    pool = [rnd_vec(rng, m, scale) for _ in range(3)]          # residual vectors reused to create exact ties
    ops = []
    L = int(rng.integers(3, maxlen + 1))
    sofar, numpts = 1, npt
    for _ in range(L):
        u = rng.random()
        rv = pool[int(rng.integers(0, 3))].copy() if rng.random() < 0.25 else rnd_vec(rng, m, scale, special)
        bad = rng.random() < 0.03
        if u < 0.35 or (sofar < numpts and u < 0.6):
            if sofar < numpts and rng.random() < 0.7:
                k = sofar
            else:
                k = int(rng.integers(0, sofar))
            if bad:
                k = int(rng.choice([-1, numpts + 1, sofar + 1 if sofar < numpts else numpts]))
            ops.append(('change', k, rnd_vec(rng, n, scale), rv, int(rng.integers(1, 500))))
            if 0 <= k < numpts and (k < sofar or k == sofar):
                if k == sofar and sofar < numpts:
                    sofar += 1
        elif u < 0.6:
            k = int(rng.integers(0, sofar)) if not bad else int(rng.choice([-1, sofar if sofar < numpts else numpts + 1]))
            ops.append(('sample', k, rv))
        elif u < 0.7:
            k1, k2 = int(rng.integers(0, sofar)), int(rng.integers(0, sofar))
            if bad:
                k2 = numpts + int(rng.integers(0, 3))
            ops.append(('swap', k1, k2))
        elif u < 0.75 and sofar == numpts:
            ops.append(('add', rnd_vec(rng, n, scale), rv, int(rng.integers(1, 500))))
            sofar += 1; numpts += 1
        elif u < 0.85:
            ops.append(('shift', rnd_vec(rng, n, scale * 0.3)))
        else:
            ops.append(('save', rnd_vec(rng, n, scale), rv, int(rng.integers(1, 5)), int(rng.integers(1, 500)), bool(rng.random() < 0.7)))
    return dict(n=n, m=m, npt=npt, x0=x0, r0=r0, xl=xl, xu=xu, r0ns=int(rng.integers(1, 4)), lam=lam, ops=ops)


def make_model(case, exact):
    import dfols.model as dm
    h = IO.h_l1(case['lam']) if case['lam'] else None
    M = dm.Model(case['npt'], case['x0'].copy(), case['r0'].copy(), case['xl'].copy(), case['xu'].copy(), [], case['r0ns'], h=h)
    # model_jac non-zero so that shift_base's constant-term update is exercised
    rng = np.random.default_rng(abs(hash((case['n'], case['m'], case['npt']))) % (2 ** 32))
    M.model_jac = rng.standard_normal(M.model_jac.shape)
    return M


def apply_op(M, op):
    t = op[0]
    if t == 'change':
        M.change_point(op[1], op[2].copy(), op[3].copy(), op[4])
    elif t == 'sample':
        M.add_new_sample(op[1], op[2].copy())
    elif t == 'swap':
        # the machine's guard: both indices must designate stored points (numpy would wrap negative indices)
        if not (0 <= op[1] < M.npt_so_far and 0 <= op[2] < M.npt_so_far):
            raise IndexError('swap index')
        M.swap_points(op[1], op[2])
    elif t == 'add':
        M.add_new_point(op[1].copy(), op[2].copy(), op[3])
    elif t == 'shift':
        M.shift_base(op[1].copy())
    elif t == 'save':
        M.save_point(op[1].copy(), op[2].copy(), op[3], op[4], x_in_abs_coords=op[5])


def op_lit(op):
    t = op[0]
    if t == 'change':
        return 'OC %s %s %s %s' % (C.zlit(op[1]), IO.vlit(op[2]), IO.vlit(op[3]), C.zlit(op[4]))
    if t == 'sample':
        return 'OS %s %s' % (C.zlit(op[1]), IO.vlit(op[2]))
    if t == 'swap':
        return 'OW %s %s' % (C.zlit(op[1]), C.zlit(op[2]))
    if t == 'add':
        return 'OA %s %s %s' % (IO.vlit(op[1]), IO.vlit(op[2]), C.zlit(op[3]))
    if t == 'shift':
        return 'OH %s' % IO.vlit(op[1])
    return 'OV %s %s %s %s %s' % (IO.vlit(op[1]), IO.vlit(op[2]), C.zlit(op[3]), C.zlit(op[4]), 'true' if op[5] else 'false')


def final_hash(M):
    try:
        x, r, o, j, ns, en, je = M.get_final_results()
    except AssertionError:
        return -101
    return IO.hashZ(IO.fl_opt(IO.fl_vec, x) + IO.fl_opt(IO.fl_vec, r) + IO.fl_opt(lambda v: [C.bits(v)], o) +
                    IO.fl_opt(lambda z: [int(z)], ns) + IO.fl_opt(lambda z: [int(z)], en))


def impl_trace(case):
    """run the real Model with sequential kernels; returns (coq literal of initial state, list of hashes)"""
    import dfols.model as dm
    old = (dm.sumsq, dm.np)
    dm.sumsq, dm.np = IO.seq_sumsq, IO.NpProxy()
    try:
        M = make_model(case, True)
        hl = 'None' if not case['lam'] else '(Some (h_l1 %s))' % IO.flit(case['lam'])
        lit = IO.model_lit(M, hlit=hl)
        tr = []
        for op in case['ops']:
            try:
                apply_op(M, op)
            except AssertionError:
                tr.append(-101); return lit, tr
            except IndexError:
                tr.append(-102); return lit, tr
            tr.append(IO.st_hash(M))
        tr.append(final_hash(M))
        return lit, tr
    finally:
        dm.sumsq, dm.np = old


def corr_task(args):
    seed, count, maxlen = args
    rng = np.random.default_rng(seed)
    out = []
    with np.errstate(all='ignore'):
        for _ in range(count):
            case = gen_case(rng, maxlen, True)
            lit, tr = impl_trace(case)
            out.append((lit, [op_lit(o) for o in case['ops']], tr, [o[0] for o in case['ops']]))
    return out


def correspondence(ctx, ncases, maxlen):
    shards = max(1, min(C.NPROC, ncases // 20))
    per = ncases // shards
    res = C.parallel(corr_task, [(ctx.seed * 1000 + i, per, maxlen) for i in range(shards)], timeout_each=300)
    cases = []
    for t, st, r in res:
        if st != 'ok':
            ctx.oblige('correspondence:model-sequences', False, 'implementation run failed: %s %s' % (st, r))
            return
        cases += r
    ok, out = C.coq_eval(ctx, 'Corr_model', CORR_V, '')
    if not ok:
        ctx.oblige('correspondence:model-sequences', False, 'Corr_model.v: ' + C.first_error(out))
        return
    # shard the case files
    per_file = 40
    files = []
    for fi in range(0, len(cases), per_file):
        body = ['From Coq Require Import ZArith List Bool.', 'Require Import DV.Base.Prelude DV.Base.F64 DV.Spec.Schema DV.Lib.MBook DV.Lib.Corr.',
                'From P Require Import Corr_model.', 'Import ListNotations.', 'Open Scope Z_scope.']
        items = []
        for (lit, ops, tr, _) in cases[fi:fi + per_file]:
            items.append('first_diff (trace [%s] %s) [%s] 0' % ('; '.join(ops), lit, '; '.join(C.zlit(z) for z in tr)))
        body.append('Eval vm_compute in [' + ';\n'.join(items) + '].')
        name = 'cases_model_%d' % (fi // per_file)
        open(os.path.join(ctx.build, 'P', name + '.v'), 'w').write('\n'.join(body))
        files.append(name)
    import subprocess
    from concurrent.futures import ThreadPoolExecutor
    def comp(nm):
        return nm, C.coqc(ctx, os.path.join(ctx.build, 'P', nm + '.v'), 600)
    nmis, total, opcount = 0, 0, {}
    with ThreadPoolExecutor(C.NPROC) as ex:
        results = list(ex.map(comp, files))
    for (nm, (ok, out)) in results:
        if not ok:
            ctx.oblige('correspondence:model-sequences', False, '%s: %s' % (nm, C.first_error(out)))
            return
        ls = C.parse_eval_lists(out)
        fi = int(nm.split('_')[-1]) * per_file
        for i, d in enumerate(ls[0] if ls else []):
            total += 1
            if d != -1:
                nmis += 1
                kinds = cases[fi + i][3]
                what = 'model and implementation differ at step %d (%s) of a %d-step sequence' % (d, kinds[d] if d < len(kinds) else 'final-results', len(kinds))
                if nmis <= 3:
                    ctx.oblige('correspondence:model-sequences[%d]' % (fi + i), False, what)
    for c in cases:
        for k in c[3]:
            opcount[k] = opcount.get(k, 0) + 1
    ctx.cov['traces_validated_against_impl'] = total
    ctx.cov['correspondence_steps'] = sum(len(c[2]) for c in cases)
    ctx.cov['correspondence_op_distribution'] = opcount
    ctx.cov['correspondence_error_paths'] = sum(1 for c in cases if c[2] and c[2][-1] in (-101, -102, -103))
    if total != len(cases):
        ctx.oblige('correspondence:model-sequences', False, 'only %d of %d cases were evaluated' % (total, len(cases)))
    elif nmis == 0:
        ctx.oblige('correspondence:model-sequences(%d sequences, %d steps, bit-exact)' % (total, ctx.cov['correspondence_steps']), True)
    ctx.sample(dict(kind='correspondence-case', ops=cases[0][1][:4], expected_hashes=cases[0][2][:4]))


# ------------------------------------------------------------------------------------------------ property oracle on the real Model
def close(a, b, rtol=1e-9):
    a, b = float(a), float(b)
    if math.isnan(a) or math.isnan(b):
        return math.isnan(a) and math.isnan(b)
    if math.isinf(a) or math.isinf(b):
        return a == b
    return abs(a - b) <= rtol * (1.0 + max(abs(a), abs(b)))


def oracle_case(case):
    """drive the real (unpatched) Model, keep a shadow, return first violation or None"""
    M = make_model(case, False)
    h = IO.h_l1(case['lam']) if case['lam'] else None
    def fobj(r, xabs):
        v = float(np.sum(np.asarray(r, dtype=float) ** 2)) if np.all(np.isfinite(r)) else float(np.dot(r, r))
        return v + (float(h(xabs)) if h else 0.0)
    shadow = [dict(en=1, samples=None, mean0=(case['r0'].copy(), case['r0ns']), xabs=case['x0'].copy())]
    shadow += [None] * (M.num_pts - 1)
    saved = None           # best offered (obj, en, ns)
    tainted = False
    def slot_mean(s):
        if s['samples'] is None:
            return s['mean0'][0], s['mean0'][1]
        return np.mean(np.array(s['samples']), axis=0), len(s['samples'])
    for step, op in enumerate(case['ops']):
        t = op[0]
        kopt_before, obj_before = int(M.kopt), float(M.objval[M.kopt])
        try:
            apply_op(M, op)
        except (AssertionError, IndexError):
            return None   # rejected operation: sequence ends (as in the machine)
        if t == 'change':
            k = op[1]
            s = dict(en=op[4], samples=[op[3].copy()], xabs=None)
            while len(shadow) <= k:
                shadow.append(None)
            shadow[k] = s
            if k == kopt_before:
                newv = float(M.objval[k])
                if not (newv <= obj_before):
                    tainted = True
        elif t == 'sample':
            k = op[1]
            s = shadow[k]
            if s['samples'] is None:
                s['mean0'] = ((s['mean0'][0] * s['mean0'][1] + op[2]) / (s['mean0'][1] + 1), s['mean0'][1] + 1)
            else:
                s['samples'].append(op[2].copy())
            tainted = False
        elif t == 'swap':
            shadow[op[1]], shadow[op[2]] = shadow[op[2]], shadow[op[1]]
        elif t == 'add':
            shadow.append(dict(en=op[3], samples=[op[2].copy()], xabs=None))
        # ---- checks
        npt = M.npt()
        for k in range(npt):
            s = shadow[k]
            if s is None:
                return dict(step=step, what='slot %d in use but never written' % k)
            mean, cnt = slot_mean(s)
            if int(M.eval_num[k]) != s['en']:
                return dict(step=step, clause='evalnum_travels', what='eval_num[%d]=%d but the point stored there is evaluation %d' % (k, M.eval_num[k], s['en']))
            if int(M.nsamples[k]) != cnt:
                return dict(step=step, clause='sample_count', what='nsamples[%d]=%d but %d samples were given' % (k, M.nsamples[k], cnt))
            if not all(close(a, b) for a, b in zip(M.fval_v[k], mean)):
                return dict(step=step, clause='running_mean', what='stored residual of slot %d is not the mean of its samples' % k)
            xabs = M.xbase + M.points[k]
            expect = fobj(M.fval_v[k], xabs)
            if not close(M.objval[k], expect, 1e-7):
                return dict(step=step, clause='objective_consistent', what='objval[%d]=%r but sumsq(resid)+h=%r' % (k, float(M.objval[k]), expect))
        vals = np.array(M.objval[:npt], dtype=float)
        ko = int(M.kopt)
        if not (0 <= ko < npt):
            return dict(step=step, clause='kopt_range', what='kopt=%d outside 0..%d' % (ko, npt - 1))
        if not tainted and not math.isnan(vals[ko]):
            fin = vals[~np.isnan(vals)]
            if fin.size and vals[ko] > fin.min():
                return dict(step=step, clause='incumbent_minimum', what='kopt=%d has objective %r but slot %d has %r' % (ko, vals[ko], int(np.nanargmin(vals)), float(fin.min())))
        if t == 'sample' and np.any(np.isfinite(vals)) and math.isnan(vals[ko]):
            return dict(step=step, clause='nan_incumbent', what='after a re-sample the incumbent has a NaN objective although a finite value is stored')
        # ---- saved slot / final selection
        if t == 'save':
            xabs = op[1] if op[5] else M.xbase + np.minimum(np.maximum(M.sl, op[1]), M.su)
            v = fobj(op[2], xabs)
            if saved is not None and not math.isnan(v) and not math.isnan(saved[0]) and close(v, saved[0], 1e-12):
                # a tie up to rounding (e.g. the same residuals saved at two points clipped onto the same bound): the shadow's
                # np.sum and the implementation's sumsq may order the two values differently; follow the implementation if it
                # kept one of the two candidates
                if (int(M.eval_num_save), int(M.nsamples_save)) in ((saved[1], saved[2]), (op[4], op[3])):
                    saved = (float(M.objsave), int(M.eval_num_save), int(M.nsamples_save))
                    continue
            if saved is None or v <= saved[0] or (math.isnan(saved[0]) and not math.isnan(v)):
                saved = (v, op[4], op[3])
            if M.objsave is None or not close(M.objsave, saved[0], 1e-7):
                return dict(step=step, clause='save_keeps_better', what='objsave=%r but the best value offered so far is %r' % (M.objsave, saved[0]))
            if int(M.eval_num_save) != saved[1] or int(M.nsamples_save) != saved[2]:
                return dict(step=step, clause='save_coherent', what='saved evaluation number / sample count do not belong to the saved objective')
        x, r, o, j, ns, en, je = M.get_final_results()
        cand = [(float(M.objval[ko]), int(M.eval_num[ko]), int(M.nsamples[ko]))]
        if M.objsave is not None:
            cand.append((float(M.objsave), int(M.eval_num_save), int(M.nsamples_save)))
        fin = [c for c in cand if not math.isnan(c[0])]
        best = min(c[0] for c in fin) if fin else float('nan')
        if not close(o, best, 0.0) and not (math.isnan(o) and math.isnan(best)):
            return dict(step=step, clause='final_better_of_two', what='get_final_results returned %r, candidates %r' % (float(o), cand))
        if (float(o), int(en), int(ns)) not in [(c[0], c[1], c[2]) for c in cand] and not math.isnan(o):
            return dict(step=step, clause='final_coherent', what='returned (obj, eval_num, nsamples) = %r is not one stored record %r' % ((float(o), int(en), int(ns)), cand))
    return None


def case_json(case):
    def enc(o):
        return [x.hex() if isinstance(x, float) else x for x in (o.tolist() if isinstance(o, np.ndarray) else [o])] if isinstance(o, np.ndarray) else o
    return dict(n=case['n'], m=case['m'], npt=case['npt'], x0=[float(v).hex() for v in case['x0']], r0=[float(v).hex() for v in case['r0']],
                xl=[float(v).hex() for v in case['xl']], xu=[float(v).hex() for v in case['xu']], r0ns=case['r0ns'], lam=case['lam'],
                ops=[[o[0]] + [([float(v).hex() for v in a] if isinstance(a, np.ndarray) else a) for a in o[1:]] for o in case['ops']])


def case_from_json(d):
    f = lambda l: np.array([float.fromhex(v) for v in l])
    ops = []
    for o in d['ops']:
        ops.append(tuple([o[0]] + [(f(a) if isinstance(a, list) else a) for a in o[1:]]))
    return dict(n=d['n'], m=d['m'], npt=d['npt'], x0=f(d['x0']), r0=f(d['r0']), xl=f(d['xl']), xu=f(d['xu']), r0ns=d['r0ns'], lam=d['lam'], ops=ops)


def shrink(case):
    """delta-debug the op list to a minimal failing prefix/subsequence"""
    v = oracle_safe(case)
    if v is None:
        return case, None
    ops = case['ops'][:v['step'] + 1]
    i = 0
    while i < len(ops):
        trial = dict(case, ops=ops[:i] + ops[i + 1:])
        try:
            vt = oracle_safe(trial)
        except Exception:
            vt = None
        if vt is not None and vt.get('clause') == v.get('clause'):
            ops = trial['ops'][:vt['step'] + 1]
            v = vt
        else:
            i += 1
    return dict(case, ops=ops), v


def oracle_safe(case):
    with np.errstate(all='ignore'):
        import warnings
        with warnings.catch_warnings():
            warnings.simplefilter('ignore')
            return oracle_case(case)


def sweep_task(args):
    seed, count, maxlen = args
    rng = np.random.default_rng(seed)
    found, nontriv, kinds = [], 0, {}
    for _ in range(count):
        case = gen_case(rng, maxlen, False)
        try:
            v = oracle_safe(case)
        except Exception as ex:
            v = dict(step=-1, clause='crash', what='%s: %s' % (type(ex).__name__, ex))
        if len(case['ops']) >= 5:
            nontriv += 1
        for o in case['ops']:
            kinds[o[0]] = kinds.get(o[0], 0) + 1
        if v is not None:
            small, v2 = shrink(case) if v.get('clause') != 'crash' else (case, v)
            found.append((case_json(small), v2 or v))
    return found, nontriv, kinds


def sweep(ctx, nseq, maxlen):
    shards = C.NPROC
    per = max(1, nseq // shards)
    res = C.parallel(sweep_task, [(ctx.seed * 7919 + 100 + i, per, maxlen) for i in range(shards)], timeout_each=600)
    n = 0
    for t, st, r in res:
        if st != 'ok':
            ctx.violate('C17:sweep-crash', 'sweep worker failed: %s %s' % (st, r), dict(task=list(t)))
            continue
        found, nontriv, kinds = r
        n += per
        ctx.count('distinct_nontrivial', nontriv)
        for k, c in kinds.items():
            ctx.cov.setdefault('sweep_op_distribution', {})
            ctx.cov['sweep_op_distribution'][k] = ctx.cov['sweep_op_distribution'].get(k, 0) + c
        for cj, v in found:
            ctx.violate('C17:%s' % v.get('clause', 'other'), v['what'], dict(case=cj, step=v.get('step')))
    ctx.count('evaluations', n)
    rng = np.random.default_rng(ctx.seed)
    ctx.sample(dict(kind='sweep-sequence', case=case_json(gen_case(rng, 6, False))))


def run(ctx):
    ok = C.translate(ctx)
    ok = ok and C.compile_gen(ctx, needed=('Gen_util', 'Gen_model'))
    ok = ok and C.compile_perrun(ctx, ['Char_model.v', 'C17.v'])
    C.check_axioms(ctx)
    if ok:
        correspondence(ctx, ctx.scale(160, 2400), ctx.scale(30, 60))
        from .. import histcorr
        histcorr.correspondence(ctx, ctx.scale(16, 400), admissibility=False)    # the same, on recorded histories of real solve() runs
    else:
        ctx.oblige('correspondence:model-sequences', False, 'not run: generated model or its proofs did not build')
    sweep(ctx, ctx.scale(1600, 40000), ctx.scale(50, 200))
    return C.finish(ctx, 'proof',
                    rule='correspondence: (a) random operation sequences (change/sample/swap/add/shift/save, ties, NaN/inf, rejected indices, with and without L1 regulariser) on the generated functions evaluated in Coq vs the real Model, hash of the full state after every step; (b) histories recorded at the Model boundary in real dfols.solve() runs (plain, growing, regression, soft/hard restarts, averaging; with bounds, scaling, L1 regulariser) replayed through the regenerated methods inside Coq, bit-exact; sweep: same generator on the unpatched Model against a shadow model; non-trivial = at least 5 operations',
                    trusted=TRUSTED, search=lambda c: sweep(c, 20000, 80))


def replay(payload):
    d = payload.get('data', {})
    if 'case' not in d:
        print('replay names broken obligations only:', payload.get('obligations'))
        return 1
    v = oracle_safe(case_from_json(d['case']))
    print('replay:', v)
    return 1 if v else 0
