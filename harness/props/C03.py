"""C03 -- the returned solution is a point that was really evaluated."""
from .. import common as C, generic as G
from . import C17

TRUSTED = C17.TRUSTED + ['translator/tables.py (call-site tables as normalised source text); the whitelists of coherent argument texts in PerRun/C03.v and DV.Lib.Tables',
                         'exact-real reading of "to rounding of the base-point arithmetic" (float closeness is validated by the sweep only)']


def correspondence(ctx):
    C17.correspondence(ctx, ctx.scale(96, 1200), ctx.scale(30, 60))


def run(ctx):
    return G.run(ctx, 'C03', 'proof', ('Gen_util', 'Gen_model', 'Gen_tables'), ['Char_model.v', 'C17.v', 'C03.v'], TRUSTED, correspondence=correspondence)


def replay(payload):
    return G.replay('C03', payload)
