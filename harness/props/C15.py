"""C15 -- Dykstra's projection: feasibility bound by the stopping rule, last box exact, fixed points, sweep count."""
import math, os
import numpy as np
from .. import common as C, generic as G, modelio as IO

TRUSTED = ['Coq 8.16.1 kernel + vm_compute', 'Coq Reals (exact arithmetic) for the distance bound and the fixed-point clause: rounding is not modelled (1e-16 against bounds of 1e-5)',
           'Flocq binary64 + OrdLaws for the exact last-box clause', 'translator/py2coq.py (while loop with the source bound as fuel; the whole loop state is returned)',
           'projectors are arbitrary length-preserving functions in the theorems; the harness uses boxes and balls',
           'harness: sequential norm substituted for np.linalg.norm in dfols.util during the bit-exact comparison']


class UtilNp(IO.NpProxy):
    class _LA:
        @staticmethod
        def norm(v, *a, **k):
            acc = 0.0
            for t in np.asarray(v, dtype=float).ravel().tolist():
                acc = acc + t * t
            return np.float64(math.sqrt(acc))
    linalg = _LA()


def corr_task(args):
    seed, count = args
    import dfols.util as du
    rng = np.random.default_rng(seed)
    old = du.np
    du.np = UtilNp()
    out = []
    try:
        for _ in range(count):
            n = int(rng.integers(1, 5)); p = int(rng.integers(1, 4))
            P, lits = [], []
            centre = rng.standard_normal(n)
            for _i in range(p):
                if rng.random() < 0.5:
                    l = centre - rng.random(n) - 0.05; u = centre + rng.random(n) + 0.05
                    P.append(lambda x, l=l, u=u: du.pbox(x, l, u))
                    lits.append('(fun v => @py_util_pbox ArithF64 v %s %s)' % (IO.vlit(l), IO.vlit(u)))
                else:
                    c = centre + 0.3 * rng.standard_normal(n); r = float(np.linalg.norm(c - centre) + 0.1 + rng.random())
                    P.append(lambda x, c=c, r=r: du.pball(x, c, r))
                    lits.append('(fun v => @py_util_pball ArithF64 v %s %s)' % (IO.vlit(c), IO.flit(r)))
            x0 = centre + rng.standard_normal(n) * float(rng.choice([0.01, 1.0, 10.0]))
            mi = int(rng.choice([0, 1, 2, 5, 100])); tol = float(rng.choice([1e-10, 1e-4, 1e-14]))
            calls = [0]
            PW = [(lambda x, f=f: (calls.__setitem__(0, calls[0] + 1), f(x))[1]) for f in P]
            x = du.dykstra(PW, x0.copy(), max_iter=mi, tol=tol)
            nsw = calls[0] // p
            out.append(('dk [%s] %s %d %s' % ('; '.join(lits), IO.vlit(x0), mi, IO.flit(tol)), [nsw] + [C.bits(v) for v in x], dict(n=n, p=p, max_iter=mi, sweeps=nsw)))
    finally:
        du.np = old
    return out


def correspondence(ctx):
    ncase = ctx.scale(480, 4800)
    res = C.parallel(corr_task, [(ctx.seed * 17 + i, ncase // 16) for i in range(16)], timeout_each=300)
    cases = []
    for t, st, r in res:
        if st != 'ok':
            ctx.oblige('correspondence:dykstra', False, 'implementation side failed: %s %s' % (st, r))
            return
        cases += r
    hdr = ['From Coq Require Import ZArith List Bool.', 'Require Import DV.Base.Prelude DV.Base.F64 DV.Spec.Schema DV.Lib.Corr.', 'From G Require Import Gen_util.',
           'Import ListNotations.', 'Open Scope Z_scope.',
           'Definition dk (P : list (list F -> list F)) (x0 : list F) (mi : Z) (tol : F) : list Z :=',
           '  match @py_util_dykstra_run ArithF64 P x0 mi tol with Ok (x, _, _, n) => n :: vbits x | Err _ => [-1] end.',
           'Fixpoint leq (a b : list Z) : bool := match a, b with [], [] => true | x :: a, y :: b => (x =? y) && leq a b | _, _ => false end.']
    per = 120
    files = []
    for fi in range(0, len(cases), per):
        items = ['(if leq (%s) [%s] then 0 else 1)' % (lit, '; '.join(C.zlit(z) for z in exp)) for (lit, exp, _) in cases[fi:fi + per]]
        name = 'cases_dyk_%d' % (fi // per)
        open(os.path.join(ctx.build, 'P', name + '.v'), 'w').write('\n'.join(hdr) + '\nEval vm_compute in [' + ';\n'.join(items) + '].\n')
        files.append(name)
    from concurrent.futures import ThreadPoolExecutor
    with ThreadPoolExecutor(C.NPROC) as ex:
        results = list(ex.map(lambda nm: (nm, C.coqc(ctx, os.path.join(ctx.build, 'P', nm + '.v'), 900)), files))
    total, bad = 0, []
    for nm, (ok, out) in results:
        if not ok:
            ctx.oblige('correspondence:dykstra', False, '%s: %s' % (nm, C.first_error(out)))
            return
        ls = C.parse_eval_lists(out)
        base = int(nm.split('_')[-1]) * per
        for i, f in enumerate(ls[0] if ls else []):
            total += 1
            if f != 0:
                bad.append(base + i)
    ctx.cov['traces_validated_against_impl'] = total
    dist = {}
    for (_, _, d) in cases:
        k = 'sweeps=%s' % ('0' if d['sweeps'] == 0 else ('max_iter' if d['sweeps'] == d['max_iter'] else 'by_rule'))
        dist[k] = dist.get(k, 0) + 1
    ctx.cov['correspondence_distribution'] = dist
    if total != len(cases) or bad:
        i = bad[0] if bad else 0
        ctx.oblige('correspondence:dykstra', False, '%d of %d calls differ (first: %s)' % (len(bad), len(cases), cases[i][2]))
    else:
        ctx.oblige('correspondence:dykstra(%d calls with box/ball projectors: result bits and sweep count identical)' % total, True)
    ctx.sample(dict(kind='dykstra-case', case=cases[0][2], expected=cases[0][1]))


def run(ctx):
    return G.run(ctx, 'C15', 'proof', ('Gen_util', 'Gen_model'), ['Char_model.v', 'C15.v'], TRUSTED, correspondence=correspondence)


def replay(payload):
    return G.replay('C15', payload)
