"""C14 -- see DESIGN.md; obligations + oracle sweep."""
from .. import common as C, generic as G

TRUSTED = ['Coq 8.16.1 kernel + vm_compute', 'translator/fragments.py + translator/tables.py (the clip idioms and return sites regenerated from trust_region.py / util.py)', 'Coq Reals for the exact-arithmetic statements (rounding not modelled); OrdLaws/Flocq for the exact box statements', 'oracle harness harness/oracles/C14.py']
PERRUN = ['C14.v']
GEN = ('Gen_util', 'Gen_solver', 'Gen_tables')
LEVEL = 'other'
EXPLANATION = ('proved on regenerated code: both direction generators end with an exact clip [all binary64]; the decision logic of the coordinate initialisation '
               '(boundary tests, first and second step, clip) puts both points of every coordinate inside the box, between 0.01 and 2 rhobeg from x0 and apart from each other [exact reals]. '
               'validated by the oracle sweep only: off-diagonal points, affine independence, conditioning < 1e4, lengths of generated directions')


INIT_V = r"""
From Coq Require Import ZArith List Bool String.
Require Import DV.Base.Prelude DV.Base.F64 DV.Spec.Schema DV.Lib.Corr.
From G Require Import Gen_util Gen_solver.
Import ListNotations.
Open Scope Z_scope.
(* the two points evaluated along one coordinate, as Model.as_absolute_coordinates produces them: xbase + min(max(sl, step), su) *)
Definition coord_points (xb sl su delta : F) : list Z :=
  let au := @py_init_at_upper_boundary ArithF64 su delta in
  let al := @py_init_at_lower_boundary ArithF64 sl delta in
  let clip := fun s => @add ArithF64 xb (@npmin ArithF64 (@npmax ArithF64 sl s) su) in
  [to_bits (clip (@py_init_stepa ArithF64 au delta)); to_bits (clip (@py_init_stepb ArithF64 al au delta sl su))].
"""


def init_task(args):
    """coordinate initialisation of real dfols.solve() runs with bounds (npt = 2n+1): per coordinate, the two points the solver
    evaluates against the regenerated decision logic run on binary64"""
    seed, count = args
    import warnings
    import numpy as np
    import dfols, dfols.controller as dc
    rng = np.random.default_rng(seed)
    out = []
    orig_init, orig_eo = dc.Controller.initialise_coordinate_directions, dc.Controller.evaluate_objective
    cur = {}

    def eo(self, x, ns, params):
        if cur:
            cur['xs'].append(np.array(x, dtype=float).copy())
        return orig_eo(self, x, ns, params)

    def init(self, number_of_samples, num_directions, params):
        cur.update(xs=[], xb=np.array(self.model.xbase, dtype=float).copy(), sl=np.array(self.model.sl, dtype=float).copy(),
                   su=np.array(self.model.su, dtype=float).copy(), delta=float(self.delta), n=int(self.n()))
        try:
            return orig_init(self, number_of_samples, num_directions, params)
        finally:
            n = cur['n']
            if len(cur['xs']) >= 2 * n and not self.model.projections:
                for k in range(n):
                    out.append((cur['xb'][k], cur['sl'][k], cur['su'][k], cur['delta'], C.bits(cur['xs'][k][k]), C.bits(cur['xs'][n + k][k])))
            cur.clear()
    dc.Controller.initialise_coordinate_directions, dc.Controller.evaluate_objective = init, eo
    try:
        for _ in range(count):
            n = int(rng.integers(1, 5))
            x0 = rng.standard_normal(n) * 10.0 ** rng.uniform(-1, 1)
            rb = 0.1 * max(float(np.max(np.abs(x0))), 1.0)
            lo = x0 - rb * 10.0 ** rng.uniform(0.4, 1.5, n)
            hi = x0 + rb * 10.0 ** rng.uniform(0.4, 1.5, n)
            for j in range(n):                 # start on, within a hair of, or beyond a bound in some coordinates
                u = rng.random()
                if u < 0.2:
                    x0[j] = lo[j]
                elif u < 0.4:
                    x0[j] = hi[j]
                elif u < 0.5:
                    x0[j] = hi[j] - rb * 10.0 ** rng.uniform(-9, -2.2)
                elif u < 0.6:
                    x0[j] = lo[j] + rb * 10.0 ** rng.uniform(-9, -2.2)
                elif u < 0.7:
                    x0[j] = hi[j] + rng.random()
            A = rng.standard_normal((n + 1, n))
            with warnings.catch_warnings(), np.errstate(all='ignore'):
                warnings.simplefilter('ignore')
                try:
                    dfols.solve(lambda x: A.dot(x) - 1.0, x0, bounds=(lo, hi), npt=2 * n + 1, maxfun=2 * n + 1, do_logging=False)
                except Exception:
                    pass
    finally:
        dc.Controller.initialise_coordinate_directions, dc.Controller.evaluate_objective = orig_init, orig_eo
    return out


def correspondence(ctx):
    from .. import modelio as IO
    res = C.parallel(init_task, [(ctx.seed * 59 + i + 3, ctx.scale(40, 600)) for i in range(16)], timeout_each=600)
    cases = []
    for t, st, r in res:
        if st != 'ok':
            ctx.oblige('correspondence:coordinate_initialisation', False, 'implementation side failed: %s %s' % (st, r))
            return
        cases += r
    cases = cases[:ctx.scale(1500, 20000)]
    body = INIT_V + 'Definition exp_ : list (list Z) := [' + ';\n'.join('[%s; %s]' % (C.zlit(c[4]), C.zlit(c[5])) for c in cases) + '].\n'
    body += 'Definition got_ : list (list Z) := [' + ';\n'.join('coord_points %s %s %s %s' % (IO.flit(c[0]), IO.flit(c[1]), IO.flit(c[2]), IO.flit(c[3])) for c in cases) + '].\n'
    body += 'Fixpoint leq (a b : list Z) : bool := match a, b with [], [] => true | x :: a, y :: b => (x =? y) && leq a b | _, _ => false end.\n'
    body += 'Eval vm_compute in map (fun p => if leq (fst p) (snd p) then 1 else 0) (combine got_ exp_).\n'
    ok, out = C.coq_eval(ctx, 'cases_init', body, '')
    if not ok:
        ctx.oblige('correspondence:coordinate_initialisation', False, C.first_error(out))
        return
    ls = C.parse_eval_lists(out)
    flags = ls[0] if ls else []
    bad = [i for i, f in enumerate(flags) if f != 1]
    ctx.cov['coordinate_pairs_from_real_solve_runs'] = len(flags)
    ctx.cov['coordinate_pairs_next_to_a_bound'] = sum(1 for c in cases if c[2] < 0.01 * c[3] or c[1] > -0.01 * c[3])
    if len(flags) != len(cases) or not cases:
        ctx.oblige('correspondence:coordinate_initialisation', False, 'evaluated %d of %d recorded coordinates' % (len(flags), len(cases)))
    elif bad:
        c = cases[bad[0]]
        ctx.oblige('correspondence:coordinate_initialisation[%d]' % bad[0], False, 'regenerated step logic and the implementation differ on %d of %d coordinates, first: xbase=%r sl=%r su=%r delta=%r' % (len(bad), len(cases), c[0], c[1], c[2], c[3]))
    else:
        ctx.oblige('correspondence:coordinate_initialisation(%d coordinates of real solve() runs, both points bit-exact on binary64)' % len(cases), True)


def run(ctx):
    return G.run(ctx, 'C14', LEVEL, GEN, PERRUN, TRUSTED, explanation=EXPLANATION, correspondence=correspondence, corr_needs=[])


def replay(payload):
    return G.replay('C14', payload)
