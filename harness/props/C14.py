"""C14 -- see DESIGN.md; obligations + oracle sweep."""
from .. import common as C, generic as G

TRUSTED = ['Coq 8.16.1 kernel + vm_compute', 'translator/fragments.py + translator/tables.py (the clip idioms and return sites regenerated from trust_region.py / util.py)', 'Coq Reals for the exact-arithmetic statements (rounding not modelled); OrdLaws/Flocq for the exact box statements', 'oracle harness harness/oracles/C14.py']
PERRUN = ['C14.v']
GEN = ('Gen_util', 'Gen_solver', 'Gen_tables')
LEVEL = 'other'
EXPLANATION = 'obligations: translation of the anchored functions + theorems listed in coverage.theorems; the remaining clauses are validated by the oracle sweep only'


def run(ctx):
    return G.run(ctx, 'C14', LEVEL, GEN, PERRUN, TRUSTED, explanation=EXPLANATION)


def replay(payload):
    return G.replay('C14', payload)
