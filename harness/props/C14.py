"""C14 -- see DESIGN.md; obligations + oracle sweep."""
from .. import common as C, generic as G

TRUSTED = ['Coq 8.16.1 kernel + vm_compute', 'translator/fragments.py + translator/tables.py (the clip idioms and return sites regenerated from trust_region.py / util.py)', 'Coq Reals for the exact-arithmetic statements (rounding not modelled); OrdLaws/Flocq for the exact box statements', 'oracle harness harness/oracles/C14.py']
PERRUN = ['C14.v']
GEN = ('Gen_util', 'Gen_solver', 'Gen_tables')
LEVEL = 'other'
EXPLANATION = ('proved on regenerated code: both direction generators end with an exact clip [all binary64]; the decision logic of the coordinate initialisation '
               '(boundary tests, first and second step, clip) puts both points of every coordinate inside the box, between 0.01 and 2 rhobeg from x0 and apart from each other [exact reals]. '
               'validated by the oracle sweep only: off-diagonal points, affine independence, conditioning < 1e4, lengths of generated directions')


def run(ctx):
    return G.run(ctx, 'C14', LEVEL, GEN, PERRUN, TRUSTED, explanation=EXPLANATION)


def replay(payload):
    return G.replay('C14', payload)
