"""C02 -- evaluation budget and counters exact."""
import os
import numpy as np
from .. import common as C, generic as G, modelio as IO

TRUSTED = ['Coq 8.16.1 kernel + vm_compute', 'translator/py2coq.py + translator/tables.py (syntax -> Gallina / site tables)',
           'the oracle stream abstraction of the user objective (answers consumed in order)',
           'Python for/break semantics as encoded by for_loop in DV.Base.Prelude', 'Flocq binary64 for the small-objective test in the correspondence']

CORR_V = r'''
From Coq Require Import ZArith List Bool String.
Require Import DV.Base.Prelude DV.Base.F64 DV.Spec.Schema DV.Lib.Corr.
From G Require Import Gen_util Gen_model Gen_controller Gen_solver.
Import ListNotations.
Open Scope Z_scope.
Definition blank_model (m : Z) (objbeg abstol reltol : F) : @model_state ArithF64 :=
  @mk_model ArithF64 1 m 2 1 [] [] [] [] [] [] [] 0 [] [] objbeg abstol reltol [] [] None None None None None None None None false None None.
Definition eo_case (m nf nx maxfun ns : Z) (x : list F) (sc : option (list F * list F)) (objbeg abstol reltol : F) (answers : list (list F * F)) : list Z :=
  let st := @mk_controller ArithF64 (blank_model m objbeg abstol reltol) nf nx maxfun (of_bits 0) (of_bits 0) (of_bits 0) (of_bits 0) None sc 0 in
  match py_controller_evaluate_objective st x ns answers [] with
  | Ok (st', _, log, (rv, ob, run, ex)) =>
      [c_nf st'; c_nx st'; run; match ex with None => -9 | Some (f, _) => f end; hashZ (List.concat (map (fun e => fl_vec (fst (fst e)) ++ [snd (fst e); snd e]) log));
       hashZ (fl_mat rv)]
  | Err e => [err_code e]
  end.
Definition x0_case (nf0 nx0 maxfun ns : Z) (x0 : list F) (sc : option (list F * list F)) (answers : list (list F * F)) : list Z :=
  match @py_solver_x0_block ArithF64 nf0 nx0 maxfun ns x0 sc answers [] with
  | Ok (_, log, (nf, nx, run, ex)) =>
      [nf; nx; run; match ex with None => -9 | Some (f, _) => f end; hashZ (List.concat (map (fun e => fl_vec (fst (fst e)) ++ [snd (fst e); snd e]) log))]
  | Err e => [err_code e]
  end.
'''


def x0_real_task(args):
    """the x0 sampling block of solve_main in real dfols.solve() runs: the objective calls made directly by solve_main (log entries
    x, evaluation number, point number) against the regenerated counter slice run on the same answers"""
    seed, count = args
    import sys, warnings
    import dfols.solver as ds
    from .. import histcorr
    rng = np.random.default_rng(seed)
    out = []
    orig_sm, orig_els = ds.solve_main, ds.eval_least_squares_with_regularisation
    stack = []

    def els(objfun, x, h, **kw):
        r, o = orig_els(objfun, x, h, **kw)
        if stack and sys._getframe(1).f_code.co_name == 'solve_main':
            stack[-1]['log'].append((np.array(x, dtype=float).copy(), int(kw.get('eval_num', 0)), int(kw.get('pt_num', 0))))
            stack[-1]['answers'].append((np.array(r, dtype=float).copy(), float(o)))
        return r, o

    def sm(objfun, x0, argsf, xl, xu, projections, npt, rhobeg, rhoend, maxfun, nruns_so_far, nf_so_far, nx_so_far, nsamples, params,
           diagnostic_info, scaling_changes, *a, **k):
        rec = dict(log=[], answers=[], nf0=int(nf_so_far), nx0=int(nx_so_far), maxfun=int(maxfun), x0=np.array(x0, dtype=float).copy(),
                   sc=None if scaling_changes is None else (np.array(scaling_changes[0], dtype=float).copy(), np.array(scaling_changes[1], dtype=float).copy()),
                   ns=max(int(nsamples(rhobeg, rhobeg, 0, nruns_so_far)), 1), fresh=(k.get('r0_avg_old') is None and (len(a) < 6 or a[5] is None)))
        stack.append(rec)
        try:
            return orig_sm(objfun, x0, argsf, xl, xu, projections, npt, rhobeg, rhoend, maxfun, nruns_so_far, nf_so_far, nx_so_far, nsamples, params,
                           diagnostic_info, scaling_changes, *a, **k)
        finally:
            stack.pop()
            if rec['fresh'] and rec['log'] and len(out) < 60:
                flat = []
                for (xx, e, p) in rec['log']:
                    flat += IO.fl_vec(xx) + [e, p]
                run = len(rec['log'])
                nf = rec['nf0'] + run
                short = run < rec['ns']
                exp = [nf, rec['nx0'] + 1, run, (1 if short else -9), IO.hashZ(flat)]
                sc = rec['sc']
                sclit = 'None' if sc is None else '(Some (%s, %s))' % (IO.vlit(sc[0]), IO.vlit(sc[1]))
                # the slice consumes one answer per call; give it spare ones so that a model that called more often would show
                ans = rec['answers'] + [rec['answers'][-1]] * 3
                lit = 'x0_case %d %d %d %d %s %s [%s]' % (rec['nf0'], rec['nx0'], rec['maxfun'], rec['ns'], IO.vlit(rec['x0']), sclit,
                                                         '; '.join('(%s, %s)' % (IO.vlit(a_[0]), IO.flit(a_[1])) for a_ in ans))
                out.append((lit, exp, dict(nf=rec['nf0'], maxfun=rec['maxfun'], ns=rec['ns'], run=run, flag=exp[3], real=True, x0block=True)))
    ds.solve_main, ds.eval_least_squares_with_regularisation = sm, els
    try:
        for _ in range(count):
            spec = histcorr.gen_run(rng)
            spec['lam'] = 0.0
            if rng.random() < 0.7:
                spec['nsamples'] = int(rng.integers(2, 6))
                spec['maxfun'] = int(rng.integers(1, 12)) if rng.random() < 0.5 else int(rng.integers(12, 40))
            if rng.random() < 0.4:
                spec['up']['restarts.use_restarts'] = True
                spec['up']['restarts.use_soft_restarts'] = False
                spec['up']['restarts.hard.use_old_rk'] = False      # restarted runs re-sample their start point
                spec['rhoend'] = 1e-2
            with warnings.catch_warnings(), np.errstate(all='ignore'):
                warnings.simplefilter('ignore')
                histcorr.run_plain(spec)
    finally:
        ds.solve_main, ds.eval_least_squares_with_regularisation = orig_sm, orig_els
    return out


def eo_task(args):
    seed, count = args
    import dfols.controller as dc
    from dfols.params import ParameterList
    rng = np.random.default_rng(seed)
    out = []
    for _ in range(count):
        n, m = int(rng.integers(1, 4)), int(rng.integers(1, 4))
        maxfun = int(rng.integers(1, 30)); nf = int(rng.integers(0, maxfun + 1)); nx = int(rng.integers(0, nf + 1))
        ns = int(rng.integers(0, 6))
        scale = rng.random() < 0.4
        x0 = rng.standard_normal(n); xl = x0 - 1 - rng.random(n); xu = x0 + 1 + rng.random(n)
        sc = (xl.copy(), (xu - xl).copy()) if scale else None
        big = rng.random() < 0.7
        answers = [(rng.standard_normal(m) * (1.0 if big else 1e-8), 0.0) for _ in range(ns)]
        r0 = rng.standard_normal(m) + 2.0
        params = ParameterList(n, n + 1, maxfun)
        ctl = dc.Controller(lambda x: None, (), x0.copy(), r0, 1, xl if not scale else np.zeros(n), xu if not scale else np.ones(n), [], n + 1, 0.1, 1e-8, nf, nx, maxfun,
                            params, sc, False)
        log = []
        it = iter(answers)
        def fake(objfun, x, h, argsf=(), argsh=(), verbose=True, eval_num=0, pt_num=0, full_x_thresh=6, check_for_overflow=True):
            log.append((np.array(x, dtype=float).copy(), int(eval_num), int(pt_num)))
            a = next(it)
            return a[0].copy(), a[1]
        old = (dc.eval_least_squares_with_regularisation, dc.sumsq)
        dc.eval_least_squares_with_regularisation = fake
        dc.sumsq = IO.seq_sumsq
        import dfols.model as dm
        oldm = dm.sumsq
        dm.sumsq = IO.seq_sumsq
        try:
            x = rng.standard_normal(n)
            rv, ob, run, ex = ctl.evaluate_objective(x, ns, params)
        finally:
            dc.eval_least_squares_with_regularisation, dc.sumsq = old
            dm.sumsq = oldm
        flat = []
        for (xx, e, p) in log:
            flat += IO.fl_vec(xx) + [e, p]
        exp = [int(ctl.nf), int(ctl.nx), int(run), (-9 if ex is None else int(ex.flag)), IO.hashZ(flat), IO.hashZ(IO.fl_mat(rv))]
        M = ctl.model
        sclit = 'None' if sc is None else '(Some (%s, %s))' % (IO.vlit(sc[0]), IO.vlit(sc[1]))
        lit = 'eo_case %d %d %d %d %d %s %s %s %s %s [%s]' % (m, nf, nx, maxfun, ns, IO.vlit(x), sclit, IO.flit(M.objbeg), IO.flit(M.abs_tol), IO.flit(M.rel_tol),
                                                          '; '.join('(%s, %s)' % (IO.vlit(a[0]), IO.flit(a[1])) for a in answers))
        out.append((lit, exp, dict(nf=nf, maxfun=maxfun, ns=ns, run=int(run), flag=exp[3])))
    return out


def eo_real_task(args):
    """the same comparison on the calls of Controller.evaluate_objective made by real dfols.solve() runs"""
    seed, count = args
    import warnings
    import dfols, dfols.controller as dc, dfols.model as dm
    from .. import histcorr
    rng = np.random.default_rng(seed)
    out = []
    orig_eo, orig_els = dc.Controller.evaluate_objective, dc.eval_least_squares_with_regularisation
    cur = {}

    def els(objfun, x, h, **kw):
        r, o = orig_els(objfun, x, h, **kw)
        if cur:
            cur['log'].append((np.array(x, dtype=float).copy(), int(kw.get('eval_num', 0)), int(kw.get('pt_num', 0))))
            cur['answers'].append((np.array(r, dtype=float).copy(), float(o)))
        return r, o

    def eo(self, x, ns, params):
        if self.h is not None or cur:
            return orig_eo(self, x, ns, params)
        M = self.model
        cur.update(log=[], answers=[], pre=(int(self.nf), int(self.nx), int(self.maxfun)), x=np.array(x, dtype=float).copy(), ns=int(ns),
                   sc=None if self.scaling_changes is None else (np.array(self.scaling_changes[0], dtype=float).copy(), np.array(self.scaling_changes[1], dtype=float).copy()),
                   tol=(float(M.objbeg), float(M.abs_tol), float(M.rel_tol)), m=int(M.m()))
        try:
            rv, ob, run, ex = orig_eo(self, x, ns, params)
            flat = []
            for (xx, e, p) in cur['log']:
                flat += IO.fl_vec(xx) + [e, p]
            exp = [int(self.nf), int(self.nx), int(run), (-9 if ex is None else int(ex.flag)), IO.hashZ(flat), IO.hashZ(IO.fl_mat(rv))]
            nf, nx, maxfun = cur['pre']
            sc = cur['sc']
            sclit = 'None' if sc is None else '(Some (%s, %s))' % (IO.vlit(sc[0]), IO.vlit(sc[1]))
            lit = 'eo_case %d %d %d %d %d %s %s %s %s %s [%s]' % (cur['m'], nf, nx, maxfun, cur['ns'], IO.vlit(cur['x']), sclit, IO.flit(cur['tol'][0]), IO.flit(cur['tol'][1]),
                                                              IO.flit(cur['tol'][2]), '; '.join('(%s, %s)' % (IO.vlit(a[0]), IO.flit(a[1])) for a in cur['answers']))
            if len(recs) < 12:            # a few calls per run, spread over the run
                recs.append((lit, exp, dict(nf=nf, maxfun=maxfun, ns=cur['ns'], run=int(run), flag=exp[3], real=True)))
            return rv, ob, run, ex
        finally:
            cur.clear()
    old = (dc.sumsq, dm.sumsq)
    dc.Controller.evaluate_objective, dc.eval_least_squares_with_regularisation = eo, els
    dc.sumsq = dm.sumsq = IO.seq_sumsq
    try:
        for _ in range(count):
            spec = histcorr.gen_run(rng)
            spec['lam'] = 0.0
            if rng.random() < 0.5:
                spec['nsamples'] = int(rng.integers(2, 5))
                spec['maxfun'] = int(rng.integers(5, 25))          # budgets that run out in the middle of a point's samples
            recs = []
            with warnings.catch_warnings(), np.errstate(all='ignore'):
                warnings.simplefilter('ignore')
                histcorr.run_plain(spec)
            out += recs
    finally:
        dc.Controller.evaluate_objective, dc.eval_least_squares_with_regularisation = orig_eo, orig_els
        dc.sumsq, dm.sumsq = old
    return out


def correspondence(ctx):
    n = ctx.scale(320, 4800)
    res = C.parallel(eo_task, [(ctx.seed * 31 + i, n // 16) for i in range(16)], timeout_each=300)
    res += C.parallel(eo_real_task, [(ctx.seed * 37 + i + 1000, ctx.scale(3, 40)) for i in range(16)], timeout_each=600)
    res += C.parallel(x0_real_task, [(ctx.seed * 53 + i + 2000, ctx.scale(6, 60)) for i in range(16)], timeout_each=600)
    cases = []
    for t, st, r in res:
        if st != 'ok':
            ctx.oblige('correspondence:evaluate_objective', False, 'implementation side failed: %s %s' % (st, r))
            return
        cases += r
    body = CORR_V + 'Definition exp_ : list (list Z) := [' + ';\n'.join('[' + '; '.join(C.zlit(z) for z in e) + ']' for (_, e, _) in cases) + '].\n'
    body += 'Definition got_ : list (list Z) := [' + ';\n'.join(l for (l, _, _) in cases) + '].\n'
    body += 'Fixpoint leq (a b : list Z) : bool := match a, b with [], [] => true | x :: a, y :: b => (x =? y) && leq a b | _, _ => false end.\n'
    body += 'Eval vm_compute in map (fun p => if leq (fst p) (snd p) then 1 else 0) (combine got_ exp_).\n'
    ok, out = C.coq_eval(ctx, 'cases_eo', body, '')
    if not ok:
        ctx.oblige('correspondence:evaluate_objective', False, C.first_error(out))
        return
    ls = C.parse_eval_lists(out)
    flags = ls[0] if ls else []
    bad = [i for i, f in enumerate(flags) if f != 1]
    ctx.cov['traces_validated_against_impl'] = len(flags)
    dist = {}
    for (_, _, d) in cases:
        k = 'short' if d['run'] < d['ns'] else ('zero' if d['ns'] == 0 else 'full')
        dist[k] = dist.get(k, 0) + 1
        dist['flag%d' % d['flag']] = dist.get('flag%d' % d['flag'], 0) + 1
    ctx.cov['correspondence_distribution'] = dist
    ctx.cov['correspondence_calls_from_real_solve_runs'] = sum(1 for (_, _, d) in cases if d.get('real') and not d.get('x0block'))
    ctx.cov['correspondence_x0_blocks_from_real_solve_runs'] = sum(1 for (_, _, d) in cases if d.get('x0block'))
    ctx.cov['correspondence_x0_blocks_cut_short_by_the_budget'] = sum(1 for (_, _, d) in cases if d.get('x0block') and d['run'] < d['ns'])
    if len(flags) != len(cases):
        ctx.oblige('correspondence:evaluate_objective', False, 'evaluated %d of %d cases' % (len(flags), len(cases)))
    elif bad:
        ctx.oblige('correspondence:evaluate_objective[%d]' % bad[0], False, 'model and implementation differ on %d of %d calls, first: %s expected %s' % (len(bad), len(cases), cases[bad[0]][2], cases[bad[0]][1]))
    else:
        ctx.oblige('correspondence:evaluate_objective(%d calls, counters/exit flag/log/residual rows identical)' % len(cases), True)
    ctx.sample(dict(kind='evaluate_objective-case', case=cases[0][2], expected=cases[0][1]))


def run(ctx):
    return G.run(ctx, 'C02', 'proof', ('Gen_util', 'Gen_model', 'Gen_controller', 'Gen_solver', 'Gen_tables'), ['Char_model.v', 'Char_controller.v', 'C02.v'], TRUSTED,
                 correspondence=correspondence)


def replay(payload):
    return G.replay('C02', payload)
