"""C18 -- see DESIGN.md; obligations + oracle sweep."""
from .. import common as C, generic as G
from . import C17

TRUSTED = ['Coq 8.16.1 kernel', 'Coq Reals: radius arithmetic is exact-real, rounding not modelled in the invariant theorems (the regenerated reduce_rho is also run on Flocq binary64 against the calls of real solve() runs, bit for bit)', 'translator/fragments.py: one Gallina definition per radius write site (control.X/self.X -> X, params(k) -> parameter)', 'translator/tables.py: write-site exhaustiveness and guards as source text', 'parameter ranges of params.py as hypotheses (gamma_dec in (0,1), alpha1, alpha2 in (0,1), rhoend_scale in (0,1], tau in (0,1])']
PERRUN = ['Char_model.v', 'Char_controller.v', 'Slots.v', 'C10.v', 'C18.v']
GEN = ('Gen_util', 'Gen_model', 'Gen_controller', 'Gen_solver', 'Gen_tables')


RR_V = r"""
From Coq Require Import ZArith List Bool String.
Require Import DV.Base.Prelude DV.Base.F64 DV.Spec.Schema DV.Lib.Corr.
From G Require Import Gen_util Gen_model Gen_controller.
Import ListNotations.
Open Scope Z_scope.
Definition blank_model : @model_state ArithF64 :=
  @mk_model ArithF64 1 1 2 1 [] [] [] [] [] [] [] 0 [] [] (of_bits 0) (of_bits 0) (of_bits 0) [] [] None None None None None None None None false None None.
Definition rr_case (rho delta rhoend a1 a2 : F) (it : Z) : list Z :=
  let st := @mk_controller ArithF64 blank_model 0 0 1 (of_bits 0) delta rho rhoend None None 0 in
  match py_controller_reduce_rho st it a1 a2 with
  | Ok (st', _) => [to_bits (c_rho st'); to_bits (c_delta st'); c_last_successful_iter st']
  | Err e => [err_code e]
  end.
"""


def rr_task(args):
    """calls of Controller.reduce_rho made by real dfols.solve() runs: (rho, delta, rhoend, alpha1, alpha2, iter) -> (rho', delta', last_successful_iter)"""
    seed, count = args
    import warnings
    import numpy as np
    import dfols.controller as dc
    from .. import histcorr
    rng = np.random.default_rng(seed)
    out = []
    orig = dc.Controller.reduce_rho

    def rr(self, current_iter, params):
        pre = (float(self.rho), float(self.delta), float(self.rhoend), float(params('tr_radius.alpha1')), float(params('tr_radius.alpha2')), int(current_iter))
        r = orig(self, current_iter, params)
        out.append((pre, (float(self.rho), float(self.delta), int(self.last_successful_iter))))
        return r
    dc.Controller.reduce_rho = rr
    try:
        for _ in range(count):
            spec = histcorr.gen_run(rng)
            spec['maxfun'] = 60
            spec['rhoend'] = float(rng.choice([1e-8, 1e-5, 1e-3]))
            if rng.random() < 0.4:
                spec['up']['tr_radius.alpha1'] = float(rng.choice([1e-4, 1e-3, 0.05, 0.5, 0.9]))
                spec['up']['tr_radius.alpha2'] = float(rng.choice([0.05, 0.5, 0.95]))
            with warnings.catch_warnings(), np.errstate(all='ignore'):
                warnings.simplefilter('ignore')
                histcorr.run_plain(spec)
    finally:
        dc.Controller.reduce_rho = orig
    return out


def rad_site_cases(ctx):
    """every regenerated radius-write expression py_rad_* evaluated by Python on the (normalised) source expression and by Coq on
    Flocq binary64, on random positive inputs with exact ties: returns (coq terms, expected bit patterns)"""
    import ast, math
    import numpy as np
    from translator import gen, fragments
    trees = {'solver': gen.load('solver'), 'controller': gen.load('controller')}
    sites = sorted(fragments.radius_sites(trees), key=lambda t: (t[0], t[1], t[3]))
    counts, terms, exp = {}, [], []
    rng = np.random.default_rng(ctx.seed + 18)
    for fname, qual, nm, line, expr in sites:
        if (fname, qual) == ('controller', 'Controller.reduce_rho'):
            continue
        k = (fname, qual, nm)
        counts[k] = counts.get(k, -1) + 1
        e2 = fragments._Norm().visit(ast.parse(ast.unparse(expr), mode='eval').body)
        names = sorted({x.id for x in ast.walk(e2) if isinstance(x, ast.Name) and x.id not in ('np', 'max', 'min')})
        cname = 'py_rad_%s_%s_%s_%d' % (fname, qual.replace('.', '_').replace('__', ''), nm, counts[k])
        code = compile(ast.fix_missing_locations(ast.Expression(e2)), '<radius site>', 'eval')
        for _ in range(ctx.scale(12, 120)):
            pool = [float(10.0 ** rng.uniform(-6, 3)) for _ in range(3)]
            vals = {}
            for x in names:
                vals[x] = pool[int(rng.integers(0, 3))] if rng.random() < 0.4 else float(10.0 ** rng.uniform(-8, 4))
            try:
                with np.errstate(all='ignore'):
                    v = float(eval(code, {'np': np, 'max': max, 'min': min, '__builtins__': {}}, dict(vals)))
            except (ZeroDivisionError, OverflowError, ValueError):
                continue
            terms.append('to_bits (@%s ArithF64 %s)' % (cname, ' '.join(IO_flit(vals[x]) for x in names)) if names else 'to_bits (@%s ArithF64)' % cname)
            exp.append(C.bits(v))
    return terms, exp, len(counts)


def IO_flit(x):
    from .. import modelio as IO
    return IO.flit(x)


def correspondence(ctx):
    from .. import modelio as IO
    terms, exp, nsites = rad_site_cases(ctx)
    body = ('From Coq Require Import ZArith List Bool String.\nRequire Import DV.Base.Prelude DV.Base.F64 DV.Spec.Schema DV.Lib.Corr.\n'
            'From G Require Import Gen_util Gen_solver.\nImport ListNotations.\nOpen Scope Z_scope.\n')
    body += 'Definition exp_ : list Z := [' + '; '.join(C.zlit(z) for z in exp) + '].\n'
    body += 'Definition got_ : list Z := [' + ';\n'.join(terms) + '].\n'
    body += 'Eval vm_compute in map (fun p => if Z.eqb (fst p) (snd p) then 1 else 0) (combine got_ exp_).\n'
    ok, out = C.coq_eval(ctx, 'cases_radsites', body, '')
    if not ok:
        ctx.oblige('correspondence:radius_sites', False, C.first_error(out))
    else:
        ls = C.parse_eval_lists(out)
        flags = ls[0] if ls else []
        bad = [i for i, f in enumerate(flags) if f != 1]
        ctx.cov['radius_site_evaluations_compared'] = len(flags)
        ctx.cov['radius_sites_compared'] = nsites
        if len(flags) != len(terms) or not terms:
            ctx.oblige('correspondence:radius_sites', False, 'evaluated %d of %d cases' % (len(flags), len(terms)))
        elif bad:
            ctx.oblige('correspondence:radius_sites[%d]' % bad[0], False, 'regenerated radius expression and Python differ on %d of %d evaluations, first: %s expected %d' % (len(bad), len(terms), terms[bad[0]][:200], exp[bad[0]]))
        else:
            ctx.oblige('correspondence:radius_sites(%d evaluations of %d write-site groups, bit-exact on binary64)' % (len(terms), nsites), True)
    res = C.parallel(rr_task, [(ctx.seed * 41 + i + 7, ctx.scale(6, 80)) for i in range(16)], timeout_each=600)
    cases = []
    for t, st, r in res:
        if st != 'ok':
            ctx.oblige('correspondence:reduce_rho', False, 'implementation side failed: %s %s' % (st, r))
            return
        cases += r
    cases = cases[:ctx.scale(1500, 20000)]
    body = RR_V + 'Definition exp_ : list (list Z) := [' + ';\n'.join('[%s; %s; %s]' % (C.zlit(C.bits(p[0])), C.zlit(C.bits(p[1])), C.zlit(p[2])) for (_, p) in cases) + '].\n'
    body += 'Definition got_ : list (list Z) := [' + ';\n'.join('rr_case %s %s %s %s %s %s' % (IO.flit(a[0]), IO.flit(a[1]), IO.flit(a[2]), IO.flit(a[3]), IO.flit(a[4]), C.zlit(a[5])) for (a, _) in cases) + '].\n'
    body += 'Fixpoint leq (a b : list Z) : bool := match a, b with [], [] => true | x :: a, y :: b => (x =? y) && leq a b | _, _ => false end.\n'
    body += 'Eval vm_compute in map (fun p => if leq (fst p) (snd p) then 1 else 0) (combine got_ exp_).\n'
    ok, out = C.coq_eval(ctx, 'cases_rr', body, '')
    if not ok:
        ctx.oblige('correspondence:reduce_rho', False, C.first_error(out))
        return
    ls = C.parse_eval_lists(out)
    flags = ls[0] if ls else []
    bad = [i for i, f in enumerate(flags) if f != 1]
    ctx.cov['reduce_rho_calls_from_real_solve_runs'] = len(flags)
    branches = {'<=16': 0, '<=250': 0, '>250': 0}
    for (a, _) in cases:
        q = a[0] / a[2]
        branches['<=16' if q <= 16 else '<=250' if q <= 250 else '>250'] += 1
    ctx.cov['reduce_rho_branch_distribution'] = branches
    if len(flags) != len(cases) or not cases:
        ctx.oblige('correspondence:reduce_rho', False, 'evaluated %d of %d recorded calls' % (len(flags), len(cases)))
    elif bad:
        ctx.oblige('correspondence:reduce_rho[%d]' % bad[0], False, 'regenerated reduce_rho and the implementation differ on %d of %d recorded calls, first: %r -> %r' % (len(bad), len(cases), cases[bad[0]][0], cases[bad[0]][1]))
    else:
        ctx.oblige('correspondence:reduce_rho(%d calls recorded in real solve() runs, bit-exact on binary64)' % len(cases), True)


def run(ctx):
    return G.run(ctx, 'C18', 'proof', GEN, PERRUN, TRUSTED, correspondence=correspondence, corr_needs=[])


def replay(payload):
    return G.replay('C18', payload)
