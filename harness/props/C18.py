"""C18 -- see DESIGN.md; obligations + oracle sweep."""
from .. import common as C, generic as G
from . import C17

TRUSTED = ['Coq 8.16.1 kernel', 'Coq Reals: radius arithmetic is exact-real, rounding not modelled', 'translator/fragments.py: one Gallina definition per radius write site (control.X/self.X -> X, params(k) -> parameter)', 'translator/tables.py: write-site exhaustiveness and guards as source text', 'parameter ranges of params.py as hypotheses (gamma_dec in (0,1), alpha1, alpha2 in (0,1), rhoend_scale in (0,1], tau in (0,1])']
PERRUN = ['Char_model.v', 'Char_controller.v', 'Slots.v', 'C10.v', 'C18.v']
GEN = ('Gen_util', 'Gen_model', 'Gen_controller', 'Gen_solver', 'Gen_tables')


def run(ctx):
    return G.run(ctx, 'C18', 'proof', GEN, PERRUN, TRUSTED)


def replay(payload):
    return G.replay('C18', payload)
