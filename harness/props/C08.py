"""C08 -- see DESIGN.md; obligations + oracle sweep."""
from .. import common as C, generic as G
from . import C17

TRUSTED = C17.TRUSTED + ['translator/tables.py: guards of the subproblem-solver calls, try/except scopes and exit sites as source text', 'Python exception propagation semantics (an exception not caught by a try block propagates to the caller of solve)']


def correspondence(ctx):
    C17.correspondence(ctx, ctx.scale(64, 800), ctx.scale(30, 60))
PERRUN = ['Char_model.v', 'C17.v', 'Slots.v', 'C04.v', 'C08.v']   # 'a finite best point is never displaced' rests on C04's obligations (incumbent saved before a soft restart, admissible slots)
GEN = ('Gen_util', 'Gen_model', 'Gen_controller', 'Gen_tables')


def run(ctx):
    return G.run(ctx, 'C08', 'proof', GEN, PERRUN, TRUSTED, correspondence=correspondence)


def replay(payload):
    return G.replay('C08', payload)
