"""C09 -- convex constraints hold at every evaluation up to Dykstra's tolerance; the bound box exactly."""
from .. import common as C, generic as G
from . import C15

TRUSTED = C15.TRUSTED + ['translator/tables.py: the box projector is appended last and x0 is projected unconditionally (source-text tables)',
                         'Python list/closure semantics for `projections` (the list object given to Model is the one solve() extended)']


def run(ctx):
    return G.run(ctx, 'C09', 'proof', ('Gen_util', 'Gen_model', 'Gen_tables'), ['Char_model.v', 'C15.v', 'C17.v', 'C03.v', 'C09.v'], TRUSTED, correspondence=C15.correspondence)


def replay(payload):
    return G.replay('C09', payload)
