"""C04 -- the best point ever evaluated is never lost."""
from .. import common as C, generic as G
from . import C17

TRUSTED = C17.TRUSTED + ['translator/tables.py: post-evaluation regions (control-flow trees from each evaluate_objective call to the first commit/exit) and guard classification',
                         'hypothesis H_geom (a geometry/trust-region replacement never overwrites the incumbent slot unless the incumbent was saved) -- monitored by the sweep']


def correspondence(ctx):
    C17.correspondence(ctx, ctx.scale(96, 1200), ctx.scale(30, 60))


def run(ctx):
    return G.run(ctx, 'C04', 'proof', ('Gen_util', 'Gen_model', 'Gen_tables'), ['Char_model.v', 'C17.v', 'Slots.v', 'C04.v'], TRUSTED, correspondence=correspondence)


def replay(payload):
    return G.replay('C04', payload)
