"""C04 -- the best point ever evaluated is never lost."""
from .. import common as C, generic as G
from . import C17

TRUSTED = C17.TRUSTED + ['translator/tables.py: post-evaluation regions (control-flow trees from each evaluate_objective call to the first commit/exit) and guard classification',
                         'hypothesis `admissible` of the model theorem: discharged site by site on the regenerated tables (Slots.v) and checked step by step, inside Coq, on recorded histories of real solve() runs (harness/histcorr.py); ties in the distance sort are not covered',
                         'harness/histcorr.py: recorder at the boundary of dfols.model.Model (monkey-patched methods, no source hook)']


def correspondence(ctx):
    C17.correspondence(ctx, ctx.scale(96, 1200), ctx.scale(30, 60))
    from .. import histcorr
    histcorr.correspondence(ctx, ctx.scale(32, 400))
    from .. import choosercorr
    choosercorr.correspondence(ctx, ctx.scale(64, 640))     # the regenerated selection loop against the slots real runs choose


def run(ctx):
    def more_histories(c):
        from .. import histcorr
        c.seed += 1000
        try:
            histcorr.correspondence(c, 600)
        finally:
            c.seed -= 1000
    return G.run(ctx, 'C04', 'proof', ('Gen_util', 'Gen_model', 'Gen_controller', 'Gen_tables'), ['Char_model.v', 'C17.v', 'Slots.v', 'C04.v'], TRUSTED,
                 correspondence=correspondence, corr_needs=['Char_model', 'C17'], search_extra=more_histories)


def replay(payload):
    d = payload.get('data') or {}
    if d.get('kind') == 'inadmissible-history':
        from .. import histcorr
        v = histcorr.replay(d)
        print('replay:', v)
        return 1 if v else 0
    return G.replay('C04', payload)
