"""Oracle for C06: convex regularised linear least squares converges to the regularised optimum.

F(x) = ||A x - b||^2 + h(x), h = lam*||x||_1 (prox: soft threshold, lh = lam*sqrt(n)) or h = lam*||x||_2 (prox: block soft
threshold, lh = lam), optional finite bounds, default budget.  Demands (exactly the property text):
  * F(soln.x) (and the reported soln.obj) within 1e-3*(1+F*) of the true minimum F*,
  * soln.flag == EXIT_SUCCESS,
  * every call of h received (x, *argsh) and every call of prox_uh received (x, u, *argsprox), unchanged.
Reference F*: an independent candidate (exact-prox FISTA for L1(+box), L-BFGS-B for L2(+box)), polished by Newton on the
identified active pattern, and CERTIFIED: with mu = 2*sigma_min(A)^2 the strong-convexity modulus and eps the norm of the
smallest element of  dF(x) + N_box(x),  F(x) - F* <= eps^2/(2 mu); we require that bound <= 1e-8*(1+F).
Known limitation named by the property (regulariser + scaling_within_bounds): exercised on a small share of the bounded
cases and reported under the single signature C06:scaling_with_regulariser.
Self-contained; runs the real dfols from $DFOLS_REPO (default /repo).
"""
import os
os.environ.setdefault('OMP_NUM_THREADS', '1')
os.environ.setdefault('OPENBLAS_NUM_THREADS', '1')
os.environ.setdefault('MKL_NUM_THREADS', '1')
import sys, time, warnings
import numpy as np

REPO = os.environ.get('DFOLS_REPO', '/repo')
if REPO not in sys.path:
    sys.path.insert(0, REPO)

PID = 'C06'
RTOL = 1e-3             # property: within 1e-3*(1+F*)
REF_RTOL = 1e-8         # certified accuracy of the reference
CASES_PER_TASK = 1
NTASKS = {'quick': 144, 'thorough': 2880}
CPU_LIMIT_SCALING = 7.0   # s of CPU per known-limitation (scaling) case: Dykstra runs to its iteration cap there (up to 45 s)
CPU_LIMIT = 40.0          # s of CPU for an ordinary case (largest seen: 7 s); beyond it the case is dropped and counted
SCALING_SHARE = 0.06    # share of bounded cases run with scaling_within_bounds=True (known limitation)
COND_MAX = 30.0

RULE = ("Cases: n uniform in 1..6, m = n + extra, extra in {0, 1, 2, n, 2n} (m >= n: 'well-conditioned' read as full column "
        "rank with cond(A) log-uniform in [1, 30]); A = U diag(s) V', largest singular value log-uniform in [0.3, 10]; "
        "b = A xtrue + noise with xtrue having random exact zeros; regulariser L1 (lam*||x||_1, lh = lam*sqrt(n), prox = soft "
        "threshold) or L2 (lam*||x||_2, lh = lam, prox = block soft threshold), lam in [1e-3, 10]: log-uniform, or a "
        "fraction 1e-2..1.6 of lam_max (smallest lam whose unconstrained minimiser is 0) clipped to [1e-3, 10], so that "
        "'no component zero', 'some zero' and 'all zero' all occur; x0 = "
        "xtrue + dist*direction with dist log-uniform in [1e-2, 30], or x0 = 0; bounds kind in {none, around (box strictly "
        "contains the regularised minimiser and x0), excluding (some bounds active at the regularised minimiser), "
        "x0_outside}; box widths >= 2.5*default rhobeg; calling convention in {closure: argsh=argsprox=(), args: "
        "argsh=(lam, token), argsprox=(lam, token2), mixed: only argsh / only argsprox}; npt = n+1 (default) or up to "
        "2n+1; scaling_within_bounds False except for a ~6% share of bounded cases (reported only as "
        "C06:scaling_with_regulariser; these are cut off after 7 s of CPU and then counted as flag=cpu_limit, not judged).  A case is NON-TRIVIAL iff neither the (projected) starting point nor the minimiser "
        "of the un-regularised bounded problem is within the tolerance 1e-3*(1+F*) of F* (i.e. the solver has to move "
        "and the regulariser matters); the numbers of exactly-zero components and of active bounds at the reference "
        "minimiser are in stats.")


# ----------------------------------------------------------------------------------------------- helpers
def _hx(a):
    a = np.asarray(a, dtype=float)
    if a.ndim == 0:
        return float(a).hex()
    if a.ndim == 1:
        return [float(v).hex() for v in a]
    return [[float(v).hex() for v in row] for row in a]


def _unhx(h):
    if isinstance(h, str):
        return float.fromhex(h)
    if len(h) > 0 and isinstance(h[0], list):
        return np.array([[float.fromhex(v) for v in row] for row in h], dtype=float)
    return np.array([float.fromhex(v) for v in h], dtype=float)


def _bump(d, k, n=1):
    k = str(k)
    d[k] = d.get(k, 0) + n


def _orth(rng, k):
    q, r = np.linalg.qr(rng.standard_normal((k, k)))
    return q * np.sign(np.diag(r))


def make_A(rng, m, n, cond, smax):
    s = np.ones(n) * smax
    if n > 1:
        e = np.sort(rng.uniform(0.0, 1.0, size=n))
        e[0], e[-1] = 0.0, 1.0
        s = smax * cond ** (-e)
    return (_orth(rng, m)[:, :n] * s) @ _orth(rng, n).T


def soft(x, t):
    return np.sign(x) * np.maximum(np.abs(x) - t, 0.0)


def block_soft(x, t):
    nx = np.linalg.norm(x)
    if nx <= t:
        return np.zeros_like(x)
    return (1.0 - t / nx) * x


def hval(reg, lam, x):
    return lam * (np.sum(np.abs(x)) if reg == 'L1' else np.linalg.norm(x))


def Fval(A, b, reg, lam, x):
    r = A @ x - b
    return float(r @ r + hval(reg, lam, x))


# ----------------------------------------------------------------------------------------------- certificate
def min_subgrad_norm(A, b, reg, lam, x, xl, xu):
    """norm of the minimum-norm element of  grad f(x) + d h(x) + N_box(x)   (x must be feasible)"""
    n = len(x)
    g = 2.0 * A.T @ (A @ x - b)
    lo = np.zeros(n)
    hi = np.zeros(n)            # interval [g+lo, g+hi] per coordinate (separable cases)
    at_l = np.zeros(n, bool) if xl is None else (x == xl)
    at_u = np.zeros(n, bool) if xu is None else (x == xu)
    if reg == 'L2' and np.all(x == 0.0):
        # need s in ball(lam), nu in N_box(0): minimise |g + nu| over the cone, then distance to the ball
        v = g.copy()
        for i in range(n):
            if at_l[i] and v[i] > 0:
                v[i] = 0.0
            if at_u[i] and v[i] < 0:
                v[i] = 0.0
        return max(0.0, float(np.linalg.norm(v)) - lam)
    if reg == 'L1':
        for i in range(n):
            if x[i] > 0:
                lo[i] = hi[i] = lam
            elif x[i] < 0:
                lo[i] = hi[i] = -lam
            else:
                lo[i], hi[i] = -lam, lam
    else:
        s = lam * x / np.linalg.norm(x)
        lo, hi = s.copy(), s.copy()
    res = np.zeros(n)
    for i in range(n):
        a, c = g[i] + lo[i], g[i] + hi[i]
        if at_l[i]:
            a = -np.inf          # nu_i <= 0
        if at_u[i]:
            c = np.inf           # nu_i >= 0
        res[i] = 0.0 if a <= 0.0 <= c else min(abs(a), abs(c))
    return float(np.linalg.norm(res))


def gap_bound(A, b, reg, lam, x, xl, xu):
    smin = np.linalg.svd(A, compute_uv=False)[-1]
    mu = 2.0 * smin ** 2
    eps = min_subgrad_norm(A, b, reg, lam, x, xl, xu)
    return eps ** 2 / (2.0 * mu)


# ----------------------------------------------------------------------------------------------- candidates + polish
def _clip(x, xl, xu):
    return x if xl is None else np.minimum(np.maximum(x, xl), xu)


def _fista_l1(A, b, lam, xl, xu, x_init, iters=30000):
    L = 2.0 * np.linalg.norm(A, 2) ** 2
    AtA2, Atb2 = 2.0 * A.T @ A, 2.0 * A.T @ b
    x = _clip(x_init.copy(), xl, xu)
    y, t = x.copy(), 1.0
    Fx = Fval(A, b, 'L1', lam, x)
    for k in range(iters):
        xn = _clip(soft(y - (AtA2 @ y - Atb2) / L, lam / L), xl, xu)
        if k % 50 == 49:
            Fn = Fval(A, b, 'L1', lam, xn)
            if Fn > Fx:                        # restart momentum
                y, t = x.copy(), 1.0
                continue
            done = np.max(np.abs(xn - x)) <= 1e-15 * (1.0 + np.max(np.abs(x)))
            Fx = Fn
            if done:
                x = xn
                break
        tn = 0.5 * (1.0 + np.sqrt(1.0 + 4.0 * t * t))
        y = xn + ((t - 1.0) / tn) * (xn - x)
        x, t = xn, tn
    return x


def _pgd_l2_nobox(A, b, lam, x_init, iters=30000):
    L = 2.0 * np.linalg.norm(A, 2) ** 2
    AtA2, Atb2 = 2.0 * A.T @ A, 2.0 * A.T @ b
    x = x_init.copy()
    for k in range(iters):
        xn = block_soft(x - (AtA2 @ x - Atb2) / L, lam / L)
        if np.max(np.abs(xn - x)) <= 1e-16 * (1.0 + np.max(np.abs(x))):
            x = xn
            break
        x = xn
    return x


def _lbfgsb_l2(A, b, lam, xl, xu, x_init):
    from scipy.optimize import minimize

    def fg(x):
        r = A @ x - b
        nx = np.linalg.norm(x)
        g = 2.0 * A.T @ r
        if nx > 0:
            g = g + lam * x / nx
        return float(r @ r + lam * nx), g
    bnds = None if xl is None else list(zip(xl, xu))
    res = minimize(fg, _clip(x_init, xl, xu), jac=True, method='L-BFGS-B', bounds=bnds,
                   options=dict(maxiter=5000, ftol=1e-16, gtol=1e-13, maxcor=20))
    return _clip(res.x, xl, xu)


def _polish(A, b, reg, lam, x, xl, xu):
    """Newton on the smooth restriction to the identified pattern (zeros / active bounds fixed). Returns a feasible point."""
    n = len(x)
    x = x.copy()
    scale = 1.0 + np.max(np.abs(x))
    fixed = np.zeros(n, bool)
    if xl is not None:
        for i in range(n):
            if abs(x[i] - xl[i]) <= 1e-7 * scale:
                x[i], fixed[i] = xl[i], True
            elif abs(x[i] - xu[i]) <= 1e-7 * scale:
                x[i], fixed[i] = xu[i], True
    if reg == 'L1':
        sgn = np.sign(x)
        for i in range(n):
            if not fixed[i] and abs(x[i]) <= 1e-7 * scale:
                x[i], fixed[i], sgn[i] = 0.0, True, 0.0
        fr = ~fixed
        if np.any(fr):
            rhs = b - A[:, fixed] @ x[fixed]
            AF = A[:, fr]
            try:
                xf = np.linalg.solve(2.0 * AF.T @ AF, 2.0 * AF.T @ rhs - lam * sgn[fr])
            except np.linalg.LinAlgError:
                return x
            xnew = x.copy()
            xnew[fr] = xf
            if np.all(np.sign(xnew[fr]) == sgn[fr]) and (xl is None or (np.all(xnew >= xl) and np.all(xnew <= xu))):
                return xnew
        return x
    # L2
    if np.linalg.norm(x) <= 1e-9 * scale and (xl is None or (np.all(xl <= 0) and np.all(xu >= 0))):
        return np.zeros(n)
    fr = ~fixed
    if not np.any(fr):
        return x
    AF = A[:, fr]
    for it in range(30):
        nx = np.linalg.norm(x)
        if nx == 0:
            break
        g = 2.0 * AF.T @ (A @ x - b) + lam * x[fr] / nx
        H = 2.0 * AF.T @ AF + lam * (np.eye(int(np.sum(fr))) / nx - np.outer(x[fr], x[fr]) / nx ** 3)
        try:
            d = np.linalg.solve(H, -g)
        except np.linalg.LinAlgError:
            break
        xnew = x.copy()
        xnew[fr] = x[fr] + d
        if xl is not None and (np.any(xnew < xl) or np.any(xnew > xu)):
            break
        if Fval(A, b, reg, lam, xnew) > Fval(A, b, reg, lam, x) + 1e-15:
            break
        x = xnew
        if np.max(np.abs(d)) <= 1e-16 * scale:
            break
    return x


def reference(A, b, reg, lam, xl, xu):
    """(xstar, Fstar, certified_gap_bound).  Raises if no candidate can be certified to REF_RTOL."""
    n = A.shape[1]
    x_ls = np.linalg.lstsq(A, b, rcond=None)[0]
    cands = []
    if reg == 'L1':
        x = _fista_l1(A, b, lam, xl, xu, x_ls)
        cands += [x, _polish(A, b, reg, lam, x, xl, xu)]
    else:
        if xl is None:
            x = _pgd_l2_nobox(A, b, lam, x_ls)
            cands += [x, _polish(A, b, reg, lam, x, xl, xu)]
        starts = [x_ls, np.zeros(n) + 1e-3, -x_ls]
        for s in starts:
            x = _lbfgsb_l2(A, b, lam, xl, xu, s)
            cands += [x, _polish(A, b, reg, lam, x, xl, xu)]
        z = _clip(np.zeros(n), xl, xu)
        cands.append(z)
    best = None
    for x in cands:
        gb = gap_bound(A, b, reg, lam, x, xl, xu)
        F = Fval(A, b, reg, lam, x)
        if best is None or gb / (1.0 + F) < best[2] / (1.0 + best[1]):
            best = (x, F, gb)
    if not best[2] <= REF_RTOL * (1.0 + best[1]):
        raise RuntimeError('C06 oracle: reference optimum not certified (gap bound %.3g, F %.6g)' % (best[2], best[1]))
    return best


# ----------------------------------------------------------------------------------------------- case generation
KINDS = ('none', 'around', 'excluding', 'x0_outside')
CONVS = ('closure', 'args', 'only_argsh', 'only_argsprox')


def gen_case(rng):
    n = int(rng.integers(1, 7))
    extra = [0, 1, 2, n, 2 * n][int(rng.integers(0, 5))]
    m = n + extra
    cond = float(COND_MAX ** rng.uniform(0.0, 1.0)) if n > 1 else 1.0
    smax = float(10.0 ** rng.uniform(-0.5, 1.0))
    A = make_A(rng, m, n, cond, smax)
    xtrue = rng.standard_normal(n) * float(10.0 ** rng.uniform(-0.5, 1.0))
    xtrue[rng.uniform(size=n) < 0.3] = 0.0
    noise = [0.0, 1e-2, 0.3][int(rng.integers(0, 3))]
    Ax = A @ xtrue
    b = Ax + noise * (np.linalg.norm(Ax) / np.sqrt(m) + 0.1) * rng.standard_normal(m)
    reg = 'L1' if rng.integers(0, 2) else 'L2'
    lam = float(10.0 ** rng.uniform(-3.0, 1.0))
    if rng.integers(0, 2):
        # a fraction of lam_max (the smallest lam for which the unconstrained minimiser is 0), kept inside [1e-3, 10]
        Atb = A.T @ b
        lam_max = 2.0 * float(np.max(np.abs(Atb)) if reg == 'L1' else np.linalg.norm(Atb))
        lam = float(min(10.0, max(1e-3, lam_max * 10.0 ** rng.uniform(-2.0, 0.2))))
    if rng.integers(0, 5) == 0:
        x0 = np.zeros(n)
    else:
        d = rng.standard_normal(n)
        x0 = xtrue + float(10.0 ** rng.uniform(-2.0, 1.5)) * d / np.linalg.norm(d)
    if rng.integers(0, 8) == 0:
        # warm start from the unregularised least-squares solution of a consistent system: the residual at x0 is exactly
        # zero while the regularised objective is not (kept by the bounds kinds 'none' and 'around')
        b = A @ xtrue
        x0 = xtrue.copy()
    kind = KINDS[int(rng.integers(0, 4))]
    npt = n + 1 if rng.integers(0, 2) else int(rng.integers(n + 1, 2 * n + 2))
    conv = CONVS[int(rng.integers(0, 4))]
    xl = xu = None
    scaling = False
    if kind != 'none':
        xs, Fs, gb = reference(A, b, reg, lam, None, None)        # unconstrained regularised minimiser
        rhobeg = 0.1 * max(np.max(np.abs(x0)), 1.0)
        wmin = 2.5 * rhobeg
        w = wmin * 10.0 ** rng.uniform(0.0, 1.0, size=n)
        if kind == 'around':
            lo, hi = np.minimum(xs, x0), np.maximum(xs, x0)
            xl = lo - w * rng.uniform(0.05, 1.0, size=n)
            xu = hi + w * rng.uniform(0.05, 1.0, size=n)
            short = np.maximum(wmin - (xu - xl), 0.0)
            xl, xu = xl - 0.5 * short, xu + 0.5 * short
        else:
            xl, xu = np.zeros(n), np.zeros(n)
            excl = rng.integers(0, 2, size=n).astype(bool)
            if not np.any(excl):
                excl[int(rng.integers(0, n))] = True
            for i in range(n):
                gap = float(10.0 ** rng.uniform(-2.0, 0.5)) * max(1.0, abs(xs[i]) * 0.1)
                if excl[i]:
                    if rng.integers(0, 2):
                        xl[i] = xs[i] + gap
                        xu[i] = xl[i] + w[i]
                    else:
                        xu[i] = xs[i] - gap
                        xl[i] = xu[i] - w[i]
                else:
                    t = rng.uniform(0.1, 0.9)
                    xl[i] = xs[i] - t * w[i]
                    xu[i] = xl[i] + w[i]
            x0 = xl + rng.uniform(0.0, 1.0, size=n) * (xu - xl)
            if kind == 'x0_outside':
                k = int(rng.integers(1, n + 1))
                for j in rng.choice(n, size=k, replace=False):
                    off = float(10.0 ** rng.uniform(-7.0, 1.0)) * w[j]
                    x0[j] = xu[j] + off if rng.integers(0, 2) else xl[j] - off
            elif rng.integers(0, 4) == 0:
                j = int(rng.integers(0, n))
                x0[j] = xl[j] if rng.integers(0, 2) else xu[j]
            rhobeg = 0.1 * max(np.max(np.abs(x0)), 1.0)
            short = np.maximum(2.5 * rhobeg - (xu - xl), 0.0)
            for i in range(n):
                if short[i] > 0:
                    if xl[i] > xs[i]:
                        xu[i] += short[i]
                    elif xu[i] < xs[i]:
                        xl[i] -= short[i]
                    else:
                        xl[i] -= 0.5 * short[i]
                        xu[i] += 0.5 * short[i]
        scaling = bool(rng.uniform() < SCALING_SHARE)
    return dict(A=A, b=b, x0=x0, xl=xl, xu=xu, npt=npt, scaling=scaling, kind=kind, reg=reg, lam=lam, conv=conv,
                cond=cond, np_seed=int(rng.integers(0, 2 ** 31 - 1)))


def case_data(c):
    return dict(A=_hx(c['A']), b=_hx(c['b']), x0=_hx(c['x0']),
                xl=None if c['xl'] is None else _hx(c['xl']), xu=None if c['xu'] is None else _hx(c['xu']),
                npt=int(c['npt']), scaling=bool(c['scaling']), kind=c['kind'], reg=c['reg'], lam=float(c['lam']).hex(),
                conv=c['conv'], np_seed=int(c['np_seed']))


def case_from_data(d):
    return dict(A=_unhx(d['A']), b=_unhx(d['b']), x0=_unhx(d['x0']),
                xl=None if d['xl'] is None else _unhx(d['xl']), xu=None if d['xu'] is None else _unhx(d['xu']),
                npt=int(d['npt']), scaling=bool(d['scaling']), kind=d.get('kind', '?'), reg=d['reg'],
                lam=float.fromhex(d['lam']), conv=d['conv'], np_seed=int(d['np_seed']))


# ----------------------------------------------------------------------------------------------- judge one case
class _CpuLimit(Exception):
    pass


class _Token(object):
    """an opaque extra argument: must arrive as the very same object"""
    def __init__(self, name):
        self.name = name


def run_case(c):
    import dfols
    A, b, x0, xl, xu, reg, lam = c['A'], c['b'], c['x0'], c['xl'], c['xu'], c['reg'], c['lam']
    m, n = A.shape
    xs, Fs, gb = reference(A, b, reg, lam, xl, xu)
    tol = RTOL * (1.0 + Fs)
    lh = lam * np.sqrt(n) if reg == 'L1' else lam
    tok_h, tok_p = _Token('h'), _Token('prox')
    use_argsh = c['conv'] in ('args', 'only_argsh')
    use_argsprox = c['conv'] in ('args', 'only_argsprox')
    argsh = (lam, tok_h) if use_argsh else ()
    argsprox = (lam, tok_p) if use_argsprox else ()
    rec = dict(h_calls=0, prox_calls=0, h_bad=[], prox_bad=[])
    inplace = (int(c['np_seed']) % 4 == 0)
    cpu_limit = c.get('cpu_limit')
    t_start = time.process_time()

    def h(x, *args):
        rec['h_calls'] += 1
        if cpu_limit is not None and rec['h_calls'] % 256 == 0 and time.process_time() - t_start > cpu_limit:
            raise _CpuLimit()
        ok = (len(args) == len(argsh)) and all(a is e for a, e in zip(args, argsh)) and np.shape(x) == (n,)
        if not ok and len(rec['h_bad']) < 3:
            rec['h_bad'].append('h got x shape %s, %d extra args %s' % (np.shape(x), len(args), [type(a).__name__ for a in args]))
        return hval(reg, lam, np.asarray(x, dtype=float))

    def prox(x, u, *args):
        rec['prox_calls'] += 1
        ok = (len(args) == len(argsprox)) and all(a is e for a, e in zip(args, argsprox)) and np.shape(x) == (n,) \
            and np.ndim(u) == 0 and u > 0
        if not ok and len(rec['prox_bad']) < 3:
            rec['prox_bad'].append('prox got x shape %s, u=%r, %d extra args %s'
                                   % (np.shape(x), u, len(args), [type(a).__name__ for a in args]))
        out = soft(x, lam * u) if reg == 'L1' else block_soft(x, lam * u)
        if inplace and isinstance(x, np.ndarray) and x.flags.writeable:
            x[:] = out            # a proximal operator that works in place and returns its argument (legal; every fourth case)
            return x
        return out

    objfun = lambda x: A @ x - b
    data = case_data(c)
    info = dict(n=n, m=m, Fstar=Fs, refgap=gb, nzero=int(np.sum(xs == 0.0)),
                nactive=0 if xl is None else int(np.sum((xs == xl) | (xs == xu))))
    x0p = _clip(x0, xl, xu)
    # un-regularised (bounded) least-squares minimiser
    if xl is None:
        xnr = np.linalg.lstsq(A, b, rcond=None)[0]
    else:
        from scipy.optimize import lsq_linear
        xnr = _clip(lsq_linear(A, b, bounds=(xl, xu), method='bvls').x, xl, xu)
    info['nontrivial'] = bool(Fval(A, b, reg, lam, x0p) - Fs > tol and Fval(A, b, reg, lam, xnr) - Fs > tol)
    viol = []
    sc = c['scaling']

    def add(sig, what):
        if sc:
            sig, what = 'C06:scaling_with_regulariser', '[known limitation; would be %s] %s' % (sig, what)
        viol.append(dict(signature=sig, what=what, data=dict(data, signature=sig)))

    np.random.seed(c['np_seed'])
    try:
        with warnings.catch_warnings():
            warnings.simplefilter('ignore')
            soln = dfols.solve(objfun, x0.copy(), h=h, lh=lh, prox_uh=prox, argsh=argsh, argsprox=argsprox,
                               bounds=None if xl is None else (xl.copy(), xu.copy()), npt=c['npt'],
                               scaling_within_bounds=sc, do_logging=False)
    except _CpuLimit:
        info.update(flag='cpu_limit', nf=0, gap=float('nan'), h_calls=rec['h_calls'], prox_calls=rec['prox_calls'],
                    nontrivial=False)
        return viol, info
    except Exception as ex:
        add('C06:solve_raised:%s' % type(ex).__name__, 'solve raised %s: %s (conv=%s kind=%s reg=%s)'
            % (type(ex).__name__, str(ex)[:200], c['conv'], c['kind'], reg))
        info.update(flag='raised', nf=0, gap=float('nan'), h_calls=rec['h_calls'], prox_calls=rec['prox_calls'])
        return viol, info
    info.update(flag=int(soln.flag), nf=int(soln.nf), h_calls=rec['h_calls'], prox_calls=rec['prox_calls'])
    desc = 'reg=%s lam=%.4g n=%d m=%d npt=%d kind=%s conv=%s scaling=%s; reference minimiser has %d zero components, %d active bounds' % (
        reg, lam, n, m, c['npt'], c['kind'], c['conv'], sc, info['nzero'], info['nactive'])
    if rec['h_bad']:
        viol.append(dict(signature='C06:args_not_passed:h', what='; '.join(rec['h_bad']) + ' | ' + desc,
                         data=dict(data, signature='C06:args_not_passed:h')))
    if rec['prox_bad']:
        viol.append(dict(signature='C06:args_not_passed:prox', what='; '.join(rec['prox_bad']) + ' | ' + desc,
                         data=dict(data, signature='C06:args_not_passed:prox')))
    if soln.flag == soln.EXIT_INPUT_ERROR or soln.x is None:
        add('C06:not_success:%d' % soln.flag, 'input inside the property domain rejected: %s | %s' % (soln.msg, desc))
        info['gap'] = float('nan')
        return viol, info
    x = np.asarray(soln.x, dtype=float)
    Fx = Fval(A, b, reg, lam, x)
    gap = Fx - Fs
    info['gap'] = gap
    if xl is not None and (np.any(x < xl) or np.any(x > xu)):
        add('C06:infeasible', 'returned x violates the bounds by %.3g | %s'
            % (float(max(np.max(xl - x), np.max(x - xu))), desc))
    if not np.isfinite(Fx) or gap > tol:
        add('C06:suboptimal', 'F(x)=%.10g exceeds F*=%.10g by %.3g > 1e-3*(1+F*)=%.3g; flag %d (%s) nf %d | %s'
            % (Fx, Fs, gap, tol, soln.flag, soln.msg, soln.nf, desc))
    elif not abs(float(soln.obj) - Fs) <= tol:
        add('C06:reported_obj_off', 'soln.obj=%.10g but F(soln.x)=%.10g, F*=%.10g | %s' % (float(soln.obj), Fx, Fs, desc))
    if soln.flag != soln.EXIT_SUCCESS:
        add('C06:not_success:%d' % soln.flag, 'flag %d (%s) after %d evaluations; F(x)-F*=%.3g, tol %.3g | %s'
            % (soln.flag, soln.msg, soln.nf, gap, tol, desc))
    return viol, info


# ----------------------------------------------------------------------------------------------- interface
def tasks(seed, tier):
    return [dict(seed=int(seed), idx=i, ncases=CASES_PER_TASK, cpu_scale=1.0) for i in range(NTASKS.get(tier, NTASKS['quick']))]


def _dec(v):
    return '1e%d' % int(np.floor(np.log10(v)))


def run_task(task):
    stats, violations, sample = {}, [], None
    ev = nt = 0
    for j in range(task['ncases']):
        rng = np.random.default_rng((task['seed'], task['idx'], j))
        c = gen_case(rng)
        c['cpu_limit'] = (CPU_LIMIT_SCALING if c['scaling'] else CPU_LIMIT) * task.get('cpu_scale', 1.0)
        viol, info = run_case(c)
        ev += 1
        nt += 1 if info.get('nontrivial') else 0
        violations.extend(viol)
        n = info['n']
        _bump(stats, 'flag=%s' % info['flag'])
        _bump(stats, 'n=%d' % n)
        _bump(stats, 'shape=%s' % ('square' if info['m'] == n else 'over'))
        _bump(stats, 'kind=%s' % c['kind'])
        _bump(stats, 'reg=%s' % c['reg'])
        _bump(stats, 'conv=%s' % c['conv'])
        _bump(stats, 'scaling=%s' % c['scaling'])
        _bump(stats, 'npt=%s' % ('n+1' if c['npt'] == n + 1 else '>n+1'))
        _bump(stats, 'lam=%s' % _dec(c['lam']))
        _bump(stats, 'cond=%s' % ('<=3' if c['cond'] <= 3 else ('<=10' if c['cond'] <= 10 else '<=30')))
        _bump(stats, 'nzero=%s' % ('all' if info['nzero'] == n else info['nzero']))
        _bump(stats, 'nactive=%d' % info['nactive'])
        _bump(stats, 'prox_called=%s' % (info['prox_calls'] > 0))
        if np.isfinite(info.get('gap', float('nan'))):
            rel = info['gap'] / (1.0 + info['Fstar'])
            _bump(stats, 'relgap=%s' % ('<=1e-9' if rel <= 1e-9 else ('<=1e-6' if rel <= 1e-6 else ('<=1e-3' if rel <= 1e-3 else '>1e-3'))))
        if sample is None and info.get('nontrivial'):
            sample = dict(case=case_data(c), flag=info['flag'], nf=info['nf'], Fstar=info['Fstar'], gap=info['gap'],
                          nzero=info['nzero'], nactive=info['nactive'], h_calls=info['h_calls'], prox_calls=info['prox_calls'])
    return dict(evaluations=ev, nontrivial=nt, violations=violations, stats=stats, sample=sample)


def replay(data):
    c = case_from_data(data)
    viol, info = run_case(c)
    want = data.get('signature')
    for v in viol:
        if want is None or v['signature'] == want:
            return v
    return None


if __name__ == '__main__':
    import time, multiprocessing, json
    seed = int(sys.argv[1]) if len(sys.argv) > 1 else 0
    tier = sys.argv[2] if len(sys.argv) > 2 else 'quick'
    t0 = time.time()
    with multiprocessing.Pool(16) as pool:
        res = pool.map(run_task, tasks(seed, tier), chunksize=1)
    tot, sigs = {}, {}
    for r in res:
        for k, v in r['stats'].items():
            _bump(tot, k, v)
        for v in r['violations']:
            _bump(sigs, v['signature'])
    print('seed', seed, 'wall %.1fs' % (time.time() - t0), 'evaluations', sum(r['evaluations'] for r in res),
          'nontrivial', sum(r['nontrivial'] for r in res))
    print(json.dumps(dict(sorted(tot.items()))))
    print('violations', sigs)
    if '-v' in sys.argv:
        for r in res:
            for v in r['violations']:
                print(v['signature'], '::', v['what'])
