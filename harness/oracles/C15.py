"""Oracle for C15: Dykstra's projection (dfols.util.dykstra) in isolation.

Judged clauses (one signature each):
  C15:too_many_sweeps                 more than max_iter sweeps performed
  C15:partial_sweep                   projector calls not a multiple of p (cannot count sweeps)
  C15:not_in_last_box                 last set is a box and the result violates lower <= x <= upper (>= 1 sweep allowed)
  C15:not_in_last_box:max_iter_0      same with max_iter == 0 (no sweep is ever performed; x0 returned as is)
  C15:infeasible_after_rule_stop      stopped by rule but farther than sqrt(p*tol) from some set
  C15:far_from_true_projection        stopped by rule but farther than 1e-3 from the certified true projection
  C15:feasible_point_moved            x0 in all sets, result differs from x0 by more than 1e-15 relative
  C15:nonfinite_result                result has NaN/inf for finite data
"""
import os, sys, math, json

for _v in ('OMP_NUM_THREADS', 'OPENBLAS_NUM_THREADS', 'MKL_NUM_THREADS'):
    os.environ.setdefault(_v, '1')       # effective only if numpy is not loaded yet; bin/check exports the same
if 'dfols' not in sys.modules:
    _repo = os.environ.get('DFOLS_REPO', '/repo')
    if _repo not in sys.path:
        sys.path.insert(0, _repo)
import numpy as np
from scipy.optimize import nnls
import dfols.util as dutil

RULE = ("Each case: dimension n in 1..6, p in 1..4 sets drawn from balls / half-spaces / boxes (some box sides infinite) that all "
        "contain a common point z with a positive margin (margin 1e-3..1 of the length scale, scale 0.1..100); geometry modes "
        "'general', 'thin wedge' (two half-spaces with nearly opposite normals, angle 10^-4..10^-0.5) and 'thin lens' (two balls "
        "overlapping in a thin lens); projectors are own exact callables or dfols.util.pball/pbox; last set forced to a box in half "
        "of the cases; x0 'inside' (feasible), 'near' (0.1..3 scales from z), 'far' (10..1000 scales) or, for wedges, 'tip' (1e-3..1 "
        "scales from the wedge edge inside its normal cone); tol default or one of "
        "1e-4,1e-6,1e-8,1e-12,1e-14,0.0; max_iter default or one of 1,2,5,20,300,1000 (rarely 0). Projector calls are counted "
        "through wrappers: sweeps = calls/p; 'stopped by rule' iff sweeps < max_iter, or sweeps == max_iter and a re-run with "
        "max_iter+1 performs no further sweep. Distances to sets use own exact projectors; rounding slack 1e-13*(1+|data|). The "
        "true projection is a reference Dykstra run to machine precision whose result is certified by a KKT bound "
        "(|x_ref - x*| <= cert = |rho| + sqrt(sum lambda_i slack_i) via NNLS multipliers; SLSQP + Newton polish as fallback when "
        "Dykstra is too slow); the 1e-3 clause is judged only when |result - x_ref| +- cert decides it. The 'unchanged up to rounding' clause uses 1e-15 relative to the data magnitude max(|x0|, |c|+r, |b|/|a|, finite box sides). A case is non-trivial iff x0 lies outside at least one set, p >= 2 and at least 2 sweeps ran.")

SLACK = 1e-13
REF_CERT = 1e-6


# ----------------------------------------------------------------------------------------------- sets and projectors
def _hx(a):
    return [float(v).hex() for v in np.asarray(a, dtype=float).ravel()]


def _unhx(l):
    return np.array([float.fromhex(s) for s in l], dtype=float)


def set_to_json(s):
    if s['kind'] == 'ball':
        return dict(kind='ball', c=_hx(s['c']), r=float(s['r']).hex(), impl=s['impl'])
    if s['kind'] == 'half':
        return dict(kind='half', a=_hx(s['a']), b=float(s['b']).hex(), impl='own')
    return dict(kind='box', l=_hx(s['l']), u=_hx(s['u']), impl=s['impl'])


def set_from_json(d):
    if d['kind'] == 'ball':
        return dict(kind='ball', c=_unhx(d['c']), r=float.fromhex(d['r']), impl=d['impl'])
    if d['kind'] == 'half':
        return dict(kind='half', a=_unhx(d['a']), b=float.fromhex(d['b']), impl='own')
    return dict(kind='box', l=_unhx(d['l']), u=_unhx(d['u']), impl=d['impl'])


def exact_projector(s):
    """own exact projector (used for distances, the reference run, and as the callable when impl == 'own')"""
    if s['kind'] == 'ball':
        c, r = s['c'], s['r']

        def pb(x):
            d = x - c
            nd = math.sqrt(float(np.dot(d, d)))
            if nd <= r:
                return x.copy()
            return c + (r / nd) * d
        return pb
    if s['kind'] == 'half':
        a, b = s['a'], s['b']
        aa = float(np.dot(a, a))

        def ph(x):
            v = float(np.dot(a, x)) - b
            if v <= 0.0:
                return x.copy()
            return x - (v / aa) * a
        return ph
    l, u = s['l'], s['u']

    def px(x):
        return np.minimum(np.maximum(x, l), u)
    return px


def used_projector(s):
    """the callable handed to dfols"""
    if s['impl'] == 'repo':
        if s['kind'] == 'ball':
            c, r = s['c'], s['r']
            return lambda x: dutil.pball(x, c, r)
        if s['kind'] == 'box':
            l, u = s['l'], s['u']
            return lambda x: dutil.pbox(x, l, u)
    return exact_projector(s)


def dist_to_set(s, x):
    """distance from x to the set (0 inside), computed in closed form"""
    if s['kind'] == 'ball':
        return max(0.0, float(np.linalg.norm(x - s['c'])) - s['r'])
    if s['kind'] == 'half':
        return max(0.0, (float(np.dot(s['a'], x)) - s['b']) / float(np.linalg.norm(s['a'])))
    return float(np.linalg.norm(x - np.minimum(np.maximum(x, s['l']), s['u'])))


def in_set(s, x):
    if s['kind'] == 'ball':
        return float(np.linalg.norm(x - s['c'])) <= s['r']
    if s['kind'] == 'half':
        return float(np.dot(s['a'], x)) <= s['b']
    return bool(np.all(s['l'] <= x) and np.all(x <= s['u']))


def data_magnitude(sets, x0):
    mag = float(np.max(np.abs(x0))) if x0.size else 0.0
    for s in sets:
        if s['kind'] == 'ball':
            mag = max(mag, float(np.max(np.abs(s['c']))) + s['r'])
        elif s['kind'] == 'half':
            mag = max(mag, abs(s['b']) / float(np.linalg.norm(s['a'])))
        else:
            for v in (s['l'], s['u']):
                f = np.abs(v[np.abs(v) < 1e19])
                if f.size:
                    mag = max(mag, float(np.max(f)))
    return mag


# ------------------------------------------------------------------------------------------ counting + classification
class Counted:
    def __init__(self, P):
        self.calls = [0] * len(P)
        self.P = [self._wrap(i, f) for i, f in enumerate(P)]

    def _wrap(self, i, f):
        def g(x):
            self.calls[i] += 1
            return f(x)
        return g

    def total(self):
        return sum(self.calls)


def run_counted(dyk, P, x0, kwargs):
    cp = Counted(P)
    if 'max_iter' in kwargs and 'tol' in kwargs and (kwargs['max_iter'] + len(P)) % 2 == 0:
        # the documented signature is dykstra(P, x0, max_iter=100, tol=1e-10): half of the fully specified calls are positional
        out = dyk(cp.P, x0, kwargs['max_iter'], kwargs['tol'])
    else:
        out = dyk(cp.P, x0, **kwargs)
    return out, cp


def classify(dyk, P, x0, kwargs, ncalls):
    """returns (sweeps, max_iter, tol, kind) with kind in 'rule', 'out_of_sweeps', 'zero_sweeps', 'partial'"""
    p = len(P)
    max_iter = kwargs.get('max_iter', 100)
    tol = kwargs.get('tol', 1e-10)
    if p == 0:
        return 0, max_iter, tol, 'zero_sweeps'
    if ncalls % p != 0:
        return ncalls / p, max_iter, tol, 'partial'
    sweeps = ncalls // p
    if sweeps == 0:
        return 0, max_iter, tol, 'zero_sweeps'
    if sweeps < max_iter:
        return sweeps, max_iter, tol, 'rule'
    if sweeps > max_iter:
        return sweeps, max_iter, tol, 'rule'     # reported separately as too_many_sweeps
    kw2 = dict(kwargs)
    kw2['max_iter'] = max_iter + 1
    if 'tol' not in kw2:
        kw2['tol'] = tol
    _o, cp2 = run_counted(dyk, P, x0, kw2)
    return sweeps, max_iter, tol, ('rule' if cp2.total() // p <= sweeps else 'out_of_sweeps')


# ------------------------------------------------------------------------------------------------------ reference
def reference_projection(sets, x0, max_sweeps):
    """own Dykstra to machine precision + KKT certificate.  returns (xref, err_bound, sweeps)"""
    P = [exact_projector(s) for s in sets]
    p = len(P)
    x = x0.copy()
    y = np.zeros((p, x0.size))
    k = 0
    quiet = 0
    while k < max_sweeps:
        ch = 0.0
        for i in range(p):
            inp = x - y[i]
            xn = P[i](inp)
            yn = xn - inp
            d = yn - y[i]
            ch += float(np.dot(d, d))
            y[i] = yn
            x = xn
        k += 1
        if ch == 0.0:
            quiet += 1
            if quiet >= 2:
                break
        else:
            quiet = 0
        if k % 64 == 0 and ch < 1e-30 * (1.0 + float(np.dot(x, x))):
            if kkt_bound(sets, x0, x) <= REF_CERT * 1e-2:
                break
    cert = kkt_bound(sets, x0, x)
    if cert > 1e-7:
        x2 = direct_reference(sets, x0, x)
        c2 = kkt_bound(sets, x0, x2)
        if c2 < cert:
            return x2, c2, k
    return x, cert, k


def _constraints(sets, n):
    """list of (value(x) <= 0 convex, unit gradient(x), hessian(x) or None)"""
    C = []
    for s in sets:
        if s['kind'] == 'ball':
            c, r = s['c'], s['r']

            def val(x, c=c, r=r):
                return float(np.linalg.norm(x - c)) - r

            def grad(x, c=c):
                d = x - c
                nd = float(np.linalg.norm(d))
                return d / nd if nd > 0 else None

            def hess(x, c=c):
                d = x - c
                nd = float(np.linalg.norm(d))
                g = d / nd
                return (np.eye(x.size) - np.outer(g, g)) / nd
            C.append((val, grad, hess))
        elif s['kind'] == 'half':
            na = float(np.linalg.norm(s['a']))
            a, b = s['a'] / na, s['b'] / na
            C.append((lambda x, a=a, b=b: float(np.dot(a, x)) - b, lambda x, a=a: a, None))
        else:
            for j in range(n):
                e = np.zeros(n); e[j] = 1.0
                if s['u'][j] < 1e19:
                    C.append((lambda x, j=j, u=s['u'][j]: x[j] - u, lambda x, e=e: e, None))
                if s['l'][j] > -1e19:
                    C.append((lambda x, j=j, l=s['l'][j]: l - x[j], lambda x, e=e: -e, None))
    return C


def kkt_bound(sets, x0, xh):
    """rigorous (up to rounding) bound on |xh - proj(x0)|:  e <= |rho| + sqrt(sum lambda_i s_i) + infeasibility terms,
    with v = x0 - xh = G lambda + rho, lambda >= 0 (NNLS over nearly active constraints), s_i >= 0 the slacks"""
    n = x0.size
    v = x0 - xh
    nv = float(np.linalg.norm(v))
    scale = 1.0 + float(np.max(np.abs(xh)))
    G, S = [], []
    for (val, grad, _h) in _constraints(sets, n):
        g = grad(xh)
        if g is None:
            continue
        G.append(g); S.append(-val(xh))
    S = np.array(S) if S else np.zeros(0)
    infeas = max(0.0, -float(np.min(S))) if S.size else 0.0
    if nv == 0.0:
        return infeas
    best = nv + infeas + math.sqrt(infeas * nv)
    for thr in (1e-13, 1e-11, 1e-9, 1e-7):
        act = [i for i in range(len(S)) if S[i] <= thr * scale]
        if not act:
            continue
        A = np.array([G[i] for i in act]).T
        lam, res = nnls(A, v)
        gap = float(np.sum(lam * np.maximum(S[act], 0.0)))
        best = min(best, res + math.sqrt(gap) + infeas + math.sqrt(infeas * nv))
    return best


def direct_reference(sets, x0, xstart):
    """fallback reference when Dykstra itself is too slow: SLSQP + Newton polish on the active set.  Returns x (certify separately)."""
    from scipy.optimize import minimize
    n = x0.size
    C = _constraints(sets, n)
    L = max(float(np.linalg.norm(x0 - xstart)), 1e-9 * (1.0 + float(np.max(np.abs(x0)))))
    cons = [dict(type='ineq', fun=(lambda u, val=val: -val(xstart + L * u) / L),
                 jac=(lambda u, grad=grad: -(grad(xstart + L * u) if grad(xstart + L * u) is not None else np.zeros(n))))
            for (val, grad, _h) in C]
    best = xstart
    try:
        r = minimize(lambda u: 0.5 * float(np.dot(xstart + L * u - x0, xstart + L * u - x0)) / L ** 2, np.zeros(n),
                     jac=lambda u: (xstart + L * u - x0) / L, constraints=cons, method='SLSQP',
                     options=dict(ftol=1e-16, maxiter=300))
        x = xstart + L * r.x
        if np.all(np.isfinite(x)):
            best = x
    except Exception:
        pass
    x = best.copy()
    scale = 1.0 + float(np.max(np.abs(x)))
    # Newton polish on the active set
    for thr in (1e-6, 1e-8):
        act = [k for k, (val, grad, _h) in enumerate(C) if val(x) >= -thr * max(scale, L) and grad(x) is not None]
        if not act:
            continue
        xn = x.copy()
        lam = None
        ok = True
        for _it in range(25):
            Gm = np.array([C[k][1](xn) for k in act])            # k x n
            cv = np.array([C[k][0](xn) for k in act])
            if lam is None:
                lam = np.linalg.lstsq(Gm.T, x0 - xn, rcond=None)[0]
            Hm = np.eye(n)
            for li, k in zip(lam, act):
                if C[k][2] is not None:
                    Hm = Hm + max(li, 0.0) * C[k][2](xn)
            K = np.block([[Hm, Gm.T], [Gm, np.zeros((len(act), len(act)))]])
            rhs = -np.concatenate([xn - x0 + Gm.T @ lam, cv])
            try:
                st = np.linalg.lstsq(K, rhs, rcond=None)[0]
            except Exception:
                ok = False
                break
            xn = xn + st[:n]
            lam = lam + st[n:]
            if not np.all(np.isfinite(xn)):
                ok = False
                break
            if float(np.linalg.norm(st[:n])) <= 1e-15 * scale:
                break
        if ok and kkt_bound(sets, x0, xn) < kkt_bound(sets, x0, x):
            x = xn
    return x


# ------------------------------------------------------------------------------------------------------ generator
def _unit(rng, n):
    v = rng.standard_normal(n)
    nv = np.linalg.norm(v)
    if nv == 0:
        v = np.ones(n); nv = math.sqrt(n)
    return v / nv


def gen_case(rng, tier='quick'):
    n = int(rng.integers(1, 7))
    p = int(rng.integers(1, 5))
    s = float(10.0 ** rng.choice([-1.0, 0.0, 1.0, 2.0]))
    z = s * rng.standard_normal(n) * float(rng.choice([0.0, 1.0, 3.0]))
    mode = str(rng.choice(['general', 'general', 'wedge', 'lens']))
    if n == 1 and mode == 'wedge':
        mode = 'general'
    if p < 2 and mode != 'general':
        p = 2
    sets = []

    def margin():
        return s * 10.0 ** rng.uniform(-3, 0)

    def mk_ball():
        r = s * 10.0 ** rng.uniform(-1, 1)
        mg = min(margin(), r) * rng.uniform(0.05, 1.0)
        c = z + _unit(rng, n) * (r - mg)
        return dict(kind='ball', c=c, r=float(r), impl=str(rng.choice(['own', 'repo'])))

    def mk_half():
        a = _unit(rng, n) * 10.0 ** rng.uniform(-1, 1)
        b = float(np.dot(a, z) + margin() * np.linalg.norm(a))
        return dict(kind='half', a=a, b=b, impl='own')

    def mk_box():
        lo = z - np.array([margin() * 10.0 ** rng.uniform(0, 2) for _ in range(n)])
        up = z + np.array([margin() * 10.0 ** rng.uniform(0, 2) for _ in range(n)])
        for j in range(n):
            t = rng.random()
            if t < 0.15:
                lo[j] = -1e20
            elif t < 0.3:
                up[j] = 1e20
        return dict(kind='box', l=lo, u=up, impl=str(rng.choice(['own', 'repo'])))

    if mode == 'wedge':
        a1 = _unit(rng, n)
        q = rng.standard_normal(n); q -= np.dot(q, a1) * a1; q /= np.linalg.norm(q)
        th = 10.0 ** rng.uniform(-4.0, -0.5)
        a2 = -math.cos(th) * a1 + math.sin(th) * q
        mg = margin()
        b1 = float(np.dot(a1, z) + mg); b2 = float(np.dot(a2, z) + mg * rng.uniform(0.2, 1.0))
        sets.append(dict(kind='half', a=a1, b=b1, impl='own'))
        sets.append(dict(kind='half', a=a2, b=b2, impl='own'))
        # point of the edge {a1.x=b1, a2.x=b2} closest to z, and a direction of the normal cone there
        A2 = np.array([a1, a2])
        tip = z + np.linalg.lstsq(A2, np.array([b1, b2]) - A2 @ z, rcond=None)[0]
        w = rng.uniform(0.1, 0.9)
        ncone = w * a1 + (1 - w) * a2
        ncone = ncone / np.linalg.norm(ncone)
    elif mode == 'lens':
        r1 = s * 10.0 ** rng.uniform(-1, 1); r2 = s * 10.0 ** rng.uniform(-1, 1)
        mg = min(margin(), 0.5 * min(r1, r2))
        d = _unit(rng, n)
        c1 = z - d * (r1 - mg / 2); c2 = z + d * (r2 - mg / 2)
        sets.append(dict(kind='ball', c=c1, r=float(r1), impl=str(rng.choice(['own', 'repo']))))
        sets.append(dict(kind='ball', c=c2, r=float(r2), impl=str(rng.choice(['own', 'repo']))))
    while len(sets) < p:
        k = rng.choice(['ball', 'half', 'box'])
        sets.append(mk_ball() if k == 'ball' else mk_half() if k == 'half' else mk_box())
    order = rng.permutation(len(sets))
    sets = [sets[i] for i in order]
    if rng.random() < 0.5:
        if sets[-1]['kind'] != 'box':
            b = mk_box()
            if len(sets) >= 4 or (len(sets) >= 2 and rng.random() < 0.5):
                sets[-1] = b
            else:
                sets.append(b)
    xm = str(rng.choice(['inside', 'near', 'near', 'far', 'far']))
    if mode == 'wedge' and rng.random() < 0.3:
        xm = 'tip'
    if xm == 'tip':
        x0 = tip + ncone * s * 10.0 ** rng.uniform(-3, 0)
    elif xm == 'inside':
        x0 = z.copy()
        if rng.random() < 0.7:
            # shrink a perturbation until it is inside all sets
            dlt = _unit(rng, n) * s * 1e-3
            for _ in range(40):
                if all(in_set(t, z + dlt) for t in sets):
                    x0 = z + dlt
                    break
                dlt *= 0.5
    elif xm == 'near':
        x0 = z + _unit(rng, n) * s * rng.uniform(0.1, 3.0)
    else:
        x0 = z + _unit(rng, n) * s * 10.0 ** rng.uniform(1, 3)
    tol = None if rng.random() < 0.5 else float(rng.choice([1e-4, 1e-6, 1e-8, 1e-12, 1e-14, 0.0], p=[.2, .2, .2, .15, .15, .1]))
    mi = None if rng.random() < 0.5 else int(rng.choice([1, 2, 5, 20, 300, 1000, 0], p=[.1, .1, .2, .2, .2, .15, .05]))
    if mi is not None and mi < _MIN_MAX_ITER:
        mi = _MIN_MAX_ITER          # only values the solver's own parameter table admits for dykstra.max_iters
    return dict(n=n, mode=mode, x0mode=xm, sets=[set_to_json(t) for t in sets], x0=_hx(x0),
                tol=(None if tol is None else float(tol).hex()), max_iter=mi)


def _table_lower_bound():
    """lower bound of dykstra.max_iters in the parameter table of the tree under test (0 before the repair of F29, 1 after)"""
    try:
        from dfols.params import ParameterList
        return int(ParameterList(2, 3, 10).param_type('dykstra.max_iters', 3)[2])
    except Exception:
        return 0


_MIN_MAX_ITER = _table_lower_bound()


# -------------------------------------------------------------------------------------------------------- checking
def check_case(case, ref_sweeps=4000):
    """returns (violations, info)"""
    sets = [set_from_json(d) for d in case['sets']]
    x0 = _unhx(case['x0'])
    kwargs = {}
    if case.get('tol') is not None:
        kwargs['tol'] = float.fromhex(case['tol'])
    if case.get('max_iter') is not None:
        kwargs['max_iter'] = int(case['max_iter'])
    P = [used_projector(t) for t in sets]
    p = len(P)
    x0_before = x0.copy()
    out, cp = run_counted(dutil.dykstra, P, x0, kwargs)
    if not np.array_equal(x0, x0_before):
        raise RuntimeError('oracle assumption broken: dykstra modified its input')
    out = np.asarray(out, dtype=float)
    sweeps, max_iter, tol, kind = classify(dutil.dykstra, P, x0, kwargs, cp.total())
    mag = data_magnitude(sets, x0)
    slack = SLACK * (1.0 + mag)
    viol = []
    info = dict(kind=kind, sweeps=sweeps, p=p, n=x0.size, tol=tol, max_iter=max_iter)

    def V(sig, what, **extra):
        d = dict(case)
        d['signature'] = sig
        d.update(extra)
        viol.append(dict(signature=sig, what=what, data=d))

    if kind == 'partial':
        V('C15:partial_sweep', 'projector calls %d not a multiple of p=%d' % (cp.total(), p))
        return viol, info
    if sweeps > max_iter:
        V('C15:too_many_sweeps', '%d sweeps with max_iter=%d' % (sweeps, max_iter))
    if not np.all(np.isfinite(out)):
        V('C15:nonfinite_result', 'result %r' % (out.tolist(),))
        return viol, info
    feasible0 = all(in_set(t, x0) for t in sets)
    info['x0_feasible'] = feasible0
    # last set a box: exact membership
    last = sets[-1]
    if last['kind'] == 'box':
        if not (np.all(last['l'] <= out) and np.all(out <= last['u'])):
            worst = float(max(np.max(last['l'] - out), np.max(out - last['u'])))
            if max_iter == 0:
                V('C15:not_in_last_box:max_iter_0', 'max_iter=0: no sweep performed, x0 returned although outside the last box by %.3g' % worst)
            else:
                V('C15:not_in_last_box', 'result outside the last (box) set by %.3g after %d sweeps' % (worst, sweeps))
    # feasible start unchanged
    if feasible0:
        dev = float(np.max(np.abs(out - x0))) if x0.size else 0.0
        lim = 1e-15 * max(mag, 1e-300)
        info['moved_rel'] = dev / max(mag, 1e-300)
        if dev > lim:
            V('C15:feasible_point_moved', 'x0 in all sets moved by %.3g (limit 1e-15*%.3g), stop=%s sweeps=%d' % (dev, mag, kind, sweeps),
              deviation=float(dev).hex())
    if kind == 'rule':
        bound = math.sqrt(p * tol)
        dists = [dist_to_set(t, out) for t in sets]
        info['max_dist_over_bound'] = (max(dists) / bound) if bound > 0 else (0.0 if max(dists) == 0 else float('inf'))
        for i, d in enumerate(dists):
            if d > bound + slack:
                V('C15:infeasible_after_rule_stop', 'stopped by rule after %d sweeps, distance %.3g to set %d (%s) > sqrt(p*tol)=%.3g'
                  % (sweeps, d, i, sets[i]['kind'], bound), set_index=i, distance=float(d).hex())
                break
        xref, cert, rs = reference_projection(sets, x0, ref_sweeps)
        info['ref_cert'] = cert
        info['ref_sweeps'] = rs
        err = float(np.linalg.norm(out - xref))
        # |out - x*| lies in [err - cert, err + cert]: decide only when the certificate allows it
        if err + cert <= 1e-3 or err - cert > 1e-3 + slack:
            info['err_true'] = err
            if err - cert > 1e-3 + slack:
                V('C15:far_from_true_projection',
                  'stopped by rule after %d sweeps (tol=%g, max_iter=%d), |result - true projection| = %.4g > 1e-3 (reference certified to %.1g); '
                  'mode=%s kinds=%s |x0-proj|=%.3g' % (sweeps, tol, max_iter, err, cert, case.get('mode'),
                                                     '+'.join(t['kind'] for t in sets), float(np.linalg.norm(x0 - xref))),
                  error=float(err).hex(), reference=_hx(xref), result=_hx(out), sweeps=int(sweeps))
        else:
            info['ref_uncertified'] = True
    info['nontrivial'] = (not feasible0) and p >= 2 and sweeps >= 2
    return viol, info


def _bump(d, k, n=1):
    d[k] = d.get(k, 0) + n


def tasks(seed, tier):
    nt = 48 if tier == 'quick' else 480
    per = 100 if tier == "quick" else 200
    return [dict(seed=int(seed), idx=i, tier=tier, ncases=per) for i in range(nt)]


def run_task(task):
    import time
    t0 = time.process_time()
    rng = np.random.default_rng((int(task['seed']), int(task['idx'])))
    st = {}
    viol = []
    nontriv = 0
    sample = None
    ref_sweeps = 4000 if task["tier"] == "quick" else 20000
    for c in range(int(task['ncases'])):
        case = gen_case(rng, task['tier'])
        v, info = check_case(case, ref_sweeps)
        viol.extend(v)
        _bump(st, 'stop:' + info['kind'])
        _bump(st, 'n=%d' % info['n'])
        _bump(st, 'p=%d' % info['p'])
        _bump(st, 'mode:' + case['mode'])
        _bump(st, 'x0:' + case['x0mode'])
        _bump(st, 'tol:' + ('default' if case['tol'] is None else '%g' % float.fromhex(case['tol'])))
        _bump(st, 'max_iter:' + ('default' if case['max_iter'] is None else str(case['max_iter'])))
        _bump(st, 'last_is_box' if case['sets'][-1]['kind'] == 'box' else 'last_not_box')
        for t in case['sets']:
            _bump(st, 'set:%s/%s' % (t['kind'], t['impl']))
        if info.get('x0_feasible'):
            _bump(st, 'x0_feasible')
        if info['kind'] == 'rule':
            _bump(st, 'rule:tol_' + ('default' if case['tol'] is None else 'user'))
            tc = 'default' if case['tol'] is None else '%g' % float.fromhex(case['tol'])
            if info.get('ref_uncertified'):
                _bump(st, 'rule:reference_uncertified(closeness clause skipped)')
            else:
                e = info.get('err_true', 0.0)
                _bump(st, 'rule:err_true' + ('<=1e-9' if e <= 1e-9 else '<=1e-6' if e <= 1e-6 else '<=1e-3' if e <= 1e-3 else '>1e-3'))
                _bump(st, 'closeness_judged:tol=%s' % tc)
                if e > 1e-3:
                    _bump(st, 'closeness_failed:tol=%s:mode=%s:x0=%s' % (tc, case['mode'], case['x0mode']))
            r = info.get('max_dist_over_bound', 0.0)
            _bump(st, 'rule:dist/bound' + ('=0' if r == 0 else '<=0.01' if r <= 0.01 else '<=1' if r <= 1 else '>1'))
        sw = info['sweeps']
        _bump(st, 'sweeps:' + ('0' if sw == 0 else '1' if sw == 1 else '2-5' if sw <= 5 else '6-20' if sw <= 20 else '21-100' if sw <= 100 else '>100'))
        if info.get('nontrivial'):
            nontriv += 1
            if sample is None:
                sample = dict(case=case, info={k: (v2 if not isinstance(v2, (np.floating, np.integer)) else float(v2)) for k, v2 in info.items()})
    st['cpu_ms'] = int(1000 * (time.process_time() - t0))
    return dict(evaluations=int(task['ncases']), nontrivial=nontriv, violations=viol, stats=st, sample=sample)


def replay(data):
    sig = data.get('signature')
    v, _info = check_case(data, 40000)
    for x in v:
        if sig is None or x['signature'] == sig:
            return x
    return None


if __name__ == '__main__':
    import time
    from multiprocessing import Pool
    seed = int(sys.argv[1]) if len(sys.argv) > 1 else 0
    tier = sys.argv[2] if len(sys.argv) > 2 else 'quick'
    t0 = time.time()
    ts = tasks(seed, tier)
    with Pool(16) as pool:
        rs = pool.map(run_task, ts)
    st = {}
    sigs = {}
    for r in rs:
        for k, v in r['stats'].items():
            _bump(st, k, v)
        for v in r['violations']:
            _bump(sigs, v['signature'])
    print(json.dumps(dict(seed=seed, wall=round(time.time() - t0, 1), evaluations=sum(r['evaluations'] for r in rs),
                          nontrivial=sum(r['nontrivial'] for r in rs), violations=sigs, stats=dict(sorted(st.items()))), indent=1))
