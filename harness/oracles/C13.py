"""C13 oracle: geometry and convex-constrained step solvers stay inside their regions (see /verif/properties.jsonl).

Four kinds of task (field 'kind'):
  geom      x = trsbox_geometry(xbase, c, g, lower, upper, Delta, use_fortran=False)
              C13:geom_outside_box          some x_i outside [lower_i, upper_i] by more than 1e-12 relative
              C13:geom_outside_ball         ||x - xbase|| > Delta*(1+1e-8)
              C13:geom_not_global_max       |c + g's| < (1-1e-6) * max over box-and-ball (exact oracle, see lin_min)
              C13:geom_worse_than_not_moving  |c + g's| < |c|
              C13:geom_nonfinite / C13:geom_exception
  convex    ctrsbox_pgd / ctrsbox_sfista / ctrsbox_geometry with projections onto balls, half-spaces and boxes that
            contain the centre
              C13:pgd_radius, C13:sfista_radius, C13:cgeom_radius       ||d|| > Delta*(1+1e-8)
              C13:pgd_nonfinite[:zero_hessian], C13:sfista_nonfinite, C13:cgeom_nonfinite, C13:<solver>_exception
  regstep   Controller.trust_region_step on a constructed model (random J, r, xopt offset, delta, regulariser, bounds
            or projections, optional scaling)
              C13:reg_step_negative_reduction   h(x) - (g.d + 0.5 d'Hd + h(x+d)) < 0 for the step handed back
  regsolve  the same clause observed by wrapping Controller.trust_region_step during small regularised dfols.solve runs
"""
import math
import os
for _v in ('OMP_NUM_THREADS', 'OPENBLAS_NUM_THREADS', 'MKL_NUM_THREADS'):   # tiny matrices: BLAS threads only cost time
    os.environ.setdefault(_v, '1')                                       # (effective when numpy is not yet imported)
import numpy as np

PID = 'C13'
RULE = ("geom: n in 1..8, Delta = 10^U(-3,2), xbase = 0 (50%) or N(0,1)*10^U(-1,1), g = N(0,1)*10^U(-2,2) with exact zeros "
        "(25% of cases: each component w.p. 0.4), almost-zeros (10% of cases: components of size 1e-15..1e-17, at least one "
        "component stays >= 1e-10 in size) and g = 0 (2%); c = 0 (30%), 1 (20%) or N(0,1)*10^U(-3,3); each side of the box "
        "independently active (gap 0), tiny (Delta*10^U(-14,-6)), comparable (Delta*U(0.05,1.5)), far (Delta*10^U(1,3)) or "
        "absent (1e20); 5% of coordinates have lower == upper == xbase.  NON-TRIVIAL geom case: g != 0 and the exact "
        "maximiser has at least one coordinate clipped at a box side (the box matters) .  "
        "convex: n in 1..6 (at most 4 with two or more sets), Delta = 10^U(-3,2), 0..3 sets among ball / half-space / box of size Delta*10^U(-1.5,1.5), each "
        "containing the centre, with the centre on the boundary of the set w.p. 0.3; H fullrank/rankdef/indefinite (zero H "
        "w.p. 3%); solver pgd / sfista (h = lam*||x||_1 or lam*||x||_2, lam = 10^U(-2,1)) / convex geometry.  NON-TRIVIAL "
        "convex case: at least one set besides the trust region and the returned step is non-zero.  "
        "regstep: Controller built directly (n in 1..5, m in 1..n+2), model_jac/model_const random, xopt offset inside the "
        "bounds, delta = 10^U(-3,1), bounds or projections, scaling_within_bounds-type scaling in 25% of the bound cases; "
        "NON-TRIVIAL when the raw S-FISTA step had negative predicted reduction (zero step substituted) or a bound/set is "
        "active at xopt.  regsolve: regularised linear-least-squares runs (n in 2..4, maxfun = npt+10) with every "
        "trust_region_step call checked; NON-TRIVIAL call: zero step substituted.  All draws from "
        "numpy.random.default_rng((seed, task_index)); numpy's global generator is seeded per solve for replay.  A convex / "
        "regstep case that needs more than 4 s CPU (regsolve: 8 s) is abandoned and counted under */skipped_cpu_limit.")

EPS = 2.0 ** -52


# ---------------------------------------------------------------------------------------------- (de)serialisation
def _hx(a):
    a = np.asarray(a, dtype=float)
    if a.ndim == 0:
        return float(a).hex()
    if a.ndim == 1:
        return [float(v).hex() for v in a]
    return [[float(v).hex() for v in row] for row in a]


def _unhx(h):
    if isinstance(h, str):
        return float.fromhex(h)
    if len(h) > 0 and isinstance(h[0], list):
        return np.array([[float.fromhex(v) for v in row] for row in h], dtype=float)
    return np.array([float.fromhex(v) for v in h], dtype=float)


def _bump(stats, key, n=1):
    stats[key] = stats.get(key, 0) + n


class _CaseTimeout(BaseException):
    """raised by the CPU-time guard; BaseException so that neither dfols nor the checks below swallow it"""


def _on_vtalrm(signum, frame):
    raise _CaseTimeout()


def with_cpu_limit(seconds, fn, *args):
    """run fn(*args) with a limit on the CPU time of this process (ITIMER_VIRTUAL / SIGVTALRM, which does not disturb a
    SIGALRM set by the caller).  Returns (True, result) or (False, None).  The Dykstra-based solvers have a worst case of
    100 n^2 outer x 100 inner sweeps x number of sets, i.e. > 10 s for n >= 5 with three sets; such a case is skipped
    and counted in stats, it is neither an evaluation nor a violation."""
    import signal
    try:
        old = signal.signal(signal.SIGVTALRM, _on_vtalrm)
    except (ValueError, AttributeError):      # not in the main thread / not available: run unguarded
        return True, fn(*args)
    try:
        signal.setitimer(signal.ITIMER_VIRTUAL, seconds)
        try:
            out = fn(*args)
        finally:
            signal.setitimer(signal.ITIMER_VIRTUAL, 0)
        return True, out
    except _CaseTimeout:
        return False, None
    finally:
        signal.signal(signal.SIGVTALRM, old)


# ---------------------------------------------------------------------------------------------- exact linear oracle
def lin_min(g, a, b, Delta):
    """exact minimiser of g's over {a <= s <= b, ||s|| <= Delta} (a <= 0 <= b): s(t) = clip(-t g, a, b) for the largest
    t with ||s(t)|| <= Delta.  ||s(t)|| is piecewise of the form sqrt(A + t^2 B) between the breakpoints
    t_i = bound_i/|g_i|, so t is found exactly.  Returns (s, g.s, number of clipped coordinates)."""
    n = g.size
    s = np.zeros(n)
    idx = [i for i in range(n) if g[i] != 0.0]
    if not idx:
        return s, 0.0, 0
    bound = np.array([(b[i] if g[i] < 0.0 else -a[i]) for i in idx])     # room in the direction of -g_i (>= 0)
    ag = np.abs(g[idx])
    tb = bound / ag
    order = np.argsort(tb)
    A = 0.0                       # sum of squares of the clipped coordinates
    B = float(np.dot(ag, ag))     # sum of g_i^2 over unclipped coordinates
    tprev = 0.0
    tstar = None
    nclip = 0
    for k in order:
        # on [tprev, tb[k]] the norm is sqrt(A + t^2 B)
        if B > 0.0 and A + tb[k] ** 2 * B > Delta ** 2:
            tstar = math.sqrt(max(Delta ** 2 - A, 0.0) / B)
            tstar = min(max(tstar, tprev), tb[k])
            break
        A += bound[k] ** 2
        tprev = tb[k]
        nclip += 1
        rest = order[nclip:]
        B = float(np.dot(ag[rest], ag[rest]))      # recomputed, not updated: no cancellation
    for j, i in enumerate(idx):
        mag = bound[j] if (tstar is None or tb[j] <= tstar) else tstar * ag[j]
        s[i] = mag if g[i] < 0.0 else -mag
    s = np.minimum(np.maximum(s, a), b)
    ns = float(np.linalg.norm(s))
    if ns > Delta:
        s *= Delta / ns * (1.0 - 4 * EPS)
    return s, float(np.dot(g, s)), nclip


def lin_min_bisect(g, a, b, Delta):
    """the same by plain bisection on t (used to cross-check lin_min in the self-test)"""
    def s_of(t):
        return np.minimum(np.maximum(-t * g, a), b)
    if not np.any(g != 0.0):
        return np.zeros(g.size), 0.0
    hi = 1.0
    while np.linalg.norm(s_of(hi)) <= Delta and hi < 1e300:
        hi *= 4.0
    if hi >= 1e300:
        s = s_of(hi)
        return s, float(np.dot(g, s))
    lo = 0.0
    for _ in range(300):
        mid = 0.5 * (lo + hi)
        if np.linalg.norm(s_of(mid)) <= Delta:
            lo = mid
        else:
            hi = mid
    s = s_of(lo)
    return s, float(np.dot(g, s))


# ---------------------------------------------------------------------------------------------- geom cases
def gen_geom(rng):
    n = int(rng.integers(1, 9))
    Delta = 10.0 ** rng.uniform(-3, 2)
    xbase = np.zeros(n) if rng.random() < 0.5 else rng.standard_normal(n) * 10.0 ** rng.uniform(-1, 1)
    gscale = 10.0 ** rng.uniform(-2, 2)
    g = rng.standard_normal(n) * gscale
    gkind = 'dense'
    u = rng.random()
    if u < 0.02:
        g = np.zeros(n)
        gkind = 'zero'
    elif u < 0.27:
        g[rng.random(n) < 0.4] = 0.0
        gkind = 'zeros'
    elif u < 0.37:
        keep = int(rng.integers(0, n))
        for i in range(n):
            if i != keep and rng.random() < 0.5:
                g[i] = 10.0 ** rng.uniform(-17, -15) * (1 if rng.random() < 0.5 else -1)
        if abs(g[keep]) < 1e-10:
            g[keep] = math.copysign(1e-10, g[keep] if g[keep] != 0 else 1.0)
        gkind = 'almost_zeros'
    if gkind in ('dense', 'zeros') and np.any(g != 0.0) and np.max(np.abs(g)) < 1e-10:
        g = g * (1e-10 / np.max(np.abs(g)))
    if gkind == 'dense' and rng.random() < 0.08:
        # a small but non-negligible gradient (Lagrange gradients scale like 1/Delta): every component well above the
        # routine's ZERO_THRESH = 1e-14, norm far below 1
        g = g / gscale * 10.0 ** rng.uniform(-11.5, -7.5)
        g[np.abs(g) < 1e-13] = 1e-13
        gkind = 'small'
    u = rng.random()
    c = 0.0 if u < 0.3 else (1.0 if u < 0.5 else float(rng.standard_normal() * 10.0 ** rng.uniform(-3, 3)))
    lower = np.empty(n)
    upper = np.empty(n)

    def gap():
        k = int(rng.choice(5, p=[0.2, 0.15, 0.3, 0.2, 0.15]))
        if k == 0:
            return 0.0
        if k == 1:
            return Delta * 10.0 ** rng.uniform(-14, -6)
        if k == 2:
            return Delta * rng.uniform(0.05, 1.5)
        if k == 3:
            return Delta * 10.0 ** rng.uniform(1, 3)
        return None
    for i in range(n):
        if rng.random() < 0.05:
            lower[i] = upper[i] = xbase[i]
            continue
        gl, gu = gap(), gap()
        lower[i] = -1e20 if gl is None else min(xbase[i] - gl, xbase[i])
        upper[i] = 1e20 if gu is None else max(xbase[i] + gu, xbase[i])
    return dict(fn='trsbox_geometry', xbase=xbase, c=c, g=g, lower=lower, upper=upper, Delta=Delta, gkind=gkind)


def _geom_data(cs):
    return dict(fn='trsbox_geometry', n=int(cs['g'].size), xbase=_hx(cs['xbase']), c=_hx(cs['c']), g=_hx(cs['g']),
                lower=_hx(cs['lower']), upper=_hx(cs['upper']), Delta=_hx(cs['Delta']),
                readable=dict(xbase=[float(v) for v in cs['xbase']], c=float(cs['c']), g=[float(v) for v in cs['g']],
                              lower=[float(v) for v in cs['lower']], upper=[float(v) for v in cs['upper']],
                              Delta=float(cs['Delta'])))


def check_geom(cs):
    from dfols.trust_region import trsbox_geometry
    xbase, c, g, lower, upper, Delta = cs['xbase'], cs['c'], cs['g'], cs['lower'], cs['upper'], cs['Delta']
    n = g.size
    viol = []

    def v(sig, what, **extra):
        d = _geom_data(cs)
        d['clause'] = sig
        d.update(extra)
        viol.append(dict(signature=sig, what=what, data=d))
    try:
        with np.errstate(all='ignore'):
            x = trsbox_geometry(xbase.copy(), c, g.copy(), lower.copy(), upper.copy(), Delta, use_fortran=False)
    except Exception as ex:
        v('C13:geom_exception', 'trsbox_geometry raised %s: %s' % (type(ex).__name__, ex))
        return viol, dict(failed=True)
    x = np.asarray(x, dtype=float)
    if x.shape != (n,) or not np.all(np.isfinite(x)):
        v('C13:geom_nonfinite', 'trsbox_geometry returned a non-finite or mis-shaped point', x=_hx(x.ravel()))
        return viol, dict(failed=True)
    s = x - xbase
    a = np.minimum(lower - xbase, 0.0)
    b = np.maximum(upper - xbase, 0.0)
    # -- box, to 1e-12 relative (relative to the size of the numbers involved, with floor 1: the routine widens every
    #    side by ZERO_THRESH = 1e-14 absolute, which is counted in stats but is inside this tolerance)
    sc = np.maximum(1.0, np.maximum(np.abs(xbase), Delta))
    tol_l = 1e-12 * np.maximum(sc, np.where(np.abs(lower) < 1e19, np.abs(lower), 0.0))
    tol_u = 1e-12 * np.maximum(sc, np.where(np.abs(upper) < 1e19, np.abs(upper), 0.0))
    exc = np.maximum(lower - x, x - upper)
    bad = (x < lower - tol_l) | (x > upper + tol_u)
    if np.any(bad):
        i = int(np.argmax(bad))
        v('C13:geom_outside_box', 'x[%d] = %r outside [%r, %r] by %.3g (xbase %r, Delta %r)' %
          (i, float(x[i]), float(lower[i]), float(upper[i]), float(exc[i]), float(xbase[i]), Delta), x=_hx(x), coord=i)
    # -- ball
    ns = float(np.linalg.norm(s))
    if not ns <= Delta * (1.0 + 1e-8) + 4 * EPS * float(np.linalg.norm(xbase)):
        v('C13:geom_outside_ball', '||x - xbase|| = %.17g > Delta*(1+1e-8), Delta = %.17g' % (ns, Delta), x=_hx(x))
    # -- global optimality and never worse than not moving
    smin, vmin, clip1 = lin_min(g, a, b, Delta)
    smax, vmax, clip2 = lin_min(-g, a, b, Delta)
    vmax = -vmax
    best = max(abs(c + vmin), abs(c + vmax))
    got = abs(c + float(np.dot(g, s)))
    # s is recomputed here as x - xbase: its rounding error is eps*(|x|+|xbase|) per coordinate
    rnd = 4 * EPS * (abs(c) + float(np.dot(np.abs(g), np.abs(x) + np.abs(xbase))))
    # components of g below ZERO_THRESH = 1e-14 in size are regarded as zero by the routine (the repository's own tests
    # TestGeom2WithAlmostZeros/2 demand exactly that); what they could contribute is granted as slack
    tiny = (np.abs(g) < 1e-14)
    rnd += float(np.dot(np.abs(g[tiny]), np.minimum(Delta, np.maximum(-a[tiny], b[tiny])))) if np.any(tiny) else 0.0
    if not got >= best * (1.0 - 1e-6) - rnd:
        v('C13:geom_not_global_max', '|c + g.s| = %.10g but the maximum over box and ball is %.10g (relative gap %.3g)' %
          (got, best, (best - got) / best if best > 0 else float('nan')), x=_hx(x),
          sbest=_hx(smin if abs(c + vmin) >= abs(c - (-vmax)) else smax))
    if not got >= abs(c) - rnd:
        v('C13:geom_worse_than_not_moving', '|c + g.s| = %.17g < |c| = %.17g' % (got, abs(c)), x=_hx(x))
    clipped = clip1 if abs(c + vmin) >= abs(c + vmax) else clip2
    info = dict(outside_abs=bool(np.any(exc > 0.0)), clipped=clipped, on_ball=bool(ns >= Delta * (1 - 1e-9)),
                nontrivial=bool(np.any(g != 0.0) and clipped > 0), best=best, got=got)
    return viol, info


# ---------------------------------------------------------------------------------------------- convex sets
def make_proj(desc):
    kind = desc[0]
    if kind == 'ball':
        cen, r = np.asarray(desc[1], dtype=float), float(desc[2])

        def pb(x, cen=cen, r=r):
            dx = x - cen
            nd = np.linalg.norm(dx)
            return x.copy() if nd <= r else cen + (r / nd) * dx
        return pb
    if kind == 'half':
        a, b = np.asarray(desc[1], dtype=float), float(desc[2])
        aa = float(np.dot(a, a))
        return lambda x, a=a, b=b, aa=aa: x - (max(float(np.dot(a, x)) - b, 0.0) / aa) * a
    if kind == 'box':
        lo, hi = np.asarray(desc[1], dtype=float), np.asarray(desc[2], dtype=float)
        return lambda x, lo=lo, hi=hi: np.minimum(np.maximum(x, lo), hi)
    raise ValueError('unknown set %r' % (kind,))


def gen_sets(rng, xc, Delta, force_box=False):
    """0..3 convex sets containing xc; returns list of descriptors (kind, arrays as lists of floats)"""
    n = xc.size
    kinds = []
    for k in ('ball', 'half', 'box'):
        if rng.random() < 0.45 or (force_box and k == 'box'):
            kinds.append(k)
    rng.shuffle(kinds)
    sets = []
    for k in kinds:
        size = Delta * 10.0 ** rng.uniform(-1.5, 1.5)
        on_bdry = rng.random() < 0.3
        if k == 'ball':
            u = rng.standard_normal(n)
            u /= max(np.linalg.norm(u), 1e-300)
            off = size * (1.0 if on_bdry else rng.uniform(0, 0.95))
            cen = xc + off * u
            r = max(size, float(np.linalg.norm(xc - cen)))       # xc inside (on the boundary when on_bdry)
            sets.append(('ball', [float(t) for t in cen], float(r)))
        elif k == 'half':
            a = rng.standard_normal(n)
            if not np.any(a != 0.0):
                a = np.ones(n)
            slack = 0.0 if on_bdry else size * rng.uniform(0.01, 1.0) * float(np.linalg.norm(a))
            bb = float(np.dot(a, xc)) + slack
            bb = max(bb, float(np.dot(a, xc)))
            sets.append(('half', [float(t) for t in a], bb))
        else:
            lo = xc - size * rng.uniform(0, 1, n)
            hi = xc + size * rng.uniform(0, 1, n)
            if on_bdry:
                m = rng.random(n) < 0.5
                lo[m] = xc[m]
                m2 = (rng.random(n) < 0.3) & ~m
                hi[m2] = xc[m2]
            lo = np.minimum(lo, xc)
            hi = np.maximum(hi, xc)
            sets.append(('box', [float(t) for t in lo], [float(t) for t in hi]))
    return sets


def h_l1(x, lam):
    return lam * float(np.sum(np.abs(x)))


def prox_l1(x, u, lam):
    return np.sign(x) * np.maximum(np.abs(x) - lam * u, 0.0)


def h_l2(x, lam):
    return lam * float(np.linalg.norm(x))


def prox_l2(x, u, lam):
    nx = float(np.linalg.norm(x))
    if nx <= lam * u:
        return np.zeros(x.shape)
    return (1.0 - lam * u / nx) * x


REGS = dict(l1=(h_l1, prox_l1, lambda lam, n: lam * math.sqrt(n)), l2=(h_l2, prox_l2, lambda lam, n: lam))


def gen_H(rng, n, pzero=0.03):
    hk = ['fullrank', 'rankdef', 'indef'][int(rng.integers(0, 3))]
    if rng.random() < pzero:
        hk = 'zero'
    if hk == 'rankdef' and n == 1:
        hk = 'fullrank'
    hs = 10.0 ** rng.uniform(-2, 2)
    if hk == 'fullrank':
        J = rng.standard_normal((n + int(rng.integers(0, 3)), n)) * math.sqrt(hs)
        H = 2.0 * J.T.dot(J)
    elif hk == 'rankdef':
        J = rng.standard_normal((int(rng.integers(1, n)), n)) * math.sqrt(hs)
        H = 2.0 * J.T.dot(J)
    elif hk == 'zero':
        H = np.zeros((n, n))
    else:
        A = rng.standard_normal((n, n))
        H = (A + A.T) * (0.5 * hs)
    return 0.5 * (H + H.T), hk


def gen_convex(rng):
    n = int(rng.integers(1, 7))
    Delta = 10.0 ** rng.uniform(-3, 2)
    xopt = np.zeros(n) if rng.random() < 0.4 else rng.standard_normal(n) * 10.0 ** rng.uniform(-1, 1)
    sets = gen_sets(rng, xopt, Delta)
    if len(sets) >= 2 and n > 4:          # keeps the worst case of the projected-gradient loops affordable
        n = 4
        xopt = xopt[:n].copy()
        sets = gen_sets(rng, xopt, Delta)
    g = rng.standard_normal(n) * 10.0 ** rng.uniform(-2, 2)
    if rng.random() < 0.25:
        g[rng.random(n) < 0.4] = 0.0
    H, hk = gen_H(rng, n)
    solver = ['pgd', 'sfista', 'cgeom'][int(rng.integers(0, 3))]
    cs = dict(fn=solver, xopt=xopt, g=g, H=H, hkind=hk, sets=sets, Delta=Delta)
    if solver == 'sfista':
        cs['reg'] = ['l1', 'l2'][int(rng.integers(0, 2))]
        cs['lam'] = 10.0 ** rng.uniform(-2, 1)
        hn = float(np.linalg.norm(H, 2))
        cs['func_tol'] = (0.1 * min(Delta, 1.0 / max(hn, 1.0))) if rng.random() < 0.7 else 10.0 ** rng.uniform(-4, -2)
        cs['iters_scale'] = 1.0 if rng.random() < 0.5 else 2.0
    if solver == 'cgeom':
        u = rng.random()
        cs['c'] = 0.0 if u < 0.3 else (1.0 if u < 0.5 else float(rng.standard_normal() * 10.0 ** rng.uniform(-2, 2)))
    return cs


def _convex_data(cs):
    d = dict(fn=cs['fn'], n=int(cs['g'].size), xopt=_hx(cs['xopt']), g=_hx(cs['g']), H=_hx(cs['H']), hkind=cs['hkind'],
             Delta=_hx(cs['Delta']),
             sets=[[s[0]] + [(_hx(t) if not isinstance(t, str) else t) for t in s[1:]] for s in cs['sets']],
             readable=dict(xopt=[float(t) for t in cs['xopt']], g=[float(t) for t in cs['g']], Delta=float(cs['Delta']),
                           sets=cs['sets']))
    for k in ('reg', 'iters_scale'):
        if k in cs:
            d[k] = cs[k]
    for k in ('lam', 'func_tol', 'c'):
        if k in cs:
            d[k] = _hx(cs[k])
    return d


def check_convex(cs):
    from dfols.trust_region import ctrsbox_pgd, ctrsbox_sfista, ctrsbox_geometry
    xopt, g, H, Delta = cs['xopt'], cs['g'], cs['H'], cs['Delta']
    n = g.size
    projs = [make_proj(s) for s in cs['sets']]
    fn = cs['fn']
    viol = []

    def v(sig, what, **extra):
        d = _convex_data(cs)
        d['clause'] = sig
        d.update(extra)
        viol.append(dict(signature=sig, what=what, data=d))
    try:
        with np.errstate(all='ignore'):
            if fn == 'pgd':
                d, _gn, _cr = ctrsbox_pgd(xopt.copy(), g.copy(), H.copy(), projs, Delta)
            elif fn == 'sfista':
                hf, pf, lf = REGS[cs['reg']]
                d, _gn, _cr = ctrsbox_sfista(xopt.copy(), g.copy(), H.copy(), projs, Delta, hf, lf(cs['lam'], n), pf,
                                             argsh=(cs['lam'],), argsprox=(cs['lam'],), func_tol=cs['func_tol'],
                                             sfista_iters_scale=cs['iters_scale'])
            else:
                d = ctrsbox_geometry(xopt.copy(), cs['c'], g.copy(), projs, Delta)
    except Exception as ex:
        v('C13:%s_exception' % fn, '%s raised %s: %s' % (fn, type(ex).__name__, ex))
        return viol, dict(failed=True)
    d = np.asarray(d, dtype=float)
    if d.shape != (n,) or not np.all(np.isfinite(d)):
        cls = ':zero_hessian' if (fn == 'pgd' and not np.any(H != 0.0)) else ''
        v('C13:%s_nonfinite%s' % (fn, cls), '%s returned a non-finite step %r' % (fn, d.tolist()), d=_hx(d.ravel()))
        return viol, dict(failed=True)
    nd = float(np.linalg.norm(d))
    # the step is returned as fl(p - xopt) with ||p - xopt|| <= Delta: allow that one rounding
    if not nd <= Delta * (1.0 + 1e-8) + 4 * EPS * float(np.linalg.norm(xopt)):
        v('C13:%s_radius' % fn, '||d|| = %.17g > Delta*(1+1e-8), Delta = %.17g (ratio-1 = %.3g)' %
          (nd, Delta, nd / Delta - 1.0), d=_hx(d))
    info = dict(nd=nd, on_ball=bool(nd >= Delta * (1 - 1e-9)), nontrivial=bool(len(projs) > 0 and nd > 0.0))
    return viol, info


# ---------------------------------------------------------------------------------------------- regularised step
def gen_regstep(rng):
    n = int(rng.integers(1, 6))
    m = int(rng.integers(1, n + 3))
    delta = 10.0 ** rng.uniform(-3, 1)
    x0 = np.zeros(n) if rng.random() < 0.3 else rng.standard_normal(n) * 10.0 ** rng.uniform(-1, 1)
    mode = ['bounds', 'proj', 'none'][int(rng.choice(3, p=[0.5, 0.35, 0.15]))]
    cs = dict(fn='regstep', n=n, m=m, delta=delta, mode=mode, reg=['l1', 'l2'][int(rng.integers(0, 2))],
              lam=10.0 ** rng.uniform(-2, 1.5))
    # xopt = xbase + off
    off = rng.standard_normal(n) * delta * rng.uniform(0, 2) if rng.random() < 0.6 else np.zeros(n)
    xl = -1e20 * np.ones(n)
    xu = 1e20 * np.ones(n)
    scaling = None
    if mode == 'bounds':
        gl = delta * 10.0 ** rng.uniform(-1, 1.5, n)
        gu = delta * 10.0 ** rng.uniform(-1, 1.5, n)
        act_l = rng.random(n) < 0.25
        act_u = (rng.random(n) < 0.2) & ~act_l
        xopt = x0 + off
        xl = np.where(act_l, xopt, xopt - gl)
        xu = np.where(act_u, xopt, xopt + gu)
        xl = np.minimum(xl, np.minimum(x0, xopt))     # Model wants sl <= 0 <= su is not required, but keep x0 feasible
        xu = np.maximum(xu, np.maximum(x0, xopt))
        if rng.random() < 0.25:
            scaling = (rng.standard_normal(n), 10.0 ** rng.uniform(-1, 1, n))
        cs['sets'] = []
    elif mode == 'proj':
        cs['sets'] = gen_sets(rng, x0 + off, delta, force_box=(rng.random() < 0.3))
        if not cs['sets']:
            cs['sets'] = gen_sets(rng, x0 + off, delta, force_box=True)
    else:
        cs['sets'] = []
    cs.update(x0=x0, off=off, xl=xl, xu=xu, scaling=scaling)
    cs['J'] = rng.standard_normal((m, n)) * 10.0 ** rng.uniform(-1.5, 1.5)
    cs['r'] = rng.standard_normal(m) * 10.0 ** rng.uniform(-2, 2)
    if rng.random() < 0.03:
        cs['J'] = np.zeros((m, n))
    cs['crit'] = 1e-2 if rng.random() < 0.5 else 10.0 ** rng.uniform(-4, 2)
    return cs


def _regstep_data(cs):
    d = dict(fn='regstep', n=cs['n'], m=cs['m'], delta=_hx(cs['delta']), mode=cs['mode'], reg=cs['reg'], lam=_hx(cs['lam']),
             x0=_hx(cs['x0']), off=_hx(cs['off']), xl=_hx(cs['xl']), xu=_hx(cs['xu']), J=_hx(cs['J']), r=_hx(cs['r']),
             crit=_hx(cs['crit']), sets=[[s[0]] + [_hx(t) for t in s[1:]] for s in cs['sets']],
             scaling=None if cs['scaling'] is None else [_hx(cs['scaling'][0]), _hx(cs['scaling'][1])])
    return d


def _sets_from_data(sets):
    return [tuple([s[0]] + [(_unhx(t).tolist() if isinstance(_unhx(t), np.ndarray) else _unhx(t)) for t in s[1:]])
            for s in sets]


def pred_reduction(gopt, H, d, xabs, hf, lam, scaling):
    """h(x) - (g.d + 0.5 d'Hd + h(x+d)), evaluated in unscaled variables for h; returns (value, magnitude of terms)"""
    def unscale(z):
        return z if scaling is None else scaling[0] + z * scaling[1]
    h0 = hf(unscale(xabs), lam)
    h1 = hf(unscale(xabs + d), lam)
    lin = float(np.dot(gopt, d))
    quad = 0.5 * float(np.dot(d, H.dot(d)))
    return h0 - (lin + quad + h1), abs(h0) + abs(h1) + float(np.dot(np.abs(gopt), np.abs(d))) + abs(quad)


def check_regstep(cs):
    import dfols.controller as ctrl
    from dfols.params import ParameterList
    n, m = cs['n'], cs['m']
    hf, pf, lf = REGS[cs['reg']]
    lam = cs['lam']
    viol = []

    def v(sig, what, **extra):
        d = _regstep_data(cs)
        d['clause'] = sig
        d.update(extra)
        viol.append(dict(signature=sig, what=what, data=d))
    npt = n + 1
    params = ParameterList(n, npt, 100)
    projs = [make_proj(s) for s in cs['sets']]
    r0 = cs['r'].copy()
    control = ctrl.Controller(lambda x: r0, (), cs['x0'].copy(), r0, 1, cs['xl'].copy(), cs['xu'].copy(), projs, npt,
                              cs['delta'], 1e-8, 1, 1, 100, params, cs['scaling'], False, h=hf, lh=lf(lam, n),
                              argsh=(lam,), prox_uh=pf, argsprox=(lam,))
    control.delta = cs['delta']
    control.model.points[0, :] = cs['off']
    control.model.model_jac = cs['J'].copy()
    control.model.model_const = cs['r'].copy()
    raw = {}
    orig = ctrl.ctrsbox_sfista

    def spy(*a, **k):
        out = orig(*a, **k)
        raw['d'] = np.array(out[0], dtype=float)
        return out
    ctrl.ctrsbox_sfista = spy
    try:
        with np.errstate(all='ignore'):
            d, gopt, H, gnew, crvmin = control.trust_region_step(params, criticality_measure=cs['crit'])
    except Exception as ex:
        v('C13:reg_step_exception', 'Controller.trust_region_step raised %s: %s' % (type(ex).__name__, ex))
        return viol, dict(failed=True)
    finally:
        ctrl.ctrsbox_sfista = orig
    xabs = control.model.xopt(abs_coordinates=True)
    d = np.asarray(d, dtype=float)
    pr, mag = pred_reduction(gopt, H, d, xabs, hf, lam, cs['scaling'])
    if not pr >= -1e-12 * mag:
        v('C13:reg_step_negative_reduction', 'step handed back has predicted reduction %.6g (terms of size %.3g), d = %r' %
          (pr, mag, d.tolist()), d=_hx(d))
    subst = ('d' in raw) and np.any(raw['d'] != 0.0) and not np.any(d != 0.0)
    act = False
    if cs['mode'] == 'bounds':
        xo = cs['x0'] + cs['off']
        act = bool(np.any(xo <= cs['xl']) or np.any(xo >= cs['xu']))
    info = dict(substituted=bool(subst), zero=not np.any(d != 0.0), active=act, pr=pr,
                nontrivial=bool(subst or act or cs['mode'] == 'proj'))
    return viol, info


# ---------------------------------------------------------------------------------------------- regularised solves
def gen_regsolve(rng):
    n = int(rng.integers(2, 5))
    m = int(rng.integers(n, n + 3))
    cs = dict(fn='regsolve', n=n, m=m, A=rng.standard_normal((m, n)), b=rng.standard_normal(m) * 10.0 ** rng.uniform(-1, 1),
              nl=float(rng.choice([0.0, 0.3])), x0=rng.standard_normal(n), reg=['l1', 'l2'][int(rng.integers(0, 2))],
              lam=10.0 ** rng.uniform(-2, 1), mode=['none', 'bounds', 'proj'][int(rng.integers(0, 3))],
              npseed=int(rng.integers(0, 2 ** 31 - 1)), extra=int(rng.integers(6, 14)))
    if cs['mode'] == 'bounds':
        cs['xl'] = cs['x0'] - rng.uniform(0, 1, n) * (rng.random(n) < 0.7)
        cs['xu'] = cs['x0'] + 0.5 + rng.uniform(0, 1, n)
    elif cs['mode'] == 'proj':
        cs['ballr'] = float(np.linalg.norm(cs['x0']) * rng.uniform(1.0, 1.5) + 0.1)
    return cs


def _regsolve_data(cs):
    d = {k: cs[k] for k in ('fn', 'n', 'm', 'nl', 'reg', 'mode', 'npseed', 'extra')}
    for k in ('A', 'b', 'x0', 'lam', 'xl', 'xu', 'ballr'):
        if k in cs:
            d[k] = _hx(cs[k])
    return d


def check_regsolve(cs):
    """returns (violations, info); every Controller.trust_region_step call of the run is one evaluation"""
    import warnings
    import dfols
    import dfols.controller as ctrl
    n = cs['n']
    hf, pf, lf = REGS[cs['reg']]
    lam = cs['lam']
    A, b, nl = cs['A'], cs['b'], cs['nl']
    viol = []
    calls = dict(n=0, subst=0, zero=0)

    def objfun(x):
        return A.dot(x) - b + nl * np.sin(x[0]) * np.ones(b.size)
    orig_step = ctrl.Controller.trust_region_step
    orig_sf = ctrl.ctrsbox_sfista
    raw = {}

    def spy(*a, **k):
        out = orig_sf(*a, **k)
        raw['d'] = np.array(out[0], dtype=float)
        return out

    def wrapped(self, params, criticality_measure=1e-2):
        raw.clear()
        out = orig_step(self, params, criticality_measure=criticality_measure)
        d, gopt, H = np.asarray(out[0], dtype=float), out[1], out[2]
        calls['n'] += 1
        if self.h is not None and np.all(np.isfinite(gopt)) and np.all(np.isfinite(H)):
            xabs = self.model.xopt(abs_coordinates=True)
            pr, mag = pred_reduction(gopt, H, d, xabs, hf, lam, self.scaling_changes)
            if not np.any(d != 0.0):
                calls['zero'] += 1
                if 'd' in raw and np.any(raw['d'] != 0.0):
                    calls['subst'] += 1
            if not pr >= -1e-12 * mag:
                dd = _regsolve_data(cs)
                dd.update(clause='C13:reg_step_negative_reduction', call=calls['n'], d=_hx(d))
                viol.append(dict(signature='C13:reg_step_negative_reduction',
                                 what='trust_region_step call %d of a regularised run handed back a step with predicted '
                                      'reduction %.6g (terms %.3g)' % (calls['n'], pr, mag), data=dd))
        return out
    kw = {}
    if cs['mode'] == 'bounds':
        kw['bounds'] = (cs['xl'].copy(), cs['xu'].copy())
    elif cs['mode'] == 'proj':
        rr = cs['ballr']
        kw['projections'] = [make_proj(('ball', [0.0] * n, rr))]
    ctrl.Controller.trust_region_step = wrapped
    ctrl.ctrsbox_sfista = spy
    try:
        np.random.seed(cs['npseed'])
        with warnings.catch_warnings(), np.errstate(all='ignore'):
            warnings.simplefilter('ignore')
            soln = dfols.solve(objfun, cs['x0'].copy(), h=hf, lh=lf(lam, n), prox_uh=pf, argsh=(lam,), argsprox=(lam,),
                               maxfun=n + 1 + cs['extra'], rhoend=1e-6, do_logging=False, **kw)
        flag = int(soln.flag)
    except Exception as ex:
        dd = _regsolve_data(cs)
        dd['clause'] = 'C13:reg_solve_exception'
        viol.append(dict(signature='C13:reg_solve_exception', what='regularised dfols.solve raised %s: %s' %
                         (type(ex).__name__, ex), data=dd))
        flag = 'exception'
    finally:
        ctrl.Controller.trust_region_step = orig_step
        ctrl.ctrsbox_sfista = orig_sf
    return viol, dict(calls=calls['n'], subst=calls['subst'], zero=calls['zero'], flag=flag)


# ---------------------------------------------------------------------------------------------- interface
def tasks(seed, tier):
    q = (tier == 'quick')
    out = []
    i = 0
    for kind, ntask, ncase in (('geom', 16 if q else 80, 1000 if q else 4000),
                               ('convex', 48 if q else 640, 20 if q else 30),
                               ('regstep', 32 if q else 480, 10 if q else 14),
                               ('regsolve', 32 if q else 640, 1)):
        for _ in range(ntask):
            out.append(dict(pid=PID, kind=kind, seed=int(seed), i=i, ncases=ncase))
            i += 1
    # interleave so that the slow kinds are spread over the workers
    out.sort(key=lambda t: (t['i'] % 16, t['i']))
    return out


GEN = dict(geom=gen_geom, convex=gen_convex, regstep=gen_regstep, regsolve=gen_regsolve)
CHECK = dict(geom=check_geom, convex=check_convex, regstep=check_regstep, regsolve=check_regsolve)
DATA = dict(geom=_geom_data, convex=_convex_data, regstep=_regstep_data, regsolve=_regsolve_data)
LIMIT = dict(convex=4.0, regstep=4.0, regsolve=8.0)      # CPU seconds per case, see with_cpu_limit


def run_task(task):
    rng = np.random.default_rng((task['seed'], task['i']))
    kind = task['kind']
    stats, viols, sample = {}, [], None
    evals = nontriv = 0
    for k in range(task['ncases']):
        cs = GEN[kind](rng)
        if kind in LIMIT:
            ok, out = with_cpu_limit(LIMIT[kind], CHECK[kind], cs)
            if not ok:
                _bump(stats, '%s/skipped_cpu_limit_%gs' % (kind, LIMIT[kind]))
                _bump(stats, '%s/skipped_cpu_limit:%s' % (kind, cs['fn'] if kind == 'convex' else cs['mode']))
                continue
            vs, info = out
        else:
            vs, info = CHECK[kind](cs)
        for x in vs:
            x['data']['task'] = dict(seed=task['seed'], i=task['i'], case=k, kind=kind)
            _bump(stats, 'violations:' + x['signature'])
        for x in vs:      # at most 5 recorded violations per signature and task (all are counted in stats)
            if sum(1 for y in viols if y['signature'] == x['signature']) < 5:
                viols.append(x)
        if kind == 'geom':
            evals += 1
            _bump(stats, 'geom/n=%d' % cs['g'].size)
            _bump(stats, 'geom/g:' + cs['gkind'])
            _bump(stats, 'geom/c:' + ('0' if cs['c'] == 0 else ('1' if cs['c'] == 1 else 'other')))
            _bump(stats, 'geom/log10Delta=%+d' % int(math.floor(math.log10(cs['Delta']))))
            if not info.get('failed'):
                _bump(stats, 'geom/clipped_coords=%s' % (info['clipped'] if info['clipped'] < 3 else '3+'))
                if info['on_ball']:
                    _bump(stats, 'geom/on_ball')
                if info['outside_abs']:
                    _bump(stats, 'geom/outside_box_by_at_most_tolerance(ZERO_THRESH widening)')
                nontriv += int(info['nontrivial'])
        elif kind == 'convex':
            evals += 1
            _bump(stats, 'convex/%s' % cs['fn'])
            _bump(stats, 'convex/%s/H:%s' % (cs['fn'], cs['hkind']))
            _bump(stats, 'convex/sets:' + ('+'.join(sorted(s[0] for s in cs['sets'])) or 'none'))
            _bump(stats, 'convex/log10Delta=%+d' % int(math.floor(math.log10(cs['Delta']))))
            if cs['fn'] == 'sfista':
                _bump(stats, 'convex/sfista/reg:' + cs['reg'])
            if not info.get('failed'):
                if info['on_ball']:
                    _bump(stats, 'convex/%s/on_ball' % cs['fn'])
                nontriv += int(info['nontrivial'])
        elif kind == 'regstep':
            evals += 1
            _bump(stats, 'regstep/mode:' + cs['mode'] + ('+scaling' if cs['scaling'] is not None else ''))
            _bump(stats, 'regstep/reg:' + cs['reg'])
            if not info.get('failed'):
                if info['substituted']:
                    _bump(stats, 'regstep/zero_step_substituted')
                elif info['zero']:
                    _bump(stats, 'regstep/zero_step_from_solver')
                else:
                    _bump(stats, 'regstep/nonzero_step_kept')
                nontriv += int(info['nontrivial'])
        else:
            evals += info['calls']
            nontriv += info['subst']
            _bump(stats, 'regsolve/runs')
            _bump(stats, 'regsolve/mode:' + cs['mode'])
            _bump(stats, 'regsolve/flag=%s' % info['flag'])
            _bump(stats, 'regsolve/tr_step_calls', info['calls'])
            _bump(stats, 'regsolve/zero_step_substituted', info['subst'])
            _bump(stats, 'regsolve/zero_steps', info['zero'])
        if sample is None and not (isinstance(info, dict) and info.get('failed')):
            if kind != 'geom' or info.get('nontrivial'):
                sample = dict(kind=kind, case=DATA[kind](cs),
                              info={kk: (vv if isinstance(vv, (int, float, str, bool)) else str(vv))
                                    for kk, vv in info.items()})
    return dict(evaluations=evals, nontrivial=nontriv, violations=viols, stats=stats, sample=sample)


def replay(data):
    fn = data['fn']
    if fn == 'trsbox_geometry':
        cs = dict(fn=fn, xbase=_unhx(data['xbase']), c=_unhx(data['c']), g=_unhx(data['g']), lower=_unhx(data['lower']),
                  upper=_unhx(data['upper']), Delta=_unhx(data['Delta']), gkind='replay')
        vs, _ = check_geom(cs)
    elif fn in ('pgd', 'sfista', 'cgeom'):
        n = data['n']
        cs = dict(fn=fn, xopt=_unhx(data['xopt']), g=_unhx(data['g']), H=_unhx(data['H']).reshape(n, n),
                  hkind=data.get('hkind', '?'), Delta=_unhx(data['Delta']), sets=_sets_from_data(data['sets']))
        for k in ('reg', 'iters_scale'):
            if k in data:
                cs[k] = data[k]
        for k in ('lam', 'func_tol', 'c'):
            if k in data:
                cs[k] = _unhx(data[k])
        vs, _ = check_convex(cs)
    elif fn == 'regstep':
        n, m = data['n'], data['m']
        cs = dict(fn=fn, n=n, m=m, delta=_unhx(data['delta']), mode=data['mode'], reg=data['reg'], lam=_unhx(data['lam']),
                  x0=_unhx(data['x0']), off=_unhx(data['off']), xl=_unhx(data['xl']), xu=_unhx(data['xu']),
                  J=_unhx(data['J']).reshape(m, n), r=_unhx(data['r']), crit=_unhx(data['crit']),
                  sets=_sets_from_data(data['sets']),
                  scaling=None if data['scaling'] is None else (_unhx(data['scaling'][0]), _unhx(data['scaling'][1])))
        vs, _ = check_regstep(cs)
    elif fn == 'regsolve':
        cs = {k: data[k] for k in ('fn', 'n', 'm', 'nl', 'reg', 'mode', 'npseed', 'extra')}
        for k in ('A', 'b', 'x0', 'lam', 'xl', 'xu', 'ballr'):
            if k in data:
                cs[k] = _unhx(data[k])
        cs['A'] = cs['A'].reshape(cs['m'], cs['n'])
        vs, _ = check_regsolve(cs)
        if 'call' in data:
            vs = [x for x in vs if x['data'].get('call') == data['call']] or vs
    else:
        raise ValueError('unknown replay record %r' % (fn,))
    want = data.get('clause')
    for x in vs:
        if want is None or x['signature'] == want:
            return x
    return vs[0] if vs else None
