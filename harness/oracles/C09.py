"""Oracle for C09: convex constraints (projections=[...]) hold at every evaluation of dfols.solve up to Dykstra's tolerance.

Observation: a recording objective plus a wrapper around `dykstra` in the namespace of every dfols module that imported it
(solver, model, controller, trust_region, util, package) - no source change.  Every call is recorded with its output, the
tolerance / max_iter actually passed, and the number of projector calls (through counting wrappers), from which the stop kind is
derived: sweeps < max_iter -> stopped by rule; sweeps == max_iter -> re-run the real routine with max_iter+1 on the same input:
no further sweep -> rule, else ran out of sweeps.

Signatures:
  C09:eval_not_dykstra_output          an evaluated point after the first is not the output of any observed dykstra call
  C09:eval_infeasible_after_rule_stop  its producing call met the stopping rule, yet the point is farther than sqrt(p*tol) from a set
  C09:eval_outside_bound_box           bounds given and an evaluated point after the first violates xl <= x <= xu (IEEE)
  C09:x0_not_projected                 infeasible x0: first evaluated point != dykstra(projections + [box], x0) with the user's d_tol/max_iters
  C09:first_eval_unexpected            feasible x0: first evaluated point is neither x0 nor that projection
An exception raised by solve is NOT a C09 violation (the points evaluated before it are still judged); it is counted in stats
under 'exit:raised <Type>'.
"""
import os, sys, math, json, time, warnings

for _v in ('OMP_NUM_THREADS', 'OPENBLAS_NUM_THREADS', 'MKL_NUM_THREADS'):
    os.environ.setdefault(_v, '1')       # effective only if numpy is not loaded yet; bin/check exports the same
if 'dfols' not in sys.modules:
    _repo = os.environ.get('DFOLS_REPO', '/repo')
    if _repo not in sys.path:
        sys.path.insert(0, _repo)
import numpy as np
import dfols
import dfols.util as dutil
import dfols.solver, dfols.model, dfols.controller, dfols.trust_region  # noqa: F401  (namespaces to patch)

RULE = ("Each run: n in 1..4, m in 1..6, 1..3 user sets from balls / half-spaces / boxes sharing a point z with margin 0.03..1 of the "
        "length scale (scale 1 or 10; projectors are own exact callables or dfols.util.pball/pbox lambdas), optional `bounds` box "
        "around z (50%), x0 feasible (at or near z) or infeasible (0.5..30 scales away), objective r(x)=A(x-xs)+q|x-xs|^2 (+ optional "
        "deterministic noise) with xs inside or outside the feasible set, maxfun n+6..n+36 (n<=2) or n+6..n+18 (n>=3), rhoend 1e-8/1e-4/1e-2, restarts off / soft / "
        "hard (with and without objfun_has_noise), coordinate or random initial directions, dykstra.d_tol default/1e-4/1e-6/1e-12, "
        "dykstra.max_iters default/5/20/300.  Every evaluated point after the first is matched (bitwise, then by value) to the most "
        "recent observed dykstra call with that output; the call is judged with the tol it actually received; p = user sets (+1 if "
        "bounds were given; the always-appended +-1e20 box is not counted, nor is a trust-region ball); distances by closed form; "
        "rounding slack 1e-13*(1+|data|).  A run is non-trivial iff it evaluated at least n+2 points and at least one evaluated point "
        "after the first came from a dykstra call that moved its input (the constraints were active for it).")

SLACK = 1e-13
BUDGET = 3.0   # CPU seconds (time.process_time) per solve; the run is cut (points seen so far are still judged)


class _Budget(Exception):
    pass


# ----------------------------------------------------------------------------------------------- sets and projectors
def _hx(a):
    return [float(v).hex() for v in np.asarray(a, dtype=float).ravel()]


def _unhx(l):
    return np.array([float.fromhex(s) for s in l], dtype=float)


def set_to_json(s):
    if s['kind'] == 'ball':
        return dict(kind='ball', c=_hx(s['c']), r=float(s['r']).hex(), impl=s['impl'])
    if s['kind'] == 'half':
        return dict(kind='half', a=_hx(s['a']), b=float(s['b']).hex(), impl='own')
    return dict(kind='box', l=_hx(s['l']), u=_hx(s['u']), impl=s['impl'])


def set_from_json(d):
    if d['kind'] == 'ball':
        return dict(kind='ball', c=_unhx(d['c']), r=float.fromhex(d['r']), impl=d['impl'])
    if d['kind'] == 'half':
        return dict(kind='half', a=_unhx(d['a']), b=float.fromhex(d['b']), impl='own')
    return dict(kind='box', l=_unhx(d['l']), u=_unhx(d['u']), impl=d['impl'])


def exact_projector(s):
    if s['kind'] == 'ball':
        c, r = s['c'], s['r']

        def pb(x):
            d = x - c
            nd = math.sqrt(float(np.dot(d, d)))
            if nd <= r:
                return x.copy()
            return c + (r / nd) * d
        return pb
    if s['kind'] == 'half':
        a, b = s['a'], s['b']
        aa = float(np.dot(a, a))

        def ph(x):
            v = float(np.dot(a, x)) - b
            if v <= 0.0:
                return x.copy()
            return x - (v / aa) * a
        return ph
    l, u = s['l'], s['u']
    return lambda x: np.minimum(np.maximum(x, l), u)


def used_projector(s):
    if s['impl'] == 'repo':
        if s['kind'] == 'ball':
            c, r = s['c'], s['r']
            return lambda x: dutil.pball(x, c, r)
        if s['kind'] == 'box':
            l, u = s['l'], s['u']
            return lambda x: dutil.pbox(x, l, u)
    return exact_projector(s)


def dist_to_set(s, x):
    if s['kind'] == 'ball':
        return max(0.0, float(np.linalg.norm(x - s['c'])) - s['r'])
    if s['kind'] == 'half':
        return max(0.0, (float(np.dot(s['a'], x)) - s['b']) / float(np.linalg.norm(s['a'])))
    return float(np.linalg.norm(x - np.minimum(np.maximum(x, s['l']), s['u'])))


def in_set(s, x):
    if s['kind'] == 'ball':
        return float(np.linalg.norm(x - s['c'])) <= s['r']
    if s['kind'] == 'half':
        return float(np.dot(s['a'], x)) <= s['b']
    return bool(np.all(s['l'] <= x) and np.all(x <= s['u']))


def data_magnitude(sets, x0):
    mag = float(np.max(np.abs(x0))) if x0.size else 0.0
    for s in sets:
        if s['kind'] == 'ball':
            mag = max(mag, float(np.max(np.abs(s['c']))) + s['r'])
        elif s['kind'] == 'half':
            mag = max(mag, abs(s['b']) / float(np.linalg.norm(s['a'])))
        else:
            for v in (s['l'], s['u']):
                f = np.abs(v[np.abs(v) < 1e19])
                if f.size:
                    mag = max(mag, float(np.max(f)))
    return mag


# ------------------------------------------------------------------------------------------------------ recording
_ORIG = dutil.dykstra


class Recorder:
    """wraps `dykstra` in every dfols module namespace that holds the original function object"""

    def __init__(self, t_end):
        self.calls = []          # dict(module, P, x0, max_iter, tol, p, ncalls, out, moved)
        self.latest = {}         # out bytes -> index of most recent call with that output
        self.patched = []
        self.t_end = t_end

    def _wrapper(self, modname):
        rec = self

        def dykstra(P, x0, max_iter=100, tol=1e-10):
            if time.process_time() > rec.t_end:
                raise _Budget()
            cnt = [0]

            def wrap(f):
                def g(x):
                    cnt[0] += 1
                    return f(x)
                return g
            P2 = [wrap(f) for f in P]
            x0c = np.array(x0, dtype=float, copy=True)
            out = _ORIG(P2, x0, max_iter=max_iter, tol=tol)
            o = np.array(out, dtype=float, copy=True)
            idx = len(rec.calls)
            rec.calls.append(dict(module=modname, P=list(P), x0=x0c, max_iter=max_iter, tol=tol, p=len(P), ncalls=cnt[0], out=o,
                                  moved=not np.array_equal(o, x0c), kind=None))
            rec.latest[o.tobytes()] = idx
            return out
        dykstra.__wrapped_by_oracle__ = True
        return dykstra

    def __enter__(self):
        for name, mod in list(sys.modules.items()):
            if mod is None or not (name == 'dfols' or name.startswith('dfols.')) or name.startswith('dfols.tests'):
                continue
            if getattr(mod, 'dykstra', None) is _ORIG:
                setattr(mod, 'dykstra', self._wrapper(name))
                self.patched.append(mod)
        return self

    def __exit__(self, *a):
        for mod in self.patched:
            setattr(mod, 'dykstra', _ORIG)
        return False

    def kind_of(self, idx):
        c = self.calls[idx]
        if c['kind'] is not None:
            return c['kind']
        p, mi = c['p'], c['max_iter']
        if p == 0 or c['ncalls'] == 0:
            k = 'zero_sweeps'
        elif c['ncalls'] % p != 0:
            k = 'partial'
        else:
            sw = c['ncalls'] // p
            if sw < mi:
                k = 'rule'
            elif sw > mi:
                k = 'too_many'
            else:
                cnt = [0]

                def wrap(f):
                    def g(x):
                        cnt[0] += 1
                        return f(x)
                    return g
                _ORIG([wrap(f) for f in c['P']], c['x0'].copy(), max_iter=mi + 1, tol=c['tol'])
                k = 'rule' if cnt[0] // p <= sw else 'out_of_sweeps'
        c['kind'] = k
        return k


# ------------------------------------------------------------------------------------------------------ generator
def _unit(rng, n):
    v = rng.standard_normal(n)
    nv = np.linalg.norm(v)
    if nv == 0:
        v = np.ones(n); nv = math.sqrt(n)
    return v / nv


def gen_run(rng):
    n = int(rng.integers(1, 5))
    m = int(rng.integers(1, 7))
    s = float(rng.choice([1.0, 10.0]))
    z = s * rng.standard_normal(n) * float(rng.choice([0.0, 1.0, 2.0]))
    nsets = int(rng.integers(1, 4))

    def margin():
        return s * 10.0 ** rng.uniform(-1.5, 0)

    sets = []
    for _ in range(nsets):
        k = str(rng.choice(['ball', 'half', 'box']))
        if k == 'ball':
            r = s * 10.0 ** rng.uniform(-0.5, 0.7)
            mg = min(margin(), r) * rng.uniform(0.2, 1.0)
            sets.append(dict(kind='ball', c=z + _unit(rng, n) * (r - mg), r=float(r), impl=str(rng.choice(['own', 'repo']))))
        elif k == 'half':
            a = _unit(rng, n) * 10.0 ** rng.uniform(-1, 1)
            sets.append(dict(kind='half', a=a, b=float(np.dot(a, z) + margin() * np.linalg.norm(a)), impl='own'))
        else:
            lo = z - np.array([margin() * 10.0 ** rng.uniform(0, 1.5) for _ in range(n)])
            up = z + np.array([margin() * 10.0 ** rng.uniform(0, 1.5) for _ in range(n)])
            for j in range(n):
                t = rng.random()
                if t < 0.15:
                    lo[j] = -1e20
                elif t < 0.3:
                    up[j] = 1e20
            sets.append(dict(kind='box', l=lo, u=up, impl=str(rng.choice(['own', 'repo']))))
    bounds = None
    if rng.random() < 0.5:
        lo = z - np.array([margin() * 10.0 ** rng.uniform(0, 1.5) for _ in range(n)])
        up = z + np.array([margin() * 10.0 ** rng.uniform(0, 1.5) for _ in range(n)])
        t = rng.random()
        if t < 0.15:
            lo = None
        elif t < 0.3:
            up = None
        bounds = [None if lo is None else _hx(lo), None if up is None else _hx(up)]
    allsets = list(sets)
    if bounds is not None:
        allsets.append(dict(kind='box', l=(np.full(n, -1e20) if bounds[0] is None else _unhx(bounds[0])),
                            u=(np.full(n, 1e20) if bounds[1] is None else _unhx(bounds[1])), impl='own'))
    xm = str(rng.choice(['feasible', 'infeasible']))
    x0 = z.copy()
    if xm == 'feasible':
        if rng.random() < 0.7:
            dlt = _unit(rng, n) * s * 0.3
            for _ in range(40):
                if all(in_set(t, z + dlt) for t in allsets):
                    x0 = z + dlt
                    break
                dlt *= 0.5
    else:
        for _ in range(50):
            x0 = z + _unit(rng, n) * s * 10.0 ** rng.uniform(-0.3, 1.5)
            if not all(in_set(t, x0) for t in allsets):
                break
    xs_mode = str(rng.choice(['inside', 'outside']))
    xs = z + (_unit(rng, n) * s * (rng.uniform(0, 0.02) if xs_mode == 'inside' else 10.0 ** rng.uniform(0, 1.3)))
    A = rng.standard_normal((m, n)) * 10.0 ** rng.uniform(-1, 1, size=(m, 1))
    q = rng.standard_normal(m) * float(rng.choice([0.0, 0.05, 0.5])) / s
    noise = float(rng.choice([0.0, 0.0, 1e-3, 1e-1]))
    restarts = str(rng.choice(['default', 'off', 'soft', 'hard']))
    has_noise = bool(rng.random() < 0.4)
    up = {}
    if restarts == 'off':
        up['restarts.use_restarts'] = False
    elif restarts == 'soft':
        up['restarts.use_restarts'] = True; up['restarts.use_soft_restarts'] = True
        if rng.random() < 0.5:
            # points added after a soft restart are evaluated too
            up['restarts.increase_npt'] = True
            up['restarts.max_npt'] = n + 1 + int(rng.integers(1, 3))
    elif restarts == 'hard':
        up['restarts.use_restarts'] = True; up['restarts.use_soft_restarts'] = False
        if rng.random() < 0.5:
            up['restarts.hard.use_old_rk'] = False       # the other solve_main call site in solve()
    dt = rng.choice([0, 1e-4, 1e-6, 1e-12], p=[.5, .15, .2, .15])
    if dt:
        up['dykstra.d_tol'] = float(dt)
    dm = int(rng.choice([0, 5, 20, 300], p=[.5, .2, .15, .15]))
    if dm:
        up['dykstra.max_iters'] = dm
    if rng.random() < 0.3:
        up['init.random_initial_directions'] = True
    return dict(n=n, m=m, sets=[set_to_json(t) for t in sets], bounds=bounds, x0=_hx(x0), x0mode=xm, xs=_hx(xs), xs_mode=xs_mode,
                A=_hx(A), q=_hx(q), noise=noise, noise_seed=int(rng.integers(0, 2 ** 31)), np_seed=int(rng.integers(0, 2 ** 31)),
                maxfun=int(n + 6 + rng.integers(0, 31 if n <= 2 else 13)), rhoend=float(rng.choice([1e-8, 1e-4, 1e-2])), has_noise=has_noise, restarts=restarts,
                user_params=up, scale=s)


# -------------------------------------------------------------------------------------------------------- checking
def check_run(run):
    """returns (violations, info)"""
    n, m = int(run['n']), int(run['m'])
    sets = [set_from_json(d) for d in run['sets']]
    x0 = _unhx(run['x0'])
    xs = _unhx(run['xs'])
    A = _unhx(run['A']).reshape(m, n)
    q = _unhx(run['q'])
    bounds_given = run['bounds'] is not None
    bl = bu = None
    if bounds_given:
        bl = None if run['bounds'][0] is None else _unhx(run['bounds'][0])
        bu = None if run['bounds'][1] is None else _unhx(run['bounds'][1])
    xl = np.full(n, -1e20) if bl is None else bl
    xu = np.full(n, 1e20) if bu is None else bu
    boxset = dict(kind='box', l=xl, u=xu, impl='repo')
    judged_sets = list(sets) + ([boxset] if bounds_given else [])
    p_prop = len(judged_sets)
    P_user = [used_projector(t) for t in sets]
    up = dict(run['user_params'])
    nrng = np.random.default_rng(int(run['noise_seed']))
    noise = float(run['noise'])
    evals = []       # (x copy, index of latest matching dykstra call or None, number of dykstra calls so far)
    t_end = time.process_time() + BUDGET
    rec = Recorder(t_end)

    def objfun(x):
        if time.process_time() > t_end:
            raise _Budget()
        xc = np.array(x, dtype=float, copy=True)
        evals.append((xc, rec.latest.get(xc.tobytes()), len(rec.calls)))
        d = xc - xs
        r = A.dot(d) + q * float(np.dot(d, d))
        if noise:
            r = r + noise * nrng.standard_normal(m)
        return r

    info = dict(exc=None, flag=None, cut=False)
    np.random.seed(int(run['np_seed']) % (2 ** 32))
    with warnings.catch_warnings():
        warnings.simplefilter('ignore')
        old = np.seterr(all='ignore')
        try:
            with rec:
                try:
                    res = dfols.solve(objfun, x0.copy(), projections=list(P_user),
                                      bounds=((bl, bu) if bounds_given else None), maxfun=int(run['maxfun']), rhoend=float(run['rhoend']),
                                      objfun_has_noise=bool(run['has_noise']), user_params=(up if up else None), do_logging=False)
                    info['flag'] = int(res.flag)
                    info['nruns'] = int(res.nruns) if res.nruns is not None else 0
                    info['msg'] = str(res.msg)[:80]
                except _Budget:
                    info['cut'] = True
                except Exception as ex:       # judged below (documented RuntimeError vs anything else)
                    info['exc'] = '%s: %s' % (type(ex).__name__, str(ex)[:120])
                    info['exc_type'] = type(ex).__name__
        finally:
            np.seterr(**old)
    viol = []
    mag = data_magnitude(judged_sets, x0)
    slack = SLACK * (1.0 + mag)

    def V(sig, what, **extra):
        d = dict(run)
        d['signature'] = sig
        d.update(extra)
        viol.append(dict(signature=sig, what=what, data=d))

    info.update(nevals=len(evals), ncalls=len(rec.calls), p=p_prop, judged=0, matched_kinds={}, matched_modules={}, moved=0,
                bounds=bounds_given, dist_ratio_max=0.0)
    # ---- first evaluation
    if evals:
        first = evals[0][0]
        tol_u = up.get('dykstra.d_tol', 1e-10)
        mi_u = up.get('dykstra.max_iters', 100)
        xlb, xub = xl.copy(), xu.copy()
        expected = _ORIG(list(P_user) + [lambda w: dutil.pbox(w, xlb, xub)], x0.copy(), max_iter=mi_u, tol=tol_u)
        feasible0 = all(in_set(t, x0) for t in judged_sets)
        info['x0_feasible'] = feasible0
        same = np.array_equal(first, expected)
        if not feasible0 and not same:
            V('C09:x0_not_projected', 'infeasible x0: first evaluated point differs from dykstra(projections+[box], x0) by %.3g'
              % float(np.max(np.abs(first - expected))), first=_hx(first), expected=_hx(expected))
        if feasible0 and not same and not np.array_equal(first, x0):
            V('C09:first_eval_unexpected', 'feasible x0: first evaluated point is neither x0 nor its projection', first=_hx(first))
    # ---- later evaluations
    seen_sig = set()
    for j in range(1, len(evals)):
        x, ci, _nc = evals[j]
        if ci is None:
            # value equality (e.g. -0.0 vs 0.0) against all earlier calls
            for k in range(evals[j][2] - 1, -1, -1):
                if np.array_equal(rec.calls[k]['out'], x):
                    ci = k
                    break
        if bounds_given and not (np.all(xl <= x) and np.all(x <= xu)):
            if 'box' not in seen_sig:
                seen_sig.add('box')
                V('C09:eval_outside_bound_box', 'evaluation %d violates the bounds by %.3g' % (j + 1, float(max(np.max(xl - x), np.max(x - xu)))),
                  eval_index=j, x=_hx(x))
        if ci is None:
            if 'nomatch' not in seen_sig:
                seen_sig.add('nomatch')
                V('C09:eval_not_dykstra_output', 'evaluation %d (of %d) is not the output of any of the %d dykstra calls observed before it'
                  % (j + 1, len(evals), evals[j][2]), eval_index=j, x=_hx(x))
            continue
        c = rec.calls[ci]
        kind = rec.kind_of(ci)
        info['judged'] += 1
        info['matched_kinds'][kind] = info['matched_kinds'].get(kind, 0) + 1
        info['matched_modules'][c['module']] = info['matched_modules'].get(c['module'], 0) + 1
        if c['moved']:
            info['moved'] += 1
        if kind == 'rule':
            p_eff = c['p'] - (0 if bounds_given else 1)      # the always-appended +-1e20 box is not counted
            p_eff = max(p_eff, 1)
            bound = math.sqrt(p_eff * c['tol'])
            for i, t in enumerate(judged_sets):
                d = dist_to_set(t, x)
                if bound > 0:
                    info['dist_ratio_max'] = max(info['dist_ratio_max'], d / bound)
                if d > bound + slack and 'dist' not in seen_sig:
                    seen_sig.add('dist')
                    V('C09:eval_infeasible_after_rule_stop',
                      'evaluation %d: producing call (%s, tol=%g, max_iter=%d, p=%d, %d sweeps) met its rule but distance to set %d (%s) is %.3g > sqrt(p*tol)=%.3g'
                      % (j + 1, c['module'], c['tol'], c['max_iter'], p_eff, c['ncalls'] // max(c['p'], 1), i, t['kind'], d, bound),
                      eval_index=j, x=_hx(x), set_index=i)
    info['calls_by_module'] = {}
    for c in rec.calls:
        sw = (c['ncalls'] // c['p']) if c['p'] else 0
        key = '%s:%s' % (c['module'].replace('dfols.', ''), 'lt_max_iter' if sw < c['max_iter'] else 'eq_max_iter')
        info['calls_by_module'][key] = info['calls_by_module'].get(key, 0) + 1
    info['nontrivial'] = len(evals) >= n + 2 and info['moved'] >= 1
    return viol, info


def _bump(d, k, n=1):
    d[k] = d.get(k, 0) + n


def tasks(seed, tier):
    nt = 64 if tier == 'quick' else 640
    per = 3 if tier == "quick" else 6
    return [dict(seed=int(seed), idx=i, tier=tier, nruns=per) for i in range(nt)]


def run_task(task):
    rng = np.random.default_rng((int(task['seed']), int(task['idx'])))
    st = {}
    viol = []
    nontriv = 0
    sample = None
    t0 = time.process_time()
    done = 0
    for c in range(int(task['nruns'])):
        if time.process_time() - t0 > (7.0 if task['tier'] == 'quick' else 16.0):
            _bump(st, 'runs_skipped_for_time')
            continue
        run = gen_run(rng)
        v, info = check_run(run)
        done += 1
        viol.extend(v)
        _bump(st, 'n=%d' % run['n'])
        _bump(st, 'user_sets=%d' % len(run['sets']))
        _bump(st, 'bounds:' + ('yes' if run['bounds'] is not None else 'no'))
        _bump(st, 'x0:' + run['x0mode'] + ('' if info.get('x0_feasible', True) == (run['x0mode'] == 'feasible') else '(actual differs)'))
        _bump(st, 'restarts:' + run['restarts'] + ('+noise_flag' if run['has_noise'] else ''))
        _bump(st, 'd_tol:%g' % run['user_params'].get('dykstra.d_tol', 1e-10))
        _bump(st, 'd_max_iters:%d' % run['user_params'].get('dykstra.max_iters', 100))
        _bump(st, 'exit:' + ('cut_by_time_budget' if info['cut'] else ('raised ' + info['exc_type']) if info['exc'] else 'flag %s' % info['flag']))
        if info.get('msg') and 'restart' in info.get('msg', '').lower():
            _bump(st, 'exit_msg_mentions_restart')
        if info.get('nruns', 0) > 1:
            _bump(st, 'runs_with_restart(nruns>1)')
        _bump(st, 'evaluations', info['nevals'])
        _bump(st, 'evaluations_judged(after first, matched)', info['judged'])
        _bump(st, 'evaluations_from_moving_projection', info['moved'])
        _bump(st, 'dykstra_calls', info['ncalls'])
        for k, n_ in info['matched_kinds'].items():
            _bump(st, 'matched_call:' + k, n_)
        for k, n_ in info['matched_modules'].items():
            _bump(st, 'matched_module:' + k, n_)
        for k, n_ in info['calls_by_module'].items():
            _bump(st, 'calls:' + k, n_)
        r = info['dist_ratio_max']
        _bump(st, 'run_max_dist/bound:' + ('=0' if r == 0 else '<=0.01' if r <= 0.01 else '<=1' if r <= 1 else '>1'))
        for t in run['sets']:
            _bump(st, 'set:%s/%s' % (t['kind'], t['impl']))
        if info['nontrivial']:
            nontriv += 1
            if sample is None:
                sample = dict(run=run, info={k: v2 for k, v2 in info.items() if isinstance(v2, (int, float, str, bool, dict, type(None)))})
    st['cpu_ms'] = int(1000 * (time.process_time() - t0))
    return dict(evaluations=done, nontrivial=nontriv, violations=viol, stats=st, sample=sample)


def replay(data):
    sig = data.get('signature')
    v, _info = check_run(data)
    for x in v:
        if sig is None or x['signature'] == sig:
            return x
    return None


if __name__ == '__main__':
    from multiprocessing import Pool
    seed = int(sys.argv[1]) if len(sys.argv) > 1 else 0
    tier = sys.argv[2] if len(sys.argv) > 2 else 'quick'
    t0 = time.time()
    ts = tasks(seed, tier)
    with Pool(16) as pool:
        rs = pool.map(run_task, ts)
    st = {}
    sigs = {}
    for r in rs:
        for k, v in r['stats'].items():
            _bump(st, k, v)
        for v in r['violations']:
            _bump(sigs, v['signature'])
    print(json.dumps(dict(seed=seed, wall=round(time.time() - t0, 1), evaluations=sum(r['evaluations'] for r in rs),
                          nontrivial=sum(r['nontrivial'] for r in rs), violations=sigs, stats=dict(sorted(st.items()))), indent=1))
