"""Oracle for C08: bad objective values (NaN, +/-inf, overflow-sized entries, raised exception) injected at any single
evaluation (or at all evaluations from some call on) are survived gracefully.  Runs the real dfols.solve, see RULE.

Signatures:
  C08:raised:<ExcType>:<module.function>   solve raised although the objective only returned bad values; the site is
                                    the innermost dfols function the exception passed through
  C08:exception_swallowed           the objective raised but solve returned normally
  C08:exception_changed             the objective raised but a different exception reached the caller
  C08:calls_after_exception         the objective was called again after it had raised
  C08:budget_exceeded               more than maxfun calls
  C08:eval_outside_bounds / C08:x_outside_bounds     bound guarantee lost under the fault
  C08:x_not_finite / C08:x_not_evaluated             returned x not finite / not an evaluated point
  C08:x_not_evaluated:projections   the same in a configuration with projections (returned x is a re-projection)
  C08:nan_returned                  non-finite objective returned although an earlier evaluation was finite (no averaging)
  C08:nan_incumbent                 the same with sample averaging
  C08:worse_than_prefault_best      finite objective returned but larger than the best finite one seen before the fault
  C08:success_flag_nonfinite_obj:<small_objective|rhoend|max_restarts|noise_level|other>
                                    success flag attached to a non-finite objective, by the kind of success message
"""
# ======================================================================================================================
# shared core: problem specs, builders, recording objective wrapper.  This block is duplicated verbatim in
# C08.py / C10.py / C18.py / C19.py (the oracle modules are required to be self-contained) - keep the copies in sync.
# ======================================================================================================================
import copy, logging, math, os, sys, warnings

for _v in ('OPENBLAS_NUM_THREADS', 'OMP_NUM_THREADS', 'MKL_NUM_THREADS'):   # tiny matrices: BLAS threads only hurt
    os.environ.setdefault(_v, '1')

_REPO = os.environ.get('DFOLS_REPO', '/repo')
if _REPO not in sys.path:
    sys.path.insert(0, _REPO)
import numpy as np
import dfols

logging.getLogger('dfols').addHandler(logging.NullHandler())   # the solver logs some warnings unconditionally


def hx(v):
    """float / array -> hex string / nested list of hex strings (exact)"""
    if v is None:
        return None
    a = np.asarray(v, dtype=float)
    if a.ndim == 0:
        return float(a).hex()
    return [hx(e) for e in a]


def unhx(v):
    if v is None:
        return None
    if isinstance(v, str):
        return float.fromhex(v)
    return np.array([unhx(e) for e in v], dtype=float)


def enc_params(d):
    """user_params with floats written as 'f:<hex>' (ints, bools, None stay as they are)"""
    out = {}
    for k, v in d.items():
        if isinstance(v, bool) or v is None or isinstance(v, int):
            out[k] = v
        else:
            out[k] = 'f:' + float(v).hex()
    return out


def dec_params(d):
    out = {}
    for k, v in d.items():
        out[k] = float.fromhex(v[2:]) if isinstance(v, str) and v.startswith('f:') else v
    return out


class FaultError(Exception):
    pass


def _resid_fun(spec):
    kind = spec['kind']
    n, m = spec['n'], spec['m']
    if kind == 'rosen':
        def f(x):
            r = np.empty(2 * (n - 1))
            r[0::2] = 10.0 * (x[1:] - x[:-1] ** 2)
            r[1::2] = 1.0 - x[:-1]
            return r
        return f
    A, b = unhx(spec['A']), unhx(spec['b'])
    if kind == 'lin':
        return lambda x: A.dot(x) - b
    if kind == 'nl':
        return lambda x: A.dot(x) - b + 0.5 * np.sin(A.dot(x))
    raise ValueError('unknown problem kind %r' % (kind,))


def _make_projection(p):
    if p[0] == 'ball':
        c, r = unhx(p[1]), unhx(p[2])
        return lambda x: dfols.util.pball(x, c, r)
    if p[0] == 'box':
        l, u = unhx(p[1]), unhx(p[2])
        return lambda x: dfols.util.pbox(x, l, u)
    if p[0] == 'halfspace':          # {x : a.x <= beta}
        a, beta = unhx(p[1]), unhx(p[2])
        aa = float(a.dot(a))
        return lambda x: x - (max(float(a.dot(x)) - beta, 0.0) / aa) * a
    raise ValueError('unknown projection %r' % (p[0],))


class Rec(object):
    """the user's residual function: counts calls, records (x, r) of every call, optionally injects one fault.
    fault = [k, kind, which, persist]: at call k (and at every later call if persist) the returned vector gets
    entry 0 ('one') or all entries ('all') replaced by NaN / +inf / -inf / 1e200, or FaultError is raised."""
    VALUES = {'nan': float('nan'), 'pinf': float('inf'), 'ninf': float('-inf'), 'big': 1e200}

    def __init__(self, spec, fault=None):
        self.f = _resid_fun(spec)
        self.lam = unhx(spec.get('reg'))
        self.sigma = unhx(spec.get('noise'))
        self.noise_rng = np.random.default_rng(spec.get('noise_seed', 0)) if self.sigma else None  # never the global RNG
        self.fault = fault
        self.xs, self.rs = [], []
        self.ncalls = 0
        self.delivered_at = None      # first call at which the fault was delivered
        self.exc = None
        self.calls_after_exc = 0

    def __call__(self, x):
        self.ncalls += 1
        if self.exc is not None:
            self.calls_after_exc += 1
        self.xs.append(np.array(x, dtype=float, copy=True))
        r = self.f(x)
        if self.noise_rng is not None:
            r = r + self.sigma * self.noise_rng.standard_normal(len(r))
        if self.fault is not None:
            k, kind, which, persist = self.fault
            if self.ncalls == k or (persist and self.ncalls > k):
                if self.delivered_at is None:
                    self.delivered_at = self.ncalls
                if kind == 'raise':
                    self.rs.append(None)
                    self.exc = FaultError('injected at call %d' % self.ncalls)
                    raise self.exc
                r = np.array(r, dtype=float, copy=True)
                if which == 'all':
                    r[:] = self.VALUES[kind]
                else:
                    r[0] = self.VALUES[kind]
        self.rs.append(np.array(r, dtype=float, copy=True))
        return r

    def hval(self, x):
        return 0.0 if self.lam is None else self.lam * float(np.sum(np.abs(x)))

    def obj(self, j):
        """objective value of call j (0-based) as the solver defines it: sum of squares (+ regulariser)"""
        r = self.rs[j]
        if r is None:
            return float('nan')
        with np.errstate(all='ignore'):
            return float(np.dot(r, r)) + self.hval(self.xs[j])


class Problem(object):
    pass


def build(spec, fault=None):
    """spec (pure JSON data, floats in hex) -> Problem with fresh caller-side objects and solve() keyword arguments"""
    P = Problem()
    P.spec = spec
    P.n = spec['n']
    P.rec = Rec(spec, fault)
    x0 = unhx(spec['x0'])
    P.x0 = x0.astype(int) if spec.get('x0_int') else x0
    P.lo, P.hi = unhx(spec.get('lo')), unhx(spec.get('hi'))
    P.bounds = None if (P.lo is None and P.hi is None) else (P.lo, P.hi)
    P.projections = [_make_projection(p) for p in spec.get('proj') or []]
    P.user_params = dec_params(spec.get('params') or {})
    P.rhobeg, P.rhoend = unhx(spec.get('rhobeg')), unhx(spec['rhoend'])
    kw = dict(bounds=P.bounds, rhoend=P.rhoend, maxfun=spec['maxfun'], user_params=P.user_params,
              objfun_has_noise=bool(spec.get('has_noise')), scaling_within_bounds=bool(spec.get('scaling')),
              do_logging=bool(spec.get('do_logging', False)))
    if P.projections:
        kw['projections'] = P.projections
    if spec.get('npt') is not None:
        kw['npt'] = spec['npt']
    if P.rhobeg is not None:
        kw['rhobeg'] = P.rhobeg
    ns = spec.get('nsamples', 1)
    if ns != 1:
        if isinstance(ns, int):
            kw['nsamples'] = lambda delta, rho, it, nruns: ns
        else:                         # ['byrun', a, b] -> a + b*nruns
            kw['nsamples'] = lambda delta, rho, it, nruns: ns[1] + ns[2] * nruns
    if spec.get('reg') is not None:
        lam = unhx(spec['reg'])
        kw['h'] = lambda x: lam * float(np.sum(np.abs(x)))
        kw['lh'] = lam * math.sqrt(P.n)
        kw['prox_uh'] = lambda x, u: np.sign(x) * np.maximum(np.abs(x) - lam * u, 0.0)
    P.kw = kw
    # effective values the solver will use (documented defaults)
    P.npt_eff = spec['npt'] if spec.get('npt') is not None else P.n + 1
    if P.rhobeg is not None:
        P.rhobeg_eff = P.rhobeg
    else:
        P.rhobeg_eff = 0.1 if (spec.get('scaling') and P.lo is not None and P.hi is not None and not P.projections) \
            else 0.1 * max(float(np.max(np.abs(x0))), 1.0)
    return P


class _QuietStderr(object):
    """LAPACK's xerbla prints ' ** On entry to DLASCL parameter number 4 had an illegal value' (on fd 1 with this
    OpenBLAS build, fd 2 elsewhere) when the solver takes 2-norms of non-finite matrices; silence both descriptors
    for the duration of the solve call only"""
    def __enter__(self):
        self.saved = []
        try:
            sys.stdout.flush()
            sys.stderr.flush()
            nul = os.open(os.devnull, os.O_WRONLY)
            for fd in (1, 2):
                self.saved.append((fd, os.dup(fd)))
                os.dup2(nul, fd)
            os.close(nul)
        except (OSError, ValueError):
            pass

    def __exit__(self, *a):
        for fd, keep in self.saved:
            os.dup2(keep, fd)
            os.close(keep)
        return False


def run_solve(P, npseed=None):
    """call dfols.solve on the problem; returns (soln, exception).  Seeds the global NumPy RNG first so that every
    run is replayable even where the solver draws random directions."""
    np.random.seed(P.spec.get('npseed', 0) if npseed is None else npseed)
    with warnings.catch_warnings(), np.errstate(all='ignore'), _QuietStderr():
        warnings.simplefilter('ignore')
        try:
            return dfols.solve(P.rec, P.x0, **P.kw), None
        except Exception as ex:
            return None, ex


def gen_problem(rng, cfg, zero_resid=None):
    """random small least-squares problem in configuration cfg; returns a spec dict without budgets / params.
    cfg in plain | bounds | scaled | proj | reg (regularised) ; other settings are added by the callers."""
    n = int(rng.integers(2, 4 if cfg in ('proj', 'reg') else 5))     # projections / S-FISTA are slow in pure Python
    kind = str(rng.choice(['lin', 'rosen', 'nl']))
    if zero_resid is None:
        zero_resid = bool(rng.random() < 0.5)
    spec = dict(kind=kind, n=n, cfg=cfg)
    if kind == 'rosen':
        m = 2 * (n - 1)
        xstar = np.ones(n)
        x0 = np.where(np.arange(n) % 2 == 0, -1.2, 1.0) + 0.2 * rng.normal(size=n)
    else:
        m = n + int(rng.integers(0, 4))
        A = rng.normal(size=(m, n))
        xstar = rng.normal(size=n)
        b = A.dot(xstar) + (0.5 * np.sin(A.dot(xstar)) if kind == 'nl' else 0.0)
        if not zero_resid:
            b = b + 0.5 * rng.normal(size=m)
        x0 = xstar + float(rng.choice([0.3, 1.0, 3.0])) * rng.normal(size=n)
        spec['A'], spec['b'] = hx(A), hx(b)
    spec['m'] = m
    spec['zero_resid'] = bool(zero_resid or kind == 'rosen')
    rhobeg = None
    if rng.random() < 0.6:
        rhobeg = float(rng.choice([0.05, 0.1, 0.3, 1.0]))
    if cfg in ('bounds', 'scaled') or (cfg in ('proj', 'reg') and rng.random() < 0.5):
        rb = rhobeg if rhobeg is not None else 0.1 * max(float(np.max(np.abs(x0))), 1.0)
        lo = np.minimum(x0, xstar) - rng.uniform(0.1, 2.0, size=n)
        hi = np.maximum(x0, xstar) + rng.uniform(0.1, 2.0, size=n)
        for j in range(n):                       # make some bounds active at the solution / at x0, x0 sometimes outside
            u = rng.random()
            if u < 0.2:
                hi[j] = xstar[j] - rng.uniform(0.05, 0.5)
            elif u < 0.4:
                lo[j] = xstar[j] + rng.uniform(0.05, 0.5)
            elif u < 0.5:
                lo[j] = x0[j]
            elif u < 0.6:
                hi[j] = x0[j] - 0.01
        if cfg == 'scaled':
            hi = hi + np.array([10.0 ** int(rng.integers(0, 3)) for _ in range(n)])
            rhobeg = None if rng.random() < 0.5 else float(rng.choice([0.05, 0.1, 0.3]))
            spec['scaling'] = True
        else:
            gap = 2.5 * rb
            bad = hi - lo < gap
            hi[bad] = lo[bad] + gap
        spec['lo'], spec['hi'] = hx(lo), hx(hi)
    if cfg == 'proj':
        # feasible set = ball [& halfspace] [& box] with non-empty interior around z (z near, not at, the minimiser)
        z = xstar + 0.3 * rng.normal(size=n)
        c = z + 0.5 * rng.normal(size=n)
        rad = float(np.linalg.norm(z - c) + rng.uniform(0.3, 1.0))
        proj = [['ball', hx(c), hx(rad)]]
        if spec.get('lo') is None and rng.random() < 0.6:      # at most two user sets + box: Dykstra is slow in pure Python
            a = rng.normal(size=n)
            proj.append(['halfspace', hx(a), hx(float(a.dot(z)) + rng.uniform(0.3, 1.0) * float(np.linalg.norm(a)))])
        spec['proj'] = proj
        if spec.get('lo') is not None:
            spec['lo'] = hx(np.minimum(unhx(spec['lo']), z - 0.3))
            spec['hi'] = hx(np.maximum(unhx(spec['hi']), z + 0.3))
    if cfg == 'reg':
        spec['reg'] = hx(float(rng.choice([0.01, 0.1, 0.5])))
    spec['x0'] = hx(x0)
    spec['rhobeg'] = hx(rhobeg)
    spec['rhoend'] = hx(1e-8)
    spec['npseed'] = int(rng.integers(0, 2 ** 31 - 1))
    return spec


def fix_radii(spec):
    """keep the generated input valid: rhoend well below the rhobeg the solver will use"""
    if spec.get('rhobeg') is not None:
        rb = float(unhx(spec['rhobeg']))
    elif spec.get('scaling'):
        rb = 0.1
    else:
        rb = 0.1 * max(float(np.max(np.abs(unhx(spec['x0'])))), 1.0)
    if float(unhx(spec['rhoend'])) > 0.1 * rb:
        spec['rhoend'] = hx(0.01 * rb)
    return spec


def clean_float(v):
    return None if v is None else (float(v) if math.isfinite(float(v)) else repr(float(v)))


def result_summary(soln):
    if soln is None:
        return None
    return dict(flag=int(soln.flag), msg=str(soln.msg), nf=int(soln.nf), nx=int(soln.nx), nruns=int(soln.nruns),
                obj=hx(soln.obj) if soln.obj is not None else None, x=hx(soln.x) if soln.x is not None else None)


def bump(d, key, n=1):
    d[key] = d.get(key, 0) + n


def merge_counts(dst, src):
    for k, v in src.items():
        if isinstance(v, dict):
            merge_counts(dst.setdefault(k, {}), v)
        else:
            dst[k] = dst.get(k, 0) + v
# ============================================================ end of shared core ======================================

RULE = ("Cases: a random small least-squares problem (linear / Rosenbrock / mildly nonlinear, n=2..4) in one of the "
        "configurations plain, bounds, scaled, proj (ball [+halfspace] [+box] projections), soft restarts, hard restarts, "
        "avg (objfun_has_noise + nsamples 2..3 + additive noise from a private generator), avg with hard restarts, "
        "regularised, diag (logging.save_diagnostic_info on).  A reference run gives nf; then for k in 1..nf (quick: 1, 2, last initialisation call, first call "
        "after it, middle, nf-1, nf and one random k) and every fault kind (NaN, +inf, -inf, 1e200 in one or all entries, "
        "raised exception) solve is re-run with that fault at call k; a few cases keep the fault at every call >= k "
        "(k=1: all evaluations bad).  A case is non-trivial when the fault was really delivered (call k was reached) and "
        "either it is a raised exception or some evaluation before call k had a finite objective (so the strongest "
        "clause - finite result not worse than the pre-fault best - applies).")

CFGS = ['plain', 'bounds', 'scaled', 'proj', 'soft', 'hard', 'avg', 'avg_hard', 'reg', 'diag']
KINDS = ['nan', 'pinf', 'ninf', 'big', 'raise']
XTOL = 1e-8          # 'one of the evaluated points (to rounding)'
OBJ_RTOL = 1e-12     # slack on 'not larger than the best pre-fault objective'


def make_spec(seed, i, cfg):
    rng = np.random.default_rng((seed, i, 8))
    base = {'plain': 'plain', 'bounds': 'bounds', 'scaled': 'scaled', 'proj': 'proj', 'reg': 'reg'}.get(cfg)
    if base is None:
        base = str(rng.choice(['plain', 'bounds']))
    spec = gen_problem(rng, base)
    spec['cfg'] = cfg
    n = spec['n']
    params = {}
    spec['maxfun'] = int(rng.choice([12, 25, 40, 60]))
    spec['rhoend'] = hx(float(rng.choice([1e-8, 1e-5, 1e-3])))
    if cfg in ('soft', 'hard', 'avg_hard'):
        params['restarts.use_restarts'] = True
        params['restarts.max_unsuccessful_restarts'] = int(rng.integers(1, 4))
        if cfg != 'soft':
            params['restarts.use_soft_restarts'] = False
            if rng.random() < 0.5:
                params['restarts.hard.use_old_rk'] = False
        if rng.random() < 0.5:
            params['restarts.rhoend_scale'] = float(rng.choice([0.1, 0.5]))
        spec['rhoend'] = hx(float(rng.choice([1e-3, 1e-2])))      # make restarts happen within the budget
        spec['maxfun'] = int(rng.choice([40, 60, 80]))
    if cfg in ('avg', 'avg_hard'):
        spec['has_noise'] = True
        spec['nsamples'] = int(rng.integers(2, 4))
        spec['noise'] = hx(float(rng.choice([1e-3, 1e-2])))
        spec['noise_seed'] = int(rng.integers(0, 2 ** 31 - 1))
        spec['maxfun'] = int(rng.choice([30, 50, 80]))
        if cfg == 'avg':
            params['restarts.max_unsuccessful_restarts'] = int(rng.integers(1, 4))
    if cfg == 'reg':                              # S-FISTA / Dykstra loops are slow in pure Python: keep these small
        spec['maxfun'] = int(rng.choice([8, 12, 16]))
        params['func_tol.max_iters'] = int(rng.choice([30, 60]))
    if cfg == 'proj':
        spec['maxfun'] = int(rng.choice([8, 12, 16]))
        if rng.random() < 0.5:
            params['dykstra.max_iters'] = 30
    if cfg == 'diag':                             # same as plain/bounds but with the diagnostic table switched on
        params['logging.save_diagnostic_info'] = True
        params['logging.save_poisedness'] = bool(rng.random() < 0.5)
        if rng.random() < 0.4:
            params['logging.save_xk'] = True
            params['logging.save_rk'] = True
    if cfg in ('plain', 'bounds', 'diag') and rng.random() < 0.3:
        spec['npt'] = n + 1 + int(rng.integers(1, n + 1))          # regression set
    spec['params'] = enc_params(params)
    return fix_radii(spec)


HEAVY = ('proj', 'reg')


def tasks(seed, tier):
    """one problem per (rep, cfg); its fault list is split over `parts` tasks so that no task runs for long"""
    reps = 5 if tier == 'quick' else 16
    out = []
    i = 0
    for rep in range(reps):
        for cfg in CFGS:
            if tier == 'quick':
                parts = 3 if cfg in HEAVY else 1
            else:
                parts = 12 if cfg in HEAVY else 3
            for p in range(parts):
                out.append(dict(seed=int(seed), i=i, cfg=cfg, tier=tier, part=p, parts=parts))
            i += 1
    return out


def _in_bounds(P, x):
    ok = True
    if P.lo is not None:
        ok = ok and bool(np.all(x >= P.lo))
    if P.hi is not None:
        ok = ok and bool(np.all(x <= P.hi))
    return ok


def success_class(msg):
    for key, name in (('sufficiently small', 'small_objective'), ('rhoend', 'rhoend'), ('unsuccessful restarts', 'max_restarts'),
                      ('noise level', 'noise_level')):
        if key in msg:
            return name
    return 'other'


def raise_site(exc):
    """innermost dfols frame the exception passed through, as 'module.function'"""
    import traceback
    site = 'outside_dfols'
    for fr in traceback.extract_tb(exc.__traceback__):
        d, f = os.path.split(fr.filename)
        if os.path.basename(d) == 'dfols':
            site = '%s.%s' % (f[:-3] if f.endswith('.py') else f, fr.name)
    return site


def check_case(spec, fault):
    """run one faulted case; returns (violations, info)"""
    P = build(spec, fault)
    soln, exc = run_solve(P)
    rec = P.rec
    k, kind, which, persist = fault
    data = dict(spec=spec, fault=list(fault))
    V = []

    def viol(sig, what, **extra):
        d = dict(data)
        d['expect'] = sig
        d.update(extra)
        V.append(dict(signature=sig, what=what, data=d))

    info = dict(delivered=rec.delivered_at is not None, nontrivial=False, flag=None, msg=None)
    if rec.delivered_at is None:
        return V, info                      # the run ended before call k (possible only if the solver is not deterministic)
    averaging = spec.get('nsamples', 1) != 1
    npre = min(k - 1, len(rec.rs))
    if averaging:
        # under sample averaging the solver stores the MEAN of the samples of a point: a pre-fault evaluation counts only if
        # every sample of its point (all calls at the identical x) was delivered before the fault and is finite
        keys = [tuple(np.asarray(xj, dtype=float).tolist()) for xj in rec.xs]
        ok_pts = {}
        for j, key in enumerate(keys):
            good = (j < npre) and math.isfinite(rec.obj(j))
            ok_pts[key] = ok_pts.get(key, True) and good
        prefault = [rec.obj(j) for j in range(npre) if ok_pts[keys[j]]]
    else:
        prefault = [rec.obj(j) for j in range(npre)]
    finite_before = [v for v in prefault if math.isfinite(v)]

    if kind == 'raise':
        info['nontrivial'] = True
        if exc is None:
            viol('C08:exception_swallowed', 'objective raised at call %d but solve returned flag %s (%s)'
                 % (rec.delivered_at, soln.flag, soln.msg), result=result_summary(soln))
        elif exc is not rec.exc:
            viol('C08:exception_changed', 'objective raised FaultError at call %d but solve raised %s: %s'
                 % (rec.delivered_at, type(exc).__name__, exc))
        if rec.calls_after_exc > 0:
            viol('C08:calls_after_exception', '%d further objective calls after the exception raised at call %d'
                 % (rec.calls_after_exc, rec.delivered_at))
        info['flag'] = 'raised'
        return V, info

    info['nontrivial'] = len(finite_before) > 0
    if exc is not None:
        site = raise_site(exc)
        viol('C08:raised:%s:%s' % (type(exc).__name__, site), 'fault %s at call %d%s made solve raise %s: %s (raised through %s)'
             % (kind, k, ' on' if persist else '', type(exc).__name__, str(exc)[:200], site))
        info['flag'] = 'exception:' + type(exc).__name__
        return V, info
    info['flag'], info['msg'] = int(soln.flag), str(soln.msg)
    if soln.flag == soln.EXIT_INPUT_ERROR:
        raise RuntimeError('oracle C08 generated an invalid input: %s / %r' % (soln.msg, spec))
    # budget and bounds
    if rec.ncalls > spec['maxfun']:
        viol('C08:budget_exceeded', '%d objective calls with maxfun=%d' % (rec.ncalls, spec['maxfun']))
    for j, xj in enumerate(rec.xs):
        if not _in_bounds(P, xj):
            viol('C08:eval_outside_bounds', 'call %d evaluated outside the bounds' % (j + 1), call=j + 1, x=hx(xj))
            break
    x = np.asarray(soln.x, dtype=float)
    if not np.all(np.isfinite(x)):
        viol('C08:x_not_finite', 'returned x is not finite: %s' % x, result=result_summary(soln))
    else:
        if not _in_bounds(P, x):
            viol('C08:x_outside_bounds', 'returned x violates the bounds', result=result_summary(soln))
        dist = min(float(np.max(np.abs(x - xj) / (1.0 + np.abs(xj)))) for xj in rec.xs)
        if not dist <= XTOL:
            # with projections the solver re-runs Dykstra on the stored point when it reports it: own class
            viol('C08:x_not_evaluated:projections' if P.projections else 'C08:x_not_evaluated', 'returned x is not one of the %d evaluated points (closest differs by %.3g)'
                 % (len(rec.xs), dist), result=result_summary(soln))
    obj = float(soln.obj)
    if soln.flag == soln.EXIT_SUCCESS and not math.isfinite(obj):
        viol('C08:success_flag_nonfinite_obj:' + success_class(soln.msg), 'success flag (%s) with objective %r after fault '
             '%s from call %d%s' % (soln.msg, obj, kind, k, ' on' if persist else ' only'), result=result_summary(soln))
    if finite_before:
        best = min(finite_before)
        if not math.isfinite(obj):
            sig = 'C08:nan_incumbent' if averaging else 'C08:nan_returned'
            viol(sig, 'fault %s at call %d: returned objective %r although %d earlier evaluations were finite (best %.6g); '
                 'flag %d (%s)' % (kind, k, obj, len(finite_before), best, soln.flag, soln.msg),
                 result=result_summary(soln))
        elif not averaging and obj > best + OBJ_RTOL * abs(best):
            viol('C08:worse_than_prefault_best', 'fault %s at call %d: returned objective %.17g > best finite objective '
                 '%.17g seen before the fault; flag %d (%s)' % (kind, k, obj, best, soln.flag, soln.msg),
                 result=result_summary(soln), best=hx(best))
    return V, info


def choose_faults(spec, nf, rng, tier):
    n = spec['n']
    ns = spec.get('nsamples', 1)
    npt = spec.get('npt') or n + 1
    init_last = min(nf, npt * ns)
    if tier == 'quick':
        ks = {1, 2, init_last, init_last + 1, (init_last + nf) // 2, nf - 1, nf, int(rng.integers(1, nf + 1))}
        ks = sorted(k for k in ks if 1 <= k <= nf)
    else:
        ks = list(range(1, nf + 1))
    faults = []
    for k in ks:
        for kind in KINDS:
            which = 'one' if rng.random() < 0.5 else 'all'
            faults.append([k, kind, which, False])
    # persistent faults: every evaluation from k on is bad (k=1: all of them)
    pk = [1, min(nf, init_last + 1)] if tier == 'quick' else [1, 2, init_last, min(nf, init_last + 1), (init_last + nf) // 2]
    for k in sorted(set(pk)):
        for kind in (KINDS[:4] if tier != 'quick' else [KINDS[int(rng.integers(0, 4))], 'nan']):
            faults.append([k, kind, 'one' if rng.random() < 0.5 else 'all', True])
    return faults


def run_task(task):
    seed, i, cfg, tier = task['seed'], task['i'], task['cfg'], task['tier']
    spec = make_spec(seed, i, cfg)
    rng = np.random.default_rng((seed, i, 88))
    stats = {'cfg': {}, 'kind': {}, 'exit_ref': {}, 'exit_faulted': {}, 'phase': {}, 'persist': {}, 'not_delivered': 0}
    P = build(spec)
    soln, exc = run_solve(P)
    if exc is not None:
        if isinstance(exc, RuntimeError) and 'Unable to generate suitable initial directions' in str(exc):
            # fault-free behaviour of the projection initialisation (not a C08 matter): nothing to inject into
            return dict(evaluations=0, nontrivial=0, violations=[], stats={'reference_raised_init_directions': 1}, sample=None)
        raise RuntimeError('oracle C08: reference run raised %r for %r' % (exc, spec))
    if soln.flag == soln.EXIT_INPUT_ERROR:
        raise RuntimeError('oracle C08 generated an invalid input: %s / %r' % (soln.msg, spec))
    nf = P.rec.ncalls
    bump(stats['cfg'], cfg)
    bump(stats['exit_ref'], '%d %s' % (soln.flag, soln.msg))
    violations, evaluations, nontrivial = [], 0, 0
    sample = None
    seen = set()
    npt = spec.get('npt') or spec['n'] + 1
    init_last = npt * spec.get('nsamples', 1)
    for fault in choose_faults(spec, nf, rng, tier)[task.get('part', 0)::task.get('parts', 1)]:
        V, info = check_case(spec, fault)
        evaluations += 1
        if not info['delivered']:
            stats['not_delivered'] += 1
            continue
        nontrivial += 1 if info['nontrivial'] else 0
        bump(stats['kind'], fault[1])
        bump(stats['persist'], 'persist' if fault[3] else 'single')
        bump(stats['phase'], 'x0' if fault[0] <= spec.get('nsamples', 1) else 'init' if fault[0] <= init_last
             else 'last' if fault[0] >= nf - 1 else 'main')
        bump(stats['exit_faulted'], info['flag'] if info['msg'] is None else '%d %s' % (info['flag'], info['msg']))
        for v in V:
            if v['signature'] not in seen or len(violations) < 20:
                violations.append(v)
            seen.add(v['signature'])
        if sample is None and info['nontrivial'] and fault[1] != 'raise' and fault[0] > init_last:
            sample = dict(cfg=cfg, kind=spec['kind'], n=spec['n'], m=spec['m'], maxfun=spec['maxfun'], nf_reference=nf,
                          fault=fault, exit='%s %s' % (info['flag'], info['msg']))
    return dict(evaluations=evaluations, nontrivial=nontrivial, violations=violations, stats=stats, sample=sample)


def replay(data):
    V, info = check_case(data['spec'], data['fault'])
    if not V:
        return None
    for v in V:
        if v['signature'] == data.get('expect'):
            return v
    return V[0]
