"""C12 oracle: dfols.trust_region.trsbox returns feasible, decreasing steps (see /verif/properties.jsonl).

Clauses checked on every call  d, gnew, crvmin = trsbox(xopt, g, H, sl, su, delta, use_fortran=False):
  box      sl <= fl(xopt + d) <= su, IEEE comparison, no tolerance           C12:box_exact:rounding | :gross
  radius   ||d|| <= delta*(1+1e-8)                                            C12:radius
  descent  q(d) = g.d + 0.5 d'Hd <= 0 (rounding tolerance only)               C12:model_increase
  cauchy   q(d) <= q(dC), dC the steepest-descent step truncated at the first
           bound or the trust-region boundary                                 C12:cauchy_decrease
  gnew     gnew = g + H d to 1e-8 (norm-scaled)                               C12:gnew_mismatch
  (nan/inf in the output, or an exception for legal input)                    C12:nonfinite_output / C12:exception
"""
import math
import os
for _v in ('OMP_NUM_THREADS', 'OPENBLAS_NUM_THREADS', 'MKL_NUM_THREADS'):   # tiny matrices: BLAS threads only cost time
    os.environ.setdefault(_v, '1')                                       # (effective when numpy is not yet imported)
import numpy as np

PID = 'C12'
RULE = ("Each case draws n in 1..8; g = N(0,1)^n * 10^U(-3,3) (8%: some components exactly 0, 2%: g = 0; for PSD H half of "
        "the cases use g = 2 J'r as the solver does); H one of fullrank (2 J'J, m>=n), rankdef (2 J'J, m<n), zero, indef "
        "(random symmetric) times 10^U(-2,2); delta = 10^U(-4,4); xopt = 0 or N(0,1)*10^U(-2,2); every lower and upper "
        "bound independently active (== xopt; per-case probability 0/.1/.25/.5), nearly active (1e-12..1e-3 times delta or times 1 away; per-case probability 0/.1/.25), far "
        "(delta*10^U(-1,2) away) or absent (+-1e20); 3% of coordinates get sl == xopt == su.  All draws come from "
        "numpy.random.default_rng((seed, task_index)); bounds further than 1e-3*max(delta,1) from xopt are multiplied by "
        "1+U(-1e-3,1e-3) so that their bit patterns are unrelated to xopt.  A case is NON-TRIVIAL when at least one bound "
        "is active or nearly active (gap <= 1e-3*max(delta,1)) at xopt and the returned step is non-zero.  stats also give, "
        "per H kind, how many steps ended on the trust-region boundary / on a bound / went through the boundary refinement. "
        "Tolerances: none for the box; 1e-8 relative for the radius; for the model value, Cauchy and gnew clauses a rounding "
        "allowance 1e-11*(|g|.|d| + 0.5|d|'|H||d|) + 4*|g+Hd|.rho resp. 4*max(|H| rho) with rho = eps*(|xopt|+|d|) "
        "(d is returned as fl(fl(xopt+d0)-xopt)), plus 1e-8*|q(dC)| resp. 1e-8*(|g|+|H||d|).")

EPS = 2.0 ** -52


# ---------------------------------------------------------------------------------------------- (de)serialisation
def _hx(a):
    a = np.asarray(a, dtype=float)
    if a.ndim == 0:
        return float(a).hex()
    if a.ndim == 1:
        return [float(v).hex() for v in a]
    return [[float(v).hex() for v in row] for row in a]


def _unhx(h):
    if isinstance(h, str):
        return float.fromhex(h)
    if len(h) > 0 and isinstance(h[0], list):
        return np.array([[float.fromhex(v) for v in row] for row in h], dtype=float)
    return np.array([float.fromhex(v) for v in h], dtype=float)


def _case_data(c):
    return dict(fn='trsbox', n=int(c['xopt'].size), hkind=c['hkind'], xopt=_hx(c['xopt']), g=_hx(c['g']), H=_hx(c['H']),
                sl=_hx(c['sl']), su=_hx(c['su']), delta=_hx(c['delta']),
                readable=dict(xopt=[float(v) for v in c['xopt']], g=[float(v) for v in c['g']],
                              sl=[float(v) for v in c['sl']], su=[float(v) for v in c['su']], delta=float(c['delta'])))


# ---------------------------------------------------------------------------------------------- generation
def gen_case(rng):
    n = int(rng.integers(1, 9))
    delta = 10.0 ** rng.uniform(-4, 4)
    hkind = ['fullrank', 'rankdef', 'zero', 'indef'][int(rng.choice(4, p=[0.3, 0.3, 0.1, 0.3]))]
    if hkind == 'rankdef' and n == 1:
        hkind = 'zero'
    hscale = 10.0 ** rng.uniform(-2, 2)
    J = None
    if hkind == 'fullrank':
        m = n + int(rng.integers(0, 4))
        J = rng.standard_normal((m, n)) * math.sqrt(hscale)
        H = 2.0 * J.T.dot(J)
    elif hkind == 'rankdef':
        m = int(rng.integers(1, n))
        J = rng.standard_normal((m, n)) * math.sqrt(hscale)
        H = 2.0 * J.T.dot(J)
    elif hkind == 'zero':
        H = np.zeros((n, n))
    else:
        A = rng.standard_normal((n, n))
        H = (A + A.T) * (0.5 * hscale)
    H = 0.5 * (H + H.T)
    gscale = 10.0 ** rng.uniform(-3, 3)
    if rng.random() < 0.06:
        gscale = 10.0 ** rng.uniform(-13, -8)       # tiny model gradient (near a zero-residual solution)
    if J is not None and rng.random() < 0.5:
        r = rng.standard_normal(J.shape[0])
        g = 2.0 * J.T.dot(r)
        ng = np.linalg.norm(g)
        g = g * (gscale / ng) if ng > 0 else rng.standard_normal(n) * gscale
        gkind = 'range'
    else:
        g = rng.standard_normal(n) * gscale
        gkind = 'free'
    u = rng.random()
    if u < 0.02:
        g = np.zeros(n)
        gkind = 'zero'
    elif u < 0.10:
        g[rng.random(n) < 0.4] = 0.0
        gkind += '+zeros'
    if rng.random() < 0.4:
        xopt = np.zeros(n)
    else:
        xopt = rng.standard_normal(n) * 10.0 ** rng.uniform(-2, 2)
    sl = np.empty(n)
    su = np.empty(n)

    pa = float(rng.choice([0.0, 0.1, 0.25, 0.5]))   # per case: probability that a given bound is active ...
    pn = float(rng.choice([0.0, 0.1, 0.25]))        # ... nearly active; the rest is far (60%) or absent (40%)
    pr = 1.0 - pa - pn

    def dist():
        k = int(rng.choice(4, p=[pa, pn, 0.6 * pr, 0.4 * pr]))
        if k == 0:
            return 0.0
        if k == 1:
            return 10.0 ** rng.uniform(-12, -3) * (delta if rng.random() < 0.5 else 1.0)
        if k == 2:
            return delta * 10.0 ** rng.uniform(-1, 2)
        return None
    for i in range(n):
        if rng.random() < 0.03:
            sl[i] = su[i] = xopt[i]
            continue
        dl, du = dist(), dist()
        sl[i] = -1e20 if dl is None else xopt[i] - dl
        su[i] = 1e20 if du is None else xopt[i] + du
        # far bounds get bit patterns unrelated to xopt (a bound built as xopt +- dist makes su - xopt exact)
        if dl is not None and dl > 1e-3 * max(delta, 1.0):
            sl[i] *= 1.0 + rng.uniform(-1e-3, 1e-3)
        if du is not None and du > 1e-3 * max(delta, 1.0):
            su[i] *= 1.0 + rng.uniform(-1e-3, 1e-3)
        # rounding can only move a bound onto xopt, never across it
        sl[i] = min(sl[i], xopt[i])
        su[i] = max(su[i], xopt[i])
    if n >= 2 and rng.random() < 0.08:
        # exact ties in the ratio test: two or more coordinates with identical gradient, bound distances and (zero or scalar) curvature,
        # so that several bounds are hit at exactly the same step length
        H = np.zeros((n, n)) if rng.random() < 0.7 else np.eye(n) * float(H[0, 0] if H[0, 0] > 0 else 1.0)
        hkind = 'tie'
        k = int(rng.integers(2, n + 1))
        idx = rng.permutation(n)[:k]
        j0 = idx[0]
        if g[j0] == 0.0:
            g[j0] = -gscale
        for j in idx[1:]:
            g[j] = g[j0]
            sl[j] = xopt[j] + (sl[j0] - xopt[j0]) if sl[j0] > -1e19 else -1e20
            su[j] = xopt[j] + (su[j0] - xopt[j0]) if su[j0] < 1e19 else 1e20
            if abs((su[j] - xopt[j]) - (su[j0] - xopt[j0])) > 0 or abs((sl[j] - xopt[j]) - (sl[j0] - xopt[j0])) > 0:
                xopt[j] = xopt[j0]; sl[j] = sl[j0]; su[j] = su[j0]       # make the distances bit-identical
    return dict(xopt=xopt, g=g, H=H, sl=sl, su=su, delta=delta, hkind=hkind, gkind=gkind)


# ---------------------------------------------------------------------------------------------- reference quantities
def qval(g, H, d):
    return float(np.dot(g, d) + 0.5 * np.dot(d, H.dot(d)))


def qmag(g, H, d):
    """magnitude of the terms of q(d): rounding-error scale of evaluating q and of the solver's own arithmetic"""
    ad = np.abs(d)
    return float(np.dot(np.abs(g), ad) + 0.5 * np.dot(ad, np.abs(H).dot(ad)))


def cauchy_step(xopt, g, H, sl, su, delta):
    """steepest-descent direction s = -g with the components that push into a bound active at xopt removed;
    t* = min(exact line minimiser, first bound hit, trust-region boundary).  Returns (dC, q(dC), which)."""
    n = xopt.size
    s = -g.copy()
    s[(xopt <= sl) & (g >= 0.0)] = 0.0
    s[(xopt >= su) & (g <= 0.0)] = 0.0
    ss = float(np.dot(s, s))
    if ss == 0.0:
        return np.zeros(n), 0.0, 'zero'
    shs = float(np.dot(s, H.dot(s)))
    t, which = delta / math.sqrt(ss), 'tr'
    if shs > 0.0 and ss / shs < t:
        t, which = ss / shs, 'newton'
    for i in range(n):
        if s[i] > 0.0:
            tb = (su[i] - xopt[i]) / s[i]
        elif s[i] < 0.0:
            tb = (sl[i] - xopt[i]) / s[i]
        else:
            continue
        if tb < t:
            t, which = tb, 'bound'
    t = max(t, 0.0)
    qC = -t * ss + 0.5 * t * t * shs
    return t * s, float(qC), which


# ---------------------------------------------------------------------------------------------- the check
def check_case(c):
    """run the real trsbox on one case; returns (list of violations, info dict)"""
    from dfols.trust_region import trsbox
    xopt, g, H, sl, su, delta = c['xopt'], c['g'], c['H'], c['sl'], c['su'], c['delta']
    n = xopt.size
    viol = []
    info = {}

    def v(sig, what, **extra):
        d = _case_data(c)
        d['clause'] = sig
        d.update(extra)
        viol.append(dict(signature=sig, what=what, data=d))

    try:
        with np.errstate(all='ignore'):
            d, gnew, crvmin = trsbox(xopt.copy(), g.copy(), H.copy(), sl.copy(), su.copy(), delta, use_fortran=False)
    except Exception as ex:   # legal input: an exception is a failure of the routine, not of the oracle
        v('C12:exception', 'trsbox raised %s: %s' % (type(ex).__name__, ex))
        return viol, dict(exception=True)
    d = np.asarray(d, dtype=float)
    gnew = np.asarray(gnew, dtype=float)
    if d.shape != (n,) or gnew.shape != (n,) or not (np.all(np.isfinite(d)) and np.all(np.isfinite(gnew))):
        v('C12:nonfinite_output', 'trsbox returned a non-finite or mis-shaped step/gradient', d=_hx(d.ravel()),
          gnew=_hx(gnew.ravel()))
        return viol, dict(nonfinite=True)

    # -- box, exactly
    xn = xopt + d
    bad = (xn < sl) | (xn > su)
    if np.any(bad):
        i = int(np.argmax(bad))
        over = float(max(sl[i] - xn[i], xn[i] - su[i]))
        # d = xnew - xopt is rounded once: an overshoot of at most one unit in the last place of the larger of
        # |xopt_i|, |d_i|, |bound_i| is that single rounding; anything larger is a different defect
        ulp = float(np.spacing(max(abs(xopt[i]), abs(d[i]), abs(sl[i]) if xn[i] < sl[i] else abs(su[i]))))
        cls = 'rounding' if over <= 2.0 * ulp else 'gross'
        v('C12:box_exact:%s' % cls,
          'fl(xopt+d) leaves the box in coordinate %d by %.3g (= %.2f ulp of the operands): xopt=%r d=%r sl=%r su=%r' %
          (i, over, over / ulp, float(xopt[i]), float(d[i]), float(sl[i]), float(su[i])), d=_hx(d), coord=i)
    # -- radius
    nd = float(np.linalg.norm(d))
    if not nd <= delta * (1.0 + 1e-8):
        v('C12:radius', '||d|| = %.17g > delta*(1+1e-8), delta = %.17g' % (nd, delta), d=_hx(d))
    # The routine returns d = fl(fl(xopt + d0) - xopt): d is only defined up to rho_i = eps*(|xopt_i| + |d_i|) per
    # coordinate.  The induced first-order changes of q and of g + H d are granted as rounding allowance (they vanish
    # for xopt = 0, the usual situation inside the solver).
    gref = g + H.dot(d)
    rho = EPS * (np.abs(xopt) + np.abs(d))
    q_round = 4.0 * float(np.dot(np.abs(gref), rho))
    g_round = 4.0 * float(np.max(np.abs(H).dot(rho))) if n else 0.0
    # -- no model increase
    q = qval(g, H, d)
    mag = qmag(g, H, d)
    if not q <= 1e-11 * mag + q_round:
        v('C12:model_increase', 'q(d) = %.6g > 0 (terms of size %.3g, |g|*delta = %.3g)' %
          (q, mag, float(np.linalg.norm(g)) * delta), d=_hx(d), q=_hx(q))
    # -- Cauchy decrease
    dC, qC, which = cauchy_step(xopt, g, H, sl, su, delta)
    tolC = 1e-8 * abs(qC) + 1e-11 * mag + q_round
    if not q <= qC + tolC:
        v('C12:cauchy_decrease', 'q(d) = %.10g > q(dC) = %.10g (Cauchy step ends at: %s; shortfall %.3g relative)' %
          (q, qC, which, (q - qC) / abs(qC) if qC != 0 else float('inf')), d=_hx(d), dC=_hx(dC), q=_hx(q), qC=_hx(qC))
    # -- gnew = g + H d
    gsc = float(np.linalg.norm(g) + np.linalg.norm(H) * nd)
    gerr = float(np.max(np.abs(gnew - gref))) if n else 0.0
    if not gerr <= 1e-8 * gsc + g_round:
        v('C12:gnew_mismatch', 'max|gnew - (g + H d)| = %.3g, scale |g| + |H||d| = %.3g' % (gerr, gsc), d=_hx(d),
          gnew=_hx(gnew))

    nact = int(np.sum((sl == xopt) | (su == xopt)))
    gap = np.minimum(xopt - sl, su - xopt)
    nnear = int(np.sum((gap > 0) & (gap <= 1.001e-3 * max(delta, 1.0))))
    on_tr = nd >= delta * (1 - 1e-6)
    on_bd = int(np.sum(((xn <= sl) | (xn >= su)) & (d != 0.0)))
    info = dict(nact=nact, nnear=nnear, on_tr=bool(on_tr), on_bd=on_bd, alt=(crvmin == 0.0), zero_step=(nd == 0.0),
                cauchy=which, q=q, qC=qC,
                nontrivial=bool((nact > 0 or nnear > 0) and nd > 0.0))
    return viol, info


# ---------------------------------------------------------------------------------------------- interface
def tasks(seed, tier):
    ntask, ncase = (64, 500) if tier == 'quick' else (640, 1000)
    return [dict(pid=PID, seed=int(seed), i=i, ncases=ncase) for i in range(ntask)]


def _bump(stats, key, n=1):
    stats[key] = stats.get(key, 0) + n


def run_task(task):
    rng = np.random.default_rng((task['seed'], task['i']))
    stats, viols, sample = {}, [], None
    nontriv = 0
    for k in range(task['ncases']):
        c = gen_case(rng)
        vs, info = check_case(c)
        for x in vs:
            x['data']['task'] = dict(seed=task['seed'], i=task['i'], case=k)
        for x in vs:      # at most 5 recorded violations per signature and task (all are counted in stats)
            if sum(1 for y in viols if y['signature'] == x['signature']) < 5:
                viols.append(x)
        for x in vs:
            _bump(stats, 'violations:' + x['signature'])
        _bump(stats, 'n=%d' % c['xopt'].size)
        _bump(stats, 'H:' + c['hkind'])
        _bump(stats, 'g:' + c['gkind'])
        _bump(stats, 'log10delta=%+d' % int(math.floor(math.log10(c['delta']))))
        if info.get('exception') or info.get('nonfinite'):
            continue
        _bump(stats, 'active_bounds=%s' % (info['nact'] if info['nact'] < 3 else '3+'))
        _bump(stats, 'near_active=%s' % (info['nnear'] if info['nnear'] < 3 else '3+'))
        _bump(stats, 'cauchy_ends:' + info['cauchy'])
        for key in ('on_tr', 'alt', 'zero_step'):
            if info[key]:
                _bump(stats, 'result:' + key)
                _bump(stats, 'H:%s/result:%s' % (c['hkind'], key))
        if info['on_bd']:
            _bump(stats, 'result:on_bound')
            _bump(stats, 'H:%s/result:on_bound' % c['hkind'])
        if info['nontrivial']:
            _bump(stats, 'nontrivial/H:' + c['hkind'])
        if info['q'] < info['qC'] * (1 + 1e-6) - 1e-300:
            _bump(stats, 'result:strictly_better_than_cauchy')
        if info['nontrivial']:
            nontriv += 1
            if sample is None and info['nact'] > 0 and info['on_tr']:
                sample = dict(case=_case_data(c), info={kk: (vv if not isinstance(vv, (np.bool_,)) else bool(vv))
                                                        for kk, vv in info.items()})
    return dict(evaluations=task['ncases'], nontrivial=nontriv, violations=viols, stats=stats, sample=sample)


def replay(data):
    c = dict(xopt=_unhx(data['xopt']), g=_unhx(data['g']), H=_unhx(data['H']).reshape(data['n'], data['n']),
             sl=_unhx(data['sl']), su=_unhx(data['su']), delta=_unhx(data['delta']), hkind=data.get('hkind', '?'),
             gkind='replay')
    vs, _ = check_case(c)
    want = data.get('clause')
    for x in vs:
        if want is None or x['signature'] == want:
            return x
    return vs[0] if vs else None
