"""Oracle for C18: trust-region radii and the diagnostic table obey their invariants.  Runs the real dfols.solve with
logging.save_diagnostic_info=True and checks every row of soln.diagnostic_info, see RULE.

Signatures (one per clause):
  C18:rho_nonpositive  C18:delta_lt_rho  C18:rho_lt_rhoend  C18:rho_gt_rhobeg  C18:delta_gt_1e10
  C18:rho_increased (within a run, growing.reset_rho off)    C18:fk_increased (deterministic objective, within a run)
  C18:columns  C18:no_table  C18:iters_total_not_consecutive  C18:iter_this_run_not_consecutive
  C18:nf_decreased  C18:nx_decreased  C18:run_counter_decreased  C18:nf_gt_final  C18:nx_gt_final  C18:run_counter_gt_final
  C18:npt_out_of_range
"""
# ======================================================================================================================
# shared core: problem specs, builders, recording objective wrapper.  This block is duplicated verbatim in
# C08.py / C10.py / C18.py / C19.py (the oracle modules are required to be self-contained) - keep the copies in sync.
# ======================================================================================================================
import copy, logging, math, os, sys, warnings

for _v in ('OPENBLAS_NUM_THREADS', 'OMP_NUM_THREADS', 'MKL_NUM_THREADS'):   # tiny matrices: BLAS threads only hurt
    os.environ.setdefault(_v, '1')

_REPO = os.environ.get('DFOLS_REPO', '/repo')
if _REPO not in sys.path:
    sys.path.insert(0, _REPO)
import numpy as np
import dfols

logging.getLogger('dfols').addHandler(logging.NullHandler())   # the solver logs some warnings unconditionally


def hx(v):
    """float / array -> hex string / nested list of hex strings (exact)"""
    if v is None:
        return None
    a = np.asarray(v, dtype=float)
    if a.ndim == 0:
        return float(a).hex()
    return [hx(e) for e in a]


def unhx(v):
    if v is None:
        return None
    if isinstance(v, str):
        return float.fromhex(v)
    return np.array([unhx(e) for e in v], dtype=float)


def enc_params(d):
    """user_params with floats written as 'f:<hex>' (ints, bools, None stay as they are)"""
    out = {}
    for k, v in d.items():
        if isinstance(v, bool) or v is None or isinstance(v, int):
            out[k] = v
        else:
            out[k] = 'f:' + float(v).hex()
    return out


def dec_params(d):
    out = {}
    for k, v in d.items():
        out[k] = float.fromhex(v[2:]) if isinstance(v, str) and v.startswith('f:') else v
    return out


class FaultError(Exception):
    pass


def _resid_fun(spec):
    kind = spec['kind']
    n, m = spec['n'], spec['m']
    if kind == 'rosen':
        def f(x):
            r = np.empty(2 * (n - 1))
            r[0::2] = 10.0 * (x[1:] - x[:-1] ** 2)
            r[1::2] = 1.0 - x[:-1]
            return r
        return f
    A, b = unhx(spec['A']), unhx(spec['b'])
    if kind == 'lin':
        return lambda x: A.dot(x) - b
    if kind == 'nl':
        return lambda x: A.dot(x) - b + 0.5 * np.sin(A.dot(x))
    raise ValueError('unknown problem kind %r' % (kind,))


def _make_projection(p):
    if p[0] == 'ball':
        c, r = unhx(p[1]), unhx(p[2])
        return lambda x: dfols.util.pball(x, c, r)
    if p[0] == 'box':
        l, u = unhx(p[1]), unhx(p[2])
        return lambda x: dfols.util.pbox(x, l, u)
    if p[0] == 'halfspace':          # {x : a.x <= beta}
        a, beta = unhx(p[1]), unhx(p[2])
        aa = float(a.dot(a))
        return lambda x: x - (max(float(a.dot(x)) - beta, 0.0) / aa) * a
    raise ValueError('unknown projection %r' % (p[0],))


class Rec(object):
    """the user's residual function: counts calls, records (x, r) of every call, optionally injects one fault.
    fault = [k, kind, which, persist]: at call k (and at every later call if persist) the returned vector gets
    entry 0 ('one') or all entries ('all') replaced by NaN / +inf / -inf / 1e200, or FaultError is raised."""
    VALUES = {'nan': float('nan'), 'pinf': float('inf'), 'ninf': float('-inf'), 'big': 1e200}

    def __init__(self, spec, fault=None):
        self.f = _resid_fun(spec)
        self.lam = unhx(spec.get('reg'))
        self.sigma = unhx(spec.get('noise'))
        self.noise_rng = np.random.default_rng(spec.get('noise_seed', 0)) if self.sigma else None  # never the global RNG
        self.fault = fault
        self.xs, self.rs = [], []
        self.ncalls = 0
        self.delivered_at = None      # first call at which the fault was delivered
        self.exc = None
        self.calls_after_exc = 0

    def __call__(self, x):
        self.ncalls += 1
        if self.exc is not None:
            self.calls_after_exc += 1
        self.xs.append(np.array(x, dtype=float, copy=True))
        r = self.f(x)
        if self.noise_rng is not None:
            r = r + self.sigma * self.noise_rng.standard_normal(len(r))
        if self.fault is not None:
            k, kind, which, persist = self.fault
            if self.ncalls == k or (persist and self.ncalls > k):
                if self.delivered_at is None:
                    self.delivered_at = self.ncalls
                if kind == 'raise':
                    self.rs.append(None)
                    self.exc = FaultError('injected at call %d' % self.ncalls)
                    raise self.exc
                r = np.array(r, dtype=float, copy=True)
                if which == 'all':
                    r[:] = self.VALUES[kind]
                else:
                    r[0] = self.VALUES[kind]
        self.rs.append(np.array(r, dtype=float, copy=True))
        return r

    def hval(self, x):
        return 0.0 if self.lam is None else self.lam * float(np.sum(np.abs(x)))

    def obj(self, j):
        """objective value of call j (0-based) as the solver defines it: sum of squares (+ regulariser)"""
        r = self.rs[j]
        if r is None:
            return float('nan')
        with np.errstate(all='ignore'):
            return float(np.dot(r, r)) + self.hval(self.xs[j])


class Problem(object):
    pass


def build(spec, fault=None):
    """spec (pure JSON data, floats in hex) -> Problem with fresh caller-side objects and solve() keyword arguments"""
    P = Problem()
    P.spec = spec
    P.n = spec['n']
    P.rec = Rec(spec, fault)
    x0 = unhx(spec['x0'])
    P.x0 = x0.astype(int) if spec.get('x0_int') else x0
    P.lo, P.hi = unhx(spec.get('lo')), unhx(spec.get('hi'))
    P.bounds = None if (P.lo is None and P.hi is None) else (P.lo, P.hi)
    P.projections = [_make_projection(p) for p in spec.get('proj') or []]
    P.user_params = dec_params(spec.get('params') or {})
    P.rhobeg, P.rhoend = unhx(spec.get('rhobeg')), unhx(spec['rhoend'])
    kw = dict(bounds=P.bounds, rhoend=P.rhoend, maxfun=spec['maxfun'], user_params=P.user_params,
              objfun_has_noise=bool(spec.get('has_noise')), scaling_within_bounds=bool(spec.get('scaling')),
              do_logging=bool(spec.get('do_logging', False)))
    if P.projections:
        kw['projections'] = P.projections
    if spec.get('npt') is not None:
        kw['npt'] = spec['npt']
    if P.rhobeg is not None:
        kw['rhobeg'] = P.rhobeg
    ns = spec.get('nsamples', 1)
    if ns != 1:
        if isinstance(ns, int):
            kw['nsamples'] = lambda delta, rho, it, nruns: ns
        else:                         # ['byrun', a, b] -> a + b*nruns
            kw['nsamples'] = lambda delta, rho, it, nruns: ns[1] + ns[2] * nruns
    if spec.get('reg') is not None:
        lam = unhx(spec['reg'])
        kw['h'] = lambda x: lam * float(np.sum(np.abs(x)))
        kw['lh'] = lam * math.sqrt(P.n)
        kw['prox_uh'] = lambda x, u: np.sign(x) * np.maximum(np.abs(x) - lam * u, 0.0)
    P.kw = kw
    # effective values the solver will use (documented defaults)
    P.npt_eff = spec['npt'] if spec.get('npt') is not None else P.n + 1
    if P.rhobeg is not None:
        P.rhobeg_eff = P.rhobeg
    else:
        P.rhobeg_eff = 0.1 if (spec.get('scaling') and P.lo is not None and P.hi is not None and not P.projections) \
            else 0.1 * max(float(np.max(np.abs(x0))), 1.0)
    return P


class _QuietStderr(object):
    """LAPACK's xerbla prints ' ** On entry to DLASCL parameter number 4 had an illegal value' (on fd 1 with this
    OpenBLAS build, fd 2 elsewhere) when the solver takes 2-norms of non-finite matrices; silence both descriptors
    for the duration of the solve call only"""
    def __enter__(self):
        self.saved = []
        try:
            sys.stdout.flush()
            sys.stderr.flush()
            nul = os.open(os.devnull, os.O_WRONLY)
            for fd in (1, 2):
                self.saved.append((fd, os.dup(fd)))
                os.dup2(nul, fd)
            os.close(nul)
        except (OSError, ValueError):
            pass

    def __exit__(self, *a):
        for fd, keep in self.saved:
            os.dup2(keep, fd)
            os.close(keep)
        return False


def run_solve(P, npseed=None):
    """call dfols.solve on the problem; returns (soln, exception).  Seeds the global NumPy RNG first so that every
    run is replayable even where the solver draws random directions."""
    np.random.seed(P.spec.get('npseed', 0) if npseed is None else npseed)
    with warnings.catch_warnings(), np.errstate(all='ignore'), _QuietStderr():
        warnings.simplefilter('ignore')
        try:
            return dfols.solve(P.rec, P.x0, **P.kw), None
        except Exception as ex:
            return None, ex


def gen_problem(rng, cfg, zero_resid=None):
    """random small least-squares problem in configuration cfg; returns a spec dict without budgets / params.
    cfg in plain | bounds | scaled | proj | reg (regularised) ; other settings are added by the callers."""
    n = int(rng.integers(2, 4 if cfg in ('proj', 'reg') else 5))     # projections / S-FISTA are slow in pure Python
    kind = str(rng.choice(['lin', 'rosen', 'nl']))
    if zero_resid is None:
        zero_resid = bool(rng.random() < 0.5)
    spec = dict(kind=kind, n=n, cfg=cfg)
    if kind == 'rosen':
        m = 2 * (n - 1)
        xstar = np.ones(n)
        x0 = np.where(np.arange(n) % 2 == 0, -1.2, 1.0) + 0.2 * rng.normal(size=n)
    else:
        m = n + int(rng.integers(0, 4))
        A = rng.normal(size=(m, n))
        xstar = rng.normal(size=n)
        b = A.dot(xstar) + (0.5 * np.sin(A.dot(xstar)) if kind == 'nl' else 0.0)
        if not zero_resid:
            b = b + 0.5 * rng.normal(size=m)
        x0 = xstar + float(rng.choice([0.3, 1.0, 3.0])) * rng.normal(size=n)
        spec['A'], spec['b'] = hx(A), hx(b)
    spec['m'] = m
    spec['zero_resid'] = bool(zero_resid or kind == 'rosen')
    rhobeg = None
    if rng.random() < 0.6:
        rhobeg = float(rng.choice([0.05, 0.1, 0.3, 1.0]))
    if cfg in ('bounds', 'scaled') or (cfg in ('proj', 'reg') and rng.random() < 0.5):
        rb = rhobeg if rhobeg is not None else 0.1 * max(float(np.max(np.abs(x0))), 1.0)
        lo = np.minimum(x0, xstar) - rng.uniform(0.1, 2.0, size=n)
        hi = np.maximum(x0, xstar) + rng.uniform(0.1, 2.0, size=n)
        for j in range(n):                       # make some bounds active at the solution / at x0, x0 sometimes outside
            u = rng.random()
            if u < 0.2:
                hi[j] = xstar[j] - rng.uniform(0.05, 0.5)
            elif u < 0.4:
                lo[j] = xstar[j] + rng.uniform(0.05, 0.5)
            elif u < 0.5:
                lo[j] = x0[j]
            elif u < 0.6:
                hi[j] = x0[j] - 0.01
        if cfg == 'scaled':
            hi = hi + np.array([10.0 ** int(rng.integers(0, 3)) for _ in range(n)])
            rhobeg = None if rng.random() < 0.5 else float(rng.choice([0.05, 0.1, 0.3]))
            spec['scaling'] = True
        else:
            gap = 2.5 * rb
            bad = hi - lo < gap
            hi[bad] = lo[bad] + gap
        spec['lo'], spec['hi'] = hx(lo), hx(hi)
    if cfg == 'proj':
        # feasible set = ball [& halfspace] [& box] with non-empty interior around z (z near, not at, the minimiser)
        z = xstar + 0.3 * rng.normal(size=n)
        c = z + 0.5 * rng.normal(size=n)
        rad = float(np.linalg.norm(z - c) + rng.uniform(0.3, 1.0))
        proj = [['ball', hx(c), hx(rad)]]
        if spec.get('lo') is None and rng.random() < 0.6:      # at most two user sets + box: Dykstra is slow in pure Python
            a = rng.normal(size=n)
            proj.append(['halfspace', hx(a), hx(float(a.dot(z)) + rng.uniform(0.3, 1.0) * float(np.linalg.norm(a)))])
        spec['proj'] = proj
        if spec.get('lo') is not None:
            spec['lo'] = hx(np.minimum(unhx(spec['lo']), z - 0.3))
            spec['hi'] = hx(np.maximum(unhx(spec['hi']), z + 0.3))
    if cfg == 'reg':
        spec['reg'] = hx(float(rng.choice([0.01, 0.1, 0.5])))
    spec['x0'] = hx(x0)
    spec['rhobeg'] = hx(rhobeg)
    spec['rhoend'] = hx(1e-8)
    spec['npseed'] = int(rng.integers(0, 2 ** 31 - 1))
    return spec


def fix_radii(spec):
    """keep the generated input valid: rhoend well below the rhobeg the solver will use"""
    if spec.get('rhobeg') is not None:
        rb = float(unhx(spec['rhobeg']))
    elif spec.get('scaling'):
        rb = 0.1
    else:
        rb = 0.1 * max(float(np.max(np.abs(unhx(spec['x0'])))), 1.0)
    if float(unhx(spec['rhoend'])) > 0.1 * rb:
        spec['rhoend'] = hx(0.01 * rb)
    return spec


def clean_float(v):
    return None if v is None else (float(v) if math.isfinite(float(v)) else repr(float(v)))


def result_summary(soln):
    if soln is None:
        return None
    return dict(flag=int(soln.flag), msg=str(soln.msg), nf=int(soln.nf), nx=int(soln.nx), nruns=int(soln.nruns),
                obj=hx(soln.obj) if soln.obj is not None else None, x=hx(soln.x) if soln.x is not None else None)


def bump(d, key, n=1):
    d[key] = d.get(key, 0) + n


def merge_counts(dst, src):
    for k, v in src.items():
        if isinstance(v, dict):
            merge_counts(dst.setdefault(k, {}), v)
        else:
            dst[k] = dst.get(k, 0) + v
# ============================================================ end of shared core ======================================

RULE = ("Cases: one call of dfols.solve with logging.save_diagnostic_info=True on a random small least-squares problem "
        "(linear / Rosenbrock / mildly nonlinear, n=2..4; plain, bounds, scaled, occasionally projections or a "
        "regulariser) with random radii (rhobeg 1e-3..10, sometimes huge up to 5e9; rhoend 1e-8..1e-2), budgets, "
        "trust-region parameters inside their documented ranges, regression sets (npt>n+1, extra steps), growing "
        "settings (growing.ndirs_initial<n, reset_delta / reset_rho, safety options), soft and hard restarts "
        "(rhoend_scale 0.1..1, increase_npt up to restarts.max_npt), deterministic or noisy objectives with sample "
        "averaging, optionally save_poisedness / save_xk / save_rk.  Every row of soln.diagnostic_info is checked.  "
        "A run is non-trivial when its table has at least 3 rows and rho takes at least two different values or the "
        "run counter changes (so the monotonicity and per-restart clauses are exercised).")

DOC_COLUMNS = ['xk', 'rk', 'fk', 'rho', 'delta', 'norm_sk', 'npt', 'interpolation_error', 'interpolation_condition_number',
               'interpolation_change_J_norm', 'interpolation_total_residual', 'poisedness', 'max_distance_xk', 'norm_gk',
               'nruns', 'nf', 'nx', 'nsamples', 'iter_this_run', 'iters_total', 'iter_type', 'ratio', 'slow_iter']
FK_RTOL = 1e-12


def make_spec(seed, i, j):
    rng = np.random.default_rng((seed, i, j, 18))
    u = rng.random()
    cfg = 'plain' if u < 0.4 else 'bounds' if u < 0.7 else 'scaled' if u < 0.82 else 'proj' if u < 0.91 else 'reg'
    mode = str(rng.choice(['basic', 'basic', 'tr_params', 'regression', 'growing', 'soft', 'hard', 'noisy', 'huge_rhobeg']))
    if mode in ('growing', 'huge_rhobeg') and cfg != 'plain':
        cfg = 'plain' if mode == 'huge_rhobeg' or cfg in ('proj', 'reg', 'scaled') else cfg
    spec = gen_problem(rng, cfg)
    spec['mode'] = mode
    n = spec['n']
    heavy = cfg in ('proj', 'reg')
    params = {'logging.save_diagnostic_info': True, 'logging.save_poisedness': bool(rng.random() < 0.25)}
    if rng.random() < 0.3:
        params['logging.save_xk'] = bool(rng.random() < 0.7)
        params['logging.save_rk'] = bool(rng.random() < 0.7)
    spec['maxfun'] = int(rng.choice([30, 60, 120])) if not heavy else int(rng.choice([12, 20, 30]))
    spec['rhoend'] = hx(float(rng.choice([1e-8, 1e-6, 1e-4, 1e-2])))
    if cfg == 'reg':
        params['func_tol.max_iters'] = int(rng.choice([30, 60]))
    if cfg == 'proj' and rng.random() < 0.5:
        params['dykstra.max_iters'] = 30
    if cfg not in ('scaled',) and spec.get('lo') is None and rng.random() < 0.3:
        spec['rhobeg'] = hx(float(rng.choice([1e-3, 1e-2, 3.0, 10.0])))
        if float(unhx(spec['rhobeg'])) <= float(unhx(spec['rhoend'])):
            spec['rhoend'] = hx(1e-6)
    if mode == 'huge_rhobeg':
        rb = float(rng.choice([1e3, 1e6, 1e9, 5e9]))
        spec['rhobeg'] = hx(rb)
        spec['rhoend'] = hx(float(rng.choice([1e-2, 1.0, 1e3])))
        if rng.random() < 0.7:                   # start far away on the scale of rhobeg so that delta grows to its cap
            spec['x0'] = hx(unhx(spec['x0']) + rb * float(rng.choice([10.0, 100.0, 1000.0])) * rng.normal(size=n))
    if mode == 'tr_params' or rng.random() < 0.2:
        params['tr_radius.eta1'] = float(rng.choice([0.01, 0.1, 0.3]))
        params['tr_radius.eta2'] = float(rng.choice([0.5, 0.7, 0.95]))
        params['tr_radius.gamma_dec'] = float(rng.choice([0.1, 0.5, 0.98]))
        params['tr_radius.gamma_inc'] = float(rng.choice([1.0, 2.0, 5.0]))
        params['tr_radius.gamma_inc_overline'] = float(rng.choice([1.0, 4.0, 10.0]))
        params['tr_radius.alpha1'] = float(rng.choice([1e-4, 1e-3, 0.01, 0.1, 0.9]))    # below 1/250 too
        params['tr_radius.alpha2'] = float(rng.choice([0.05, 0.5, 0.95]))
        if rng.random() < 0.5:
            params['general.safety_step_thresh'] = float(rng.choice([0.1, 0.5, 1.0]))
    if mode == 'regression' and not heavy:
        spec['npt'] = n + 1 + int(rng.integers(1, (n + 1) * (n + 2) // 2 - n))      # up to (n+1)(n+2)/2: no random init
        if rng.random() < 0.6:
            # also as many or more extra steps than there are interpolation points (legal: the table has no upper bound)
            params['regression.num_extra_steps'] = int(rng.integers(1, 3)) if rng.random() < 0.6 else spec['npt'] + int(rng.integers(0, 6))
            if rng.random() < 0.3:
                params['regression.momentum_extra_steps'] = True
    if mode == 'growing':
        params['growing.ndirs_initial'] = int(rng.integers(1, n))
        if rng.random() < 0.5:
            params['growing.reset_delta'] = True
            if rng.random() < 0.5:
                params['growing.reset_rho'] = True
        if rng.random() < 0.3:
            params['growing.num_new_dirns_each_iter'] = 1
        if rng.random() < 0.3:
            params['growing.do_geom_steps'] = True
        if rng.random() < 0.3:
            params['growing.safety.reduce_delta'] = True
        elif rng.random() < 0.3:
            params['growing.safety.full_geom_step'] = True
        elif rng.random() < 0.2:
            params['growing.safety.do_safety_step'] = False
        if rng.random() < 0.3:
            params['growing.full_rank.use_full_rank_interp'] = False
            params['growing.perturb_trust_region_step'] = True
        if rng.random() < 0.3:
            params['growing.gamma_dec'] = float(rng.choice([0.3, 0.9]))
    if mode in ('soft', 'hard') or (mode == 'noisy' and rng.random() < 0.5):
        params['restarts.use_restarts'] = True
        params['restarts.max_unsuccessful_restarts'] = int(rng.integers(1, 4))
        if mode == 'hard' or (mode == 'noisy' and rng.random() < 0.4):
            params['restarts.use_soft_restarts'] = False
            if rng.random() < 0.5:
                params['restarts.hard.use_old_rk'] = False
        else:
            if rng.random() < 0.3:
                params['restarts.soft.move_xk'] = False
            if rng.random() < 0.3:
                # soft restarts triggered by the slow-progress exit rather than by rhoend
                params['slow.max_slow_iters'] = int(rng.integers(1, 6))
                params['slow.thresh_for_slow'] = float(rng.choice([0.5, 2.0]))
            if rng.random() < 0.3:
                params['restarts.soft.num_geom_steps'] = int(rng.integers(1, 4))
        if rng.random() < 0.7:
            params['restarts.rhoend_scale'] = float(rng.choice([0.1, 0.5, 0.9]))
        if rng.random() < 0.3 and not heavy:
            params['restarts.increase_npt'] = True
            params['restarts.increase_npt_amt'] = int(rng.integers(1, 3))
            params['restarts.max_npt'] = max(spec.get('npt') or n + 1,
                                             min((spec.get('npt') or n + 1) + int(rng.integers(1, 4)), (n + 1) * (n + 2) // 2))
            if params.get('restarts.use_soft_restarts', True) is False and rng.random() < 0.8:
                # as the user guide recommends: no growing phase after a hard restart with more points
                params['restarts.hard.increase_ndirs_initial_amt'] = params['restarts.increase_npt_amt']
        if mode != 'noisy':
            spec['rhoend'] = hx(float(rng.choice([1e-4, 1e-3, 1e-2])))
            if spec.get('rhobeg') is not None and float(unhx(spec['rhobeg'])) <= float(unhx(spec['rhoend'])):
                spec['rhobeg'] = hx(0.1)
    if mode == 'noisy':
        spec['has_noise'] = True
        spec['noise'] = hx(float(rng.choice([1e-4, 1e-2])))
        spec['noise_seed'] = int(rng.integers(0, 2 ** 31 - 1))
        ns = int(rng.integers(1, 4))
        if ns > 1:
            spec['nsamples'] = ns
    elif rng.random() < 0.1:
        spec['nsamples'] = int(rng.integers(2, 4))            # averaging of a deterministic objective
    spec['params'] = enc_params(params)
    return fix_radii(spec)


def tasks(seed, tier):
    ntasks, per = (60, 8) if tier == 'quick' else (400, 24)
    return [dict(seed=int(seed), i=i, count=per, tier=tier) for i in range(ntasks)]


def check_run(spec):
    P = build(spec)
    soln, exc = run_solve(P)
    V = []
    info = dict(exit=None, nontrivial=False, rows=0, mode=spec['mode'], cfg=spec['cfg'], iter_types={})

    def viol(sig, what, **extra):
        if any(v['signature'] == sig for v in V):
            return                                  # one report per clause and run
        d = dict(spec=spec, expect=sig, result=result_summary(soln))
        d.update(extra)
        V.append(dict(signature=sig, what=what, data=d))

    if exc is not None:
        info['exit'] = 'raised %s' % type(exc).__name__     # raising is judged by C07 / C08
        return V, info
    if soln.flag == soln.EXIT_INPUT_ERROR:
        raise RuntimeError('oracle C18 generated an invalid input: %s / %r' % (soln.msg, spec))
    info['exit'] = '%d %s' % (soln.flag, soln.msg)
    up = P.user_params
    df = soln.diagnostic_info
    if df is None:
        viol('C18:no_table', 'logging.save_diagnostic_info=True but soln.diagnostic_info is None')
        return V, info
    # documented columns
    cols = list(df.columns)
    want = [c for c in DOC_COLUMNS if not (c == 'xk' and not up.get('logging.save_xk', False))
            and not (c == 'rk' and not up.get('logging.save_rk', False))]
    missing = [c for c in want if c not in cols]
    extra = [c for c in cols if c not in want]
    if missing or extra:
        viol('C18:columns', 'diagnostic table columns differ from the documented ones: missing %s, unexpected %s' % (missing, extra))
        if missing:
            return V, info
    N = len(df)
    info['rows'] = N
    if N == 0:
        return V, info
    rho = df['rho'].to_numpy(dtype=float)
    delta = df['delta'].to_numpy(dtype=float)
    fk = df['fk'].to_numpy(dtype=float)
    run = df['nruns'].to_numpy()
    nf = df['nf'].to_numpy()
    nx = df['nx'].to_numpy()
    npt = df['npt'].to_numpy()
    it_run = df['iter_this_run'].to_numpy()
    it_tot = df['iters_total'].to_numpy()
    for t in df['iter_type']:
        bump(info['iter_types'], str(t))
    rhobeg = P.rhobeg_eff
    scale = up.get('restarts.rhoend_scale', 1.0)
    rhoend_of_run = {}
    r = P.rhoend
    for q in range(int(max(int(run.max()), int(soln.nruns) - 1)) + 1):
        rhoend_of_run[q] = r
        r = scale * r
    reset_rho = bool(up.get('growing.reset_rho', False))
    deterministic = spec.get('noise') is None
    npt_max = max(P.npt_eff, up.get('restarts.max_npt', P.npt_eff)) if up.get('restarts.increase_npt', False) else P.npt_eff
    for t in range(N):
        row = dict(row=t, run=int(run[t]), rho=hx(rho[t]), delta=hx(delta[t]))
        if not rho[t] > 0.0:
            viol('C18:rho_nonpositive', 'row %d: rho = %r' % (t, rho[t]), **row)
        if not delta[t] >= rho[t]:
            viol('C18:delta_lt_rho', 'row %d: delta = %.17g < rho = %.17g' % (t, delta[t], rho[t]), **row)
        re = rhoend_of_run[int(run[t])]
        if not rho[t] >= re:
            viol('C18:rho_lt_rhoend', 'row %d (run %d): rho = %.17g < rhoend = %.17g (rhoend=%g, scale %g)'
                 % (t, run[t], rho[t], re, P.rhoend, scale), **row)
        if not rho[t] <= rhobeg:
            viol('C18:rho_gt_rhobeg', 'row %d: rho = %.17g > rhobeg = %.17g' % (t, rho[t], rhobeg), **row)
        if not delta[t] <= 1e10:
            viol('C18:delta_gt_1e10', 'row %d: delta = %.17g > 1e10' % (t, delta[t]), **row)
        if not 2 <= npt[t] <= npt_max:
            viol('C18:npt_out_of_range', 'row %d: npt = %d outside [2, %d]' % (t, npt[t], npt_max), **row)
        if it_tot[t] != t:
            viol('C18:iters_total_not_consecutive', 'row %d has iters_total = %d' % (t, it_tot[t]), **row)
        if nf[t] > soln.nf:
            viol('C18:nf_gt_final', 'row %d: nf = %d > soln.nf = %d' % (t, nf[t], soln.nf), **row)
        if nx[t] > soln.nx:
            viol('C18:nx_gt_final', 'row %d: nx = %d > soln.nx = %d' % (t, nx[t], soln.nx), **row)
        if run[t] > soln.nruns - 1:
            viol('C18:run_counter_gt_final', 'row %d: run counter %d but soln.nruns = %d' % (t, run[t], soln.nruns), **row)
        if t == 0:
            if it_run[t] != 0:
                viol('C18:iter_this_run_not_consecutive', 'first row has iter_this_run = %d' % it_run[t], **row)
            continue
        if nf[t] < nf[t - 1]:
            viol('C18:nf_decreased', 'row %d: nf %d -> %d' % (t, nf[t - 1], nf[t]), **row)
        if nx[t] < nx[t - 1]:
            viol('C18:nx_decreased', 'row %d: nx %d -> %d' % (t, nx[t - 1], nx[t]), **row)
        if run[t] < run[t - 1]:
            viol('C18:run_counter_decreased', 'row %d: run counter %d -> %d' % (t, run[t - 1], run[t]), **row)
        if run[t] == run[t - 1]:
            if it_run[t] != it_run[t - 1] + 1:
                viol('C18:iter_this_run_not_consecutive', 'row %d: iter_this_run %d -> %d within run %d'
                     % (t, it_run[t - 1], it_run[t], run[t]), **row)
            if rho[t] > rho[t - 1] and not reset_rho:
                viol('C18:rho_increased', 'row %d (run %d): rho %.17g -> %.17g without growing.reset_rho'
                     % (t, run[t], rho[t - 1], rho[t]), **row)
            if deterministic and not fk[t] <= fk[t - 1] + FK_RTOL * abs(fk[t - 1]):
                viol('C18:fk_increased', 'row %d (run %d): recorded best objective %.17g -> %.17g'
                     % (t, run[t], fk[t - 1], fk[t]), **row)
        else:
            if it_run[t] != 0:
                viol('C18:iter_this_run_not_consecutive', 'row %d: first row of run %d has iter_this_run = %d'
                     % (t, run[t], it_run[t]), **row)
    info['nontrivial'] = N >= 3 and (len(set(rho.tolist())) >= 2 or len(set(run.tolist())) >= 2)
    return V, info


def run_task(task):
    seed, i = task['seed'], task['i']
    stats = {'exit': {}, 'mode': {}, 'cfg': {}, 'rows': {}, 'iter_type': {}}
    violations, evaluations, nontrivial, sample = [], 0, 0, None
    for j in range(task['count']):
        spec = make_spec(seed, i, j)
        V, info = check_run(spec)
        evaluations += 1
        nontrivial += 1 if info['nontrivial'] else 0
        bump(stats['exit'], info['exit'])
        bump(stats['mode'], info['mode'])
        bump(stats['cfg'], info['cfg'])
        rows = info['rows']
        bump(stats['rows'], '0' if rows == 0 else '1-2' if rows < 3 else '3-9' if rows < 10 else '10-29' if rows < 30 else '30+')
        merge_counts(stats['iter_type'], info['iter_types'])
        violations.extend(V)
        if sample is None and info['nontrivial'] and rows >= 10:
            sample = dict(mode=info['mode'], cfg=info['cfg'], kind=spec['kind'], n=spec['n'], npt=spec.get('npt'),
                          rhobeg=spec.get('rhobeg'), rhoend=spec['rhoend'], maxfun=spec['maxfun'], params=spec['params'],
                          rows=rows, exit=info['exit'])
    return dict(evaluations=evaluations, nontrivial=nontrivial, violations=violations[:40], stats=stats, sample=sample)


def replay(data):
    V, info = check_run(data['spec'])
    if not V:
        return None
    for v in V:
        if v['signature'] == data.get('expect'):
            return v
    return V[0]
